package main

import (
	"fmt"
	"math"
	"strconv"
	"strings"

	"github.com/richardwilkes/toolbox/eval"
	"github.com/richardwilkes/toolbox/xmath/fixed"
	"github.com/richardwilkes/toolbox/xmath/fixed/f64"
	"verifharness/hx"
)

// valueResolver maps variables to literals; Driver/C09.lean `valueResolve` holds the same table.
type valueResolver struct{}

var valueVars = map[string]string{"x": "2", "y": "3", "z": "0", "h": "0.5", "n": "-4", "foo.bar": "7", "a_1": "1.25", "sp": " 6 "}

func (valueResolver) ResolveVariable(name string) string { return valueVars[name] }

// canon renders an Evaluate result canonically (dynamic type + exact value).
func canon(v any, err error) string {
	if err != nil {
		return "err"
	}
	switch x := v.(type) {
	case nil:
		return "nil"
	case bool:
		return fmt.Sprintf("b:%v", x)
	case string:
		return "s:" + hx.Hex([]byte(x))
	case float64:
		return fmt.Sprintf("f64:%016x", math.Float64bits(x))
	case float32:
		return fmt.Sprintf("f32:%08x", math.Float32bits(x))
	case f64.Int[fixed.D4]:
		return fmt.Sprintf("d4:%d", int64(x))
	case f64.Int[fixed.D2]:
		return fmt.Sprintf("d2:%d", int64(x))
	default:
		return fmt.Sprintf("%T:%v", v, v)
	}
}

type config struct {
	name   string
	zero   bool // divideByZeroReturnsZero
	fresh  func() *eval.Evaluator
	reused *eval.Evaluator
	isZero func(v any) (bool, bool) // (is a number, equals zero) with the configuration's own conversion
	// conv is the harness's OWN conversion of a literal text to the number type of the evaluator (strconv at the bit
	// size of the type / fXX.FromString, which C04 verifies); ok = false: not a number of that type (malformed or out
	// of range).  The library's operand conversion (floatFrom / FixedFrom on strings) is never relied upon.
	conv func(s string) (any, bool)
	// fromBool is the harness's OWN conversion of a comparison/logical result that is used as a number:
	// true is the number 1 of the evaluator's type (f64.From[T,int](1), not the raw fixed-point 1), false is 0.
	fromBool func(b bool) any
}

func fixedBool[T fixed.Dx](b bool) any {
	if b {
		return f64.From[T, int](1)
	}
	return f64.Int[T](0)
}

func float64Bool(b bool) any {
	if b {
		return float64(1)
	}
	return float64(0)
}

func float32Bool(b bool) any {
	if b {
		return float32(1)
	}
	return float32(0)
}

// opaque is a text the evaluator's number type cannot represent: the library sees "not a number" whatever its own
// string conversion would say, and prints it like the string it is in the string fall-backs of == < + ….
type opaque string

func fixedConv[T fixed.Dx](s string) (any, bool) {
	v, err := f64.FromString[T](s)
	return v, err == nil
}

func float64Conv(s string) (any, bool) {
	f, err := strconv.ParseFloat(s, 64)
	return f, err == nil
}

func float32Conv(s string) (any, bool) {
	f, err := strconv.ParseFloat(s, 32)
	return float32(f), err == nil
}

func fixedIsZero[T fixed.Dx](v any) (bool, bool) {
	switch a := v.(type) {
	case bool:
		return true, !a
	case f64.Int[T]:
		return true, a == 0
	case string:
		x, err := f64.FromString[T](a)
		if err != nil {
			return false, false
		}
		return true, x == 0
	}
	return false, false
}

func floatIsZero(bits int) func(v any) (bool, bool) {
	return func(v any) (bool, bool) {
		switch a := v.(type) {
		case bool:
			return true, !a
		case float64:
			return true, a == 0
		case float32:
			return true, a == 0
		case string:
			f, err := strconv.ParseFloat(a, bits)
			if err != nil {
				return false, false
			}
			return true, f == 0
		}
		return false, false
	}
}

func configs() []*config {
	cs := []*config{
		{name: "d4z", zero: true, fresh: func() *eval.Evaluator { return eval.NewFixedEvaluator[fixed.D4](valueResolver{}, true) },
			isZero: fixedIsZero[fixed.D4], conv: fixedConv[fixed.D4], fromBool: fixedBool[fixed.D4]},
		{name: "d4e", zero: false, fresh: func() *eval.Evaluator { return eval.NewFixedEvaluator[fixed.D4](valueResolver{}, false) },
			isZero: fixedIsZero[fixed.D4], conv: fixedConv[fixed.D4], fromBool: fixedBool[fixed.D4]},
		{name: "d2z", zero: true, fresh: func() *eval.Evaluator { return eval.NewFixedEvaluator[fixed.D2](valueResolver{}, true) },
			isZero: fixedIsZero[fixed.D2], conv: fixedConv[fixed.D2], fromBool: fixedBool[fixed.D2]},
		{name: "f64z", zero: true, fresh: func() *eval.Evaluator { return eval.NewFloatEvaluator[float64](valueResolver{}, true) },
			isZero: floatIsZero(64), conv: float64Conv, fromBool: float64Bool},
		{name: "f64e", zero: false, fresh: func() *eval.Evaluator { return eval.NewFloatEvaluator[float64](valueResolver{}, false) },
			isZero: floatIsZero(64), conv: float64Conv, fromBool: float64Bool},
		{name: "f32e", zero: false, fresh: func() *eval.Evaluator { return eval.NewFloatEvaluator[float32](valueResolver{}, false) },
			isZero: floatIsZero(32), conv: float32Conv, fromBool: float32Bool},
		{name: "f32z", zero: true, fresh: func() *eval.Evaluator { return eval.NewFloatEvaluator[float32](valueResolver{}, true) },
			isZero: floatIsZero(32), conv: float32Conv, fromBool: float32Bool},
	}
	for _, c := range cs {
		c.reused = c.fresh()
	}
	return cs
}

// node is the model's tree (prefix form printed by the Lean driver).
type node struct {
	kind     byte // 'N', 'O', 'F', 'T'; 'G' = call with the model's trees of its arguments; 'X' 'M' 'P' = argument that is rejected / empty / a model panic
	kids     []*node
	un, op   string
	hasUn    bool
	hasOp    bool
	text     string // operand text / function arguments (variables already substituted by the model)
	name     string
	lhs, rhs *node
}

func optSym(s string) (string, bool) {
	if s == "_" {
		return "", false
	}
	return string(hx.UnHex(s)), true
}

func parseNode(t []string, i int) (*node, int) {
	switch t[i] {
	case "N":
		return &node{kind: 'N'}, i + 1
	case "O":
		n := &node{kind: 'O'}
		n.un, n.hasUn = optSym(t[i+1])
		n.text = string(hx.UnHex(t[i+2]))
		return n, i + 3
	case "F":
		n := &node{kind: 'F'}
		n.un, n.hasUn = optSym(t[i+1])
		n.name = string(hx.UnHex(t[i+2]))
		n.text = string(hx.UnHex(t[i+3]))
		return n, i + 4
	case "X", "M", "P":
		return &node{kind: t[i][0]}, i + 1
	case "G":
		n := &node{kind: 'G'}
		n.un, n.hasUn = optSym(t[i+1])
		n.name = string(hx.UnHex(t[i+2]))
		k := hx.Atoi(t[i+3])
		j := i + 4
		for a := 0; a < k; a++ {
			var kid *node
			kid, j = parseNode(t, j)
			n.kids = append(n.kids, kid)
		}
		return n, j
	case "T":
		n := &node{kind: 'T'}
		n.op, n.hasOp = optSym(t[i+1])
		n.un, n.hasUn = optSym(t[i+2])
		var j int
		n.lhs, j = parseNode(t, i+3)
		n.rhs, j = parseNode(t, j)
		return n, j
	}
	panic("bad tree token " + t[i])
}

type walker struct {
	c  *config
	ev *eval.Evaluator
	// divergence from the configured division-by-zero behaviour found while walking
	divFail string
}

func (w *walker) operator(sym string) *eval.Operator {
	for _, o := range w.ev.Operators {
		if o.Symbol == sym {
			return o
		}
	}
	panic("model tree names an operator the library does not have: " + sym)
}

// num converts a text operand with the harness's own conversion: a number of the evaluator's type, or opaque.
func (w *walker) num(v any) any {
	switch a := v.(type) {
	case string:
		if x, good := w.c.conv(a); good {
			return x
		}
		return opaque(a)
	case bool:
		return w.c.fromBool(a)
	}
	return v
}

// binArgs prepares the operands of a binary operator: values when every text operand is a number of the evaluator's
// type (by the harness's own conversion); otherwise the texts stay texts (the string fall-backs of == < + … print the
// originals) and a text that is not a number is made opaque so that the library cannot take it for one.
func (w *walker) binArgs(l, r any) (any, any) {
	ln, rn := w.num(l), w.num(r)
	_, lbad := ln.(opaque)
	_, rbad := rn.(opaque)
	if !lbad && !rbad {
		return ln, rn
	}
	if lbad {
		l = ln
	}
	if rbad {
		r = rn
	}
	return l, r
}

func (w *walker) unary(n *node, v any) (any, error) {
	if n.hasUn {
		if o := w.operator(n.un); o.EvaluateUnary != nil {
			return o.EvaluateUnary(w.num(v))
		}
	}
	return v, nil
}

var singleArg = map[string]bool{"abs": true, "cbrt": true, "ceil": true, "exp": true, "exp2": true, "floor": true, "log": true,
	"log1p": true, "log10": true, "round": true, "sqrt": true}

// call applies a library Function to the VALUES of the arguments (walked from the model's trees): the function is
// handed the argument text `v(0),v(1),…` and an evaluator whose only function `v` yields the i-th value, lazily (so
// `if` still evaluates only the branch it takes).
func (w *walker) call(n *node) (any, error) {
	f, ok := w.ev.Functions[n.name]
	if !ok {
		return nil, errInvalid
	}
	parts := make([]string, len(n.kids))
	for i := range parts {
		parts[i] = "v(" + strconv.Itoa(i) + ")"
	}
	e2 := &eval.Evaluator{Operators: w.ev.Operators, Functions: map[string]eval.Function{
		"v": func(_ *eval.Evaluator, arguments string) (any, error) {
			i := hx.Atoi(strings.TrimSpace(arguments))
			v, err := w.walk(n.kids[i])
			if err != nil {
				return nil, err
			}
			if v == nil {
				return nil, errInvalid
			}
			switch {
			case n.name != "if": // a number is expected: texts and booleans are converted by the harness
				return w.num(v), nil
			case i == 0: // condition: a number if it is one, else judged as a string
				if s, isText := v.(string); isText {
					if x, good := w.c.conv(s); good {
						return x, nil
					}
					return s, nil
				}
				return w.num(v), nil
			}
			return v, nil
		}}}
	return f(e2, strings.Join(parts, ","))
}

var errInvalid = fmt.Errorf("invalid")

// walk mirrors the structure of evaluateOperand on the MODEL's tree; every value comes from the library's own
// exported Operator.Evaluate / EvaluateUnary and Functions.
func (w *walker) walk(n *node) (any, error) {
	switch n.kind {
	case 'N':
		return nil, nil
	case 'O':
		return w.unary(n, n.text)
	case 'X':
		return nil, errInvalid
	case 'M':
		return "", nil
	case 'P':
		w.divFail = "the model panics on a function argument"
		return nil, errInvalid
	case 'G':
		v, err := w.call(n)
		if err != nil {
			return nil, err
		}
		return w.unary(n, v)
	case 'F': // (only when the nesting was too deep to expand) the library parses and evaluates the argument text
		f, ok := w.ev.Functions[n.name]
		if !ok {
			return nil, errInvalid
		}
		v, err := f(w.ev, n.text)
		if err != nil {
			return nil, err
		}
		return w.unary(n, v)
	}
	l, err := w.walk(n.lhs)
	if err != nil {
		return nil, err
	}
	r, err := w.walk(n.rhs)
	if err != nil {
		return nil, err
	}
	if n.lhs.kind != 'N' && n.rhs.kind != 'N' {
		o := w.operator(n.op)
		if o.Evaluate == nil {
			return nil, errInvalid
		}
		l, r = w.binArgs(l, r)
		v, err := o.Evaluate(l, r)
		if n.op == "/" || n.op == "%" {
			lok, _ := w.c.isZero(l)
			if rnum, rzero := w.c.isZero(r); lok && rnum && rzero {
				got := canon(v, err)
				resNum, resZero := w.c.isZero(v)
				if w.c.zero && (err != nil || !resNum || !resZero) {
					w.divFail = fmt.Sprintf("division by zero returns %s, configured to return zero", got)
				}
				if !w.c.zero && err == nil {
					w.divFail = fmt.Sprintf("division by zero returns %s, configured to return an error", got)
				}
			}
		}
		if err != nil {
			return nil, err
		}
		return w.unary(n, v)
	}
	v := r
	if n.rhs.kind == 'N' {
		v = l
	}
	if v != nil {
		if n.hasUn && w.operator(n.un).EvaluateUnary != nil {
			v, err = w.operator(n.un).EvaluateUnary(w.num(v))
		} else if n.hasOp && w.operator(n.op).EvaluateUnary != nil {
			v, err = w.operator(n.op).EvaluateUnary(w.num(v))
		}
		if err != nil {
			return nil, err
		}
	}
	if v == nil {
		return nil, errInvalid
	}
	return v, nil
}

var poison = []string{"2 * - - 3", "3 * foo(1", "7 - nope(1)", "(1 + ", "1 + 2)", "4 + 5", "-()", "max(1, "}

// check compares the real evaluator (reused and fresh) with the walk of the model's tree.
func (c *config) check(expr string, tree []string) string {
	fresh := canon(c.fresh().Evaluate(expr))
	// self-contained reuse check: one evaluator first digests rejected and accepted expressions, then this one twice
	local := c.fresh()
	for _, p := range poison {
		_, _ = local.Evaluate(p)
	}
	first := canon(local.Evaluate(expr))
	if again := canon(local.Evaluate(expr)); first != fresh || again != fresh {
		return fmt.Sprintf("FAIL %s: an evaluator used before (rejected and accepted expressions) gives %s, then %s; a fresh evaluator %s", c.name, first, again, fresh)
	}
	// and the evaluator that has seen every earlier line of this run
	reused := canon(c.reused.Evaluate(expr))
	if reused != fresh {
		return fmt.Sprintf("FAIL %s: reused evaluator gives %s, fresh evaluator %s", c.name, reused, fresh)
	}
	var want string
	switch tree[0] {
	case "err":
		want = "err"
	case "empty":
		want = "s:-"
	case "panic":
		return "FAIL model panics"
	default:
		n, j := parseNode(tree, 0)
		if j != len(tree) {
			return "FAIL trailing tree tokens"
		}
		w := &walker{c: c, ev: c.fresh()}
		v, err := w.walk(n)
		if w.divFail != "" {
			return "FAIL " + c.name + ": " + w.divFail
		}
		if err == nil && v == nil {
			err = errInvalid
		}
		want = canon(v, err)
	}
	if reused != want {
		return fmt.Sprintf("FAIL %s: Evaluate gives %s, the tree evaluates to %s", c.name, reused, want)
	}
	return c.name + "=" + strings.ReplaceAll(reused, " ", "_")
}
