package main

import (
	"fmt"
	"math"
	"strconv"
	"strings"

	"github.com/richardwilkes/toolbox/eval"
	"github.com/richardwilkes/toolbox/xmath/fixed"
	"github.com/richardwilkes/toolbox/xmath/fixed/f64"
	"verifharness/hx"
)

// valueResolver maps variables to literals; Driver/C09.lean `valueResolve` holds the same table.
type valueResolver struct{}

var valueVars = map[string]string{"x": "2", "y": "3", "z": "0", "h": "0.5", "n": "-4", "foo.bar": "7", "a_1": "1.25", "sp": " 6 ",
	"e": "1e-2", "neg": "-3", "big": "123456789012345678901234567890", "ws": "  ", "str": "abc", "expr": "22 + 2", "bool": "true",
	"paren": "(1)", "comma": "1,2", "inf": "Inf", "max4": "922337203685477.5807", "tiny": "0.00001", "fn": "abs(-1)", "mid": "16777217.000000001",
	"a1e": "5", "r2e": "3", "x.1e": "7", "a#1e": "9", "rate": "1.5", "ch": "$x", "ch2": "$ch", "A1e": "4", "A1E": "4"}

func (valueResolver) ResolveVariable(name string) string { return valueVars[name] }

// canon renders an Evaluate result canonically (dynamic type + exact value).
func canon(v any, err error) string {
	if err != nil {
		return "err"
	}
	switch x := v.(type) {
	case nil:
		return "nil"
	case bool:
		return fmt.Sprintf("b:%v", x)
	case string:
		return "s:" + hx.Hex([]byte(x))
	case float64:
		return fmt.Sprintf("f64:%016x", math.Float64bits(x))
	case float32:
		return fmt.Sprintf("f32:%08x", math.Float32bits(x))
	case f64.Int[fixed.D4]:
		return fmt.Sprintf("d4:%d", int64(x))
	case f64.Int[fixed.D2]:
		return fmt.Sprintf("d2:%d", int64(x))
	case f64.Int[fixed.D1]:
		return fmt.Sprintf("d1:%d", int64(x))
	case f64.Int[fixed.D6]:
		return fmt.Sprintf("d6:%d", int64(x))
	case f64.Int[fixed.D16]:
		return fmt.Sprintf("d16:%d", int64(x))
	default:
		return fmt.Sprintf("%T:%v", v, v)
	}
}

type config struct {
	name   string
	zero   bool // divideByZeroReturnsZero
	fresh  func() *eval.Evaluator
	reused *eval.Evaluator
	isZero func(v any) (bool, bool) // (is a number, equals zero) with the configuration's own conversion
	// conv is the harness's OWN conversion of a literal text to the number type of the evaluator (strconv at the bit
	// size of the type / fXX.FromString, which C04 verifies); ok = false: not a number of that type (malformed or out
	// of range).  The library's operand conversion (floatFrom / FixedFrom on strings) is never relied upon.
	conv func(s string) (any, bool)
	// fromBool is the harness's OWN conversion of a comparison/logical result that is used as a number:
	// true is the number 1 of the evaluator's type (f64.From[T,int](1), not the raw fixed-point 1), false is 0.
	fromBool func(b bool) any
	// libFrom is the library's exported operand conversion (eval.FixedFrom), judged against conv / fromBool
	libFrom func(v any) (any, error)
	// bare builds the same evaluator without a Resolver
	bare func() *eval.Evaluator
	// ref is the independent arithmetic of the evaluator's number type (ref.go)
	ref refNum
}

func fixedBool[T fixed.Dx](b bool) any {
	if b {
		return f64.From[T, int](1)
	}
	return f64.Int[T](0)
}

func float64Bool(b bool) any {
	if b {
		return float64(1)
	}
	return float64(0)
}

func float32Bool(b bool) any {
	if b {
		return float32(1)
	}
	return float32(0)
}

// opaque is a text the evaluator's number type cannot represent: the library sees "not a number" whatever its own
// string conversion would say, and prints it like the string it is in the string fall-backs of == < + ….
type opaque string

func fixedLibFrom[T fixed.Dx](v any) (any, error) {
	x, err := eval.FixedFrom[T](v)
	return x, err
}

func fixedCfg[T fixed.Dx](name string, zero bool) *config {
	return &config{name: name, zero: zero,
		fresh:  func() *eval.Evaluator { return eval.NewFixedEvaluator[T](valueResolver{}, zero) },
		bare:   func() *eval.Evaluator { return eval.NewFixedEvaluator[T](nil, zero) },
		isZero: fixedIsZero[T], conv: fixedConv[T], fromBool: fixedBool[T], ref: fixedRef[T]{}, libFrom: fixedLibFrom[T]}
}

func fixedConv[T fixed.Dx](s string) (any, bool) {
	v, err := f64.FromString[T](s)
	return v, err == nil
}

func float64Conv(s string) (any, bool) {
	f, err := strconv.ParseFloat(s, 64)
	return f, err == nil
}

func float32Conv(s string) (any, bool) {
	f, err := strconv.ParseFloat(s, 32)
	return float32(f), err == nil
}

func fixedIsZero[T fixed.Dx](v any) (bool, bool) {
	switch a := v.(type) {
	case bool:
		return true, !a
	case f64.Int[T]:
		return true, a == 0
	case string:
		x, err := f64.FromString[T](a)
		if err != nil {
			return false, false
		}
		return true, x == 0
	}
	return false, false
}

func floatIsZero(bits int) func(v any) (bool, bool) {
	return func(v any) (bool, bool) {
		switch a := v.(type) {
		case bool:
			return true, !a
		case float64:
			return true, a == 0
		case float32:
			return true, a == 0
		case string:
			f, err := strconv.ParseFloat(a, bits)
			if err != nil {
				return false, false
			}
			return true, f == 0
		}
		return false, false
	}
}

func configs() []*config {
	cs := []*config{
		fixedCfg[fixed.D4]("d4z", true),
		fixedCfg[fixed.D4]("d4e", false),
		fixedCfg[fixed.D2]("d2z", true),
		fixedCfg[fixed.D1]("d1e", false),
		fixedCfg[fixed.D6]("d6z", true),
		fixedCfg[fixed.D16]("d16e", false),
		{name: "f64z", zero: true, fresh: func() *eval.Evaluator { return eval.NewFloatEvaluator[float64](valueResolver{}, true) },
			bare:   func() *eval.Evaluator { return eval.NewFloatEvaluator[float64](nil, true) },
			isZero: floatIsZero(64), conv: float64Conv, fromBool: float64Bool, ref: floatRef[float64]{}},
		{name: "f64e", zero: false, fresh: func() *eval.Evaluator { return eval.NewFloatEvaluator[float64](valueResolver{}, false) },
			bare:   func() *eval.Evaluator { return eval.NewFloatEvaluator[float64](nil, false) },
			isZero: floatIsZero(64), conv: float64Conv, fromBool: float64Bool, ref: floatRef[float64]{}},
		{name: "f32e", zero: false, fresh: func() *eval.Evaluator { return eval.NewFloatEvaluator[float32](valueResolver{}, false) },
			bare:   func() *eval.Evaluator { return eval.NewFloatEvaluator[float32](nil, false) },
			isZero: floatIsZero(32), conv: float32Conv, fromBool: float32Bool, ref: floatRef[float32]{}},
		{name: "f32z", zero: true, fresh: func() *eval.Evaluator { return eval.NewFloatEvaluator[float32](valueResolver{}, true) },
			bare:   func() *eval.Evaluator { return eval.NewFloatEvaluator[float32](nil, true) },
			isZero: floatIsZero(32), conv: float32Conv, fromBool: float32Bool, ref: floatRef[float32]{}},
	}
	for _, c := range cs {
		c.reused = c.fresh()
	}
	return cs
}

// node is the model's tree (prefix form printed by the Lean driver).
type node struct {
	kind     byte // 'N', 'O', 'F', 'T'; 'G' = call with the model's trees of its arguments; 'X' 'M' 'P' = argument that is rejected / empty / a model panic
	kids     []*node
	done     bool // the argument tree has been evaluated (once, for the library's function and for the reference)
	val      any
	err      error
	un, op   string
	hasUn    bool
	hasOp    bool
	text     string // operand text / function arguments (variables already substituted by the model)
	name     string
	lhs, rhs *node
}

func optSym(s string) (string, bool) {
	if s == "_" {
		return "", false
	}
	return string(hx.UnHex(s)), true
}

func parseNode(t []string, i int) (*node, int) {
	switch t[i] {
	case "N":
		return &node{kind: 'N'}, i + 1
	case "O":
		n := &node{kind: 'O'}
		n.un, n.hasUn = optSym(t[i+1])
		n.text = string(hx.UnHex(t[i+2]))
		return n, i + 3
	case "F":
		n := &node{kind: 'F'}
		n.un, n.hasUn = optSym(t[i+1])
		n.name = string(hx.UnHex(t[i+2]))
		n.text = string(hx.UnHex(t[i+3]))
		return n, i + 4
	case "X", "M", "P":
		return &node{kind: t[i][0]}, i + 1
	case "G":
		n := &node{kind: 'G'}
		n.un, n.hasUn = optSym(t[i+1])
		n.name = string(hx.UnHex(t[i+2]))
		k := hx.Atoi(t[i+3])
		j := i + 4
		for a := 0; a < k; a++ {
			var kid *node
			kid, j = parseNode(t, j)
			n.kids = append(n.kids, kid)
		}
		return n, j
	case "T":
		n := &node{kind: 'T'}
		n.op, n.hasOp = optSym(t[i+1])
		n.un, n.hasUn = optSym(t[i+2])
		var j int
		n.lhs, j = parseNode(t, i+3)
		n.rhs, j = parseNode(t, j)
		return n, j
	}
	panic("bad tree token " + t[i])
}

type walker struct {
	c  *config
	ev *eval.Evaluator
	// divergence from the configured division-by-zero behaviour found while walking
	divFail string
}

func (w *walker) operator(sym string) *eval.Operator {
	for _, o := range w.ev.Operators {
		if o.Symbol == sym {
			return o
		}
	}
	panic("model tree names an operator the library does not have: " + sym)
}

// num converts a text operand with the harness's own conversion: a number of the evaluator's type, or opaque.
func (w *walker) num(v any) any {
	var out any = v
	switch a := v.(type) {
	case string:
		if x, good := w.c.conv(a); good {
			out = x
		} else {
			out = opaque(a)
		}
	case bool:
		out = w.c.fromBool(a)
	}
	if w.c.libFrom != nil { // the exported eval.FixedFrom, called directly
		got, err := w.c.libFrom(v)
		if _, bad := out.(opaque); bad || !w.c.ref.isNum(out) {
			w.judge("FixedFrom", got, err, nil, errRef, true, false)
		} else {
			w.judge("FixedFrom", got, err, out, nil, true, false)
		}
	}
	return out
}

// binArgs prepares the operands of a binary operator: values when every text operand is a number of the evaluator's
// type (by the harness's own conversion); otherwise the texts stay texts (the string fall-backs of == < + … print the
// originals) and a text that is not a number is made opaque so that the library cannot take it for one.
func (w *walker) binArgs(l, r any) (any, any) {
	ln, rn := w.num(l), w.num(r)
	_, lbad := ln.(opaque)
	_, rbad := rn.(opaque)
	if !lbad && !rbad {
		return ln, rn
	}
	if lbad {
		l = ln
	}
	if rbad {
		r = rn
	}
	return l, r
}

func (w *walker) unary(n *node, v any) (any, error) {
	if n.hasUn {
		if o := w.operator(n.un); o.EvaluateUnary != nil {
			return w.applyUnary(o, v)
		}
	}
	return v, nil
}

// applyUnary calls the library's unary operator on the harness-converted operand and judges it by the reference.
func (w *walker) applyUnary(o *eval.Operator, v any) (any, error) {
	got, err := o.EvaluateUnary(w.num(v))
	if want, wantErr, known := w.refUnary(o.Symbol, v); known {
		w.judge("unary "+o.Symbol, got, err, want, wantErr, true, false)
	}
	return got, err
}

var singleArg = map[string]bool{"abs": true, "cbrt": true, "ceil": true, "exp": true, "exp2": true, "floor": true, "log": true,
	"log1p": true, "log10": true, "round": true, "sqrt": true}

// call applies a library Function to the VALUES of the arguments (walked from the model's trees): the function is
// handed the argument text `v(0),v(1),…` and an evaluator whose only function `v` yields the i-th value, lazily (so
// `if` still evaluates only the branch it takes).
func (w *walker) call(n *node) (any, error) {
	f, ok := w.ev.Functions[n.name]
	if !ok {
		return nil, errInvalid
	}
	parts := make([]string, len(n.kids))
	for i := range parts {
		parts[i] = "v(" + strconv.Itoa(i) + ")"
	}
	e2 := &eval.Evaluator{Operators: w.ev.Operators, Functions: map[string]eval.Function{
		"v": func(_ *eval.Evaluator, arguments string) (any, error) {
			i := hx.Atoi(strings.TrimSpace(arguments))
			v, err := w.kid(n, i)
			if err != nil {
				return nil, err
			}
			switch {
			case n.name != "if": // a number is expected: texts and booleans are converted by the harness
				return w.num(v), nil
			case i == 0: // condition: a number if it is one, else judged as a string
				if s, isText := v.(string); isText {
					if x, good := w.c.conv(s); good {
						return x, nil
					}
					return s, nil
				}
				return w.num(v), nil
			}
			return v, nil
		}}}
	return f(e2, strings.Join(parts, ","))
}

var errInvalid = fmt.Errorf("invalid")

// walk mirrors the structure of evaluateOperand on the MODEL's tree; every value comes from the library's own
// exported Operator.Evaluate / EvaluateUnary and Functions.
func (w *walker) walk(n *node) (any, error) {
	switch n.kind {
	case 'N':
		return nil, nil
	case 'O':
		return w.unary(n, n.text)
	case 'X':
		return nil, errInvalid
	case 'M':
		return "", nil
	case 'P':
		w.divFail = "the model panics on a function argument"
		return nil, errInvalid
	case 'G':
		v, err := w.call(n)
		if want, wantErr, exact, known := w.refCall(n); known {
			w.judge("function "+n.name, v, err, want, wantErr, exact, false)
		}
		if err != nil {
			return nil, err
		}
		return w.unary(n, v)
	case 'F': // (only when the nesting was too deep to expand) the library parses and evaluates the argument text
		f, ok := w.ev.Functions[n.name]
		if !ok {
			return nil, errInvalid
		}
		v, err := f(w.ev, n.text)
		if err != nil {
			return nil, err
		}
		return w.unary(n, v)
	}
	l, err := w.walk(n.lhs)
	if err != nil {
		return nil, err
	}
	r, err := w.walk(n.rhs)
	if err != nil {
		return nil, err
	}
	if n.lhs.kind != 'N' && n.rhs.kind != 'N' {
		o := w.operator(n.op)
		if o.Evaluate == nil {
			return nil, errInvalid
		}
		want, wantErr, exact, zeroDiv := w.refBinary(n.op, l, r)
		l, r = w.binArgs(l, r)
		v, err := o.Evaluate(l, r)
		if want != nil || wantErr != nil {
			w.judge("operator "+n.op, v, err, want, wantErr, exact, zeroDiv)
		}
		if n.op == "/" || n.op == "%" {
			lok, _ := w.c.isZero(l)
			if rnum, rzero := w.c.isZero(r); lok && rnum && rzero {
				got := canon(v, err)
				resNum, resZero := w.c.isZero(v)
				if w.c.zero && (err != nil || !resNum || !resZero) {
					w.divFail = fmt.Sprintf("division by zero returns %s, configured to return zero", got)
				}
				if !w.c.zero && err == nil {
					w.divFail = fmt.Sprintf("division by zero returns %s, configured to return an error", got)
				}
			}
		}
		if err != nil {
			return nil, err
		}
		return w.unary(n, v)
	}
	v := r
	if n.rhs.kind == 'N' {
		v = l
	}
	if v != nil {
		if n.hasUn && w.operator(n.un).EvaluateUnary != nil {
			v, err = w.applyUnary(w.operator(n.un), v)
		} else if n.hasOp && w.operator(n.op).EvaluateUnary != nil {
			v, err = w.applyUnary(w.operator(n.op), v)
		}
		if err != nil {
			return nil, err
		}
	}
	if v == nil {
		return nil, errInvalid
	}
	return v, nil
}

// poison: expressions rejected in every way the evaluator can reject (parse errors with operands / operators / an open
// parenthesis / a pending sign left on the stacks, evaluation errors at every depth), and accepted ones in between.
var poison = []string{"2 * - - 3", "3 * foo(1", "7 - nope(1)", "(1 + ", "1 + 2)", "4 + 5", "-()", "max(1, ", "()(", "(1)(2)", "1 + (2 * (3 - ",
	"1 ! 2", "5 * $", "5 * $undefined", "5 - $ws", "1 / 0", "2 * (3 % 0)", "abs(1 / 0)", "max(1, 2, nope(3))", "sqrt(abc) + 1", "1 - abc", "9 - -",
	"\v+1", "3 * (2 + 1", "if(1 / 0, 1, 2)", "2 ^ (1 - x) -", ")", "1 + 1", "max(min(1, 2) + min(3, 4), 5)", "- - -", "1 2 3 +", "abs(2", "((((1"}

// check compares the real evaluator (reused and fresh) with the walk of the model's tree.
func (c *config) check(expr string, tree []string, thorough bool) string {
	fresh := canon(c.fresh().Evaluate(expr))
	// self-contained reuse check: one evaluator first digests rejected and accepted expressions, then this one twice
	// (the whole list for one configuration per line, the first eight for the others)
	local := c.fresh()
	for i, p := range poison {
		if i >= 8 && !thorough {
			break
		}
		_, _ = local.Evaluate(p)
	}
	first := canon(local.Evaluate(expr))
	if again := canon(local.Evaluate(expr)); first != fresh || again != fresh {
		return fmt.Sprintf("FAIL %s: an evaluator used before (rejected and accepted expressions) gives %s, then %s; a fresh evaluator %s", c.name, first, again, fresh)
	}
	// and the evaluator that has seen every earlier line of this run
	reused := canon(c.reused.Evaluate(expr))
	if reused != fresh {
		return fmt.Sprintf("FAIL %s: reused evaluator gives %s, fresh evaluator %s", c.name, reused, fresh)
	}
	// EvaluateNew on a used evaluator is a fresh evaluation and leaves the evaluator's own state alone
	if viaNew := canon(c.reused.EvaluateNew(expr)); viaNew != fresh {
		return fmt.Sprintf("FAIL %s: EvaluateNew gives %s, a fresh evaluator %s", c.name, viaNew, fresh)
	}
	// without a Resolver: the same result when no `$` occurs, an error (never a panic) when one is substituted
	if c.bare != nil {
		noRes := canon(c.bare().Evaluate(expr))
		if !strings.Contains(expr, "$") && noRes != fresh {
			return fmt.Sprintf("FAIL %s: without a resolver %s, with one %s, and the expression has no variable", c.name, noRes, fresh)
		}
	}
	var want string
	switch tree[0] {
	case "err":
		want = "err"
	case "empty":
		want = "s:-"
	case "panic":
		return "FAIL model panics"
	default:
		n, j := parseNode(tree, 0)
		if j != len(tree) {
			return "FAIL trailing tree tokens"
		}
		w := &walker{c: c, ev: c.fresh()}
		v, err := w.walk(n)
		if w.divFail != "" {
			return "FAIL " + c.name + ": " + w.divFail
		}
		if err == nil && v == nil {
			err = errInvalid
		}
		want = canon(v, err)
	}
	if reused != want {
		return fmt.Sprintf("FAIL %s: Evaluate gives %s, the tree evaluates to %s", c.name, reused, want)
	}
	return c.name + "=" + strings.ReplaceAll(reused, " ", "_")
}
