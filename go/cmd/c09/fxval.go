package main

import (
	"fmt"
	"strconv"
	"strings"

	"github.com/richardwilkes/toolbox/eval"
	"github.com/richardwilkes/toolbox/xmath/fixed"
	"github.com/richardwilkes/toolbox/xmath/fixed/f64"
	"verifharness/hx"
)

// ---------------------------------------------------------------------------------------------------------------
// area fxval (model correspondence, values):  x <k> <z> <hex>
// NewFixedEvaluator[fixed.Dk](valueResolver, z).Evaluate(expr); the Lean driver COMPUTES the same with
// Model/EvalFixed.lean (operand conversion, operators, integer functions composed from the C03/C04 models).  The
// judge is the plain comparison of the two texts — no library operator on the expected side.
//   n <raw int64> | b true | b false | s <hex> | err      (the driver answers `opaque` where float64 arithmetic decides)
// ---------------------------------------------------------------------------------------------------------------

var fxPlaces = []int{1, 2, 3, 4, 6, 9, 16}

func fxShow[T fixed.Dx](v any, err error) string {
	if err != nil {
		return "err"
	}
	switch x := v.(type) {
	case f64.Int[T]:
		return "n " + strconv.FormatInt(int64(x), 10)
	case bool:
		return fmt.Sprintf("b %v", x)
	case string:
		return "s " + hx.Hex([]byte(x))
	}
	return fmt.Sprintf("other %T", v)
}

func fxEval[T fixed.Dx](zero bool, expr string) string {
	return fxShow[T](eval.NewFixedEvaluator[T](valueResolver{}, zero).Evaluate(expr))
}

type fxArea struct{}

func (fxArea) Run(line string) string {
	f := strings.Fields(line)
	if len(f) != 4 || f[0] != "x" {
		return "bad-op"
	}
	zero := f[2] == "1"
	expr := string(hx.UnHex(f[3]))
	switch f[1] {
	case "1":
		return fxEval[fixed.D1](zero, expr)
	case "2":
		return fxEval[fixed.D2](zero, expr)
	case "3":
		return fxEval[fixed.D3](zero, expr)
	case "4":
		return fxEval[fixed.D4](zero, expr)
	case "6":
		return fxEval[fixed.D6](zero, expr)
	case "9":
		return fxEval[fixed.D9](zero, expr)
	case "16":
		return fxEval[fixed.D16](zero, expr)
	}
	return "bad-op"
}

// ---- generator: the operators and functions the model computes -------------------------------------------------

func pointAt(digits string, places int) string {
	neg := strings.HasPrefix(digits, "-")
	digits = strings.TrimPrefix(digits, "-")
	for len(digits) <= places {
		digits = "0" + digits
	}
	s := digits[:len(digits)-places] + "." + digits[len(digits)-places:]
	if neg {
		s = "-" + s
	}
	return s
}

// fxAtom: numbers of every shape FromString accepts or rejects, the limits of the configuration, variables, texts.
func fxAtom(r *hx.Rng, places int) string {
	switch r.Intn(16) {
	case 0, 1, 2, 3:
		return hx.Pick(r, []string{"0", "1", "2", "3", "5", "7", "10", "100", "0.5", "2.5", "1.25", "0.1", "0.01", "0.001", "9.99", "12.345678", "1000000"})
	case 4: // a random decimal with up to places+2 fraction digits
		s := strconv.Itoa(r.Intn(2000))
		if n := r.Intn(places + 3); n > 0 {
			s += "."
			for i := 0; i < n; i++ {
				s += strconv.Itoa(r.Intn(10))
			}
		}
		return s
	case 5: // limits of the configuration and their neighbours
		return pointAt(hx.Pick(r, []string{"9223372036854775807", "9223372036854775806", "-9223372036854775808", "9223372036854775808", "-9223372036854775809",
			"4611686018427387904", "4611686018427387903", "3037000499", "3037000500", "-3037000500", "1", "-1", "5", "15", "-15", "10", "99", "101"}), places)
	case 6: // integer parts around the largest one
		ip := "9223372036854775807"[:19-places]
		return hx.Pick(r, []string{ip, ip + ".5", ip[:len(ip)-1], "1" + strings.Repeat("0", 18-places), strings.Repeat("9", 18-places), strings.Repeat("9", 19-places)})
	case 7, 8:
		return hx.Pick(r, []string{"$x", "$y", "$z", "$h", "$n", "$neg", "$foo.bar", "$a_1", "$tiny", "$max4", "$big", "$sp", "$comma", "$str", "$bool", "$x", "$y", "$n", "$h", "$a1e", "$r2e", "$x.1e", "$a#1e", "$rate", "$a1e", "$ch", "$ch2", "$A1e", "$x.1e", "$A1E",
			"$ws", "$paren", "$expr", "$undefined"})
	case 9: // texts: the string fall-backs of == < + and the string condition of if
		if r.Bool() {
			return strconv.Itoa(r.Intn(100))
		}
		return hx.Pick(r, []string{"foo", "bar", "abc", "abd", "true", "false", "FALSE", "False", "fal\xc5\xbfe", "yes", "no", "Foo", "a", "b", "10a", "x1", "1.5.2", "1..2", "--1", "+-1", "1-", ".", "-", "+"})
	case 10: // syntax edges of FromString
		return hx.Pick(r, []string{".5", "5.", "-.5", "+5", "+.5", "-0", "-0.0", "-0.5", "00.5", "-00.5", "007", "1,000", "1,0,0.5", ",1", "1,", "0.", "0.0000000000000000000001",
			"1.99999999999999999999", "0.00005", "0.00004", "0.99995", "1.0000", "+0", "+", "-", "1.-5", "1.+5", "1.5-", "٣"})
	case 11: // rarely: what the model leaves to the implementation
		if !r.Chance(1, 4) {
			return strconv.Itoa(r.Intn(50)) + "." + strconv.Itoa(r.Intn(10))
		}
		if r.Bool() {
			return fxExpLit(r)
		}
		return hx.Pick(r, []string{"1e2", "1e-2", "2.5E1", "1e+2", "2.5E-1", "2.5E+1", "1e", "e", "E", "1e400", "sqrt(4)", "2 ^ 3", "log(1)", "exp(0)"})
	default:
		return strconv.Itoa(r.Intn(21) - 10)
	}
}

// fxExpLit: a literal with an exponent — f64.FromString sends it through strconv.ParseFloat(str, 64) and
// From[T](float64) = Int[T](f * float64(multiplier)): one float64 product, then truncation.  Digits that make the product
// inexact (1.15e0 * 100 = 114.99999999999999 -> 1.14 in D2), the limits of int64 and the syntax edges of ParseFloat.
func fxExpLit(r *hx.Rng) string {
	switch r.Intn(6) {
	case 0:
		return hx.Pick(r, []string{"1e2", "1e-2", "2.5E1", "1e+2", "2.5E-1", "2.5E+1", "1e0", "0e0", "-0e0", "1E0", "1.5e3", "1,5e3", "1,000e-3", "0.29e2", "1.15e2",
			"2.675e0", "1.005e0", "4.35e2", "1.1e0", "1.15e0", "2.9e-1", "4.35e0", "5.7e-1", "1.15", "0.29", "0.1e1", "0.7e1", "5e-5", "4.9e-5", "1e-16", "1e-17", "9e-17", "123456789e-9", "1e14", "9e14", "1e15", "9.2e18", "9.3e18",
			"1e19", "1e400", "1e-400", "9.223372036854775e14", "9.223372036854776e14", "9.2233720368547758e2", "9.223372036854775807e0", "1e", "1e+", "1e-", "e1", "1ee1",
			"1e1e1", ".e1", "1.e1", ".5e1", "1e2.5", "0x1e", "0x1p-2e", "1_0e1", "nane", "Infe", "e", "E",
			"0x1ep0", "0x1.8p1e", "0x.ep1", "-0x1Ep-1", "0x1e.8p0", "0xep", "0x1_ep0", "0x_1ep0", "1_000e0", "1__0e1", "_1e1", "1_e1", "1e1_0", "1e_1", "1_0.5e1", "1_0._5e1", "0_1e1", "0x1ep1_0"})
	case 1, 2, 3:
		s := strconv.Itoa(r.Intn(100000))
		if r.Chance(3, 4) {
			s += "."
			for i, n := 0, r.Range(1, 18); i < n; i++ {
				s += strconv.Itoa(r.Intn(10))
			}
		}
		return s + hx.Pick(r, []string{"e", "E"}) + hx.Pick(r, []string{"", "+", "-", "-"}) + strconv.Itoa(r.Intn(20))
	case 4: // the same value with and without the exponent notation, next to the limits of the configuration
		return pointAt(hx.Pick(r, []string{"9223372036854775807", "9223372036854775", "922337203685477", "4611686018427387904", "1", "15", "99999999"}), r.Intn(17)) + "e" + strconv.Itoa(r.Intn(17))
	default:
		return strconv.Itoa(r.Intn(1000)) + "e-" + strconv.Itoa(r.Intn(6))
	}
}

// ---- type-directed part: operand kinds are kept compatible so that deep expressions evaluate to a value ----------

func fxLit(r *hx.Rng, places int) string {
	switch r.Intn(8) {
	case 0, 1, 2:
		return hx.Pick(r, []string{"1", "2", "3", "5", "7", "10", "0.5", "2.5", "1.25", "100", "12", "0.1", "9.99", "1000"})
	case 3:
		s := strconv.Itoa(1 + r.Intn(500))
		if n := r.Intn(places + 1); n > 0 {
			s += "."
			for i := 0; i < n; i++ {
				s += strconv.Itoa(r.Intn(10))
			}
		}
		return s
	case 4:
		return hx.Pick(r, []string{"$x", "$y", "$h", "$foo.bar", "$a_1", "$a1e", "$r2e", "$rate", "$A1E", "$ch", "$tiny", "$x.1e"})
	case 5:
		if r.Chance(1, 3) {
			return strconv.Itoa(r.Intn(1000)) + hx.Pick(r, []string{"e-", "E-", "e", "e+"}) + strconv.Itoa(r.Intn(4)) // exponent notation
		}
		return hx.Pick(r, []string{"0", "$z", "$n", "$neg", "-3", "0.0"}) // zeros and negatives (as left operands and arguments)
	case 6:
		return pointAt(hx.Pick(r, []string{"4611686018427387903", "3037000499", "922337203685477580", "99999999", "1", "15"}), places)
	default:
		return strconv.Itoa(r.Intn(20))
	}
}

// fxNumE: a number-valued expression (an error only through overflow-free arithmetic on numbers never arises; a
// division by zero only where the divisor happens to evaluate to zero).
func fxNumE(r *hx.Rng, d, places int) string {
	if d <= 0 || r.Chance(1, 5) {
		if r.Chance(1, 8) {
			return hx.Pick(r, []string{"-", "+"}) + fxLit(r, places)
		}
		return fxLit(r, places)
	}
	sp := func() string { return hx.Pick(r, []string{"", " ", " ", "\t"}) }
	switch r.Intn(14) {
	case 0, 1, 2, 3:
		return "(" + fxNumE(r, d-1, places) + sp() + hx.Pick(r, []string{"+", "-", "*", "+", "-"}) + sp() + fxNumE(r, d-1, places) + ")"
	case 4, 5: // division / modulo by something that is not a literal zero
		div := hx.Pick(r, []string{"2", "3", "7", "0.5", "10", "$x", "$y", "$h", "1.25", "(1 + " + fxLit(r, places) + ")"})
		return "(" + fxNumE(r, d-1, places) + sp() + hx.Pick(r, []string{"/", "%"}) + sp() + div + ")"
	case 6:
		return hx.Pick(r, []string{"abs", "ceil", "floor", "round", "floor", "round"}) + "(" + sp() + fxNumE(r, d-1, places) + sp() + ")"
	case 7:
		n := r.Range(1, 4)
		parts := make([]string, n)
		for i := range parts {
			parts[i] = fxNumE(r, d-1, places)
		}
		return hx.Pick(r, []string{"max", "min"}) + "(" + strings.Join(parts, ", ") + ")"
	case 8:
		return "if(" + fxBoolE(r, d-1, places) + ", " + fxNumE(r, d-1, places) + ", " + fxNumE(r, d-1, places) + ")"
	case 9:
		return "-(" + fxNumE(r, d-1, places) + ")"
	case 10: // a comparison result used as a number
		return "(" + fxBoolE(r, d-1, places) + sp() + hx.Pick(r, []string{"+", "*", "-"}) + sp() + fxNumE(r, d-1, places) + ")"
	case 11: // chains without parentheses: precedence and left associativity decide
		n := r.Range(2, 5)
		s := fxNumE(r, d-2, places)
		for i := 0; i < n; i++ {
			s += sp() + hx.Pick(r, []string{"+", "-", "*", "-", "+"}) + sp() + fxNumE(r, d-2, places)
		}
		return s
	case 12:
		return fxNumE(r, d-1, places) + sp() + hx.Pick(r, []string{"-", "+"}) + sp() + hx.Pick(r, []string{"-", "+"}) + fxLit(r, places)
	default:
		return "(" + fxNumE(r, d-1, places) + ")"
	}
}

// fxBoolE: a comparison / logical expression over numbers.
func fxBoolE(r *hx.Rng, d, places int) string {
	cmp := []string{"==", "!=", "<", "<=", ">", ">="}
	if d <= 0 {
		return fxLit(r, places) + " " + hx.Pick(r, cmp) + " " + fxLit(r, places)
	}
	switch r.Intn(6) {
	case 0, 1, 2:
		return "(" + fxNumE(r, d-1, places) + " " + hx.Pick(r, cmp) + " " + fxNumE(r, d-1, places) + ")"
	case 3:
		return "(" + fxBoolE(r, d-1, places) + " " + hx.Pick(r, []string{"&&", "||"}) + " " + fxBoolE(r, d-1, places) + ")"
	case 4:
		return "!(" + fxBoolE(r, d-1, places) + ")"
	default:
		return fxNumE(r, d-1, places) + hx.Pick(r, cmp) + fxNumE(r, d-1, places)
	}
}

var fxBin = []string{"+", "-", "*", "/", "%", "+", "-", "*", "/", "%", "==", "!=", "<", "<=", ">", ">=", "&&", "||"}

func fxExpr(r *hx.Rng, d, places int) string {
	if d <= 0 || r.Chance(1, 4) {
		a := fxAtom(r, places)
		if r.Chance(1, 6) {
			return hx.Pick(r, []string{"-", "+", "!"}) + a
		}
		return a
	}
	sp := func() string { return hx.Pick(r, []string{"", " ", " ", "  ", "\t"}) }
	switch r.Intn(14) {
	case 0, 1, 2, 3, 4:
		return fxExpr(r, d-1, places) + sp() + hx.Pick(r, fxBin) + sp() + fxExpr(r, d-1, places)
	case 5:
		return "(" + fxExpr(r, d-1, places) + sp() + hx.Pick(r, fxBin) + sp() + fxExpr(r, d-1, places) + ")"
	case 6:
		return hx.Pick(r, []string{"-", "+", "!", "-", "!"}) + "(" + fxExpr(r, d-1, places) + ")"
	case 7:
		return hx.Pick(r, []string{"abs", "ceil", "floor", "round", "floor", "round", "-abs", "!ceil"}) + sp() + "(" + sp() + fxExpr(r, d-1, places) + sp() + ")"
	case 8, 9:
		n := r.Range(1, 5)
		if r.Chance(1, 12) {
			n = 0
		}
		parts := make([]string, n)
		for i := range parts {
			parts[i] = fxExpr(r, d-1, places)
		}
		return hx.Pick(r, []string{"max", "min"}) + "(" + strings.Join(parts, hx.Pick(r, []string{",", ", ", " , "})) + ")"
	case 10, 11:
		n := r.Range(3, 3)
		if r.Chance(1, 6) {
			n = r.Range(0, 5)
		}
		parts := make([]string, n)
		for i := range parts {
			parts[i] = fxExpr(r, d-1, places)
		}
		return "if(" + strings.Join(parts, ", ") + ")"
	case 12: // division and modulo by a zero of every kind
		z := hx.Pick(r, []string{"0", "$z", "(1 - 1)", "0.0", "-0", "abs(0)", "(2 < 1)", "0.00000000000000001", "round(0.4)", "min(0, 1)"})
		return fxExpr(r, d-1, places) + sp() + hx.Pick(r, []string{"/", "%"}) + sp() + z
	default: // chains of one precedence level
		n := r.Range(2, 5)
		ops := hx.Pick(r, [][]string{{"+", "-"}, {"*", "/", "%"}, {"-"}, {"/"}, {"%"}, {"==", "!="}, {"<", ">", "<=", ">="}})
		s := fxExpr(r, d-2, places)
		for i := 0; i < n; i++ {
			s += sp() + hx.Pick(r, ops) + sp() + fxExpr(r, d-2, places)
		}
		return s
	}
}

func (fxArea) Gen(r *hx.Rng, n int, _ string, emit func(string)) {
	for i := 0; i < n; i++ {
		places := hx.Pick(r, fxPlaces)
		var s string
		switch {
		case i%97 == 0:
			s = bigExpr(r)
		case r.Chance(1, 16):
			s = strings.ReplaceAll(malformed(r), "^", "*")
		case r.Chance(1, 12):
			s = strings.ReplaceAll(boolExpr(r), "1e-2", "0.01")
		case r.Chance(1, 30):
			s = literalExpr(r)
		case r.Chance(3, 5): // type-directed: deep expressions that evaluate to a value
			if r.Chance(1, 4) {
				s = fxBoolE(r, r.Range(1, 5), places)
			} else {
				s = fxNumE(r, r.Range(2, 6), places)
			}
		default:
			s = fxExpr(r, r.Range(1, 5), places)
		}
		emit(fmt.Sprintf("x %d %d %s", places, r.Intn(2), hx.Hex([]byte(s))))
	}
}
