package main

import (
	"fmt"
	"math"
	"strings"

	"github.com/richardwilkes/toolbox/xmath/fixed"
	"github.com/richardwilkes/toolbox/xmath/fixed/f64"
)

// ---------------------------------------------------------------------------------------------------------------
// Independent reference for the operators and the standard functions.  Nothing here calls package eval: numbers are
// converted by the harness (conv / fromBool), fixed-point arithmetic is done with the f64.Int methods and raw int64
// arithmetic (the f64 package is verified under C03/C04), floating-point arithmetic with Go's operators and package
// math at the precision of the evaluator's type.  The walk compares every application of a library operator or
// function with this reference, node by node (exactly where the result is exact, within a small tolerance for ^ and
// the transcendental functions), and keeps propagating the library's value so that tolerances do not accumulate.
// ---------------------------------------------------------------------------------------------------------------

// refNum is the arithmetic of one evaluator type.
type refNum interface {
	arith(op string, l, r any) any                       // + - * / % ^ (the divisor is not zero)
	less(l, r any) bool                                  // l < r
	equal(l, r any) bool                                 // l == r
	isZero(n any) bool                                   //
	neg(n any) any                                       //
	fn1(name string, x any) (res any, exact, known bool) // one-argument standard functions
	finite(n any) bool                                   //
	near(a, b any) bool                                  // equal up to the tolerance of inexact results
	isNum(v any) bool                                    // v has the number type of the evaluator
}

// ---- fixed point ------------------------------------------------------------------------------------------------

type fixedRef[T fixed.Dx] struct{}

func (fixedRef[T]) one() int64 { return int64(f64.From[T, int](1)) }

func (fixedRef[T]) isNum(v any) bool { _, ok := v.(f64.Int[T]); return ok }

func (fixedRef[T]) arith(op string, l, r any) any {
	a, b := l.(f64.Int[T]), r.(f64.Int[T])
	switch op {
	case "+":
		return a + b
	case "-":
		return a - b
	case "*":
		return a.Mul(b)
	case "/":
		return a.Div(b)
	case "%":
		return a.Mod(b)
	default: // "^"
		return f64.From[T](math.Pow(f64.As[T, float64](a), f64.As[T, float64](b)))
	}
}

func (fixedRef[T]) less(l, r any) bool  { return l.(f64.Int[T]) < r.(f64.Int[T]) }
func (fixedRef[T]) equal(l, r any) bool { return l.(f64.Int[T]) == r.(f64.Int[T]) }
func (fixedRef[T]) isZero(n any) bool   { return n.(f64.Int[T]) == 0 }
func (fixedRef[T]) neg(n any) any       { return -n.(f64.Int[T]) }
func (fixedRef[T]) finite(n any) bool   { return true }

func (f fixedRef[T]) near(a, b any) bool {
	x, ok1 := a.(f64.Int[T])
	y, ok2 := b.(f64.Int[T])
	if !ok1 || !ok2 {
		return false
	}
	d := int64(x) - int64(y)
	return d >= -1 && d <= 1
}

func (f fixedRef[T]) fn1(name string, x any) (any, bool, bool) {
	v := x.(f64.Int[T])
	raw := int64(v)
	m := f.one()
	guard := raw > math.MaxInt64-m || raw < math.MinInt64+m
	fl := func(g func(float64) float64) (any, bool, bool) {
		return f64.From[T](g(f64.As[T, float64](v))), false, true
	}
	switch name {
	case "abs":
		if raw < 0 {
			return f64.Int[T](-raw), true, true
		}
		return v, true, true
	case "floor":
		if guard {
			return nil, false, false
		}
		q := raw / m * m
		if raw%m < 0 {
			q -= m
		}
		return f64.Int[T](q), true, true
	case "ceil":
		if guard {
			return nil, false, false
		}
		q := raw / m * m
		if raw%m > 0 {
			q += m
		}
		return f64.Int[T](q), true, true
	case "round": // half away from zero
		if guard {
			return nil, false, false
		}
		if raw >= 0 {
			return f64.Int[T]((raw + m/2) / m * m), true, true
		}
		return f64.Int[T]((raw - m/2) / m * m), true, true
	case "sqrt":
		return fl(math.Sqrt)
	case "cbrt":
		return fl(math.Cbrt)
	case "exp":
		return fl(math.Exp)
	case "exp2":
		return fl(math.Exp2)
	case "log":
		return fl(math.Log)
	case "log10":
		return fl(math.Log10)
	case "log1p":
		return fl(math.Log1p)
	}
	return nil, false, false
}

// ---- floating point ---------------------------------------------------------------------------------------------

type floatRef[T float32 | float64] struct{}

func (floatRef[T]) isNum(v any) bool { _, ok := v.(T); return ok }

func (floatRef[T]) arith(op string, l, r any) any {
	a, b := l.(T), r.(T)
	switch op {
	case "+":
		return a + b
	case "-":
		return a - b
	case "*":
		return a * b
	case "/":
		return a / b
	case "%":
		return T(math.Mod(float64(a), float64(b)))
	default:
		return T(math.Pow(float64(a), float64(b)))
	}
}

func (floatRef[T]) less(l, r any) bool  { return l.(T) < r.(T) }
func (floatRef[T]) equal(l, r any) bool { return l.(T) == r.(T) }
func (floatRef[T]) isZero(n any) bool   { return n.(T) == 0 }
func (floatRef[T]) neg(n any) any       { return -n.(T) }
func (floatRef[T]) finite(n any) bool {
	x := float64(n.(T))
	return !math.IsNaN(x) && !math.IsInf(x, 0)
}

func (floatRef[T]) near(a, b any) bool {
	x, ok1 := a.(T)
	y, ok2 := b.(T)
	if !ok1 || !ok2 {
		return false
	}
	fx, fy := float64(x), float64(y)
	if math.IsNaN(fx) || math.IsNaN(fy) {
		return math.IsNaN(fx) && math.IsNaN(fy)
	}
	if fx == fy {
		return true
	}
	var t T
	eps := 1e-13
	if _, is32 := any(t).(float32); is32 {
		eps = 1e-6
	}
	return math.Abs(fx-fy) <= eps*math.Max(math.Abs(fx), math.Abs(fy))
}

func (floatRef[T]) fn1(name string, x any) (any, bool, bool) {
	v := float64(x.(T))
	switch name {
	case "abs":
		return T(math.Abs(v)), true, true
	case "floor":
		return T(math.Floor(v)), true, true
	case "ceil":
		return T(math.Ceil(v)), true, true
	case "round":
		return T(math.Round(v)), true, true
	case "sqrt":
		return T(math.Sqrt(v)), false, true
	case "cbrt":
		return T(math.Cbrt(v)), false, true
	case "exp":
		return T(math.Exp(v)), false, true
	case "exp2":
		return T(math.Exp2(v)), false, true
	case "log":
		return T(math.Log(v)), false, true
	case "log10":
		return T(math.Log10(v)), false, true
	case "log1p":
		return T(math.Log1p(v)), false, true
	}
	return nil, false, false
}

// ---- the semantics of operators and functions over a refNum ----------------------------------------------------

var errRef = fmt.Errorf("error")

// number converts an operand (text, boolean, number) with the harness's own conversions.
func (w *walker) number(v any) (any, bool) {
	switch a := v.(type) {
	case string:
		return w.c.conv(a)
	case bool:
		return w.c.fromBool(a), true
	}
	if w.c.ref.isNum(v) {
		return v, true
	}
	return nil, false
}

// refBinary is what a binary operator must yield for the operand values l and r.  zeroDiv: the result is "a zero"
// (division by zero configured to return zero), either sign of a floating zero is accepted.
func (w *walker) refBinary(op string, l, r any) (res any, err error, exact, zeroDiv bool) {
	R := w.c.ref
	ln, lok := w.number(l)
	rn, rok := w.number(r)
	both := lok && rok
	str := func(v any) string { return fmt.Sprintf("%v", v) }
	switch op {
	case "||":
		if !lok {
			return nil, errRef, true, false
		}
		if !R.isZero(ln) {
			return true, nil, true, false
		}
		if !rok {
			return nil, errRef, true, false
		}
		return !R.isZero(rn), nil, true, false
	case "&&":
		if !lok {
			return nil, errRef, true, false
		}
		if R.isZero(ln) {
			return false, nil, true, false
		}
		if !rok {
			return nil, errRef, true, false
		}
		return !R.isZero(rn), nil, true, false
	case "==":
		if both {
			return R.equal(ln, rn), nil, true, false
		}
		return str(l) == str(r), nil, true, false
	case "!=":
		if both {
			return !R.equal(ln, rn), nil, true, false
		}
		return str(l) != str(r), nil, true, false
	case "<":
		if both {
			return R.less(ln, rn), nil, true, false
		}
		return str(l) < str(r), nil, true, false
	case ">":
		if both {
			return R.less(rn, ln), nil, true, false
		}
		return str(l) > str(r), nil, true, false
	case "<=": // (for floats: NaN makes every comparison false, so <= is not !(>))
		if both {
			return R.less(ln, rn) || R.equal(ln, rn), nil, true, false
		}
		return str(l) <= str(r), nil, true, false
	case ">=":
		if both {
			return R.less(rn, ln) || R.equal(ln, rn), nil, true, false
		}
		return str(l) >= str(r), nil, true, false
	case "+":
		if both {
			return R.arith("+", ln, rn), nil, true, false
		}
		return str(l) + str(r), nil, true, false
	case "-", "*":
		if !both {
			return nil, errRef, true, false
		}
		return R.arith(op, ln, rn), nil, true, false
	case "^":
		if !both {
			return nil, errRef, true, false
		}
		return R.arith(op, ln, rn), nil, false, false
	case "/", "%":
		if !both {
			return nil, errRef, true, false
		}
		if R.isZero(rn) {
			if w.c.zero {
				return rn, nil, true, true
			}
			return nil, errRef, true, false
		}
		return R.arith(op, ln, rn), nil, true, false
	}
	return nil, nil, false, false
}

// refUnary: ! + - before an operand.
func (w *walker) refUnary(sym string, v any) (any, error, bool) {
	R := w.c.ref
	if sym == "!" {
		if b, ok := v.(bool); ok {
			return !b, nil, true
		}
	}
	n, ok := w.number(v)
	if !ok {
		return nil, errRef, true
	}
	switch sym {
	case "!":
		return R.isZero(n), nil, true
	case "+":
		return n, nil, true
	case "-":
		return R.neg(n), nil, true
	}
	return nil, nil, false
}

// kid evaluates an argument tree once (shared by the library's function and the reference).
func (w *walker) kid(n *node, i int) (any, error) {
	k := n.kids[i]
	if !k.done {
		k.val, k.err = w.walk(k)
		if k.err == nil && k.val == nil {
			k.err = errInvalid
		}
		k.done = true
	}
	return k.val, k.err
}

// refCall is what a standard function must yield.  known = false: the reference does not judge this call (unknown
// function, no argument for max/min, a non-finite floating argument of max/min, a value within one unit of the
// fixed-point range for floor/ceil/round).
func (w *walker) refCall(n *node) (res any, err error, exact, known bool) {
	R := w.c.ref
	switch {
	case singleArg[n.name]:
		if len(n.kids) != 1 {
			return nil, nil, false, false
		}
		v, e := w.kid(n, 0)
		if e != nil {
			return nil, errRef, true, true
		}
		x, ok := w.number(v)
		if !ok {
			return nil, errRef, true, true
		}
		r, ex, kn := R.fn1(n.name, x)
		return r, nil, ex, kn
	case n.name == "max" || n.name == "min":
		if len(n.kids) == 0 {
			return nil, nil, false, false
		}
		var best any
		allFinite := true
		for i := range n.kids {
			v, e := w.kid(n, i)
			if e != nil {
				return nil, errRef, true, true
			}
			x, ok := w.number(v)
			if !ok {
				return nil, errRef, true, true
			}
			if !R.finite(x) {
				allFinite = false
			}
			if best == nil || (n.name == "max" && R.less(best, x)) || (n.name == "min" && R.less(x, best)) {
				best = x
			}
		}
		if !allFinite {
			return nil, nil, false, false
		}
		return best, nil, true, true
	case n.name == "if":
		var cond any = ""
		if len(n.kids) > 0 {
			v, e := w.kid(n, 0)
			if e != nil {
				return nil, errRef, true, true
			}
			cond = v
		}
		truth := false
		if x, ok := w.number(cond); ok {
			truth = !R.isZero(x)
		} else if s, isText := cond.(string); isText {
			truth = s != "" && !strings.EqualFold(s, "false")
		} else {
			return nil, errRef, true, true
		}
		pick := 2
		if truth {
			pick = 1
		}
		if pick >= len(n.kids) {
			return "", nil, true, true
		}
		v, e := w.kid(n, pick)
		if e != nil {
			return nil, errRef, true, true
		}
		return v, nil, true, true
	}
	return nil, nil, false, false
}

// judge compares the library's result with the reference and records the first divergence.
func (w *walker) judge(what string, got any, gotErr error, want any, wantErr error, exact, zeroDiv bool) {
	if w.divFail != "" {
		return
	}
	bad := false
	switch {
	case (gotErr != nil) != (wantErr != nil):
		bad = true
	case gotErr != nil:
	case zeroDiv:
		num, zero := w.c.isZero(got)
		bad = !num || !zero || fmt.Sprintf("%T", got) != fmt.Sprintf("%T", want)
	case exact && w.c.ref.isNum(got) && w.c.ref.isNum(want) && w.c.ref.isZero(got) && w.c.ref.isZero(want):
		// the sign of a floating-point zero is not constrained
	case exact:
		bad = canon(got, nil) != canon(want, nil) && !(w.c.ref.isNum(got) && w.c.ref.isNum(want) && !w.c.ref.finite(got) && w.c.ref.near(got, want))
	default:
		bad = !w.c.ref.near(got, want)
	}
	if bad {
		w.divFail = fmt.Sprintf("%s: the library gives %s, %s", what, canon(got, gotErr), refText(want, wantErr, w.c.zero && zeroDiv))
	}
}

func refText(v any, err error, zero bool) string {
	if zero {
		return "division by zero is configured to return zero"
	}
	return "computed directly with the evaluator's number type it is " + canon(v, err)
}
