//go:build nooverlay

package main

import "github.com/richardwilkes/toolbox/eval"

// Black-box build (the accessor did not compile against the working tree, e.g. a field was renamed): no `d` lines are
// generated; what the white-box view would have shown is simply not observed.
const haveDump = false

func dumpStacks(*eval.Evaluator) string { return "nodump" }
