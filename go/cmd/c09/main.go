// Harness for C09 (expression evaluator).
//
//	area struct  (model correspondence)  s/f <hex>: Evaluate on an eval.Evaluator whose Operators carry the real symbols,
//	             precedences and presence of Evaluate/EvaluateUnary (read from eval.FixedOperators / FloatOperators) but
//	             whose functions build the bracketed tree string; a <hex>: NextArg.
//	area wf      (implementation oracle)  w <expected> <layout0> <layout1> <layout2>: the tree the implementation builds
//	             for a rendered AST equals the AST (conventional precedence, left associativity, sign on the operand
//	             only), in every whitespace layout; the real evaluators give the same value in every layout.
//	area val     (implementation oracle)  v <hexexpr> <model tree>: real NewFixedEvaluator / NewFloatEvaluator results
//	             equal the value of the MODEL's tree walked with the library's own Operator functions and Functions;
//	             reused evaluator = fresh evaluator; division by zero as configured; no panic.
//	             Gen for this area emits `t <hex>` lines (the Lean driver answers with the tree).
//	area fxval   (model correspondence, values)  x <k> <z> <hex>: NewFixedEvaluator[fixed.Dk] against the value the Lean
//	             driver COMPUTES with Model/EvalFixed.lean (fxval.go).
//	area flval   (model correspondence, values)  y <bits> <z> <hex>: NewFloatEvaluator[float64|float32] against the value the
//	             Lean driver COMPUTES with Model/EvalFloat.lean over the IEEE-754 model, bit for bit; every line also on a
//	             reused evaluator (flval.go).
package main

import (
	"fmt"
	"os"
	"strings"
	"syscall"
	"time"

	"github.com/richardwilkes/toolbox/eval"
	"github.com/richardwilkes/toolbox/xmath/fixed"
	"verifharness/hx"
)

// ---------------------------------------------------------------------------------------------------------------
// symbolic evaluator
// ---------------------------------------------------------------------------------------------------------------

type structResolver struct{}

func (structResolver) ResolveVariable(name string) string { return "@" + name }

func str(v any) string {
	if s, ok := v.(string); ok {
		return s
	}
	return fmt.Sprintf("%v", v)
}

func symbolicOps(real []*eval.Operator) []*eval.Operator {
	out := make([]*eval.Operator, len(real))
	for i, o := range real {
		sym := o.Symbol
		n := &eval.Operator{Symbol: sym, Precedence: o.Precedence}
		if o.Evaluate != nil {
			n.Evaluate = func(l, r any) (any, error) { return "(" + str(l) + " " + sym + " " + str(r) + ")", nil }
		}
		if o.EvaluateUnary != nil {
			n.EvaluateUnary = func(x any) (any, error) { return "(" + sym + " " + str(x) + ")", nil }
		}
		out[i] = n
	}
	return out
}

func symbolicFns(real map[string]eval.Function) map[string]eval.Function {
	out := make(map[string]eval.Function, len(real))
	for name := range real {
		out[name] = func(e *eval.Evaluator, arguments string) (any, error) {
			var parts []string
			for arguments != "" {
				var arg string
				arg, arguments = eval.NextArg(arguments)
				v, err := e.EvaluateNew(arg)
				if err != nil {
					return nil, err
				}
				parts = append(parts, str(v))
			}
			return name + "[" + strings.Join(parts, ";") + "]", nil
		}
	}
	return out
}

func newSymbolic(float bool) *eval.Evaluator {
	if float {
		return &eval.Evaluator{Resolver: structResolver{}, Operators: symbolicOps(eval.FloatOperators[float64](true)),
			Functions: symbolicFns(eval.FloatFunctions[float64]())}
	}
	return &eval.Evaluator{Resolver: structResolver{}, Operators: symbolicOps(eval.FixedOperators[fixed.D4](true)),
		Functions: symbolicFns(eval.FixedFunctions[fixed.D4]())}
}

func showSym(v any, err error) string {
	if err != nil {
		return "err"
	}
	return "ok " + hx.Hex([]byte(str(v)))
}

// ---------------------------------------------------------------------------------------------------------------
// area struct
// ---------------------------------------------------------------------------------------------------------------

// dump: the generator adds a `d` line (white-box stack dump) after every expression — area `state`.
type structArea struct {
	reused [2]*eval.Evaluator
	dump   bool
}

func (a *structArea) Gen(r *hx.Rng, n int, _ string, emit func(string)) {
	for i := 0; i < n; i++ {
		if i%24 == 0 { // a history = one evaluator reused for 24 expressions
			emit("reset")
		}
		var s string
		if i%40 == 7 { // size thresholds
			s = bigExpr(r)
			if r.Chance(1, 4) && len(s) > 2 { // and damaged
				k := r.Intn(len(s))
				s = s[:k] + s[k+1:]
			}
			emit("s " + hx.Hex([]byte(s)))
			continue
		}
		switch r.Intn(10) {
		case 0, 1, 2, 3:
			s = malformed(r)
		case 4:
			emit("a " + hx.Hex([]byte(argText(r))))
			continue
		default:
			var toks []string
			genAST(r, r.Chance(1, 3)).toks(0, false, &toks)
			s = layout(r, toks, r.Intn(3))
		}
		op := "s "
		if r.Chance(1, 8) {
			op = "f "
		}
		emit(op + hx.Hex([]byte(s)))
		// white-box: the stacks the call left on the reused evaluator (accepted, rejected at any position, failed at
		// evaluation time) against the model's evaluator state
		if a.dump && haveDump {
			emit("d " + op[:1])
		}
	}
}

func argText(r *hx.Rng) string {
	var sb strings.Builder
	n := r.Intn(10)
	if r.Chance(1, 30) {
		n = r.Range(60, 400)
	}
	for i := 0; i < n; i++ {
		sb.WriteString(hx.Pick(r, []string{"(", ")", ",", ",", "1", "a b", " ", "max", "\xc3\xa9", "\xff", ",,", "()", "(,)", "f(1,2)", "f(g(1),h(2,3))+k(4,5)", "((", "))"}))
	}
	return sb.String()
}

func (a *structArea) Run(line string) string {
	f := strings.Fields(line)
	if len(f) == 1 && f[0] == "reset" {
		a.reused = [2]*eval.Evaluator{}
		return "reset"
	}
	if len(f) != 2 {
		return "bad-op"
	}
	switch f[0] {
	case "d":
		k := 0
		if f[1] == "f" {
			k = 1
		}
		if a.reused[k] == nil {
			a.reused[k] = newSymbolic(k == 1)
		}
		return dumpStacks(a.reused[k])
	case "s", "f":
		k := 0
		if f[0] == "f" {
			k = 1
		}
		if a.reused[k] == nil {
			a.reused[k] = newSymbolic(k == 1)
		}
		expr := string(hx.UnHex(f[1]))
		got := showSym(a.reused[k].Evaluate(expr))
		fresh := showSym(newSymbolic(k == 1).Evaluate(expr))
		if got != fresh {
			return "reuse-mismatch reused=" + got + " fresh=" + fresh
		}
		// the same table assembled with the exported constructors OpenParen … Power
		if ctor := showSym(newCtorSymbolic().Evaluate(expr)); k == 0 && ctor != got {
			return "constructor-mismatch table=" + got + " constructors=" + ctor
		}
		return got
	case "a":
		x, y := eval.NextArg(string(hx.UnHex(f[1])))
		return hx.Hex([]byte(x)) + " " + hx.Hex([]byte(y))
	}
	return "bad-op"
}

// ---------------------------------------------------------------------------------------------------------------
// area wf
// ---------------------------------------------------------------------------------------------------------------

type wfArea struct {
	sym   *eval.Evaluator
	fixed *eval.Evaluator
	float *eval.Evaluator
}

func (a *wfArea) Gen(r *hx.Rng, n int, _ string, emit func(string)) {
	for i := 0; i < n; i++ {
		t := genAST(r, r.Bool())
		var toks []string
		t.toks(0, false, &toks)
		emit("w " + hx.Hex([]byte(t.tree())) + " " + hx.Hex([]byte(layout(r, toks, 0))) + " " +
			hx.Hex([]byte(layout(r, toks, 1))) + " " + hx.Hex([]byte(layout(r, toks, 2))))
	}
}

func (a *wfArea) Run(line string) string {
	f := strings.Fields(line)
	if len(f) == 1 && f[0] == "c" {
		return callbackProbes()
	}
	if len(f) != 5 || f[0] != "w" {
		return "bad-op"
	}
	if a.sym == nil {
		a.sym = newSymbolic(false)
		a.fixed = eval.NewFixedEvaluator[fixed.D4](valueResolver{}, true)
		a.float = eval.NewFloatEvaluator[float64](valueResolver{}, false)
	}
	want := "ok " + f[1]
	var vals [2]string
	for i := 2; i < 5; i++ {
		expr := string(hx.UnHex(f[i]))
		if got := showSym(a.sym.Evaluate(expr)); got != want {
			return fmt.Sprintf("FAIL layout %d: tree %s, the expression tree is %s", i-2, unhexShow(got), unhexShow(want))
		}
		v0 := canon(a.fixed.Evaluate(expr))
		v1 := canon(a.float.Evaluate(expr))
		if i == 2 {
			vals = [2]string{v0, v1}
		} else if vals != [2]string{v0, v1} {
			return fmt.Sprintf("FAIL whitespace changes the value: layout 0 gives %v, layout %d gives %v", vals, i-2, [2]string{v0, v1})
		}
	}
	return "ok " + vals[0]
}

func unhexShow(s string) string {
	if strings.HasPrefix(s, "ok ") {
		return fmt.Sprintf("%q", string(hx.UnHex(s[3:])))
	}
	return s
}

// ---------------------------------------------------------------------------------------------------------------
// area val
// ---------------------------------------------------------------------------------------------------------------

type valArea struct{ cfgs []*config }

func (a *valArea) Gen(r *hx.Rng, n int, _ string, emit func(string)) {
	for i := 0; i < n; i++ {
		var s string
		switch r.Intn(15) {
		case 14: // size thresholds; long and deep inputs are few but present in every run
			if i%8 == 0 {
				s = bigExpr(r)
			} else {
				s = literalExpr(r)
			}
		case 12, 13: // comparison / logical results used as numbers
			s = boolExpr(r)
		case 10, 11: // literals that are hard to convert (rounding midpoints, range limits, syntax edges)
			s = literalExpr(r)
		case 0, 1:
			s = malformed(r)
		case 2:
			var toks []string
			genAST(r, false).toks(0, false, &toks)
			s = layout(r, toks, r.Intn(3))
		case 3: // division by zero, explicitly
			d := hx.Pick(r, []string{"0", "$z", "(1 - 1)", "0.0", "abs(0)", "-0"})
			s = hx.Pick(r, []string{"1", "$x", "7.5", "0", "-3"}) + hx.Pick(r, []string{" / ", " % ", "/", "%"}) + d
			if r.Bool() {
				s = hx.Pick(r, []string{"2 + ", "3 * ", "max(1, ", "-("}) + s
				if strings.Contains(s, "(") && strings.Count(s, "(") > strings.Count(s, ")") {
					s += ")"
				}
			}
		default:
			var toks []string
			genAST(r, true).toks(0, false, &toks)
			s = layout(r, toks, r.Intn(3))
		}
		emit("t " + hx.Hex([]byte(s)))
	}
}

func (a *valArea) Run(line string) string {
	f := strings.Fields(line)
	if len(f) < 3 || f[0] != "v" {
		return "bad-op"
	}
	if a.cfgs == nil {
		a.cfgs = configs()
	}
	expr := string(hx.UnHex(f[1]))
	var outs []string
	pick := 0
	for _, b := range []byte(expr) {
		pick = (pick*31 + int(b)) % 1000003
	}
	for i, c := range a.cfgs {
		res := c.check(expr, f[2:], i == pick%len(a.cfgs))
		if strings.HasPrefix(res, "FAIL") {
			return res
		}
		outs = append(outs, res)
	}
	return "ok " + strings.Join(outs, " ")
}

// guarded gives every line a deadline: an evaluation that does not return within it is reported as `hang` (the
// goroutine is abandoned and the area gets fresh evaluators); after two hangs the rest of the stream is skipped, and
// the lines that hung are remembered in the working directory so that re-runs of the same stream (minimisation) answer
// at once — a looping mutant costs seconds.  A panic inside the evaluation is reported as `panic` (the recover of
// hx.Main only covers its own goroutine).
type guarded struct {
	name  string
	mk    func() hx.Area
	inner hx.Area
	hangs int
	seen  map[string]bool
}

// A line hangs when the process has burnt cpuDeadline of CPU time on it (a loop; wall time alone would raise false
// alarms on a starved machine) or when wallDeadline has passed (a dead-lock).
const (
	cpuDeadline  = 2 * time.Second
	wallDeadline = 40 * time.Second
	hangFile     = "c09-hangs.txt"
)

func cpuTime() time.Duration {
	var ru syscall.Rusage
	if err := syscall.Getrusage(syscall.RUSAGE_SELF, &ru); err != nil {
		return 0
	}
	return time.Duration(ru.Utime.Nano() + ru.Stime.Nano())
}

func (g *guarded) Gen(r *hx.Rng, n int, tier string, emit func(string)) {
	g.mk().Gen(r, n, tier, emit)
}

func (g *guarded) Run(line string) string {
	if g.hangs >= 2 {
		return "skipped-after-crash"
	}
	if g.seen == nil {
		g.seen = map[string]bool{}
		if b, err := os.ReadFile(hangFile); err == nil {
			for _, l := range strings.Split(string(b), "\n") {
				g.seen[l] = true
			}
		}
	}
	key := g.name + "|" + line
	if g.seen[key] {
		g.hangs++
		return "hang"
	}
	if g.inner == nil {
		g.inner = g.mk()
	}
	inner := g.inner
	done := make(chan string, 1)
	go func() {
		defer func() {
			if r := recover(); r != nil {
				done <- "PANIC" // spelled differently from the model's `panic`: a panic is never an agreement
			}
		}()
		done <- inner.Run(line)
	}()
	cpu0, wall0 := cpuTime(), time.Now()
	tick := time.NewTimer(50 * time.Millisecond)
	defer tick.Stop()
	for {
		select {
		case out := <-done:
			return out
		case <-tick.C:
			if cpuTime()-cpu0 < cpuDeadline && time.Since(wall0) < wallDeadline {
				tick.Reset(100 * time.Millisecond)
				continue
			}
			g.hangs++
			g.inner = nil // the abandoned goroutine still owns the evaluators of this instance
			if f, err := os.OpenFile(hangFile, os.O_APPEND|os.O_CREATE|os.O_WRONLY, 0o644); err == nil {
				_, _ = f.WriteString(key + "\n")
				_ = f.Close()
			}
			return "hang"
		}
	}
}

func main() {
	hx.Main(map[string]hx.Area{
		"struct": &guarded{name: "struct", mk: func() hx.Area { return &structArea{} }},
		"state":  &guarded{name: "state", mk: func() hx.Area { return &structArea{dump: true} }},
		"wf":     &guarded{name: "wf", mk: func() hx.Area { return &wfArea{} }},
		"val":    &guarded{name: "val", mk: func() hx.Area { return &valArea{} }},
		"fxval":  &guarded{name: "fxval", mk: func() hx.Area { return fxArea{} }},
		"flval":  &guarded{name: "flval", mk: func() hx.Area { return &flArea{} }},
	})
}
