// c15facts <repo> <out.lean> — reads the channel protocol of package taskqueue (and the recover frames of errs.Recovery)
// from the Go source of the working tree and writes it as Lean tables (lean/Generated/C15Facts.lean).  Standard library only
// (go/parser, go/ast, go/types): the package is type-checked with an importer that yields empty packages, which is enough
// to resolve every identifier of the package itself (fields, locals, parameters, methods) and the package names of
// qualified identifiers (runtime.NumCPU, errs.Recovery).
//
// What is extracted is chosen so that a behaviour-preserving rewrite (other names, other element types, the dispatcher
// split into methods of a helper struct, channels kept in fields or locals, range-over-int) leaves it unchanged:
//
//   - goroutine roles: `new`/`submit`/`shutdown` are the code reachable by static calls from the exported New, Submit,
//     Shutdown on the caller's goroutine; `dispatcher` is the goroutine started from `new`, `worker` the goroutine started
//     from the dispatcher; every `go` statement with its spawning role, its target role and its multiplicity;
//   - channels: equivalence classes of channel-typed variables (fields, locals, parameters) under assignment, composite
//     literals and argument passing; each class with its allocation site(s) and the capacity as a linear form in
//     runtime.NumCPU() and the Workers field; classes are NAMED BY WHAT THE API DOES WITH THEM: `in` is what Submit sends
//     on, `done` what Shutdown receives from, `tasks` what a worker receives from, `ready` what a worker sends on;
//   - channel operations: the set of (role, kind, channel) with kind one of send / sendSel (case of a select with other
//     cases, no default) / sendNB (select with default) / recv / recvSel / recvNB / rangeRecv / close, and for the small
//     straight-line roles (submit, shutdown, worker) the sequence in source order;
//   - task calls (dynamic calls of a value of type Task) per role, and whether a `defer errs.Recovery(<handler field>)`
//     precedes the call in the same function; for errs.Recovery: recover() called directly in its own frame, the handler
//     called once, a deferred Recovery guard installed before the handler call.
package main

import (
	"encoding/json"
	"fmt"
	"go/ast"
	"go/constant"
	"go/parser"
	"go/token"
	"go/types"
	"os"
	"path/filepath"
	"sort"
	"strings"
)

type fakeImporter struct{ pkgs map[string]*types.Package }

func (f *fakeImporter) Import(path string) (*types.Package, error) {
	if p, ok := f.pkgs[path]; ok {
		return p, nil
	}
	name := path[strings.LastIndex(path, "/")+1:]
	p := types.NewPackage(path, name)
	p.MarkComplete()
	f.pkgs[path] = p
	return p, nil
}

type capForm struct {
	NCPU, Workers, Const int64
	Known                bool
}

type class struct {
	id     int
	allocs []capForm
	name   string
}

type op struct{ Role, Kind, Chan string }

type goFact struct{ From, To, Mult string }

type an struct {
	fset  *token.FileSet
	info  *types.Info
	files []*ast.File
	decls map[*types.Func]*ast.FuncDecl
	// union-find over channel variables
	parent map[*types.Var]*types.Var
	allocs map[*types.Var][]capForm
	// single-definition locals, for the capacity evaluator
	defs map[*types.Var]ast.Expr
	// fields set by the option constructors
	workersField, depthField, handlerField *types.Var
	// walk results
	events     []event
	gos        []rawGo
	visited    map[string]bool
	taskCalls  map[string]int
	taskUnder  map[string]int
	entryRoles map[*types.Func]string
	problems   []string
}

type event struct {
	role, kind string
	ch         *types.Var // nil for taskCall
	under      bool
}

type rawGo struct {
	from   string
	target *types.Func
	mult   string
}

func main() {
	if len(os.Args) != 3 {
		fmt.Fprintln(os.Stderr, "usage: c15facts <repo> <out.lean>")
		os.Exit(2)
	}
	repo, out := os.Args[1], os.Args[2]
	a := &an{fset: token.NewFileSet(), parent: map[*types.Var]*types.Var{}, allocs: map[*types.Var][]capForm{},
		defs: map[*types.Var]ast.Expr{}, decls: map[*types.Func]*ast.FuncDecl{}, visited: map[string]bool{},
		taskCalls: map[string]int{}, taskUnder: map[string]int{}, entryRoles: map[*types.Func]string{}}
	if err := a.load(filepath.Join(repo, "taskqueue")); err != nil {
		fmt.Fprintln(os.Stderr, "c15facts:", err)
		os.Exit(1)
	}
	a.optionFields()
	a.unify()
	a.walkAll()
	rec := recoveryFacts(filepath.Join(repo, "errs"))
	txt, summary := a.render(rec)
	if err := os.WriteFile(out, []byte(txt), 0o644); err != nil {
		fmt.Fprintln(os.Stderr, "c15facts:", err)
		os.Exit(1)
	}
	js, _ := json.Marshal(summary)
	fmt.Println(string(js))
}

func (a *an) load(dir string) error {
	ents, err := os.ReadDir(dir)
	if err != nil {
		return err
	}
	for _, e := range ents {
		n := e.Name()
		if !strings.HasSuffix(n, ".go") || strings.HasSuffix(n, "_test.go") {
			continue
		}
		src, err := os.ReadFile(filepath.Join(dir, n))
		if err != nil {
			return err
		}
		if strings.Contains(string(src), "//go:build verif") {
			continue
		}
		f, err := parser.ParseFile(a.fset, filepath.Join(dir, n), src, parser.SkipObjectResolution)
		if err != nil {
			return err
		}
		a.files = append(a.files, f)
	}
	if len(a.files) == 0 {
		return fmt.Errorf("no Go files in %s", dir)
	}
	a.info = &types.Info{Types: map[ast.Expr]types.TypeAndValue{}, Defs: map[*ast.Ident]types.Object{},
		Uses: map[*ast.Ident]types.Object{}, Selections: map[*ast.SelectorExpr]*types.Selection{}}
	conf := types.Config{Importer: &fakeImporter{pkgs: map[string]*types.Package{}}, Error: func(error) {}}
	_, _ = conf.Check("taskqueue", a.fset, a.files, a.info)
	for _, f := range a.files {
		for _, d := range f.Decls {
			if fd, ok := d.(*ast.FuncDecl); ok && fd.Body != nil {
				if fn, ok := a.info.Defs[fd.Name].(*types.Func); ok {
					a.decls[fn] = fd
				}
			}
		}
	}
	return nil
}

// ---- helpers over expressions

func unparen(e ast.Expr) ast.Expr {
	for {
		p, ok := e.(*ast.ParenExpr)
		if !ok {
			return e
		}
		e = p.X
	}
}

// varOf resolves an expression to the variable (local, parameter or struct field) it denotes
func (a *an) varOf(e ast.Expr) *types.Var {
	switch x := unparen(e).(type) {
	case *ast.Ident:
		if o, ok := a.info.Uses[x].(*types.Var); ok {
			return o
		}
		if o, ok := a.info.Defs[x].(*types.Var); ok {
			return o
		}
	case *ast.SelectorExpr:
		if s, ok := a.info.Selections[x]; ok {
			if v, ok := s.Obj().(*types.Var); ok {
				return v
			}
		}
	}
	return nil
}

func (a *an) isChan(e ast.Expr) bool {
	t := a.info.TypeOf(e)
	if t == nil {
		return false
	}
	_, ok := t.Underlying().(*types.Chan)
	return ok
}

func isChanVar(v *types.Var) bool {
	if v == nil || v.Type() == nil {
		return false
	}
	_, ok := v.Type().Underlying().(*types.Chan)
	return ok
}

func (a *an) find(v *types.Var) *types.Var {
	for {
		p, ok := a.parent[v]
		if !ok || p == v {
			return v
		}
		v = p
	}
}

func (a *an) union(x, y *types.Var) {
	if x == nil || y == nil {
		return
	}
	rx, ry := a.find(x), a.find(y)
	if rx != ry {
		a.parent[rx] = ry
	}
}

// calleeOf resolves the static callee of a call (package-level function or method of the package)
func (a *an) calleeOf(c *ast.CallExpr) *types.Func {
	return a.funcOf(c.Fun, 0)
}

// funcOf resolves an expression to the package function or method it denotes, looking through method values and
// function-typed locals with a single definition (`f := d.accept; f(t)`)
func (a *an) funcOf(e ast.Expr, depth int) *types.Func {
	if depth > 4 {
		return nil
	}
	switch f := unparen(e).(type) {
	case *ast.Ident:
		if fn, ok := a.info.Uses[f].(*types.Func); ok {
			return fn
		}
		if v, ok := a.info.Uses[f].(*types.Var); ok && !v.IsField() {
			if d, ok := a.defs[v]; ok && d != nil {
				return a.funcOf(d, depth+1)
			}
		}
	case *ast.SelectorExpr:
		if s, ok := a.info.Selections[f]; ok {
			if fn, ok := s.Obj().(*types.Func); ok {
				return fn
			}
		}
	}
	return nil
}

func (a *an) isBuiltin(c *ast.CallExpr, name string) bool {
	id, ok := unparen(c.Fun).(*ast.Ident)
	if !ok || id.Name != name {
		return false
	}
	_, isB := a.info.Uses[id].(*types.Builtin)
	return isB
}

// qualified reports whether e is <pkg>.<name> with pkg an import whose path ends in suffix
func (a *an) qualified(e ast.Expr, suffix, name string) bool {
	s, ok := unparen(e).(*ast.SelectorExpr)
	if !ok || s.Sel.Name != name {
		return false
	}
	id, ok := s.X.(*ast.Ident)
	if !ok {
		return false
	}
	pn, ok := a.info.Uses[id].(*types.PkgName)
	if !ok {
		return false
	}
	p := pn.Imported().Path()
	return p == suffix || strings.HasSuffix(p, "/"+suffix)
}

// ---- option constructors: which field is Workers / Depth / RecoveryHandler

func (a *an) optionFields() {
	for fn, fd := range a.decls {
		if fd.Recv != nil {
			continue
		}
		var dst **types.Var
		switch fn.Name() {
		case "Workers":
			dst = &a.workersField
		case "Depth":
			dst = &a.depthField
		case "RecoveryHandler":
			dst = &a.handlerField
		default:
			continue
		}
		if fd.Type.Params == nil || len(fd.Type.Params.List) != 1 || len(fd.Type.Params.List[0].Names) != 1 {
			continue
		}
		param, _ := a.info.Defs[fd.Type.Params.List[0].Names[0]].(*types.Var)
		ast.Inspect(fd.Body, func(n ast.Node) bool {
			as, ok := n.(*ast.AssignStmt)
			if !ok || len(as.Lhs) != 1 || len(as.Rhs) != 1 {
				return true
			}
			if a.varOf(as.Rhs[0]) == param && param != nil {
				if f := a.varOf(as.Lhs[0]); f != nil && f.IsField() {
					*dst = f
				}
			}
			return true
		})
	}
	if a.workersField == nil {
		a.problems = append(a.problems, "no field set by the option Workers")
	}
	if a.handlerField == nil {
		a.problems = append(a.problems, "no field set by the option RecoveryHandler")
	}
}

// ---- channel classes

func (a *an) evalCap(e ast.Expr, depth int) capForm {
	if depth > 8 {
		return capForm{}
	}
	if tv, ok := a.info.Types[e]; ok && tv.Value != nil {
		if v, ok := constant.Int64Val(constant.ToInt(tv.Value)); ok && v >= 0 {
			return capForm{Const: v, Known: true}
		}
	}
	switch x := unparen(e).(type) {
	case *ast.CallExpr:
		if a.qualified(x.Fun, "runtime", "NumCPU") && len(x.Args) == 0 {
			return capForm{NCPU: 1, Known: true}
		}
		// conversions such as int(x)
		if len(x.Args) == 1 {
			if tv, ok := a.info.Types[x.Fun]; ok && tv.IsType() {
				return a.evalCap(x.Args[0], depth+1)
			}
		}
	case *ast.Ident, *ast.SelectorExpr:
		v := a.varOf(x)
		if v == nil {
			return capForm{}
		}
		if v == a.workersField {
			return capForm{Workers: 1, Known: true}
		}
		if d, ok := a.defs[v]; ok && d != nil {
			return a.evalCap(d, depth+1)
		}
	case *ast.BinaryExpr:
		l, r := a.evalCap(x.X, depth+1), a.evalCap(x.Y, depth+1)
		if !l.Known || !r.Known {
			return capForm{}
		}
		switch x.Op {
		case token.ADD:
			return capForm{l.NCPU + r.NCPU, l.Workers + r.Workers, l.Const + r.Const, true}
		case token.MUL:
			if l.NCPU == 0 && l.Workers == 0 {
				return capForm{l.Const * r.NCPU, l.Const * r.Workers, l.Const * r.Const, true}
			}
			if r.NCPU == 0 && r.Workers == 0 {
				return capForm{r.Const * l.NCPU, r.Const * l.Workers, r.Const * l.Const, true}
			}
		}
	}
	return capForm{}
}

func (a *an) makeChan(e ast.Expr) (capForm, bool) {
	c, ok := unparen(e).(*ast.CallExpr)
	if !ok || !a.isBuiltin(c, "make") || len(c.Args) == 0 {
		return capForm{}, false
	}
	if tv, ok := a.info.Types[c.Args[0]]; !ok || !tv.IsType() {
		return capForm{}, false
	} else if _, isCh := tv.Type.Underlying().(*types.Chan); !isCh {
		return capForm{}, false
	}
	if len(c.Args) == 1 {
		return capForm{Known: true}, true
	}
	return a.evalCap(c.Args[1], 0), true
}

func (a *an) bind(lhs *types.Var, rhs ast.Expr) {
	if lhs == nil || !isChanVar(lhs) {
		return
	}
	if cf, ok := a.makeChan(rhs); ok {
		r := a.find(lhs)
		a.allocs[r] = append(a.allocs[r], cf)
		return
	}
	if rv := a.varOf(rhs); rv != nil && isChanVar(rv) {
		a.union(lhs, rv)
	}
}

func (a *an) unify() {
	// single-definition locals first (the capacity evaluator looks through `numCPU := runtime.NumCPU()`)
	count := map[*types.Var]int{}
	for _, f := range a.files {
		ast.Inspect(f, func(n ast.Node) bool {
			if as, ok := n.(*ast.AssignStmt); ok && len(as.Lhs) == len(as.Rhs) {
				for i, l := range as.Lhs {
					if v := a.varOf(l); v != nil && !v.IsField() {
						count[v]++
						a.defs[v] = as.Rhs[i]
					}
				}
			}
			if inc, ok := n.(*ast.IncDecStmt); ok {
				if v := a.varOf(inc.X); v != nil {
					count[v] += 2
				}
			}
			return true
		})
	}
	for v, c := range count {
		if c != 1 {
			delete(a.defs, v)
		}
	}
	// two passes: unions first, then allocation sites attach to the final representatives
	type pending struct {
		v *types.Var
		e ast.Expr
	}
	var binds []pending
	for _, f := range a.files {
		ast.Inspect(f, func(n ast.Node) bool {
			switch x := n.(type) {
			case *ast.AssignStmt:
				if len(x.Lhs) == len(x.Rhs) {
					for i, l := range x.Lhs {
						binds = append(binds, pending{a.varOf(l), x.Rhs[i]})
					}
				}
			case *ast.ValueSpec:
				if len(x.Names) == len(x.Values) {
					for i, nm := range x.Names {
						v, _ := a.info.Defs[nm].(*types.Var)
						binds = append(binds, pending{v, x.Values[i]})
					}
				}
			case *ast.CompositeLit:
				for _, el := range x.Elts {
					if kv, ok := el.(*ast.KeyValueExpr); ok {
						if id, ok := kv.Key.(*ast.Ident); ok {
							if v, ok := a.info.Uses[id].(*types.Var); ok && v.IsField() {
								binds = append(binds, pending{v, kv.Value})
							}
						}
					}
				}
			case *ast.CallExpr:
				if fn := a.calleeOf(x); fn != nil {
					if sig, ok := fn.Type().(*types.Signature); ok {
						for i, arg := range x.Args {
							if i < sig.Params().Len() {
								binds = append(binds, pending{sig.Params().At(i), arg})
							}
						}
					}
				}
			}
			return true
		})
	}
	for _, b := range binds {
		if b.v != nil && isChanVar(b.v) {
			if _, ok := a.makeChan(b.e); !ok {
				a.bind(b.v, b.e)
			}
		}
	}
	for _, b := range binds {
		if b.v != nil && isChanVar(b.v) {
			if _, ok := a.makeChan(b.e); ok {
				a.bind(b.v, b.e)
			}
		}
	}
}

// ---- the walk: roles, events, go statements

type wctx struct {
	role   string
	mult   string // once | cond | perWorker | loop
	fnMult string // multiplicity at the entry of the current function
	// body of the innermost enclosing for loop of the current function (nil outside loops)
	loopBody []ast.Stmt
	fn       *ast.FuncDecl
	// deferred errs.Recovery(handler field) seen so far in the current function
	recov *bool
}

func combine(outer, inner string) string {
	switch {
	case outer == "once":
		return inner
	case inner == "once":
		return outer
	case outer == "unclassified" || inner == "unclassified":
		return "unclassified"
	default:
		return "other"
	}
}

func (a *an) exported(name string, recv bool) *types.Func {
	for fn, fd := range a.decls {
		if fn.Name() == name && (fd.Recv != nil) == recv {
			return fn
		}
	}
	return nil
}

func (a *an) walkAll() {
	for _, e := range []struct {
		name, role string
		recv       bool
	}{{"New", "new", false}, {"Submit", "submit", true}, {"Shutdown", "shutdown", true}} {
		fn := a.exported(e.name, e.recv)
		if fn == nil {
			a.problems = append(a.problems, "no exported "+e.name)
			continue
		}
		a.walkFunc(fn, e.role, "once")
	}
	// goroutines: started from `new` = dispatcher, started from the dispatcher = worker, anything else = extra<k>
	for round := 0; round < 4; round++ {
		progress := false
		for _, g := range a.gos {
			if g.target == nil {
				continue
			}
			if _, ok := a.entryRoles[g.target]; ok {
				continue
			}
			role := ""
			switch g.from {
			case "new":
				role = "dispatcher"
			case "dispatcher":
				role = "worker"
			default:
				role = "extra"
			}
			// a role name is given once; a second entry function for the same role is an extra goroutine kind
			for _, r := range a.entryRoles {
				if r == role {
					role = "extra"
				}
			}
			a.entryRoles[g.target] = role
			a.walkFunc(g.target, role, "once")
			progress = true
			break
		}
		if !progress {
			break
		}
	}
}

func (a *an) walkFunc(fn *types.Func, role, mult string) {
	fd := a.decls[fn]
	if fd == nil {
		return
	}
	key := fmt.Sprintf("%p/%s/%s", fn, role, mult)
	if a.visited[key] {
		return
	}
	a.visited[key] = true
	rec := false
	a.walkBlock(fd.Body.List, wctx{role: role, mult: mult, fnMult: mult, fn: fd, recov: &rec})
}

func (a *an) walkBlock(list []ast.Stmt, c wctx) {
	for _, s := range list {
		a.walkStmt(s, c)
	}
}

// mentionsWorkers: the expression reads the field set by the Workers option
func (a *an) mentionsWorkers(n ast.Node) bool {
	found := false
	if n == nil {
		return false
	}
	ast.Inspect(n, func(m ast.Node) bool {
		if e, ok := m.(ast.Expr); ok {
			if v := a.varOf(e); v != nil && v == a.workersField {
				found = true
			}
		}
		return !found
	})
	return found
}

func (a *an) isWorkers(e ast.Expr) bool {
	v := a.varOf(e)
	if v != nil && v == a.workersField {
		return true
	}
	if v != nil {
		if d, ok := a.defs[v]; ok && d != nil { // n := q.workers
			return a.isWorkers(d)
		}
	}
	return false
}

func (a *an) constIs(e ast.Expr, k int64) bool {
	if tv, ok := a.info.Types[e]; ok && tv.Value != nil {
		if v, ok := constant.Int64Val(constant.ToInt(tv.Value)); ok {
			return v == k
		}
	}
	return false
}

// loopMult: does the loop run exactly Workers times?  Recognised: `for range W`, `for i := range W`, counting up
// `i := 0; i < W | i != W; i++`, `i := 1; i <= W; i++`, counting down `n := W; n > 0 | n != 0 | n >= 1; n--`.  A loop whose
// header reads the Workers field in some other way is `unclassified` (no statement is made about it; listed in the
// evidence); any other loop is `loop`.
func (a *an) loopMult(s ast.Stmt) string {
	switch x := s.(type) {
	case *ast.ForStmt:
		as, okI := x.Init.(*ast.AssignStmt)
		b, okC := x.Cond.(*ast.BinaryExpr)
		inc, okP := x.Post.(*ast.IncDecStmt)
		if okI && okC && okP && len(as.Lhs) == 1 && len(as.Rhs) == 1 {
			iv := a.varOf(as.Lhs[0])
			if iv != nil && a.varOf(inc.X) == iv && a.varOf(b.X) == iv {
				up := inc.Tok == token.INC
				switch {
				case up && a.constIs(as.Rhs[0], 0) && (b.Op == token.LSS || b.Op == token.NEQ) && a.isWorkers(b.Y):
					return "perWorker"
				case up && a.constIs(as.Rhs[0], 1) && b.Op == token.LEQ && a.isWorkers(b.Y):
					return "perWorker"
				case !up && a.isWorkers(as.Rhs[0]) && (b.Op == token.GTR || b.Op == token.NEQ) && a.constIs(b.Y, 0):
					return "perWorker"
				case !up && a.isWorkers(as.Rhs[0]) && b.Op == token.GEQ && a.constIs(b.Y, 1):
					return "perWorker"
				}
			}
		}
		if a.mentionsWorkers(x.Init) || a.mentionsWorkers(x.Cond) {
			return "unclassified"
		}
	case *ast.RangeStmt:
		if a.isWorkers(x.X) {
			return "perWorker"
		}
		if a.mentionsWorkers(x.X) {
			return "unclassified"
		}
	}
	return "loop"
}

func endsLoop(list []ast.Stmt) bool {
	if len(list) == 0 {
		return false
	}
	switch x := list[len(list)-1].(type) {
	case *ast.ReturnStmt:
		return true
	case *ast.BranchStmt:
		return x.Tok == token.BREAK || x.Tok == token.GOTO
	}
	return false
}

// leavesLoopWhenClosed: some statement of the loop body is `if !ok { …; return|break }` (or `if ok { … } else { … return|break }`)
func (a *an) leavesLoopWhenClosed(body []ast.Stmt, okv *types.Var) bool {
	for _, s := range body {
		is, isIf := s.(*ast.IfStmt)
		if !isIf {
			continue
		}
		switch cnd := unparen(is.Cond).(type) {
		case *ast.UnaryExpr:
			if cnd.Op == token.NOT && a.varOf(cnd.X) == okv && endsLoop(is.Body.List) {
				return true
			}
		case *ast.Ident:
			if els, ok := is.Else.(*ast.BlockStmt); ok && a.varOf(cnd) == okv && endsLoop(els.List) {
				return true
			}
		case *ast.BinaryExpr:
			if tv, ok := a.info.Types[cnd.Y]; ok && tv.Value != nil && tv.Value.Kind() == constant.Bool && a.varOf(cnd.X) == okv {
				isFalse := !constant.BoolVal(tv.Value)
				if ((cnd.Op == token.EQL && isFalse) || (cnd.Op == token.NEQ && !isFalse)) && endsLoop(is.Body.List) {
					return true
				}
			}
		}
	}
	return false
}

func (a *an) emit(c wctx, kind string, ch ast.Expr) {
	v := a.varOf(ch)
	if v == nil {
		a.problems = append(a.problems, fmt.Sprintf("%s: channel expression of a %s not resolved (%s)", c.role, kind,
			a.fset.Position(ch.Pos())))
	}
	a.events = append(a.events, event{role: c.role, kind: kind, ch: v})
}

// commKind: s is the Comm of a clause of sel
func selectShape(sel *ast.SelectStmt) (comms int, hasDefault bool) {
	for _, cl := range sel.Body.List {
		if cc, ok := cl.(*ast.CommClause); ok {
			if cc.Comm == nil {
				hasDefault = true
			} else {
				comms++
			}
		}
	}
	return
}

func (a *an) walkStmt(s ast.Stmt, c wctx) {
	switch x := s.(type) {
	case nil:
	case *ast.BlockStmt:
		a.walkBlock(x.List, c)
	case *ast.LabeledStmt:
		a.walkStmt(x.Stmt, c)
	case *ast.ExprStmt:
		a.walkExpr(x.X, c)
	case *ast.SendStmt:
		a.walkExpr(x.Value, c)
		a.emit(c, "send", x.Chan)
	case *ast.AssignStmt:
		if len(x.Lhs) == 2 && len(x.Rhs) == 1 {
			if u, ok := unparen(x.Rhs[0]).(*ast.UnaryExpr); ok && u.Op == token.ARROW && c.loopBody != nil {
				if okv := a.varOf(x.Lhs[1]); okv != nil && a.leavesLoopWhenClosed(c.loopBody, okv) {
					// `for { v, ok := <-ch; if !ok { return } … }` is `for v := range ch { … }`: receive until closed
					a.emit(c, "rangeRecv", u.X)
					return
				}
			}
		}
		for _, r := range x.Rhs {
			a.walkExpr(r, c)
		}
		for _, l := range x.Lhs {
			a.walkExpr(l, c)
		}
	case *ast.DeclStmt:
		if gd, ok := x.Decl.(*ast.GenDecl); ok {
			for _, sp := range gd.Specs {
				if vs, ok := sp.(*ast.ValueSpec); ok {
					for _, v := range vs.Values {
						a.walkExpr(v, c)
					}
				}
			}
		}
	case *ast.IncDecStmt:
		a.walkExpr(x.X, c)
	case *ast.ReturnStmt:
		for _, r := range x.Results {
			a.walkExpr(r, c)
		}
	case *ast.IfStmt:
		a.walkStmt(x.Init, c)
		a.walkExpr(x.Cond, c)
		ci := c
		ci.mult = combine(c.mult, "cond")
		a.walkBlock(x.Body.List, ci)
		a.walkStmt(x.Else, ci)
	case *ast.ForStmt:
		a.walkStmt(x.Init, c)
		if x.Cond != nil {
			a.walkExpr(x.Cond, c)
		}
		ci := c
		ci.mult = combine(c.mult, a.loopMult(x))
		ci.loopBody = x.Body.List
		a.walkBlock(x.Body.List, ci)
		a.walkStmt(x.Post, ci)
	case *ast.RangeStmt:
		ci := c
		ci.loopBody = x.Body.List
		if a.isChan(x.X) {
			a.emit(c, "rangeRecv", x.X)
			ci.mult = combine(c.mult, "loop")
		} else {
			a.walkExpr(x.X, c)
			ci.mult = combine(c.mult, a.loopMult(x))
		}
		a.walkBlock(x.Body.List, ci)
	case *ast.SwitchStmt:
		a.walkStmt(x.Init, c)
		if x.Tag != nil {
			a.walkExpr(x.Tag, c)
		}
		ci := c
		ci.mult = combine(c.mult, "cond")
		for _, cl := range x.Body.List {
			if cc, ok := cl.(*ast.CaseClause); ok {
				for _, e := range cc.List {
					a.walkExpr(e, ci)
				}
				a.walkBlock(cc.Body, ci)
			}
		}
	case *ast.TypeSwitchStmt:
		ci := c
		ci.mult = combine(c.mult, "cond")
		for _, cl := range x.Body.List {
			if cc, ok := cl.(*ast.CaseClause); ok {
				a.walkBlock(cc.Body, ci)
			}
		}
	case *ast.SelectStmt:
		comms, def := selectShape(x)
		suffix := ""
		switch {
		case def:
			suffix = "NB"
		case comms > 1:
			suffix = "Sel"
		}
		ci := c
		ci.mult = combine(c.mult, "cond")
		for _, cl := range x.Body.List {
			cc, ok := cl.(*ast.CommClause)
			if !ok {
				continue
			}
			switch cm := cc.Comm.(type) {
			case *ast.SendStmt:
				a.walkExpr(cm.Value, c)
				a.emit(c, "send"+suffix, cm.Chan)
			case *ast.ExprStmt:
				if u, ok := unparen(cm.X).(*ast.UnaryExpr); ok && u.Op == token.ARROW {
					a.emit(c, "recv"+suffix, u.X)
				}
			case *ast.AssignStmt:
				if len(cm.Rhs) == 1 {
					if u, ok := unparen(cm.Rhs[0]).(*ast.UnaryExpr); ok && u.Op == token.ARROW {
						a.emit(c, "recv"+suffix, u.X)
					}
				}
			}
			a.walkBlock(cc.Body, ci)
		}
	case *ast.GoStmt:
		for _, arg := range x.Call.Args {
			a.walkExpr(arg, c)
		}
		a.gos = append(a.gos, rawGo{from: c.role, target: a.calleeOf(x.Call), mult: c.mult})
	case *ast.DeferStmt:
		for _, arg := range x.Call.Args {
			a.walkExpr(arg, c)
		}
		if a.qualified(x.Call.Fun, "errs", "Recovery") && len(x.Call.Args) == 1 {
			// counts only when it is installed unconditionally (at the top level of its function)
			if v := a.varOf(x.Call.Args[0]); v != nil && v == a.handlerField && c.mult == c.fnMult {
				*c.recov = true
			}
		} else if fn := a.calleeOf(x.Call); fn != nil {
			a.walkFunc(fn, c.role, combine(c.mult, "once"))
		} else if fl, ok := unparen(x.Call.Fun).(*ast.FuncLit); ok {
			a.walkBlock(fl.Body.List, c)
		}
	}
}

func (a *an) isTaskCall(call *ast.CallExpr) bool {
	if a.calleeOf(call) != nil {
		return false
	}
	t := a.info.TypeOf(call.Fun)
	if t == nil {
		return false
	}
	if n, ok := t.(*types.Named); ok && n.Obj().Name() == "Task" && n.Obj().Pkg() != nil && n.Obj().Pkg().Name() == "taskqueue" {
		return true
	}
	return false
}

func (a *an) walkExpr(e ast.Expr, c wctx) {
	if e == nil {
		return
	}
	ast.Inspect(e, func(n ast.Node) bool {
		switch x := n.(type) {
		case *ast.FuncLit:
			return false // a closure value: not executed here (immediately called literals are handled at the call)
		case *ast.UnaryExpr:
			if x.Op == token.ARROW {
				a.emit(c, "recv", x.X)
			}
		case *ast.CallExpr:
			if a.isBuiltin(x, "close") && len(x.Args) == 1 && a.isChan(x.Args[0]) {
				a.emit(c, "close", x.Args[0])
				return false
			}
			if a.isTaskCall(x) {
				a.events = append(a.events, event{role: c.role, kind: "taskCall", under: *c.recov})
				a.taskCalls[c.role]++
				if *c.recov {
					a.taskUnder[c.role]++
				}
				return true
			}
			if fl, ok := unparen(x.Fun).(*ast.FuncLit); ok {
				for _, arg := range x.Args {
					a.walkExpr(arg, c)
				}
				a.walkBlock(fl.Body.List, c)
				return false
			}
			if fn := a.calleeOf(x); fn != nil {
				for _, arg := range x.Args {
					a.walkExpr(arg, c)
				}
				if s, ok := unparen(x.Fun).(*ast.SelectorExpr); ok {
					a.walkExpr(s.X, c)
				}
				a.walkFunc2(fn, c)
				return false
			}
		}
		return true
	})
}

// walkFunc2: a static call inside role c.role — the callee's events belong to the same role, in call order.  A callee is
// expanded once per (role, multiplicity): the event SETS and the go statements are complete, the sequences of the small
// roles (no function is called twice there) are exact.
func (a *an) walkFunc2(fn *types.Func, c wctx) {
	a.walkFunc(fn, c.role, c.mult)
}

// ---- errs.Recovery

type recFacts struct {
	Found          bool
	RecoverDirect  int // calls of the builtin recover() in Recovery's own frame (not inside a function literal)
	RecoverNested  int // calls of recover() inside function literals of Recovery (these would not stop the panic)
	HandlerCalls   int // calls of the parameter
	GuardBefore    bool
	HandlerInDefer bool
}

func recoveryFacts(dir string) recFacts {
	var r recFacts
	fset := token.NewFileSet()
	ents, err := os.ReadDir(dir)
	if err != nil {
		return r
	}
	for _, e := range ents {
		n := e.Name()
		if !strings.HasSuffix(n, ".go") || strings.HasSuffix(n, "_test.go") {
			continue
		}
		f, err := parser.ParseFile(fset, filepath.Join(dir, n), nil, 0)
		if err != nil {
			continue
		}
		for _, d := range f.Decls {
			fd, ok := d.(*ast.FuncDecl)
			if !ok || fd.Recv != nil || fd.Name.Name != "Recovery" || fd.Body == nil {
				continue
			}
			if fd.Type.Params == nil || len(fd.Type.Params.List) != 1 || len(fd.Type.Params.List[0].Names) != 1 {
				continue
			}
			r.Found = true
			param := fd.Type.Params.List[0].Names[0].Name
			guardPos := token.NoPos
			var visit func(n ast.Node, nested bool)
			visit = func(n ast.Node, nested bool) {
				ast.Inspect(n, func(m ast.Node) bool {
					switch x := m.(type) {
					case *ast.FuncLit:
						if m != n {
							visit(x.Body, true)
							return false
						}
					case *ast.DeferStmt:
						if id, ok := x.Call.Fun.(*ast.Ident); ok && id.Name == "Recovery" && !nested {
							if guardPos == token.NoPos {
								guardPos = x.Pos()
							}
							return false
						}
						if id, ok := x.Call.Fun.(*ast.Ident); ok && id.Name == param {
							r.HandlerInDefer = true
						}
					case *ast.CallExpr:
						if id, ok := x.Fun.(*ast.Ident); ok {
							if id.Name == "recover" && id.Obj == nil {
								if nested {
									r.RecoverNested++
								} else {
									r.RecoverDirect++
								}
							}
							if id.Name == param {
								r.HandlerCalls++
								if guardPos != token.NoPos && guardPos < x.Pos() {
									r.GuardBefore = true
								}
							}
						}
					}
					return true
				})
			}
			visit(fd.Body, false)
		}
	}
	return r
}

// ---- output

func leanCap(c capForm) string {
	return fmt.Sprintf("{ ncpu := %d, workers := %d, const := %d, known := %v }", c.NCPU, c.Workers, c.Const, c.Known)
}

func (a *an) render(rec recFacts) (string, map[string]any) {
	// name the classes by what the API does with them
	roleOf := map[*types.Var]string{}
	name := func(role, kindPrefix, nm string) {
		var found []*types.Var
		for _, e := range a.events {
			if e.role == role && e.ch != nil && strings.HasPrefix(e.kind, kindPrefix) {
				r := a.find(e.ch)
				dup := false
				for _, f := range found {
					if f == r {
						dup = true
					}
				}
				if !dup {
					found = append(found, r)
				}
			}
		}
		if len(found) != 1 {
			a.problems = append(a.problems, fmt.Sprintf("channel `%s` is not determined: %d candidates", nm, len(found)))
			return
		}
		if old, ok := roleOf[found[0]]; ok && old != nm {
			a.problems = append(a.problems, fmt.Sprintf("channels `%s` and `%s` are one channel", old, nm))
			return
		}
		roleOf[found[0]] = nm
	}
	name("submit", "send", "in_")
	name("shutdown", "recv", "done")
	name("worker", "r", "tasks") // recv… / rangeRecv
	name("worker", "send", "ready")
	others := 0
	chName := func(v *types.Var) string {
		if v == nil {
			return "unresolved"
		}
		r := a.find(v)
		if n, ok := roleOf[r]; ok {
			return n
		}
		others++
		return "other"
	}
	roleName := func(r string) string {
		switch r {
		case "new":
			return "new_"
		}
		return r
	}
	// operations: set, and sequences of the small roles
	set := map[op]bool{}
	seq := map[string][]string{}
	for _, e := range a.events {
		if e.kind == "taskCall" {
			k := ".taskCall " + fmt.Sprint(e.under)
			seq[e.role] = append(seq[e.role], k)
			continue
		}
		o := op{roleName(e.role), e.kind, chName(e.ch)}
		set[o] = true
		seq[e.role] = append(seq[e.role], fmt.Sprintf(".op .%s .%s", e.kind, o.Chan))
	}
	var ops []op
	for o := range set {
		ops = append(ops, o)
	}
	sort.Slice(ops, func(i, j int) bool {
		if ops[i].Role != ops[j].Role {
			return ops[i].Role < ops[j].Role
		}
		if ops[i].Chan != ops[j].Chan {
			return ops[i].Chan < ops[j].Chan
		}
		return ops[i].Kind < ops[j].Kind
	})
	// channels
	type chanRow struct {
		Name string
		Caps []capForm
	}
	rows := map[string]*chanRow{}
	for v, cs := range a.allocs {
		n := chName(v)
		if rows[n] == nil {
			rows[n] = &chanRow{Name: n}
		}
		rows[n].Caps = append(rows[n].Caps, cs...)
	}
	var names []string
	for n := range rows {
		names = append(names, n)
	}
	sort.Strings(names)
	// go statements
	var gos []goFact
	for _, g := range a.gos {
		to := "unknown"
		if g.target != nil {
			if r, ok := a.entryRoles[g.target]; ok {
				to = r
			}
		}
		gos = append(gos, goFact{roleName(g.from), to, g.mult})
	}
	sort.Slice(gos, func(i, j int) bool {
		return gos[i].From+gos[i].To+gos[i].Mult < gos[j].From+gos[j].To+gos[j].Mult
	})

	var b strings.Builder
	b.WriteString("import Model.TaskQueueChan\n")
	b.WriteString("/-! GENERATED by go/cmd/c15facts from taskqueue/*.go and errs/*.go of the working tree — deleted and\n")
	b.WriteString("    regenerated on every run of ./check C15 (vlib/C15.py); do not edit.  The vocabulary is Model/TaskQueueChan.lean. -/\n")
	b.WriteString("namespace C15Facts\nopen TQChan\n\n")
	b.WriteString("/-- channels by allocation site: name (by what the API does with the channel), capacity as a linear form -/\n")
	b.WriteString("def chans : List (Chan × Cap) := [\n")
	first := true
	for _, n := range names {
		for _, c := range rows[n].Caps {
			if !first {
				b.WriteString(",\n")
			}
			first = false
			fmt.Fprintf(&b, "  (.%s, %s)", n, leanCap(c))
		}
	}
	b.WriteString("]\n\n/-- every channel operation of the package, as the set of (goroutine role, kind, channel) -/\n")
	b.WriteString("def ops : List (Role × Kind × Chan) := [\n")
	for i, o := range ops {
		if i > 0 {
			b.WriteString(",\n")
		}
		fmt.Fprintf(&b, "  (.%s, .%s, .%s)", o.Role, o.Kind, o.Chan)
	}
	b.WriteString("]\n\n/-- `go` statements: spawning role, role of the started goroutine, multiplicity -/\n")
	b.WriteString("def gos : List (Role × Role × Mult) := [\n")
	for i, g := range gos {
		if i > 0 {
			b.WriteString(",\n")
		}
		fmt.Fprintf(&b, "  (.%s, .%s, .%s)", g.From, g.To, g.Mult)
	}
	b.WriteString("]\n\n")
	for _, r := range []string{"submit", "shutdown", "worker"} {
		fmt.Fprintf(&b, "/-- what role `%s` does, in source order (static calls inlined) -/\ndef %sSeq : List Ev := [%s]\n\n", r, r,
			strings.Join(seq[r], ", "))
	}
	fmt.Fprintf(&b, "/-- dynamic calls of a value of type Task, per role -/\n")
	for _, r := range []string{"new", "submit", "shutdown", "dispatcher", "worker", "extra"} {
		fmt.Fprintf(&b, "def taskCalls_%s : Nat := %d\n", r, a.taskCalls[r])
	}
	fmt.Fprintf(&b, "/-- … of which preceded, in the same function, by `defer errs.Recovery(<the field set by RecoveryHandler>)` -/\n")
	fmt.Fprintf(&b, "def taskCallsUnderRecovery_worker : Nat := %d\n\n", a.taskUnder["worker"])
	fmt.Fprintf(&b, "/-- errs.Recovery -/\ndef recoveryFound : Bool := %v\ndef recoverDirect : Nat := %d\ndef recoverNested : Nat := %d\n"+
		"def handlerCalls : Nat := %d\ndef guardBeforeHandler : Bool := %v\n\n", rec.Found, rec.RecoverDirect, rec.RecoverNested,
		rec.HandlerCalls, rec.GuardBefore)
	fmt.Fprintf(&b, "/-- things the extractor could not resolve (must be 0) -/\ndef problems : Nat := %d\n\nend C15Facts\n", len(a.problems))

	caps := map[string][]capForm{}
	for _, n := range names {
		caps[n] = rows[n].Caps
	}
	summary := map[string]any{"ops": len(ops), "chans": names, "caps": caps, "gos": gos, "problems": a.problems, "recovery": rec,
		"taskCalls": a.taskCalls, "taskCallsUnderRecovery": a.taskUnder, "opsList": ops}
	return b.String(), summary
}
