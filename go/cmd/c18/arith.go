// Area arith: the remaining loop-free methods of the anchored files point.go, size.go and rect.go — Point Add / Sub /
// Mul / Div / Neg / Dot / Cross / Floor / Ceil / EqualWithin, Size Add / Sub / Mul / Div / Floor / Ceil / Min / Max /
// ConstrainForHint, Rect.Center / Align, ConvertPoint / ConvertSize / ConvertRect — at Go int (`ai`) and at float64
// (`af`, exact dyadic values so that every operation of the source is exact), compared with Model/GeomExt.lean.
// Go's integer division by zero panics (the model answers `panic`), the float one gives ±Inf / NaN (printed as such).
// Inputs on which Go int arithmetic would wrap are not generated.
package main

import (
	"math"
	"strings"

	"github.com/richardwilkes/toolbox/xmath/geom"
	"verifharness/cmd/c18/gx"
	"verifharness/hx"
)

type arithArea struct{}

var arithOps = []string{"padd", "psub", "pmul", "pdiv", "pdiv", "pneg", "pdot", "pcross", "pfloor", "pceil", "peqw", "peqw",
	"sadd", "ssub", "smul", "sdiv", "sdiv", "sfloor", "sceil", "smin", "smax", "shint", "shint", "shint", "rcenter", "ralign",
	"ralign", "conv"}

// fval is a dyadic rational k/2^j as a word
func fval(r *hx.Rng) string {
	switch r.Intn(10) {
	case 0:
		return "0"
	case 1:
		return hx.Pick(r, []string{"1", "-1", "1/2", "-1/2", "7/8", "9/8", "-7/8", "2"})
	case 2: // a large value with a fraction: 2^40 ± k + 1/2
		return gx.Dy((int64(1)<<41+2*int64(r.Range(-3, 3))+1)*int64(1-2*r.Intn(2)), 1)
	default:
		return gx.Dy(int64(r.Range(-4096, 4096)), uint(r.Intn(4)))
	}
}

// ival is an int word; wide also yields values up to ±2^61 (sums and differences of two stay inside int64)
func ival(r *hx.Rng, wide bool) int64 {
	switch r.Intn(8) {
	case 0:
		return 0
	case 1:
		return int64(1 - 2*r.Intn(2))
	case 2:
		if wide {
			return (int64(1)<<uint(r.Range(31, 61)) + int64(r.Range(-2, 2))) * int64(1-2*r.Intn(2))
		}
	}
	return int64(r.Range(-60, 60))
}

func (arithArea) Gen(r *hx.Rng, n int, _ string, emit func(string)) {
	for i := 0; i < n; i++ {
		op := hx.Pick(r, arithOps)
		isF := r.Bool()
		kind := "ai"
		if isF {
			kind = "af"
		}
		num := func(wide bool) string {
			if isF {
				return fval(r)
			}
			return gx.Dy(ival(r, wide), 0)
		}
		if !isF && op != "conv" && r.Chance(1, 6) {
			// kind aw: Go int as it is — the model runs the same arithmetic at Int64 with wrap-around, so operands at
			// the limits of the type and sums / differences / products that overflow ARE generated here
			ext := []string{"9223372036854775807", "-9223372036854775808", "9223372036854775806", "-9223372036854775807",
				"4611686018427387904", "-4611686018427387904", "4611686018427387903", "3037000500", "-3037000500", "2147483648",
				"4294967296", "-1", "1", "0", "2", "-2", "3"}
			cnt := map[string]int{"pmul": 3, "smul": 3, "pdiv": 3, "sdiv": 3, "pneg": 2, "pfloor": 2, "pceil": 2, "sfloor": 2, "sceil": 2, "peqw": 5}[op]
			if cnt == 0 {
				cnt = 4
			}
			w := make([]string, cnt)
			for k := range w {
				if r.Chance(2, 3) {
					w[k] = hx.Pick(r, ext)
				} else {
					w[k] = gx.Dy(ival(r, true), 0)
				}
			}
			emit("aw " + op + " " + strings.Join(w, " "))
			continue
		}
		var w []string
		switch op {
		case "padd", "psub", "sadd", "ssub":
			w = []string{num(true), num(true), num(true), num(true)}
		case "pneg":
			w = []string{num(true), num(true)}
		case "smin", "smax":
			w = []string{num(true), num(true), num(true), num(true)}
			if !isF && r.Chance(1, 6) { // the limits of the type: no arithmetic is done on them
				w[r.Intn(4)] = hx.Pick(r, []string{"9223372036854775807", "-9223372036854775808", "9223372036854775806"})
			}
			if r.Chance(1, 4) { // equal components
				w[2] = w[0]
			}
		case "pdot", "pcross":
			if isF {
				w = []string{gx.Dy(int64(r.Range(-4096, 4096)), uint(r.Intn(4))), fval(r), fval(r), gx.Dy(int64(r.Range(-4096, 4096)), uint(r.Intn(4)))}
				for k := range w { // keep the large values out: products must stay exact
					if len(w[k]) > 9 {
						w[k] = "3/2"
					}
				}
			} else {
				f := func() string { return gx.Dy(int64(r.Range(-(1<<30), 1<<30)), 0) }
				w = []string{num(false), f(), f(), num(false)}
			}
		case "pmul", "smul":
			w = []string{num(false), num(false), num(false)}
			if isF {
				for k := range w {
					if len(w[k]) > 9 {
						w[k] = "-5/4"
					}
				}
			}
		case "pdiv", "sdiv":
			var d string
			switch {
			case r.Chance(1, 10):
				d = "0"
			case isF: // ± a power of two: the quotient of a dyadic value is exact
				e := r.Range(-4, 4)
				k := int64(1 - 2*r.Intn(2))
				if e >= 0 {
					d = gx.Dy(k<<uint(e), 0)
				} else {
					d = gx.Dy(k, uint(-e))
				}
			default:
				d = gx.Dy(int64(hx.Pick(r, []int{1, -1, 2, -2, 3, -3, 7, -7, 10, 60, -64})), 0)
			}
			w = []string{num(true), num(true), d}
		case "pfloor", "pceil", "sfloor", "sceil":
			w = []string{num(true), num(true)}
		case "peqw":
			// distances at, just below and just above the tolerance (also zero and negative tolerances)
			a, b := int64(r.Range(-40, 40)), int64(r.Range(-40, 40))
			tol := int64(r.Range(-2, 24))
			dx := tol + int64(r.Range(-1, 1))
			dy := int64(r.Range(0, int(max(tol, 0))+1))
			if r.Bool() {
				dx, dy = dy, dx
			}
			if r.Bool() {
				dx = -dx
			}
			if r.Bool() {
				dy = -dy
			}
			var j uint
			if isF {
				j = uint(r.Intn(4))
			}
			w = []string{gx.Dy(a, j), gx.Dy(b, j), gx.Dy(a+dx, j), gx.Dy(b+dy, j), gx.Dy(tol, j)}
		case "shint":
			// hints around 1 (values below one are ignored), sizes at, just below and just above the hint
			var hints, deltas []string
			if isF {
				hints = []string{"0", "1/2", "7/8", "1", "9/8", "2", "5", "-3", "1023/1024", "1025/1024"}
				deltas = []string{"0", "1/8", "-1/8", "1", "-1", "3"}
			} else {
				hints = []string{"0", "1", "2", "5", "-1", "-3", "9223372036854775807"}
				deltas = []string{"0", "1", "-1", "3"}
			}
			hw, hh := hx.Pick(r, hints), hx.Pick(r, hints)
			near := func(h string) string {
				if r.Chance(1, 3) || len(h) > 9 {
					return num(false)
				}
				if isF {
					return gx.S(gx.F(h) + gx.F(hx.Pick(r, deltas)))
				}
				return gx.Dy(int64(hx.Atoi(h)+hx.Atoi(hx.Pick(r, deltas))), 0)
			}
			w = []string{near(hw), near(hh), hw, hh}
		case "rcenter":
			w = []string{num(true), num(true), num(true), num(true)}
		case "ralign":
			w = []string{num(true), num(true), num(true), num(true)}
		case "conv":
			what := hx.Pick(r, []string{"r", "p", "s"})
			cnt := 2
			if what == "r" {
				cnt = 4
			}
			w = []string{what}
			for k := 0; k < cnt; k++ {
				if isF {
					w = append(w, gx.Dy(int64(r.Range(-4096, 4096)), uint(r.Intn(4))))
				} else {
					w = append(w, gx.Dy(int64(r.Range(-(1<<40), 1<<40)), 0))
				}
			}
			kind = "cif"
			if isF {
				kind = "cfi"
			}
			emit(kind + " " + strings.Join(w, " "))
			continue
		}
		emit(kind + " " + op + " " + strings.Join(w, " "))
	}
}

type anum interface{ ~int | ~float64 }

func arithRun[T anum](op string, v []T, f func(...T) string) string {
	pt := func(p geom.Point[T]) string { return f(p.X, p.Y) }
	sz := func(s geom.Size[T]) string { return f(s.Width, s.Height) }
	need := func(n int) bool { return len(v) == n }
	switch {
	case op == "padd" && need(4):
		return pt(geom.NewPoint(v[0], v[1]).Add(geom.NewPoint(v[2], v[3])))
	case op == "psub" && need(4):
		return pt(geom.NewPoint(v[0], v[1]).Sub(geom.NewPoint(v[2], v[3])))
	case op == "pmul" && need(3):
		return pt(geom.NewPoint(v[0], v[1]).Mul(v[2]))
	case op == "pdiv" && need(3):
		return pt(geom.NewPoint(v[0], v[1]).Div(v[2]))
	case op == "pneg" && need(2):
		return pt(geom.NewPoint(v[0], v[1]).Neg())
	case op == "pdot" && need(4):
		return f(geom.NewPoint(v[0], v[1]).Dot(geom.NewPoint(v[2], v[3])))
	case op == "pcross" && need(4):
		return f(geom.NewPoint(v[0], v[1]).Cross(geom.NewPoint(v[2], v[3])))
	case op == "pfloor" && need(2):
		return pt(geom.NewPoint(v[0], v[1]).Floor())
	case op == "pceil" && need(2):
		return pt(geom.NewPoint(v[0], v[1]).Ceil())
	case op == "peqw" && need(5):
		return b2s(geom.NewPoint(v[0], v[1]).EqualWithin(geom.NewPoint(v[2], v[3]), v[4]))
	case op == "sadd" && need(4):
		return sz(geom.NewSize(v[0], v[1]).Add(geom.NewSize(v[2], v[3])))
	case op == "ssub" && need(4):
		return sz(geom.NewSize(v[0], v[1]).Sub(geom.NewSize(v[2], v[3])))
	case op == "smul" && need(3):
		return sz(geom.NewSize(v[0], v[1]).Mul(v[2]))
	case op == "sdiv" && need(3):
		return sz(geom.NewSize(v[0], v[1]).Div(v[2]))
	case op == "sfloor" && need(2):
		return sz(geom.NewSize(v[0], v[1]).Floor())
	case op == "sceil" && need(2):
		return sz(geom.NewSize(v[0], v[1]).Ceil())
	case op == "smin" && need(4):
		return sz(geom.NewSize(v[0], v[1]).Min(geom.NewSize(v[2], v[3])))
	case op == "smax" && need(4):
		return sz(geom.NewSize(v[0], v[1]).Max(geom.NewSize(v[2], v[3])))
	case op == "shint" && need(4):
		return sz(geom.NewSize(v[0], v[1]).ConstrainForHint(geom.NewSize(v[2], v[3])))
	case op == "rcenter" && need(4):
		return pt(geom.NewRect(v[0], v[1], v[2], v[3]).Center())
	case op == "ralign" && need(4):
		a := geom.NewRect(v[0], v[1], v[2], v[3]).Align()
		return f(a.X, a.Y, a.Width, a.Height)
	}
	return "bad-op"
}

func (arithArea) Run(line string) string {
	f := strings.Fields(line)
	if len(f) < 2 {
		return "bad-op"
	}
	switch f[0] {
	case "ai", "aw":
		return arithRun(f[1], gx.Is(f[2:]), gx.JoinI)
	case "af":
		return arithRun(f[1], gx.Fs(f[2:]), gx.JoinF)
	case "cfi": // float64 -> int
		v := gx.Fs(f[2:])
		switch {
		case f[1] == "r" && len(v) == 4:
			c := geom.ConvertRect[int](geom.NewRect(v[0], v[1], v[2], v[3]))
			return gx.JoinI(c.X, c.Y, c.Width, c.Height)
		case f[1] == "p" && len(v) == 2:
			c := geom.ConvertPoint[int](geom.NewPoint(v[0], v[1]))
			return gx.JoinI(c.X, c.Y)
		case f[1] == "s" && len(v) == 2:
			c := geom.ConvertSize[int](geom.NewSize(v[0], v[1]))
			return gx.JoinI(c.Width, c.Height)
		}
	case "cif": // int -> float64
		v := gx.Is(f[2:])
		for _, x := range v {
			if math.Abs(float64(x)) > 1<<53 {
				return "bad-op"
			}
		}
		switch {
		case f[1] == "r" && len(v) == 4:
			c := geom.ConvertRect[float64](geom.NewRect(v[0], v[1], v[2], v[3]))
			return gx.JoinF(c.X, c.Y, c.Width, c.Height)
		case f[1] == "p" && len(v) == 2:
			c := geom.ConvertPoint[float64](geom.NewPoint(v[0], v[1]))
			return gx.JoinF(c.X, c.Y)
		case f[1] == "s" && len(v) == 2:
			c := geom.ConvertSize[float64](geom.NewSize(v[0], v[1]))
			return gx.JoinF(c.Width, c.Height)
		}
	}
	return "bad-op"
}
