// Package gx holds the exact-number plumbing shared by the C18 and C07 harnesses: float64 values travel as exact
// rationals "n/d" (or "n"), never as decimal roundings, and generated coordinates are small dyadic rationals so that
// every float64 operation of the code under test is exact.
package gx

import (
	"math"
	"math/big"
	"strconv"
	"strings"

	"verifharness/hx"
)

// F parses an exact rational into a float64 and panics when the value is not exactly representable.
func F(s string) float64 {
	q, ok := new(big.Rat).SetString(s)
	if !ok {
		panic("gx: bad rational " + s)
	}
	f, exact := q.Float64()
	if !exact {
		panic("gx: not a float64 " + s)
	}
	return f
}

// S prints a float64 as the exact rational it denotes (both zeros print as 0).
func S(f float64) string {
	if math.IsNaN(f) {
		return "nan"
	}
	if math.IsInf(f, 0) {
		if f > 0 {
			return "+inf"
		}
		return "-inf"
	}
	return new(big.Rat).SetFloat64(f).RatString()
}

// Fs parses a list of rationals.
func Fs(ws []string) []float64 {
	out := make([]float64, len(ws))
	for i, w := range ws {
		out[i] = F(w)
	}
	return out
}

// Is parses a list of ints.
func Is(ws []string) []int {
	out := make([]int, len(ws))
	for i, w := range ws {
		out[i] = hx.Atoi(w)
	}
	return out
}

// Dy prints k/2^j in lowest terms.
func Dy(k int64, j uint) string {
	return new(big.Rat).SetFrac(big.NewInt(k), new(big.Int).Lsh(big.NewInt(1), j)).RatString()
}

// JoinF prints floats separated by blanks.
func JoinF(fs ...float64) string {
	parts := make([]string, len(fs))
	for i, f := range fs {
		parts[i] = S(f)
	}
	return strings.Join(parts, " ")
}

// JoinI prints ints separated by blanks.
func JoinI(is ...int) string {
	parts := make([]string, len(is))
	for i, v := range is {
		parts[i] = strconv.Itoa(v)
	}
	return strings.Join(parts, " ")
}

// RectPair generates two rectangles in grid units (x, y, w, h each) with the relations that matter for the
// predicates: equal, nested, abutting, overlapping, off by one grid unit at an edge, empty / negative sizes, huge.
func RectPair(r *hx.Rng) (a, b [4]int64) {
	size := func() int64 {
		switch r.Intn(12) {
		case 0:
			return 0
		case 1:
			return -int64(r.Range(1, 5))
		case 2, 3:
			return 1
		default:
			return int64(r.Range(1, 12))
		}
	}
	a = [4]int64{int64(r.Range(-8, 8)), int64(r.Range(-8, 8)), size(), size()}
	switch r.Intn(11) {
	case 0:
		b = a
	case 1: // nested (possibly touching edges)
		w, h := a[2], a[3]
		if w < 1 {
			w = 1
		}
		if h < 1 {
			h = 1
		}
		dx := int64(r.Intn(int(w)))
		dy := int64(r.Intn(int(h)))
		b = [4]int64{a[0] + dx, a[1] + dy, int64(r.Range(0, int(w-dx))), int64(r.Range(0, int(h-dy)))}
	case 2: // abutting
		b = [4]int64{a[0], a[1], size(), size()}
		switch r.Intn(4) {
		case 0:
			b[0] = a[0] + a[2]
		case 1:
			b[0] = a[0] - b[2]
		case 2:
			b[1] = a[1] + a[3]
		default:
			b[1] = a[1] - b[3]
		}
		if r.Bool() {
			b[1-r.Intn(2)] += int64(r.Range(-2, 2))
		}
	case 3: // overlapping by a shift
		b = [4]int64{a[0] + int64(r.Range(-4, 4)), a[1] + int64(r.Range(-4, 4)), a[2], a[3]}
	case 4, 5: // one or two edges moved by one grid unit
		b = a
		for n := r.Range(1, 2); n > 0; n-- {
			b[r.Intn(4)] += int64(r.Range(-1, 1))
		}
	case 6: // empty / negative
		b = a
		b[2+r.Intn(2)] = -int64(r.Intn(3))
	case 7: // huge
		b = [4]int64{a[0] - (1 << 30), a[1] - (1 << 30), 1 << 31, 1 << 31}
		if r.Bool() {
			b[0] = a[0]
		}
	case 9, 10: // adjacent along one axis at distance -1, 0 or +1, overlapping on the other axis; sizes of every parity
		w, h := int64(r.Range(1, 9)), int64(r.Range(1, 9))
		a[2], a[3] = int64(r.Range(1, 9)), int64(r.Range(1, 9))
		d := int64(r.Range(-1, 1))
		b = [4]int64{a[0] + a[2] + d, a[1] + int64(r.Range(-2, 2)), w, h}
		switch r.Intn(4) {
		case 1:
			b = [4]int64{a[0] - w - d, a[1] + int64(r.Range(-2, 2)), w, h}
		case 2:
			b = [4]int64{a[0] + int64(r.Range(-2, 2)), a[1] + a[3] + d, w, h}
		case 3:
			b = [4]int64{a[0] + int64(r.Range(-2, 2)), a[1] - h - d, w, h}
		}
	default:
		b = [4]int64{int64(r.Range(-8, 8)), int64(r.Range(-8, 8)), size(), size()}
	}
	if r.Bool() {
		a, b = b, a
	}
	return a, b
}

// PointNear returns a point (grid units) on or next to an edge of the rectangle, or anywhere.
func PointNear(r *hx.Rng, b [4]int64) (x, y int64) {
	pick := func(lo, sz int64) int64 {
		switch r.Intn(8) {
		case 0:
			return lo - 1
		case 1:
			return lo
		case 2:
			return lo + 1
		case 3:
			return lo + sz - 1
		case 4:
			return lo + sz
		case 5:
			return lo + sz + 1
		case 6:
			return lo + sz/2
		default:
			return int64(r.Range(-10, 14))
		}
	}
	return pick(b[0], b[2]), pick(b[1], b[3])
}
