// Area floatspec: an implementation-side oracle (no Lean model) for the "floating-point coordinates" clause of C18 on
// float64 and float32 rectangles whose coordinates are NOT dyadic (k/10, k/3, k/7, sums that round, tiny and large
// magnitudes, negative and zero sizes), where X+Width rounds.  It evaluates the property's own point-set
// specifications with the library's float predicates on the extreme REPRESENTABLE points (math.Nextafter):
//
//	Contains(a,b)   ⇔ ¬b.Empty ∧ the four extreme representable points of b — (b.X | pred(b.Right()),
//	                  b.Y | pred(b.Bottom())) — are In a.   (For floats this is equivalent to "every representable
//	                  point of b is In a": In is a conjunction of per-coordinate interval tests.)
//	Intersects(a,b) ⇔ the candidate point (max of the lefts, max of the tops) is In both.   (If any representable
//	                  point is In both, that one is.)
//	Intersect(a,b)  = the zero Rect exactly when the candidate point is not In both; otherwise its top-left IS the
//	                  candidate point (exact), and its far edges X+Width / Y+Height equal min(rights) / min(bottoms)
//	                  up to the rounding of the recomputed size: |far − min| ≤ one ulp of the largest of |X|, |size|,
//	                  |min| (counted as `far-rounded` when not exact).
//	Union(a,b)      = the other operand / zero Rect exactly when an operand is Empty; otherwise its top-left is
//	                  (min lefts, min tops) exactly — so the near extreme points of both operands are In it — and its
//	                  far edges equal max(rights) / max(bottoms) up to the same rounding (`far-rounded`; `union-short`
//	                  counts the cases where the rounded far edge ends below an operand's, i.e. the operand's last
//	                  representable point is NOT In the union).
//	Empty operands contain and intersect nothing, hold no point, and Intersect with them is the zero Rect.
//	Consistency with a probe point p: Contains(a,b) ∧ p In b → p In a;  p In a ∧ p In b → Intersects(a,b) ∧
//	                  Intersect non-empty ∧ p not left of / above it.
//
// A non-Empty rectangle whose positive size is absorbed (fl(X+Width) == X) has no representable point; the point-set
// reading says nothing about it, such cases are skipped and counted (`absorbed`).
// The far-edge effect is judged strictly only on the op words `fs64s` / `fs32s` (corpus lines of the known finding:
// the operand's last representable point must be In the Union, the Intersect's last representable point In both
// operands); generated cases of the class are counted (`union-short`, `intersect-long`), not failed.
// Values travel as IEEE bit patterns (16 hex digits for float64, 8 for float32).
package main

import (
	"fmt"
	"math"
	"strconv"
	"strings"

	"github.com/richardwilkes/toolbox/xmath/geom"
	"verifharness/hx"
)

type fl interface{ ~float32 | ~float64 }

type flOps[T fl] struct {
	pred, succ func(T) T
	ulp        func(T) T
}

var ops64 = flOps[float64]{
	pred: func(v float64) float64 { return math.Nextafter(v, math.Inf(-1)) },
	succ: func(v float64) float64 { return math.Nextafter(v, math.Inf(1)) },
	ulp: func(v float64) float64 {
		v = math.Abs(v)
		return math.Nextafter(v, math.Inf(1)) - v
	},
}

var ops32 = flOps[float32]{
	pred: func(v float32) float32 { return math.Nextafter32(v, float32(math.Inf(-1))) },
	succ: func(v float32) float32 { return math.Nextafter32(v, float32(math.Inf(1))) },
	ulp: func(v float32) float32 {
		if v < 0 {
			v = -v
		}
		return math.Nextafter32(v, float32(math.Inf(1))) - v
	},
}

func absT[T fl](v T) T {
	if v < 0 {
		return -v
	}
	return v
}

func specCheck[T fl](o flOps[T], strict bool, a, b geom.Rect[T], p geom.Point[T]) string {
	var zero geom.Rect[T]
	tags := map[string]bool{}
	hasPoint := func(r geom.Rect[T]) bool { return !r.Empty() && r.X < r.Right() && r.Y < r.Bottom() }
	fail := func(format string, args ...any) string {
		return "FAIL " + fmt.Sprintf(format, args...) + fmt.Sprintf(" [a=%v b=%v p=%v]", a, b, p)
	}
	// ---- Point.In against an independent evaluation of the property's words (half-open on both axes, nothing is In an
	// empty rectangle): every other check below builds on In
	indepIn := func(q geom.Point[T], r geom.Rect[T]) bool {
		if r.Width <= 0 || r.Height <= 0 {
			return false
		}
		return r.X <= q.X && r.Y <= q.Y && q.X < r.X+r.Width && q.Y < r.Y+r.Height
	}
	for _, r := range []geom.Rect[T]{a, b} {
		for _, q := range []geom.Point[T]{p, geom.NewPoint(r.X, r.Y), geom.NewPoint(o.pred(r.Right()), o.pred(r.Bottom())),
			geom.NewPoint(r.Right(), r.Y), geom.NewPoint(r.X, r.Bottom()), geom.NewPoint(o.pred(r.X), r.Y), geom.NewPoint(r.X, o.pred(r.Y))} {
			if q.In(r) != indepIn(q, r) {
				return fail("%v.In(%v) = %v, independent evaluation %v", q, r, q.In(r), indepIn(q, r))
			}
		}
	}
	// ---- empty operands
	for _, pr := range [][2]geom.Rect[T]{{a, b}, {b, a}} {
		e, x := pr[0], pr[1]
		if e.Empty() {
			if e.Contains(x) || x.Contains(e) || e.Intersects(x) || x.Intersects(e) || p.In(e) {
				return fail("empty rectangle %v contains / intersects / holds something", e)
			}
			if e.Intersect(x) != zero || x.Intersect(e) != zero {
				return fail("Intersect with the empty rectangle %v is not the zero Rect", e)
			}
			if got := e.Union(x); (x.Empty() && got != zero) || (!x.Empty() && got != x) {
				return fail("Union(empty %v, %v) = %v", e, x, got)
			}
			if got := x.Union(e); (x.Empty() && got != zero) || (!x.Empty() && got != x) {
				return fail("Union(%v, empty %v) = %v", x, e, got)
			}
		}
	}
	absorbed := (!a.Empty() && !hasPoint(a)) || (!b.Empty() && !hasPoint(b))
	if absorbed {
		return "ok absorbed"
	}
	// ---- Contains, both directions
	for _, pr := range [][2]geom.Rect[T]{{a, b}, {b, a}, {a, a}, {b, b}} {
		out, in := pr[0], pr[1]
		want := false
		if !in.Empty() {
			want = true
			for _, x := range []T{in.X, o.pred(in.Right())} {
				for _, y := range []T{in.Y, o.pred(in.Bottom())} {
					if !geom.NewPoint(x, y).In(out) {
						want = false
					}
				}
			}
		}
		if got := out.Contains(in); got != want {
			return fail("%v.Contains(%v) = %v, but 'non-empty and every extreme point In' = %v", out, in, got, want)
		}
		if out.Contains(in) && p.In(in) && !p.In(out) {
			return fail("%v.Contains(%v), p In the inner but not In the outer", out, in)
		}
	}
	// ---- Intersects / Intersect
	c := geom.NewPoint(max(a.X, b.X), max(a.Y, b.Y))
	common := c.In(a) && c.In(b)
	if a.Intersects(b) != common || b.Intersects(a) != common {
		return fail("Intersects = %v / %v, but candidate common point %v In both = %v", a.Intersects(b), b.Intersects(a), c, common)
	}
	if p.In(a) && p.In(b) && !common {
		return fail("p In both but the candidate point %v is not", c)
	}
	far := func(what string, x, size, got, want T) string {
		if got == want {
			return ""
		}
		tags["far-rounded"] = true
		tol := o.ulp(max(absT(x), absT(size), absT(want)))
		if absT(got-want) > tol {
			return fail("%s: far edge %v, expected %v within %v", what, got, want, tol)
		}
		return ""
	}
	for _, i := range []geom.Rect[T]{a.Intersect(b), b.Intersect(a)} {
		if !common {
			if i != zero {
				return fail("no common point but Intersect = %v", i)
			}
			continue
		}
		if i.Empty() || i.X != c.X || i.Y != c.Y {
			return fail("common point %v exists but Intersect = %v", c, i)
		}
		if s := far("Intersect right", i.X, i.Width, i.Right(), min(a.Right(), b.Right())); s != "" {
			return s
		}
		if s := far("Intersect bottom", i.Y, i.Height, i.Bottom(), min(a.Bottom(), b.Bottom())); s != "" {
			return s
		}
		if p.In(a) && p.In(b) && (p.X < i.X || p.Y < i.Y) {
			return fail("p In both but left of / above Intersect = %v", i)
		}
		if i.Right() > min(a.Right(), b.Right()) || i.Bottom() > min(a.Bottom(), b.Bottom()) {
			tags["intersect-long"] = true
			if last := geom.NewPoint(o.pred(i.Right()), o.pred(i.Bottom())); strict && !(last.In(a) && last.In(b)) {
				return fail("strict: the last representable point %v of Intersect = %v is not In both operands", last, i)
			}
		}
	}
	// ---- Union of two non-empty rectangles
	if !a.Empty() && !b.Empty() {
		for _, u := range []geom.Rect[T]{a.Union(b), b.Union(a)} {
			if u.X != min(a.X, b.X) || u.Y != min(a.Y, b.Y) || u.Empty() {
				return fail("Union = %v: top-left is not (min lefts, min tops)", u)
			}
			if s := far("Union right", u.X, u.Width, u.Right(), max(a.Right(), b.Right())); s != "" {
				return s
			}
			if s := far("Union bottom", u.Y, u.Height, u.Bottom(), max(a.Bottom(), b.Bottom())); s != "" {
				return s
			}
			if u.Right() < max(a.Right(), b.Right()) || u.Bottom() < max(a.Bottom(), b.Bottom()) {
				tags["union-short"] = true
				for _, r := range []geom.Rect[T]{a, b} {
					if last := geom.NewPoint(o.pred(r.Right()), o.pred(r.Bottom())); strict && !last.In(u) {
						return fail("strict: the last representable point %v of the operand %v is not In Union = %v", last, r, u)
					}
				}
			}
			for _, r := range []geom.Rect[T]{a, b} { // near extreme points are covered exactly
				if r.X < u.X || r.Y < u.Y {
					return fail("Union = %v does not cover the top-left of %v", u, r)
				}
			}
		}
	}
	out := "ok"
	for _, t := range []string{"far-rounded", "union-short", "intersect-long"} {
		if tags[t] {
			out += " " + t
		}
	}
	return out
}

type fspecArea struct{}

func b64(f float64) string { return fmt.Sprintf("%016x", math.Float64bits(f)) }
func b32(f float32) string { return fmt.Sprintf("%08x", math.Float32bits(f)) }

func (fspecArea) Run(line string) string {
	f := strings.Fields(line)
	if len(f) == 0 {
		return "bad-op"
	}
	if out, ok := runPolyFamily(f); ok {
		return out
	}
	if len(f) != 11 {
		return "bad-op"
	}
	switch f[0] {
	case "fs64", "fs64s":
		v := make([]float64, 10)
		for i, w := range f[1:] {
			u, err := strconv.ParseUint(w, 16, 64)
			if err != nil {
				return "bad-op"
			}
			v[i] = math.Float64frombits(u)
		}
		return specCheck(ops64, f[0] == "fs64s", geom.NewRect(v[0], v[1], v[2], v[3]), geom.NewRect(v[4], v[5], v[6], v[7]), geom.NewPoint(v[8], v[9]))
	case "fs32", "fs32s":
		v := make([]float32, 10)
		for i, w := range f[1:] {
			u, err := strconv.ParseUint(w, 16, 32)
			if err != nil {
				return "bad-op"
			}
			v[i] = math.Float32frombits(uint32(u))
		}
		return specCheck(ops32, f[0] == "fs32s", geom.NewRect(v[0], v[1], v[2], v[3]), geom.NewRect(v[4], v[5], v[6], v[7]), geom.NewPoint(v[8], v[9]))
	}
	return "bad-op"
}

func fspecCoord(r *hx.Rng) float64 {
	switch r.Intn(10) {
	case 0:
		return float64(r.Range(-300, 600)) / 10
	case 1:
		return float64(r.Range(-100, 200)) / 3
	case 2:
		return float64(r.Range(-100, 200)) / 7
	case 3:
		return float64(r.Range(0, 40))/10 + 0.1 + 0.2
	case 4:
		return hx.Pick(r, []float64{0.1, 0.15, 0.2, 0.3, 12.9, 27.700000000000003, 1.1, 2.675, 0, -0.1})
	case 5:
		return float64(r.Range(-99, 99)) * 1e-9 / 7 // tiny
	case 6:
		return 1e6*float64(r.Range(-3, 3)) + float64(r.Range(0, 99))/100 // large with a fraction
	case 7:
		return hx.Pick(r, []float64{1e15 + 0.5, -1e12 - 0.3, 1e16, 3e-300, 1e300, math.Copysign(0, -1), 5e-324, -5e-324,
			2.2250738585072014e-308, 3e-310, 4e307, -4e307, 1, 1 + 0x1p-52, 0x1p53, 0x1p53 + 2, 16777216, 16777217})
	case 8:
		return float64(r.Range(-50, 50)) * 0.1
	default:
		return float64(r.Range(-20, 40)) + float64(r.Range(0, 9))/9
	}
}

func fspecSize(r *hx.Rng) float64 {
	switch r.Intn(12) {
	case 0:
		return 0
	case 1:
		return -float64(r.Range(1, 30)) / 10
	case 2:
		return hx.Pick(r, []float64{0.1, 0.2, 0.7, 2.7, 0.3, 1.0 / 3, 1e-3, 1e-9, 5e-324, 1e-310, 4e307, math.Copysign(0, -1),
			0x1p-53, 3 * 0x1p-53, 0x1p-52, 0x1p-24, 3 * 0x1p-25, 1, 2, 3}) // incl. rounding midpoints of 1+w (float64, float32)
	case 3:
		return float64(r.Range(1, 9)) / 10
	case 4:
		return float64(r.Range(1, 30)) / 3
	case 5:
		return float64(r.Range(1, 99)) * 1e-10 / 3
	default:
		return float64(r.Range(1, 120)) / 10
	}
}

// fspecPair makes two non-dyadic rectangles in one of the relations that matter (equal, nested through fractions,
// same far edge through a different sum, abutting through the rounded far edge, shifted, an edge moved by one ulp,
// empty / negative, unrelated) and a probe point on / one ulp around an edge of one of them.
func fspecPair(r *hx.Rng) (a, b [4]float64, px, py float64) {
	a = [4]float64{fspecCoord(r), fspecCoord(r), fspecSize(r), fspecSize(r)}
	switch r.Intn(9) {
	case 0:
		b = a
	case 1: // nested through fractions of the size
		fx, fy := float64(r.Range(0, 9))/10, float64(r.Range(0, 9))/10
		b = [4]float64{a[0] + a[2]*fx, a[1] + a[3]*fy, a[2] * (1 - fx) * float64(r.Range(1, 10)) / 10, a[3] * (1 - fy) * float64(r.Range(1, 10)) / 10}
	case 2: // same far edges reached through a different sum
		dx, dy := float64(r.Range(1, 9))/10*a[2], float64(r.Range(1, 9))/10*a[3]
		b = [4]float64{a[0] + dx, a[1] + dy, a[2] - dx, a[3] - dy}
	case 3: // abutting through the rounded far edge
		b = [4]float64{a[0] + a[2], a[1], fspecSize(r), a[3]}
		if r.Bool() {
			b = [4]float64{a[0], a[1] + a[3], a[2], fspecSize(r)}
		}
	case 4: // shifted
		b = [4]float64{a[0] + float64(r.Range(-30, 30))/10, a[1] + float64(r.Range(-30, 30))/10, a[2], a[3]}
	case 5: // an edge moved by one ulp
		b = a
		k := r.Intn(4)
		if r.Bool() {
			b[k] = math.Nextafter(b[k], math.Inf(1))
		} else {
			b[k] = math.Nextafter(b[k], math.Inf(-1))
		}
	case 6: // empty / negative
		b = a
		b[2+r.Intn(2)] = -float64(r.Intn(3)) / 10
	default:
		b = [4]float64{fspecCoord(r), fspecCoord(r), fspecSize(r), fspecSize(r)}
	}
	if r.Bool() {
		a, b = b, a
	}
	// probe point: on / one ulp around an edge of one of the rectangles, or anywhere
	src := a
	if r.Bool() {
		src = b
	}
	pick := func(lo, sz float64) float64 {
		switch r.Intn(7) {
		case 0:
			return lo
		case 1:
			return math.Nextafter(lo, math.Inf(-1))
		case 2:
			return lo + sz
		case 3:
			return math.Nextafter(lo+sz, math.Inf(-1))
		case 4:
			return math.Nextafter(lo+sz, math.Inf(1))
		case 5:
			return lo + sz/2
		default:
			return fspecCoord(r)
		}
	}
	px, py = pick(src[0], src[2]), pick(src[1], src[3])
	return
}

func (a fspecArea) Gen(r *hx.Rng, n int, _ string, emit func(string)) {
	for i := 0; i < n; i++ {
		if r.Chance(1, 3) {
			emit(a.genPoly(r))
			continue
		}
		a, b, px, py := fspecPair(r)
		all := append(append(a[:], b[:]...), px, py)
		parts := make([]string, 0, 11)
		fits32 := true
		for _, v := range all {
			if math.IsInf(float64(float32(v)), 0) {
				fits32 = false
			}
		}
		if fits32 && r.Chance(1, 3) {
			parts = append(parts, "fs32")
			for _, v := range all {
				parts = append(parts, b32(float32(v)))
			}
		} else {
			parts = append(parts, "fs64")
			for _, v := range all {
				parts = append(parts, b64(v))
			}
		}
		emit(strings.Join(parts, " "))
	}
}
