// Harness for C18 (rectangles, affine matrices, contours): drives geom.Rect / Point / Matrix and poly.Contour /
// poly.Polygon.  float64 values are exact rationals on the wire; generated coordinates are small dyadic rationals
// (|numerator| < 2^12 over 2^0..2^3, or one 2^31-sized rectangle) so that every float operation of the source is exact.
package main

import (
	"fmt"
	"math"
	"math/big"
	"strconv"
	"strings"

	"github.com/richardwilkes/toolbox/xmath/geom"
	"github.com/richardwilkes/toolbox/xmath/geom/poly"
	"verifharness/cmd/c18/gx"
	"verifharness/hx"
)

// ---------------------------------------------------------------------------------------------- rectangles

type rectArea struct{}

var rectOps = []string{"contains", "contains", "intersects", "intersects", "intersect", "union", "in", "in", "expand", "inset", "misc"}

func (rectArea) Gen(r *hx.Rng, n int, _ string, emit func(string)) {
	for i := 0; i < n; i++ {
		if r.Chance(1, 6) {
			emit(genRectDouble(r))
			continue
		}
		a, b := gx.RectPair(r)
		op := hx.Pick(r, rectOps)
		switch op {
		case "in":
			a[0], a[1] = gx.PointNear(r, b)
		case "expand":
			b[0], b[1] = gx.PointNear(r, a)
		case "inset":
			for k := range b {
				b[k] = int64(r.Range(-3, 6))
			}
		}
		var j uint
		kind := "ri"
		if r.Bool() {
			kind = "rf"
			j = uint(r.Intn(4))
		} else if op != "inset" && r.Chance(1, 8) {
			// int rectangles in a corner of the int range: the pair (and the point) is shifted so that the largest value
			// the source computes (X, X+Width, Y, Y+Height of either operand) is MaxInt or MaxInt-1, or the smallest is
			// MinInt or MinInt+1.  Differences stay small, so no intermediate value leaves int64: inputs on which Go's
			// X+Width would wrap are NOT generated (integer overflow is outside the property's model).
			lo, hi := int64(math.MaxInt64), int64(math.MinInt64)
			for _, g := range [][4]int64{a, b} {
				for _, v := range []int64{g[0], g[0] + g[2], g[1], g[1] + g[3]} {
					lo, hi = min(lo, v), max(hi, v)
				}
			}
			var shift int64
			if r.Bool() {
				shift = math.MaxInt64 - hi - int64(r.Intn(2))
			} else {
				shift = math.MinInt64 - lo + int64(r.Intn(2))
			}
			a[0], a[1], b[0], b[1] = a[0]+shift, a[1]+shift, b[0]+shift, b[1]+shift
		} else if r.Chance(1, 7) {
			// kind rw: Go int as it is — the model runs the same functions at Int64 with wrap-around, so inputs on which
			// X+Width, the recomputed sizes of Intersect / Union / Expand or Width-insets overflow ARE generated here
			kind = "rw"
			ext := []int64{math.MinInt64, math.MinInt64 + 1, math.MaxInt64, math.MaxInt64 - 1, 1 << 62, -(1 << 62), 1<<62 - 1,
				1<<62 + 1, -(1 << 62) - 1, 1 << 61, math.MaxInt64 - 7, math.MinInt64 + 7, 1 << 63 >> 1}
			switch r.Intn(4) {
			case 0: // the pair shifted so that its largest edge lies 1..12 beyond MaxInt (or its smallest below MinInt)
				lo, hi := int64(math.MaxInt64), int64(math.MinInt64)
				for _, g := range [][4]int64{a, b} {
					for _, v := range []int64{g[0], g[0] + g[2], g[1], g[1] + g[3]} {
						lo, hi = min(lo, v), max(hi, v)
					}
				}
				var shift int64
				if r.Bool() {
					shift = math.MaxInt64 - hi + int64(r.Range(1, 12))
				} else {
					shift = math.MinInt64 - lo - int64(r.Range(1, 12))
				}
				a[0], a[1], b[0], b[1] = a[0]+shift, a[1]+shift, b[0]+shift, b[1]+shift
			case 1: // origins and sizes at the limits of the type
				for k := 0; k < 4; k++ {
					if r.Chance(1, 3) {
						a[k] = hx.Pick(r, ext)
					}
					if r.Chance(1, 3) {
						b[k] = hx.Pick(r, ext)
					}
				}
			case 2: // far apart: no X+Width wraps, but the differences of the edges do
				a[0] = math.MinInt64 + int64(r.Range(0, 20))
				b[0] = 1<<62 + int64(r.Range(-20, 20))
				if r.Bool() {
					a[1], b[1] = b[0], a[0]
				}
				if r.Bool() {
					a, b = b, a
				}
			default: // one huge size
				if r.Bool() {
					a[2+r.Intn(2)] = hx.Pick(r, ext)
				} else {
					b[2+r.Intn(2)] = hx.Pick(r, ext)
				}
			}
		} else if r.Chance(1, 10) { // large magnitudes well inside the range (2^40 .. 2^61)
			shift := (int64(1) << uint(r.Range(40, 61))) * int64(1-2*r.Intn(2))
			a[0], a[1], b[0], b[1] = a[0]+shift, a[1]+shift, b[0]+shift, b[1]+shift
		}
		parts := make([]string, 0, 10)
		parts = append(parts, kind, op)
		for _, v := range append(a[:], b[:]...) {
			parts = append(parts, gx.Dy(v, j))
		}
		emit(strings.Join(parts, " "))
	}
}

// genRectDouble makes a line of kind rd: float64 rectangles that are NOT exactly representable sums (fractional
// coordinates and sizes, tiny / large / mixed magnitudes, abutting through the rounded far edge, an edge one ulp off, probe
// points on an edge and one ulp beside it — the pairs of the floatspec oracle), as IEEE bit patterns.  The model runs the
// same functions at Lean's Float (IEEE double) and the results are compared bit for bit: under rounding.
func genRectDouble(r *hx.Rng) string {
	a, b, px, py := fspecPair(r)
	op := hx.Pick(r, rectOps)
	switch op {
	case "in":
		a[0], a[1] = px, py
	case "expand":
		b[0], b[1] = px, py
	case "inset":
		for k := range b {
			b[k] = float64(r.Range(-30, 60)) / 10
		}
	}
	parts := []string{"rd", op}
	for _, v := range append(a[:], b[:]...) {
		parts = append(parts, b64(v))
	}
	return strings.Join(parts, " ")
}

// joinBits prints float64 values as IEEE bit patterns (both zeros as 0, any NaN as nan)
func joinBits(fs ...float64) string {
	parts := make([]string, len(fs))
	for i, f := range fs {
		switch {
		case f != f:
			parts[i] = "nan"
		case f == 0:
			parts[i] = b64(0)
		default:
			parts[i] = b64(f)
		}
	}
	return strings.Join(parts, " ")
}

func b2s(b bool) string {
	if b {
		return "true"
	}
	return "false"
}

func rectOpI(op string, v []int) string {
	a := geom.NewRect(v[0], v[1], v[2], v[3])
	b := geom.NewRect(v[4], v[5], v[6], v[7])
	rs := func(r geom.Rect[int]) string { return gx.JoinI(r.X, r.Y, r.Width, r.Height) }
	ps := func(p geom.Point[int]) string { return gx.JoinI(p.X, p.Y) }
	switch op {
	case "contains":
		return b2s(a.Contains(b))
	case "intersects":
		return b2s(a.Intersects(b))
	case "intersect":
		return rs(a.Intersect(b))
	case "union":
		return rs(a.Union(b))
	case "in":
		return b2s(geom.NewPoint(v[0], v[1]).In(b))
	case "expand":
		return rs(a.Expand(geom.NewPoint(v[4], v[5])))
	case "inset":
		return rs(a.Inset(geom.NewInsets(v[4], v[5], v[6], v[7])))
	case "misc":
		c := a.Center()
		if c.X != a.CenterX() || c.Y != a.CenterY() {
			return "center-inconsistent"
		}
		return b2s(a.Empty()) + " " + gx.JoinI(a.Right(), a.Bottom(), a.CenterX(), a.CenterY()) + " " + ps(a.TopLeft()) +
			" " + ps(a.TopRight()) + " " + ps(a.BottomRight()) + " " + ps(a.BottomLeft())
	}
	return "bad-op"
}

func rectOpF(op string, v []float64, join func(...float64) string) string {
	a := geom.NewRect(v[0], v[1], v[2], v[3])
	b := geom.NewRect(v[4], v[5], v[6], v[7])
	rs := func(r geom.Rect[float64]) string { return join(r.X, r.Y, r.Width, r.Height) }
	ps := func(p geom.Point[float64]) string { return join(p.X, p.Y) }
	switch op {
	case "contains":
		return b2s(a.Contains(b))
	case "intersects":
		return b2s(a.Intersects(b))
	case "intersect":
		return rs(a.Intersect(b))
	case "union":
		return rs(a.Union(b))
	case "in":
		return b2s(geom.NewPoint(v[0], v[1]).In(b))
	case "expand":
		return rs(a.Expand(geom.NewPoint(v[4], v[5])))
	case "inset":
		return rs(a.Inset(geom.NewInsets(v[4], v[5], v[6], v[7])))
	case "misc":
		c := a.Center()
		if c.X != a.CenterX() || c.Y != a.CenterY() {
			return "center-inconsistent"
		}
		return b2s(a.Empty()) + " " + join(a.Right(), a.Bottom(), a.CenterX(), a.CenterY()) + " " + ps(a.TopLeft()) +
			" " + ps(a.TopRight()) + " " + ps(a.BottomRight()) + " " + ps(a.BottomLeft())
	}
	return "bad-op"
}

func (rectArea) Run(line string) string {
	f := strings.Fields(line)
	if len(f) != 10 {
		return "bad-op"
	}
	switch f[0] {
	case "ri", "rw":
		return rectOpI(f[1], gx.Is(f[2:]))
	case "rf":
		return rectOpF(f[1], gx.Fs(f[2:]), gx.JoinF)
	case "rd":
		v := make([]float64, 8)
		for i, w := range f[2:] {
			u, err := strconv.ParseUint(w, 16, 64)
			if err != nil || len(w) != 16 {
				return "bad-op"
			}
			v[i] = math.Float64frombits(u)
		}
		return rectOpF(f[1], v, joinBits)
	}
	return "bad-op"
}

// ---------------------------------------------------------------------------------------------- matrices

type matArea struct{}

// lineScale is a per-line power of two (2^-8 .. 2^8) applied to every generated entry and coordinate of the line:
// magnitudes vary while every product and sum of the source stays exact (the bit span of a line grows by at most 16).
var lineScale int

func scaled(k int64, j uint) string {
	if lineScale >= 0 {
		return gx.Dy(k<<uint(lineScale), j)
	}
	return gx.Dy(k, j+uint(-lineScale))
}

func genEntry(r *hx.Rng) string {
	switch r.Intn(7) {
	case 0:
		return "0"
	case 1:
		return "1"
	case 2:
		return "-1"
	default:
		return scaled(int64(r.Range(-9, 9)), uint(r.Intn(3)))
	}
}

func genMat(r *hx.Rng) string {
	parts := make([]string, 6)
	for i := range parts {
		parts[i] = genEntry(r)
	}
	return strings.Join(parts, " ")
}

var angles = []float64{0, math.Pi / 2, math.Pi, -math.Pi / 2, math.Pi / 6, 1, -2.5, math.Pi / 4, 3 * math.Pi / 2, 1e-3, 100}

// genRotMat makes a matrix whose entries are 0 or ± a power of two and for which every entry of Rotate has a single
// non-zero term, so that the float products with sin/cos are exact.
func genRotMat(r *hx.Rng) string {
	p2 := func() string {
		k := int64(1)
		if r.Bool() {
			k = -1
		}
		e := r.Range(-3, 3)
		if e >= 0 {
			return gx.Dy(k<<uint(e), 0)
		}
		return gx.Dy(k, uint(-e))
	}
	z := func(keep bool) string {
		if keep && r.Chance(5, 6) {
			return p2()
		}
		return "0"
	}
	// pairs (scaleX, skewY), (skewX, scaleY), (transX, transY): at most one of each pair is non-zero
	a, b, c := r.Bool(), r.Bool(), r.Bool()
	return strings.Join([]string{z(a), z(b), z(c), z(!a), z(!b), z(!c)}, " ")
}

func (matArea) Gen(r *hx.Rng, n int, _ string, emit func(string)) {
	for i := 0; i < n; i++ {
		lineScale = 0
		if r.Chance(1, 3) {
			lineScale = r.Range(-8, 8)
		}
		switch r.Intn(12) {
		case 0:
			emit("m id")
		case 1:
			emit("m newtr " + genEntry(r) + " " + genEntry(r))
		case 2:
			emit("m newsc " + genEntry(r) + " " + genEntry(r))
		case 3:
			rad := hx.Pick(r, angles)
			emit("m newrot " + gx.JoinF(rad, math.Sin(rad), math.Cos(rad)))
		case 4:
			emit("m tr " + genMat(r) + " " + genEntry(r) + " " + genEntry(r))
		case 5:
			emit("m sc " + genMat(r) + " " + genEntry(r) + " " + genEntry(r))
		case 6:
			rad := hx.Pick(r, angles)
			emit("m rot " + genRotMat(r) + " " + gx.JoinF(rad, math.Sin(rad), math.Cos(rad)))
		case 7, 8:
			emit("m tp " + genMat(r) + " " + genEntry(r) + " " + genEntry(r))
		default:
			emit("m mul " + genMat(r) + " " + genMat(r))
		}
	}
}

func mat(v []float64) geom.Matrix[float64] {
	return geom.Matrix[float64]{ScaleX: v[0], SkewX: v[1], TransX: v[2], SkewY: v[3], ScaleY: v[4], TransY: v[5]}
}

func ms(m geom.Matrix[float64]) string {
	return gx.JoinF(m.ScaleX, m.SkewX, m.TransX, m.SkewY, m.ScaleY, m.TransY)
}

func (matArea) Run(line string) string {
	f := strings.Fields(line)
	if len(f) < 2 || f[0] != "m" {
		return "bad-op"
	}
	v := gx.Fs(f[2:])
	switch {
	case f[1] == "id" && len(v) == 0:
		return ms(geom.NewIdentityMatrix[float64]())
	case f[1] == "newtr" && len(v) == 2:
		return ms(geom.NewTranslationMatrix(v[0], v[1]))
	case f[1] == "newsc" && len(v) == 2:
		return ms(geom.NewScaleMatrix(v[0], v[1]))
	case f[1] == "newrot" && len(v) == 3:
		if math.Sin(v[0]) != v[1] || math.Cos(v[0]) != v[2] {
			return "bad-sincos"
		}
		return ms(geom.NewRotationMatrix(v[0]))
	case f[1] == "tr" && len(v) == 8:
		return ms(mat(v).Translate(v[6], v[7]))
	case f[1] == "sc" && len(v) == 8:
		return ms(mat(v).Scale(v[6], v[7]))
	case f[1] == "rot" && len(v) == 9:
		if math.Sin(v[6]) != v[7] || math.Cos(v[6]) != v[8] {
			return "bad-sincos"
		}
		return ms(mat(v).Rotate(v[6]))
	case f[1] == "tp" && len(v) == 8:
		p := mat(v).TransformPoint(geom.NewPoint(v[6], v[7]))
		return gx.JoinF(p.X, p.Y)
	case f[1] == "mul" && len(v) == 12:
		return ms(mat(v).Multiply(mat(v[6:])))
	}
	return "bad-op"
}

// ---------------------------------------------------------------------------------------------- rotation oracle

// rotArea checks the rotation laws on arbitrary small matrices and angles where the float products round.  With
// (s, c) = the float64 values of math.Sin / math.Cos of the angle and exact big.Rat arithmetic on them:
//
//	rot / deg       m.Rotate(θ) / m.RotateByDegrees(d) .TransformPoint(p) = R(s,c) · m.TransformPoint(p)
//	newrot / newdeg NewRotationMatrix(θ) / NewRotationByDegreesMatrix(d) .TransformPoint(p) = R(s,c) · p
//	rotn            m.Rotate(θ) applied n times = one rotation by n·θ (sin/cos of the float product n·θ)
//
// The tolerance is RELATIVE to the terms: 16 ulp (n·16 for rotn, plus the error of n·θ) of the sum of the absolute
// values of the terms that make up a coordinate — there is no absolute slack, so an entry that is off by 1e-4 of its
// size is reported also for tiny or huge matrices.  Angles: a table, random, and — densely — within 1e-3 … 1e-9 of
// the quarter turns and of 0, where sin or cos is tiny.
type rotArea struct{}

var quarter = []float64{0, math.Pi / 2, math.Pi, 3 * math.Pi / 2, -math.Pi / 2, 2 * math.Pi, -math.Pi}

func genAngle(r *hx.Rng) float64 {
	switch r.Intn(4) {
	case 0:
		return hx.Pick(r, angles)
	case 1:
		return float64(r.Range(-7000, 7000)) / 1000
	default: // next to a quarter turn
		d := hx.Pick(r, []float64{1e-3, 5e-4, 2.5e-4, 2e-4, 1e-4, 3e-5, 1e-6, 1e-9, 1e-12}) * float64(1-2*r.Intn(2))
		return hx.Pick(r, quarter) + d*float64(r.Range(1, 9))/4
	}
}

func (rotArea) Gen(r *hx.Rng, n int, _ string, emit func(string)) {
	for i := 0; i < n; i++ {
		lineScale = 0
		if r.Chance(1, 3) {
			lineScale = r.Range(-8, 8)
		}
		rad := genAngle(r)
		kind := hx.Pick(r, []string{"rot", "rot", "rot", "deg", "newrot", "newdeg", "rotn"})
		if kind == "deg" || kind == "newdeg" {
			rad = rad * 180 / math.Pi
			if r.Bool() {
				rad = float64(r.Range(-720, 720)) / 2
			}
			if r.Chance(1, 3) {
				rad = hx.Pick(r, []float64{0, 90, 180, 270, -90, 360}) + hx.Pick(r, []float64{0.05, 0.01, 0.005, 1e-4, 1e-7})*float64(1-2*r.Intn(2))
			}
		}
		cnt := "1"
		if kind == "rotn" {
			cnt = strconv.Itoa(hx.Pick(r, []int{2, 3, 10, 100, 1000, 4000}))
			if r.Bool() {
				rad = hx.Pick(r, []float64{2e-4, 1e-4, 2.4e-4, 1e-3, 1e-5, math.Pi/2 + 2e-4, math.Pi - 1e-4}) * float64(1-2*r.Intn(2))
			}
		}
		emit("rot " + kind + " " + genMat(r) + " " + genEntry(r) + " " + genEntry(r) + " " + gx.S(rad) + " " + cnt)
	}
}

func rat(f float64) *big.Rat { return new(big.Rat).SetFloat64(f) }

func (rotArea) Run(line string) string {
	f := strings.Fields(line)
	if len(f) != 12 || f[0] != "rot" {
		return "bad-op"
	}
	v := gx.Fs(f[2:11])
	cnt := hx.Atoi(f[11])
	m := mat(v)
	p := geom.NewPoint(v[6], v[7])
	rad := v[8]
	var got geom.Point[float64]
	exactM := true // does the expected value start from m.TransformPoint(p) (true) or from p (false)?
	angleErr := 0.0
	switch f[1] {
	case "rot":
		got = m.Rotate(rad).TransformPoint(p)
	case "deg":
		got = m.RotateByDegrees(rad).TransformPoint(p)
		rad *= math.Pi / 180
	case "newrot":
		got = geom.NewRotationMatrix(rad).TransformPoint(p)
		exactM = false
	case "newdeg":
		got = geom.NewRotationByDegreesMatrix(rad).TransformPoint(p)
		rad *= math.Pi / 180
		exactM = false
	case "rotn":
		mm := m
		for i := 0; i < cnt; i++ {
			mm = mm.Rotate(rad)
		}
		got = mm.TransformPoint(p)
		// one rotation by n·θ; the float product n·θ is off by at most half an ulp, which moves the point by that angle
		angleErr = math.Abs(float64(cnt)*rad) * 0x1p-52
		rad = float64(cnt) * rad
	default:
		return "bad-op"
	}
	s, c := rat(math.Sin(rad)), rat(math.Cos(rad))
	mul := func(a, b *big.Rat) *big.Rat { return new(big.Rat).Mul(a, b) }
	add := func(a, b *big.Rat) *big.Rat { return new(big.Rat).Add(a, b) }
	sub := func(a, b *big.Rat) *big.Rat { return new(big.Rat).Sub(a, b) }
	qx, qy := rat(p.X), rat(p.Y)
	// magnitude of the terms: |m|·|p| sums for the inner point, then |s|,|c| ≤ 1 times those
	magX, magY := math.Abs(p.X), math.Abs(p.Y)
	if exactM {
		qx = add(add(mul(rat(m.ScaleX), rat(p.X)), mul(rat(m.SkewX), rat(p.Y))), rat(m.TransX))
		qy = add(add(mul(rat(m.SkewY), rat(p.X)), mul(rat(m.ScaleY), rat(p.Y))), rat(m.TransY))
		magX = math.Abs(m.ScaleX*p.X) + math.Abs(m.SkewX*p.Y) + math.Abs(m.TransX)
		magY = math.Abs(m.SkewY*p.X) + math.Abs(m.ScaleY*p.Y) + math.Abs(m.TransY)
	}
	wx := sub(mul(c, qx), mul(s, qy))
	wy := add(mul(s, qx), mul(c, qy))
	sf, _ := s.Float64()
	cf, _ := c.Float64()
	sf, cf = math.Abs(sf), math.Abs(cf)
	ulps := 16.0 * float64(cnt)
	tolX := (cf*magX+sf*magY)*ulps*0x1p-52 + (magX+magY)*angleErr
	tolY := (sf*magX+cf*magY)*ulps*0x1p-52 + (magX+magY)*angleErr
	if f[1] == "rotn" { // rounding accumulates over the n steps on the full magnitude, not on the final terms
		tolX = (magX+magY)*ulps*0x1p-52 + (magX+magY)*angleErr
		tolY = tolX
	}
	for i, tr := range []struct {
		got, want *big.Rat
		tol       float64
	}{{rat(got.X), wx, tolX}, {rat(got.Y), wy, tolY}} {
		d := sub(tr.got, tr.want)
		d.Abs(d)
		if d.Cmp(new(big.Rat).SetFloat64(tr.tol)) > 0 {
			w, _ := tr.want.Float64()
			g, _ := tr.got.Float64()
			return fmt.Sprintf("FAIL rotation law (%s) coordinate %d: got %v want %v (tolerance %v)", f[1], i, g, w, tr.tol)
		}
	}
	return "ok"
}

// ---------------------------------------------------------------------------------------------- contours, polygons

type polyArea struct{}

type ipt struct{ x, y int64 }

// divisionsExact reports whether every quotient the source can form for this contour and point is a float64.
func divisionsExact(c []ipt, p ipt) bool {
	for i := range c {
		cur, next := c[i], c[(i+1)%len(c)]
		if next.y == cur.y {
			continue
		}
		q := new(big.Rat).SetFrac(big.NewInt((p.y-cur.y)*(next.x-cur.x)), big.NewInt(next.y-cur.y))
		if _, exact := q.Float64(); !exact {
			return false
		}
	}
	return true
}

// bigContour makes a contour with about n vertices whose edges are horizontal, vertical or at 45 degrees (every
// quotient of Contour.Contains is then exact): a staircase that walks right/up and returns along the axes.
func bigContour(r *hx.Rng, n int) []ipt {
	c := make([]ipt, 0, n+2)
	x, y := int64(r.Range(-6, 0)), int64(r.Range(-6, 0))
	x0, y0 := x, y
	for len(c) < n {
		c = append(c, ipt{x, y})
		switch r.Intn(3) {
		case 0:
			x += int64(r.Range(1, 3))
		case 1:
			y += int64(r.Range(1, 3))
		default:
			d := int64(r.Range(1, 2))
			x, y = x+d, y+d
		}
	}
	c = append(c, ipt{x, y}, ipt{x0 - 1, y}) // back along the top, closing edge is vertical-ish: make it vertical
	c = append(c, ipt{x0 - 1, y0})
	return c
}

func genContour(r *hx.Rng) []ipt {
	if r.Chance(1, 40) { // vertex counts around 12, 16/17, 32/33, 64/65, 128/129, 256+, 1000+
		n := hx.Pick(r, []int{9, 13, 14, 29, 30, 61, 62, 125, 126, 253})
		if r.Chance(1, 12) {
			n = hx.Pick(r, []int{300, 1000})
		}
		return bigContour(r, n)
	}
	switch r.Intn(8) {
	case 0:
		return nil
	case 1: // axis-parallel rectangle
		x, y, w, h := int64(r.Range(-6, 4)), int64(r.Range(-6, 4)), int64(r.Range(1, 8)), int64(r.Range(1, 8))
		c := []ipt{{x, y}, {x + w, y}, {x + w, y + h}, {x, y + h}}
		if r.Bool() {
			c[1], c[3] = c[3], c[1]
		}
		return c
	case 2: // diamond / 45 degree edges
		x, y, d := int64(r.Range(-4, 4)), int64(r.Range(-4, 4)), int64(r.Range(1, 5))
		return []ipt{{x, y - d}, {x + d, y}, {x, y + d}, {x - d, y}}
	default:
		n := r.Range(1, 7)
		c := make([]ipt, n)
		for i := range c {
			c[i] = ipt{int64(r.Range(-6, 8)), int64(r.Range(-6, 8))}
		}
		return c
	}
}

func contourWords(c []ipt, j uint) string {
	parts := make([]string, 0, 2*len(c))
	for _, p := range c {
		parts = append(parts, gx.Dy(p.x, j), gx.Dy(p.y, j))
	}
	return strings.Join(parts, " ")
}

// genBoundsDouble makes a line of kind pd: contours whose coordinates are so large or so mixed in magnitude that the 1 of
// Width = 1+max-min is absorbed by rounding — the domain of the guarded branch of `extent` (Nextafter search, at most 4
// widenings) — next to ordinary fractional ones.  IEEE bit patterns; the model runs the source form of Bounds at Lean's Float.
func genBoundsDouble(r *hx.Rng) string {
	huge := []float64{0x1p53, 0x1p53 + 2, 0x1p54, 0x1p60, 1e16, 1e17, 1e20, 1e100, 1e150, 1e300, 8e307, 1.7e308, math.MaxFloat64,
		16777216, 3e7, 0x1p52, 0x1p52 + 0.5, 4.5e15}
	coord := func(base float64) float64 {
		switch r.Intn(8) {
		case 0:
			return fspecCoord(r)
		case 1:
			return float64(r.Range(-100, 100)) / 10
		case 2: // the base moved by a few ulps
			v := base
			for k := r.Intn(5); k > 0; k-- {
				v = math.Nextafter(v, math.Inf(1-2*r.Intn(2)))
			}
			return v
		case 3:
			return -base
		case 4:
			return base / float64(r.Range(2, 9))
		default:
			return base + float64(r.Range(-1000, 1000))/10
		}
	}
	op := "cbounds"
	nc := 1
	if r.Chance(1, 3) {
		op, nc = "pbounds", r.Range(1, 3)
	}
	var sb strings.Builder
	sb.WriteString("pd " + op)
	for k := 0; k < nc; k++ {
		base := hx.Pick(r, huge) * float64(1-2*r.Intn(2))
		if r.Chance(1, 6) {
			base = float64(r.Range(-50, 50))
		}
		sb.WriteString(" |")
		nv := r.Range(0, 5)
		if r.Chance(1, 6) {
			nv = 1
		}
		for v := 0; v < nv; v++ {
			bx, by := base, base
			if r.Chance(1, 3) { // the other axis ordinary, or of another magnitude
				by = hx.Pick(r, huge)
			}
			sb.WriteString(" " + b64(coord(bx)) + " " + b64(coord(by)))
		}
	}
	return sb.String()
}

func (polyArea) Gen(r *hx.Rng, n int, _ string, emit func(string)) {
	for i := 0; i < n; i++ {
		if r.Chance(1, 8) {
			emit(genBoundsDouble(r))
			continue
		}
		op := hx.Pick(r, []string{"ccontains", "ccontains", "ccontains", "cbounds", "pcontains", "pevenodd", "pevenodd", "pbounds", "ptransform",
			"ccontains", "ccontains", "ccontains", "cbounds", "pcontains", "pevenodd", "pevenodd", "pbounds", "ptransform", "pempty", "pclone", "cclone"})
		nc := 1
		if op[0] == 'p' {
			nc = r.Range(0, 4)
			if r.Chance(1, 60) { // many contours: 12, 16/17, 32/33, 64/65, 128/129
				nc = hx.Pick(r, []int{12, 16, 17, 32, 33, 64, 65, 128, 129})
			}
		}
		var cs [][]ipt
		var p ipt
		for try := 0; ; try++ {
			cs = cs[:0]
			degenerate := op[0] == 'p' && r.Chance(1, 5) // only contours without area: no vertex, a point, a segment
			for k := 0; k < nc; k++ {
				c := genContour(r)
				if degenerate && len(c) > 2 {
					c = c[:r.Intn(3)]
				}
				cs = append(cs, c)
			}
			p = ipt{int64(r.Range(-7, 9)), int64(r.Range(-7, 9))}
			if r.Chance(1, 3) && len(cs) > 0 && len(cs[0]) > 0 { // on a vertex row / column
				v := hx.Pick(r, cs[0])
				if r.Bool() {
					p.y = v.y
				} else {
					p.x = v.x
				}
			}
			ok := true
			for _, c := range cs {
				if len(c) > 0 && !divisionsExact(c, p) {
					ok = false
				}
			}
			if ok {
				break
			}
			if try > 60 {
				cs = [][]ipt{{{0, 0}, {4, 0}, {4, 4}, {0, 4}}}[:min(nc, 1)]
				nc = len(cs)
				break
			}
		}
		j := uint(r.Intn(3))
		head := ""
		switch op {
		case "ccontains", "pcontains", "pevenodd":
			head = " " + gx.Dy(p.x, j) + " " + gx.Dy(p.y, j)
		case "ptransform":
			lineScale = 0
			head = " " + genMat(r)
			if r.Chance(1, 4) {
				head = hx.Pick(r, []string{" 1 0 0 0 1 0", " 1 0 0 0 1 0", " 1 0 3 0 1 -2", " 0 0 0 0 0 0", " -1 0 0 0 -1 0"})
			}
		}
		var sb strings.Builder
		sb.WriteString("poly " + op + head)
		for _, c := range cs {
			sb.WriteString(" |")
			if len(c) > 0 {
				sb.WriteString(" " + contourWords(c, j))
			}
		}
		emit(sb.String())
	}
}

func splitBar(ws []string) [][]string {
	out := [][]string{nil}
	for _, w := range ws {
		if w == "|" {
			out = append(out, nil)
		} else {
			out[len(out)-1] = append(out[len(out)-1], w)
		}
	}
	return out
}

func polyStr(p poly.Polygon[float64]) string {
	parts := make([]string, len(p))
	for i, c := range p {
		vs := make([]string, len(c))
		for k, v := range c {
			vs[k] = gx.JoinF(v.X, v.Y)
		}
		parts[i] = strings.Join(vs, " ")
	}
	return strings.Join(parts, " | ")
}

// runBoundsDouble executes a pd line: Contour.Bounds / Polygon.Bounds on float64 bit patterns, answered as bit patterns
func runBoundsDouble(f []string) string {
	if len(f) < 2 {
		return "bad-op"
	}
	groups := splitBar(f[2:])
	if len(groups[0]) != 0 {
		return "bad-op"
	}
	p := make(poly.Polygon[float64], 0, len(groups)-1)
	for _, g := range groups[1:] {
		if len(g)%2 != 0 {
			return "bad-op"
		}
		var c poly.Contour[float64]
		for k := 0; k+1 < len(g); k += 2 {
			x, e1 := strconv.ParseUint(g[k], 16, 64)
			y, e2 := strconv.ParseUint(g[k+1], 16, 64)
			if e1 != nil || e2 != nil {
				return "bad-op"
			}
			c = append(c, geom.NewPoint(math.Float64frombits(x), math.Float64frombits(y)))
		}
		p = append(p, c)
	}
	switch {
	case f[1] == "cbounds" && len(p) == 1:
		b := p[0].Bounds()
		return joinBits(b.X, b.Y, b.Width, b.Height)
	case f[1] == "pbounds":
		b := p.Bounds()
		return joinBits(b.X, b.Y, b.Width, b.Height)
	}
	return "bad-op"
}

func (polyArea) Run(line string) string {
	f := strings.Fields(line)
	if len(f) >= 2 && f[0] == "pd" {
		return runBoundsDouble(f)
	}
	if len(f) < 2 || f[0] != "poly" {
		return "bad-op"
	}
	groups := splitBar(f[2:])
	head := gx.Fs(groups[0])
	p := make(poly.Polygon[float64], 0, len(groups)-1)
	for _, g := range groups[1:] {
		v := gx.Fs(g)
		if len(v)%2 != 0 {
			return "bad-op"
		}
		var c poly.Contour[float64]
		for k := 0; k+1 < len(v); k += 2 {
			c = append(c, geom.NewPoint(v[k], v[k+1]))
		}
		p = append(p, c)
	}
	rs := func(r geom.Rect[float64]) string { return gx.JoinF(r.X, r.Y, r.Width, r.Height) }
	// the read-only operations must leave the polygon (a slice of slices, so mutable through the receiver) as it was
	orig := polyStr(p)
	untouched := func(out string) string {
		if polyStr(p) != orig {
			return out + " operand-changed"
		}
		return out
	}
	switch {
	case f[1] == "ccontains" && len(head) == 2 && len(p) == 1:
		return untouched(b2s(p[0].Contains(geom.NewPoint(head[0], head[1]))))
	case f[1] == "cbounds" && len(head) == 0 && len(p) == 1:
		return untouched(rs(p[0].Bounds()))
	case f[1] == "pcontains" && len(head) == 2:
		return untouched(b2s(p.Contains(geom.NewPoint(head[0], head[1]))))
	case f[1] == "pevenodd" && len(head) == 2:
		return untouched(b2s(p.ContainsEvenOdd(geom.NewPoint(head[0], head[1]))))
	case f[1] == "pbounds" && len(head) == 0:
		return untouched(rs(p.Bounds()))
	case f[1] == "pempty" && len(head) == 0:
		return untouched(b2s(p.Empty()))
	case (f[1] == "pclone" || f[1] == "cclone" && len(p) == 1) && len(head) == 0:
		// Clone: same values; nil for length 0 (polygon and each contour); no storage shared with the operand
		var res poly.Polygon[float64]
		if f[1] == "pclone" {
			res = p.Clone()
		} else {
			res = poly.Polygon[float64]{p[0].Clone()}
		}
		shape := "nil"
		if f[1] == "cclone" {
			shape = "len1"
		} else if res != nil {
			shape = "len" + strconv.Itoa(len(res))
		}
		flags := make([]byte, len(res))
		for i, c := range res {
			flags[i] = 'v'
			if c == nil {
				flags[i] = 'n'
			}
		}
		out := polyStr(res)
		state := "same"
		if polyStr(p) != orig {
			state = "changed"
		}
		for _, c := range res {
			for i := range c {
				c[i] = geom.NewPoint(12345.5, -54321.25)
			}
		}
		for i := range res {
			res[i] = nil
		}
		if polyStr(p) != orig {
			state = "aliased"
		}
		return state + " " + shape + " " + string(flags) + ": " + out
	case f[1] == "ptransform" && len(head) == 6:
		before := polyStr(p)
		res := p.Transform(mat(head))
		out := polyStr(res)
		state := "same"
		if polyStr(p) != before {
			state = "changed"
		}
		// aliasing: overwrite the result (and whatever shares its storage); the operand must stay what it was, and
		// transforming again must give the same answer
		for _, c := range res {
			for i := range c {
				c[i] = geom.NewPoint(12345.5, -54321.25)
			}
		}
		for i := range res {
			res[i] = nil
		}
		if polyStr(p) != before || polyStr(p.Transform(mat(head))) != out {
			state = "aliased"
		}
		return state + " " + out
	}
	return "bad-op"
}

func main() {
	hx.Main(map[string]hx.Area{"rect": rectArea{}, "matrix": matArea{}, "poly": polyArea{}, "rotate": rotArea{}, "floatspec": fspecArea{},
		"arith": arithArea{}, "compose": composeArea{}})
}
