// More families of the floatspec oracle (implementation-side, no Lean model): what the Contour / Polygon / identity
// clauses of C18 say can be judged EXACTLY under float rounding, on float64 and float32 inputs that are not dyadic and
// of large, tiny and mixed magnitudes.  Contours are separated by the word `|`; values are IEEE bit patterns.
//
//	pb64|pb32 [s]  | v… | v… …        Bounds: every vertex of a contour is In that contour's Bounds(), and In the
//	                                  polygon's Bounds().  (`s` = strict, see below.)
//	pt64|pt32      m×6 | v… | …       Transform: same shape, every vertex of the result is BIT-identical to
//	                                  Matrix.TransformPoint of the original vertex, the operand is untouched (also
//	                                  after the result has been overwritten), Clone-independence of the result.
//	pi64|pi32      m×6 px py          identity: NewIdentityMatrix().TransformPoint(p) = p, identity·m = m = m·identity
//	                                  (exact under rounding for finite values: ×1, +0·y, +0).
//	pc64|pc32      px py | v… | …     Contains / ContainsEvenOdd AWAY from edges: for every contour the exact crossing
//	                                  number (big.Rat: edges whose half-open Y range holds p.Y and whose exact abscissa
//	                                  at p.Y is right of p.X) is computed; Contour.Contains must be its parity,
//	                                  Polygon.Contains the disjunction, Polygon.ContainsEvenOdd the parity of the number
//	                                  of containing contours.  A case is judged only if, for every edge whose Y range
//	                                  holds p.Y, the exact distance |p.X − abscissa| exceeds the margin
//	                                  64·eps·(|cur.X|+|next.X|+|p.X|+|p.Y|+|cur.Y|+|next.Y|) (eps = 2^-52 / 2^-23), which
//	                                  is far above the rounding error of the source's expression; otherwise it is
//	                                  skipped and counted (`near-edge`).  All other conjuncts of the source's test are
//	                                  comparisons of input values and do not round.
//
// Bounds: the contour level is judged strictly on every case (a vertex not In its contour's Bounds() is a FAIL; the
// absorbed 1 of Width = 1+maxX−minX at large magnitudes was repaired in /repo, corpus lines of that defect are kept).
// Polygon.Bounds inherits Rect.Union's one-ulp-short far edge (known finding): generated cases where a vertex is not In
// Polygon.Bounds() are counted (`pbounds-short`), only the strict op words `pb64s` / `pb32s` fail on them.
package main

import (
	"fmt"
	"math"
	"math/big"
	"strconv"
	"strings"

	"github.com/richardwilkes/toolbox/xmath/geom"
	"github.com/richardwilkes/toolbox/xmath/geom/poly"
	"verifharness/hx"
)

// contourBoundsStrict: every `pb` case judges the contour level strictly — Contour.Bounds was repaired in /repo
// (commit c8f36a0: the size is widened when the 1 of 1+max-min is absorbed by rounding); only the polygon level stays
// counted, because Polygon.Bounds inherits Rect.Union's one-ulp-short far edge (known finding).
const contourBoundsStrict = true

func parseBits[T fl](w string) (T, bool) {
	var z T
	switch any(z).(type) {
	case float32:
		u, err := strconv.ParseUint(w, 16, 32)
		return T(math.Float32frombits(uint32(u))), err == nil && len(w) == 8
	default:
		u, err := strconv.ParseUint(w, 16, 64)
		return T(math.Float64frombits(u)), err == nil && len(w) == 16
	}
}

func finite[T fl](v T) bool { return !math.IsNaN(float64(v)) && !math.IsInf(float64(v), 0) }

// parsePoly reads `head… | v… | v…`.
func parsePoly[T fl](ws []string) (head []T, p poly.Polygon[T], ok bool) {
	groups := splitBar(ws)
	for _, w := range groups[0] {
		v, good := parseBits[T](w)
		if !good {
			return nil, nil, false
		}
		head = append(head, v)
	}
	p = make(poly.Polygon[T], 0, len(groups)-1)
	for _, g := range groups[1:] {
		if len(g)%2 != 0 {
			return nil, nil, false
		}
		var c poly.Contour[T]
		for k := 0; k+1 < len(g); k += 2 {
			x, g1 := parseBits[T](g[k])
			y, g2 := parseBits[T](g[k+1])
			if !g1 || !g2 {
				return nil, nil, false
			}
			c = append(c, geom.NewPoint(x, y))
		}
		p = append(p, c)
	}
	return head, p, true
}

func samePoly[T fl](a, b poly.Polygon[T]) bool {
	if len(a) != len(b) {
		return false
	}
	for i := range a {
		if len(a[i]) != len(b[i]) {
			return false
		}
		for k := range a[i] {
			if !sameBits(a[i][k].X, b[i][k].X) || !sameBits(a[i][k].Y, b[i][k].Y) {
				return false
			}
		}
	}
	return true
}

func sameBits[T fl](a, b T) bool {
	return math.Float64bits(float64(a)) == math.Float64bits(float64(b)) // float32 -> float64 is injective incl. -0
}

func deepCopy[T fl](p poly.Polygon[T]) poly.Polygon[T] {
	q := make(poly.Polygon[T], len(p))
	for i, c := range p {
		q[i] = append(poly.Contour[T](nil), c...)
	}
	return q
}

func boundsCheck[T fl](strict bool, p poly.Polygon[T]) string {
	tags := ""
	before := deepCopy(p)
	pb := p.Bounds()
	for i, c := range p {
		cb := c.Bounds()
		if len(c) == 0 {
			if cb != (geom.Rect[T]{}) {
				return fmt.Sprintf("FAIL Bounds of the empty contour %d = %v", i, cb)
			}
			continue
		}
		for _, v := range c {
			if !finite(v.X) || !finite(v.Y) {
				return "ok non-finite"
			}
		}
		for _, v := range c {
			if !v.In(cb) {
				if strict || contourBoundsStrict {
					return fmt.Sprintf("FAIL vertex %v is not In Contour.Bounds() = %v of contour %d = %v", v, cb, i, c)
				}
				if !strings.Contains(tags, "cbounds-short") {
					tags += " cbounds-short"
				}
			}
			// whatever the far edge does, the near edges are exact: nothing lies left of / above the bounds
			if v.X < cb.X || v.Y < cb.Y {
				return fmt.Sprintf("FAIL vertex %v lies left of / above Contour.Bounds() = %v", v, cb)
			}
			if cb.Empty() && !strings.Contains(tags, "cbounds-empty") { // the absorbed 1 at its worst: Width or Height 0
				tags += " cbounds-empty"
			}
			if !v.In(pb) {
				if strict {
					return fmt.Sprintf("FAIL vertex %v of contour %d is not In Polygon.Bounds() = %v", v, i, pb)
				}
				if !strings.Contains(tags, "pbounds-short") {
					tags += " pbounds-short"
				}
			}
			// a contour whose own bounds came out Empty (absorbed 1) is ignored by Union altogether: same class
			if !cb.Empty() && (v.X < pb.X || v.Y < pb.Y) {
				return fmt.Sprintf("FAIL vertex %v lies left of / above Polygon.Bounds() = %v", v, pb)
			}
		}
	}
	if len(p) == 0 && pb != (geom.Rect[T]{}) {
		return fmt.Sprintf("FAIL Bounds of the empty polygon = %v", pb)
	}
	if !samePoly(p, before) {
		return "FAIL Bounds changed its operand"
	}
	return "ok" + tags
}

func transformCheck[T fl](h []T, p poly.Polygon[T]) string {
	m := geom.Matrix[T]{ScaleX: h[0], SkewX: h[1], TransX: h[2], SkewY: h[3], ScaleY: h[4], TransY: h[5]}
	before := deepCopy(p)
	res := p.Transform(m)
	if !samePoly(p, before) {
		return "FAIL Transform changed its operand"
	}
	if len(res) != len(p) {
		return fmt.Sprintf("FAIL Transform: %d contours became %d", len(p), len(res))
	}
	for i := range p {
		if len(res[i]) != len(p[i]) {
			return fmt.Sprintf("FAIL Transform: contour %d has %d vertices instead of %d", i, len(res[i]), len(p[i]))
		}
		for k, v := range p[i] {
			want := m.TransformPoint(v)
			got := res[i][k]
			if math.IsNaN(float64(want.X)) || math.IsNaN(float64(want.Y)) {
				continue
			}
			if !sameBits(got.X, want.X) || !sameBits(got.Y, want.Y) {
				return fmt.Sprintf("FAIL Transform: vertex %d of contour %d = %v, Matrix.TransformPoint gives %v", k, i, got, want)
			}
		}
	}
	keep := deepCopy(res)
	for _, c := range res { // overwrite the result: the operand and a second result must not care
		for k := range c {
			c[k] = geom.NewPoint(T(12345.5), T(-54321.25))
		}
	}
	if !samePoly(p, before) {
		return "FAIL the Transform result shares storage with the operand"
	}
	if again := p.Transform(m); len(again) != len(keep) {
		return "FAIL a second Transform differs"
	}
	return "ok"
}

func identityCheck[T fl](h []T) string {
	m := geom.Matrix[T]{ScaleX: h[0], SkewX: h[1], TransX: h[2], SkewY: h[3], ScaleY: h[4], TransY: h[5]}
	p := geom.NewPoint(h[6], h[7])
	for _, v := range h {
		if !finite(v) {
			return "ok non-finite"
		}
	}
	id := geom.NewIdentityMatrix[T]()
	if q := id.TransformPoint(p); q != p {
		return fmt.Sprintf("FAIL identity.TransformPoint(%v) = %v", p, q)
	}
	if q := id.Multiply(m); q != m {
		return fmt.Sprintf("FAIL identity.Multiply(%v) = %v", m, q)
	}
	if q := m.Multiply(id); q != m {
		return fmt.Sprintf("FAIL (%v).Multiply(identity) = %v", m, q)
	}
	if q := m.Translate(0, 0); q != m {
		return fmt.Sprintf("FAIL (%v).Translate(0,0) = %v", m, q)
	}
	if q := m.Scale(1, 1); q != m {
		return fmt.Sprintf("FAIL (%v).Scale(1,1) = %v", m, q)
	}
	return "ok"
}

func ratOf[T fl](v T) *big.Rat { return new(big.Rat).SetFloat64(float64(v)) }

// crossings returns the exact crossing number of the ray from p towards +x with the contour, and whether p keeps the
// margin from every edge whose half-open Y range holds p.Y.
func crossings[T fl](c poly.Contour[T], p geom.Point[T], eps float64) (n int, safe bool) {
	safe = true
	for i := range c {
		cur, next := c[i], c[(i+1)%len(c)]
		lo, hi := cur.Y, next.Y
		if lo > hi {
			lo, hi = hi, lo
		}
		if !(lo <= p.Y && p.Y < hi) { // comparisons of input values: exact
			continue
		}
		// exact abscissa of the edge at height p.Y
		t := new(big.Rat).Sub(ratOf(p.Y), ratOf(cur.Y))
		t.Mul(t, new(big.Rat).Sub(ratOf(next.X), ratOf(cur.X)))
		t.Quo(t, new(big.Rat).Sub(ratOf(next.Y), ratOf(cur.Y)))
		t.Add(t, ratOf(cur.X))
		d := new(big.Rat).Sub(t, ratOf(p.X))
		abs := func(v T) float64 { return math.Abs(float64(v)) }
		margin := 64 * eps * (abs(cur.X) + abs(next.X) + abs(p.X) + abs(p.Y) + abs(cur.Y) + abs(next.Y))
		if margin == 0 || math.IsInf(margin, 0) {
			margin = math.SmallestNonzeroFloat64
		}
		if new(big.Rat).Abs(d).Cmp(new(big.Rat).SetFloat64(margin)) <= 0 {
			safe = false
		}
		if d.Sign() > 0 {
			n++
		}
	}
	return n, safe
}

func containsCheck[T fl](h []T, p poly.Polygon[T], eps float64) string {
	pt := geom.NewPoint(h[0], h[1])
	if !finite(pt.X) || !finite(pt.Y) {
		return "ok non-finite"
	}
	any, count := false, 0
	for i, c := range p {
		for _, v := range c {
			if !finite(v.X) || !finite(v.Y) {
				return "ok non-finite"
			}
		}
		n, safe := crossings(c, pt, eps)
		if !safe {
			return "ok near-edge"
		}
		want := n%2 == 1
		if got := c.Contains(pt); got != want {
			return fmt.Sprintf("FAIL contour %d = %v: Contains(%v) = %v, exact crossing number %d", i, c, pt, got, n)
		}
		if want {
			any = true
			count++
		}
	}
	if got := p.Contains(pt); got != any {
		return fmt.Sprintf("FAIL Polygon.Contains(%v) = %v, some contour contains it: %v", pt, got, any)
	}
	if got := p.ContainsEvenOdd(pt); got != (count%2 == 1) {
		return fmt.Sprintf("FAIL Polygon.ContainsEvenOdd(%v) = %v, %d contours contain it", pt, got, count)
	}
	return "ok"
}

func polyFamily[T fl](op string, ws []string, eps float64) string {
	head, p, ok := parsePoly[T](ws)
	if !ok {
		return "bad-op"
	}
	switch {
	case op == "pb" && len(head) == 0:
		return boundsCheck(false, p)
	case op == "pbs" && len(head) == 0:
		return boundsCheck(true, p)
	case op == "pt" && len(head) == 6:
		return transformCheck(head, p)
	case op == "pi" && len(head) == 8 && len(p) == 0:
		return identityCheck(head)
	case op == "pc" && len(head) == 2:
		return containsCheck(head, p, eps)
	}
	return "bad-op"
}

// runPolyFamily dispatches pb64, pb32s, pt64, … ; ok=false when the word is not of this family.
func runPolyFamily(f []string) (string, bool) {
	w := f[0]
	if len(w) < 4 || w[0] != 'p' {
		return "", false
	}
	strict := strings.HasSuffix(w, "s")
	w = strings.TrimSuffix(w, "s")
	op, bits := w[:2], w[2:]
	if strict {
		op += "s"
	}
	switch bits {
	case "64":
		return polyFamily[float64](op, f[1:], 0x1p-52), true
	case "32":
		return polyFamily[float32](op, f[1:], 0x1p-23), true
	}
	return "", false
}

// ---------------------------------------------------------------------------------------------- generator

func polyCoord(r *hx.Rng, wide bool) float64 {
	if wide && r.Chance(1, 3) {
		return hx.Pick(r, []float64{0x1p53, -0x1p53, 0x1p54, -0x1p54, 0x1p53 + 2, 0x1p52 + 0.5, 0x1p24, -0x1p24, 0x1p25, 16777217, 1e15 + 0.5,
			-1e12 - 0.3, 1e16, 1e300, -1e300, 4e307, 3e-300, 5e-324, 0, 1, -1, 0.1, 4})
	}
	switch r.Intn(7) {
	case 0:
		return float64(r.Range(-100, 100)) / 10
	case 1:
		return float64(r.Range(-60, 60)) / 7
	case 2:
		return float64(r.Range(-40, 40)) / 3
	case 3:
		return float64(r.Range(0, 40))/10 + 0.1 + 0.2
	case 4:
		return float64(r.Range(-8, 8))
	case 5:
		return 1e6*float64(r.Range(-3, 3)) + float64(r.Range(0, 99))/100
	default:
		return float64(r.Range(-99, 99)) * 1e-3 / 7
	}
}

func (fspecArea) genPoly(r *hx.Rng) string {
	use32 := r.Chance(1, 3)
	enc := func(v float64) string {
		if use32 {
			return b32(float32(v))
		}
		return b64(v)
	}
	sfx := "64"
	if use32 {
		sfx = "32"
	}
	kind := hx.Pick(r, []string{"pb", "pb", "pt", "pi", "pc", "pc", "pc"})
	wide := kind == "pb" || (kind != "pc" && r.Bool())
	var sb strings.Builder
	sb.WriteString(kind + sfx)
	switch kind {
	case "pt":
		for i := 0; i < 6; i++ {
			if r.Chance(1, 4) {
				sb.WriteString(" " + enc(float64(r.Range(-1, 1))))
			} else {
				sb.WriteString(" " + enc(polyCoord(r, false)))
			}
		}
	case "pi":
		for i := 0; i < 8; i++ {
			sb.WriteString(" " + enc(polyCoord(r, wide)))
		}
		return sb.String()
	}
	nc := r.Range(0, 4)
	if kind == "pc" {
		nc = r.Range(1, 3)
	}
	var cs [][][2]float64
	for k := 0; k < nc; k++ {
		n := r.Range(0, 8)
		if kind == "pc" {
			n = r.Range(3, 8)
		}
		c := make([][2]float64, n)
		for i := range c {
			c[i] = [2]float64{polyCoord(r, wide), polyCoord(r, wide)}
		}
		if kind == "pc" && r.Chance(1, 4) { // a box: vertical and horizontal edges
			x, y, w, h := polyCoord(r, false), polyCoord(r, false), float64(r.Range(1, 90))/10, float64(r.Range(1, 90))/7
			c = [][2]float64{{x, y}, {x + w, y}, {x + w, y + h}, {x, y + h}}
		}
		cs = append(cs, c)
	}
	if kind == "pc" {
		px, py := polyCoord(r, false), polyCoord(r, false)
		if len(cs[0]) > 0 && r.Chance(1, 3) { // exactly on a vertex row: the half-open rule, no rounding involved
			py = hx.Pick(r, cs[0])[1]
		}
		sb.WriteString(" " + enc(px) + " " + enc(py))
	}
	for _, c := range cs {
		sb.WriteString(" |")
		for _, v := range c {
			sb.WriteString(" " + enc(v[0]) + " " + enc(v[1]))
		}
	}
	return sb.String()
}
