// Area compose: an implementation-side oracle (no Lean model) for the composition laws of geom.Matrix UNDER ROUNDING —
// the exact-arithmetic theorems C18.transform_multiply / transform_translate / transform_scale say nothing about float
// inputs on which the products round, and the model-vs-code stream `matrix` only uses exactly representable data.  Here
// the entries are not dyadic (k/10, k/3, k/7, 1e-9 … 1e9 magnitudes, mixed), at float64 and float32, and
//
//	mul   m.Multiply(n).TransformPoint(p)      against  N(M(p))        (the exact composition of the two affine maps)
//	tr    m.Translate(tx,ty).TransformPoint(p) against  M(p) + (tx,ty)
//	sc    m.Scale(sx,sy).TransformPoint(p)     against  (M(p).X*sx, M(p).Y*sy)
//	id    identity.Multiply(m), m.Multiply(identity), identity.TransformPoint(p): bit-identical to m resp. p
//
// where the right-hand sides are computed exactly in big.Rat from the float inputs.  The tolerance is RELATIVE to the
// terms: 16 ulp of the sum of the absolute values of the products that make up a coordinate, no absolute slack — a
// wrong coefficient in a product (TransY taken from the X row, SkewX scaled by sy, …) is off by the size of a term.
package main

import (
	"fmt"
	"math"
	"math/big"
	"strconv"
	"strings"

	"github.com/richardwilkes/toolbox/xmath/geom"
	"verifharness/hx"
)

type composeArea struct{}

func roundVal(r *hx.Rng) float64 {
	den := hx.Pick(r, []float64{10, 3, 7, 9, 1, 100, 6})
	v := float64(r.Range(-99, 99)) / den
	switch r.Intn(6) {
	case 0:
		v *= hx.Pick(r, []float64{1e-9, 1e-5, 1e5, 1e9, 1e-3, 1e3})
	case 1:
		v = hx.Pick(r, []float64{0, 1, -1, 0.1, -0.3, 1e-12, 123456.789})
	}
	return v
}

func (composeArea) Gen(r *hx.Rng, n int, _ string, emit func(string)) {
	for i := 0; i < n; i++ {
		kind := hx.Pick(r, []string{"mul", "mul", "mul", "tr", "sc", "id"})
		bits := hx.Pick(r, []string{"64", "64", "32"})
		cnt := map[string]int{"mul": 14, "tr": 10, "sc": 10, "id": 8}[kind]
		w := make([]string, cnt)
		for k := range w {
			v := roundVal(r)
			if bits == "32" {
				v = float64(float32(v))
			}
			w[k] = strconv.FormatUint(math.Float64bits(v), 16)
		}
		// special operands (the shapes "fast paths" are written for): translation-only, scale-only, identity, quarter turn
		hexOf := func(v float64) string { return strconv.FormatUint(math.Float64bits(v), 16) }
		special := func(o int) {
			switch r.Intn(4) {
			case 0: // translation only
				w[o], w[o+1], w[o+3], w[o+4] = hexOf(1), hexOf(0), hexOf(0), hexOf(1)
			case 1: // scale only
				w[o+1], w[o+2], w[o+3], w[o+5] = hexOf(0), hexOf(0), hexOf(0), hexOf(0)
			case 2: // identity
				w[o], w[o+1], w[o+2], w[o+3], w[o+4], w[o+5] = hexOf(1), hexOf(0), hexOf(0), hexOf(0), hexOf(1), hexOf(0)
			default: // quarter turn with a translation
				w[o], w[o+1], w[o+3], w[o+4] = hexOf(0), hexOf(-1), hexOf(1), hexOf(0)
			}
		}
		if r.Chance(1, 4) {
			special(0)
		}
		if kind == "mul" && r.Chance(1, 4) {
			special(6)
		}
		emit("cmp" + bits + " " + kind + " " + strings.Join(w, " "))
	}
}

func composeRun[T ~float32 | ~float64](kind string, v []float64, eps float64) string {
	mk := func(o int) geom.Matrix[T] {
		return geom.Matrix[T]{ScaleX: T(v[o]), SkewX: T(v[o+1]), TransX: T(v[o+2]), SkewY: T(v[o+3]), ScaleY: T(v[o+4]), TransY: T(v[o+5])}
	}
	q := func(f T) *big.Rat { return new(big.Rat).SetFloat64(float64(f)) }
	mul := func(a, b *big.Rat) *big.Rat { return new(big.Rat).Mul(a, b) }
	add := func(a, b *big.Rat) *big.Rat { return new(big.Rat).Add(a, b) }
	abs := func(a *big.Rat) *big.Rat { return new(big.Rat).Abs(a) }
	// exact image of (x, y) under m, and the sum of the absolute values of its terms given magnitudes (ax, ay) of x, y
	apply := func(m geom.Matrix[T], x, y, ax, ay *big.Rat) (rx, ry, mx, my *big.Rat) {
		rx = add(add(mul(q(m.ScaleX), x), mul(q(m.SkewX), y)), q(m.TransX))
		ry = add(add(mul(q(m.SkewY), x), mul(q(m.ScaleY), y)), q(m.TransY))
		mx = add(add(mul(abs(q(m.ScaleX)), ax), mul(abs(q(m.SkewX)), ay)), abs(q(m.TransX)))
		my = add(add(mul(abs(q(m.SkewY)), ax), mul(abs(q(m.ScaleY)), ay)), abs(q(m.TransY)))
		return
	}
	judge := func(what string, got geom.Point[T], wx, wy, mx, my *big.Rat) string {
		for i, tr := range []struct{ got, want, mag *big.Rat }{{q(got.X), wx, mx}, {q(got.Y), wy, my}} {
			if math.IsNaN(float64(got.X)) || math.IsInf(float64(got.X), 0) || math.IsNaN(float64(got.Y)) || math.IsInf(float64(got.Y), 0) {
				return "ok non-finite"
			}
			d := abs(new(big.Rat).Sub(tr.got, tr.want))
			tol := mul(tr.mag, new(big.Rat).SetFloat64(16*eps))
			if d.Cmp(tol) > 0 {
				g, _ := tr.got.Float64()
				w, _ := tr.want.Float64()
				t, _ := tol.Float64()
				return fmt.Sprintf("FAIL composition law (%s) coordinate %d: got %v want %v (tolerance %v)", what, i, g, w, t)
			}
		}
		return ""
	}
	m := mk(0)
	switch kind {
	case "mul":
		n := mk(6)
		p := geom.Point[T]{X: T(v[12]), Y: T(v[13])}
		got := m.Multiply(n).TransformPoint(p)
		ix, iy, imx, imy := apply(m, q(p.X), q(p.Y), abs(q(p.X)), abs(q(p.Y)))
		wx, wy, mx, my := apply(n, ix, iy, imx, imy)
		if s := judge("Multiply", got, wx, wy, mx, my); s != "" {
			return s
		}
	case "tr", "sc":
		a, b := T(v[6]), T(v[7])
		p := geom.Point[T]{X: T(v[8]), Y: T(v[9])}
		ix, iy, imx, imy := apply(m, q(p.X), q(p.Y), abs(q(p.X)), abs(q(p.Y)))
		var got geom.Point[T]
		var wx, wy, mx, my *big.Rat
		if kind == "tr" {
			got = m.Translate(a, b).TransformPoint(p)
			wx, wy, mx, my = add(ix, q(a)), add(iy, q(b)), add(imx, abs(q(a))), add(imy, abs(q(b)))
		} else {
			got = m.Scale(a, b).TransformPoint(p)
			wx, wy, mx, my = mul(ix, q(a)), mul(iy, q(b)), mul(imx, abs(q(a))), mul(imy, abs(q(b)))
		}
		if s := judge(kind, got, wx, wy, mx, my); s != "" {
			return s
		}
	case "id":
		id := geom.NewIdentityMatrix[T]()
		p := geom.Point[T]{X: T(v[6]), Y: T(v[7])}
		same := func(a, b T) bool { return a == b || (a != a && b != b) }
		eqM := func(a, b geom.Matrix[T]) bool {
			return same(a.ScaleX, b.ScaleX) && same(a.SkewX, b.SkewX) && same(a.TransX, b.TransX) && same(a.SkewY, b.SkewY) &&
				same(a.ScaleY, b.ScaleY) && same(a.TransY, b.TransY)
		}
		if got := id.TransformPoint(p); !same(got.X, p.X) || !same(got.Y, p.Y) {
			return fmt.Sprintf("FAIL identity.TransformPoint(%v) = %v", p, got)
		}
		if got := id.Multiply(m); !eqM(got, m) {
			return fmt.Sprintf("FAIL identity.Multiply(m) = %v, m = %v", got, m)
		}
		if got := m.Multiply(id); !eqM(got, m) {
			return fmt.Sprintf("FAIL m.Multiply(identity) = %v, m = %v", got, m)
		}
	default:
		return "bad-op"
	}
	return "ok"
}

func (composeArea) Run(line string) string {
	f := strings.Fields(line)
	if len(f) < 3 {
		return "bad-op"
	}
	v := make([]float64, len(f)-2)
	for i, w := range f[2:] {
		u, err := strconv.ParseUint(w, 16, 64)
		if err != nil {
			return "bad-op"
		}
		v[i] = math.Float64frombits(u)
	}
	want := map[string]int{"mul": 14, "tr": 10, "sc": 10, "id": 8}[f[1]]
	if want == 0 || len(v) != want {
		return "bad-op"
	}
	switch f[0] {
	case "cmp64":
		return composeRun[float64](f[1], v, 0x1p-52)
	case "cmp32":
		return composeRun[float32](f[1], v, 0x1p-23)
	}
	return "bad-op"
}
