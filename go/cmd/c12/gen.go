package main

import (
	"strconv"
	"strings"

	"verifharness/hx"
)

func pickSize(r *hx.Rng, max int) int {
	switch r.Intn(9) {
	case 0:
		return 0
	case 1:
		return 1
	case 2:
		if max > 1 {
			return max - 1
		}
		return 1
	case 3:
		return max
	case 4:
		return max + 1
	case 5:
		return 3 * max
	case 6:
		return r.Range(0, 2*max+1)
	default: // small records so that files fill up over several writes
		return r.Range(0, max/2+1)
	}
}

const (
	maxInt64 = int64(^uint64(0) >> 1)
	minInt64 = -maxInt64 - 1
)

func itoa(v int64) string { return strconv.FormatInt(v, 10) }

// limits picks MaxSize and MaxBackups as passed to the options (signed, any magnitude) and the natural numbers they
// act as (negative = 0; `eff` values drive the choice of write sizes and history lengths only).
func limits(r *hx.Rng) (size int64, backups int64, effSize int, effBackups int) {
	size = int64(hx.Pick(r, []int{1, 2, 10, 100, 1, 2, 10, 100, 3, 7, 25}))
	switch r.Intn(40) {
	case 0, 1, 2:
		size = int64(r.Range(1, 40))
	case 3:
		size = 0 // outside the property's quantifier (MaxSize >= 1) but accepted by the API: every non-empty file rotates
	case 4:
		size = hx.Pick(r, []int64{-1, -100, minInt64, minInt64 + 1})
	case 5:
		size = hx.Pick(r, []int64{maxInt64, maxInt64 - 1, maxInt64/2 + 1, 1 << 62, 1 << 32, 1<<32 - 1, 1 << 31, 1<<31 - 1})
	case 6:
		size = hx.Pick(r, []int64{255, 256, 1000, 1024, 4096, 65536})
	}
	backups = int64(hx.Pick(r, []int{0, 1, 2, 5, 0, 1, 2, 5, 3, 10, 12, 25}))
	switch r.Intn(40) {
	case 0:
		backups = hx.Pick(r, []int64{-1, -7, minInt64})
	case 1:
		backups = hx.Pick(r, []int64{9, 10, 11, 19, 20, 99, 100})
	}
	effSize, effBackups = int(size), int(backups)
	if size < 0 {
		effSize = 0
	}
	if size > 1<<20 {
		effSize = 1 << 20
	}
	if backups < 0 {
		effBackups = 0
	}
	return
}

// sizeBase is the magnitude around which write sizes are chosen.
func sizeBase(effSize int) int {
	if effSize <= 0 {
		return 3
	}
	if effSize >= 1<<20 {
		return 12
	}
	return effSize
}

func limitOpts(size, backups int64) (string, string) { return "S" + itoa(size), "B" + itoa(backups) }

// preSpec: files left by an earlier instance. kind 0 random subset, 1 every slot 0..B filled, 2 only backups (no
// current file), 3 gaps and files beyond MaxBackups.
func preSpec(r *hx.Rng, kind, max, effBackups int) string {
	var pre []string
	add := func(i, n int) { pre = append(pre, strconv.Itoa(i)+":"+strconv.Itoa(n)) }
	top := effBackups
	if top > 14 {
		top = 14
	}
	switch kind {
	case 1:
		for i := 0; i <= top; i++ {
			add(i, pickSize(r, max))
		}
	case 2:
		for i := 1; i <= top; i++ {
			if r.Chance(2, 3) {
				add(i, pickSize(r, max))
			}
		}
	case 3:
		add(0, hx.Pick(r, []int{0, 1, max, max + 1}))
		for i := 1; i <= top+3; i++ {
			if r.Chance(1, 2) {
				add(i, pickSize(r, max))
			}
		}
		add(effBackups+r.Range(4, 12), r.Range(0, 5))
	default:
		if r.Chance(2, 3) {
			add(0, pickSize(r, max))
		}
		for i := 1; i <= top+2; i++ {
			if r.Chance(1, 3) {
				add(i, pickSize(r, max))
			}
		}
		if r.Chance(1, 10) {
			add(effBackups+r.Range(3, 9), r.Range(0, 5))
		}
	}
	if len(pre) == 0 {
		return "-"
	}
	return strings.Join(pre, ",")
}

// otherLimits is the argument of `reopen <opts>`: the next instance runs with other limits (lowered, raised, 0,
// two-digit) on the directory the previous one left behind.
func otherLimits(r *hx.Rng, max int) string {
	var o []string
	if r.Chance(2, 3) {
		o = append(o, "B"+strconv.Itoa(hx.Pick(r, []int{0, 1, 2, 3, 5, 9, 10, 11, 12, 25})))
	}
	if r.Chance(1, 2) || len(o) == 0 {
		o = append(o, "S"+strconv.Itoa(hx.Pick(r, []int{1, 2, max, max + 1, max / 2, 2 * max, 10, 100})))
	}
	if r.Chance(1, 8) {
		o = append(o, "M"+strconv.Itoa(hx.Pick(r, []int{0o700, 0o777, 0o770, 0o707})))
	}
	return strings.Join(o, ",")
}

// Gen emits histories: a reset line (options + pre-existing files) followed by operations in one of several shapes.
func (a *rot) Gen(r *hx.Rng, n int, _ string, emit func(string)) {
	emitted := 0
	out := func(s string) { emit(s); emitted++ }
	for emitted < n {
		size, backups, effSize, effBackups := limits(r)
		max := sizeBase(effSize)
		so, bo := limitOpts(size, backups)
		opts := []string{so, bo, "P"}
		newFails, defPath := false, false
		switch r.Intn(20) {
		case 0: // MaxBackups left at its default
			opts = []string{so, "P"}
			effBackups = 1
		case 1: // MaxSize left at its default (no rotation can happen with the sizes used here)
			opts = []string{bo, "P"}
			effSize, max = 1<<20, 12
		case 2: // later options override earlier ones
			opts = []string{"S" + itoa(int64(max+5)), "B" + itoa(int64(effBackups+1)), "P", so, bo}
		case 3: // empty path: New fails, wherever the option stands
			opts = hx.Pick(r, [][]string{{so, bo, "E"}, {"P", "E", so}, {"E", "P", so}, {"E"}})
			newFails = true
		case 4, 5: // path in a directory that does not exist yet
			opts = []string{"Q", so, bo}
		case 6: // WithMask (file modes are not part of the property; contents must not depend on it)
			opts = []string{so, "M" + strconv.Itoa(hx.Pick(r, []int{0o700, 0o777, 0o770, 0o707})), bo, hx.Pick(r, []string{"P", "Q"})}
		case 7:
			if r.Chance(1, 3) { // no Path option: DefaultPath(), constructed only
				opts = hx.Pick(r, [][]string{{so, bo}, {so}, {}})
				defPath = true
			}
		default:
			if r.Bool() {
				opts[0], opts[2] = opts[2], opts[0]
			}
		}
		os := "-"
		if len(opts) > 0 {
			os = strings.Join(opts, ",")
		}
		shape := r.Intn(12)
		ps := "-"
		if shape == 5 || shape == 6 { // restart shapes: state left by a previous run
			ps = preSpec(r, r.Range(1, 3), max, effBackups)
		} else if r.Chance(1, 2) {
			ps = preSpec(r, 0, max, effBackups)
		}
		out("reset " + os + " " + ps)
		if newFails || defPath {
			for i, k := 0, r.Range(1, 3); i < k; i++ {
				out(hx.Pick(r, []string{"w 1", "close", "obs", "sync", "reopen"}))
			}
			continue
		}
		misc := func() bool { // Close / re-open / Sync / obs sprinkled anywhere
			switch c := r.Intn(40); {
			case c < 3:
				out("close")
			case c < 5:
				out("reopen")
			case c < 6:
				out("reopen " + otherLimits(r, max))
			case c < 7:
				out("sync")
			case c < 8:
				out("obs")
			default:
				return false
			}
			return true
		}
		w := func(sz int) {
			if sz < 0 {
				sz = 0
			}
			out("w " + strconv.Itoa(sz))
		}
		if effSize >= 1<<20 { // nothing can rotate: short
			for i, k := 0, r.Range(3, 8); i < k; i++ {
				if !misc() {
					w(pickSize(r, max))
				}
			}
			continue
		}
		switch shape {
		case 0, 1, 2: // boundary-sized writes: a rotation on almost every write
			for i, k := 0, r.Range(4, 16+4*min(effBackups, 8)); i < k; i++ {
				if !misc() {
					w(hx.Pick(r, []int{max, max + 1, max, 3 * max, max - 1 + r.Intn(2), 1}))
				}
			}
		case 3: // many rotations (50+) in one history
			for i, k := 0, r.Range(60, 150); i < k; i++ {
				if r.Chance(1, 25) {
					misc()
				}
				w(hx.Pick(r, []int{max, max, max + 1, (max + 1) / 2, max}))
			}
		case 4: // fill the file to exactly MaxSize (in 1-3 pieces) or write one oversized record, then Close / re-open /
			// empty write at exactly that moment
			for i, k := 0, r.Range(3, 8); i < k; i++ {
				switch r.Intn(4) {
				case 0:
					w(max)
				case 1:
					p := r.Range(0, max)
					w(p)
					w(max - p)
				case 2:
					p := r.Range(0, max)
					q := r.Range(0, max-p)
					w(p)
					w(q)
					w(max - p - q)
				default:
					w(hx.Pick(r, []int{max + 1, 2 * max, 3*max + 1}))
				}
				switch r.Intn(6) {
				case 0:
					out("close")
				case 1:
					out("reopen")
				case 2:
					out("reopen " + otherLimits(r, max))
				case 3:
					out("close")
					out("sync")
					out("close")
				case 4:
					w(0)
				}
				if r.Bool() {
					w(hx.Pick(r, []int{0, 1, 1, max}))
				}
			}
		case 5, 6: // restart on what an earlier instance left (all slots full / only backups / gaps and beyond)
			if r.Bool() {
				out("reopen")
			}
			for i, k := 0, r.Range(2, 6+effBackups); i < k; i++ {
				w(hx.Pick(r, []int{max, max + 1, 1, pickSize(r, max)}))
			}
			out(hx.Pick(r, []string{"reopen", "close", "reopen " + otherLimits(r, max)}))
			for i, k := 0, r.Range(2, 8); i < k; i++ {
				if !misc() {
					w(hx.Pick(r, []int{max, max + 1, 1, pickSize(r, max)}))
				}
			}
		case 7: // empty writes in every state
			for i, k := 0, r.Range(4, 14); i < k; i++ {
				if !misc() {
					w(pickSize(r, max))
				}
				if r.Chance(2, 3) {
					w(0)
				}
			}
		default:
			for i, k := 0, r.Range(4, 16+4*min(effBackups, 8)); i < k; i++ {
				if !misc() {
					w(pickSize(r, max))
				}
			}
		}
	}
}

// rotdef is the same endpoint with one fixed history: the limits that New takes from DefaultMaxSize/DefaultMaxBackups
// are exercised at their boundary (a pre-existing file one byte short of the default MaxSize).
type rotdef struct{ rot }

func (a *rotdef) Gen(_ *hx.Rng, _ int, _ string, emit func(string)) {
	n := strconv.Itoa(rotationDefaultMaxSize() - 1)
	for _, l := range []string{
		"reset B2,P 0:" + n, "w 1", "w 1", "obs",
		"reset P 0:" + n + ",1:3", "w 0", "w 2", "close", "w 1",
	} {
		emit(l)
	}
}
