package main

import (
	"strconv"
	"strings"

	"verifharness/hx"
)

func pickSize(r *hx.Rng, max int) int {
	switch r.Intn(9) {
	case 0:
		return 0
	case 1:
		return 1
	case 2:
		if max > 1 {
			return max - 1
		}
		return 1
	case 3:
		return max
	case 4:
		return max + 1
	case 5:
		return 3 * max
	case 6:
		return r.Range(0, 2*max+1)
	default: // small records so that files fill up over several writes
		return r.Range(0, max/2+1)
	}
}

// Gen emits histories: a reset line (options + pre-existing files) followed by 4..36 operations.
func (a *rot) Gen(r *hx.Rng, n int, _ string, emit func(string)) {
	emitted := 0
	for emitted < n {
		max := hx.Pick(r, []int{1, 2, 10, 100, 1, 2, 10, 100, 3, 7, 25})
		if r.Chance(1, 12) {
			max = r.Range(1, 40)
		}
		if r.Chance(1, 40) {
			max = 0 // outside the property's quantifier (MaxSize >= 1) but accepted by the API: every non-empty file rotates
		}
		backups := hx.Pick(r, []int{0, 1, 2, 5, 0, 1, 2, 5, 3})
		effBackups := backups
		var opts []string
		sizeGiven := true
		newFails := false
		switch r.Intn(16) {
		case 0: // MaxBackups left at its default
			opts = []string{"S" + strconv.Itoa(max), "P"}
			effBackups = 1
		case 1: // MaxSize left at its default (no rotation can happen with the sizes used here)
			opts = []string{"B" + strconv.Itoa(backups), "P"}
			sizeGiven = false
		case 2: // later options override earlier ones
			opts = []string{"S" + strconv.Itoa(max+5), "B" + strconv.Itoa(backups+1), "P", "S" + strconv.Itoa(max), "B" + strconv.Itoa(backups)}
		case 3: // empty path: New fails
			opts = []string{"S" + strconv.Itoa(max), "B" + strconv.Itoa(backups), "E"}
			if r.Bool() {
				opts = []string{"P", "E", "S" + strconv.Itoa(max)}
			}
			newFails = true
		case 4, 5: // path in a directory that does not exist yet
			opts = []string{"Q", "S" + strconv.Itoa(max), "B" + strconv.Itoa(backups)}
		case 6: // a failing option repaired later is still a failure; an empty path first, then a good one
			opts = []string{"S" + strconv.Itoa(max), "B" + strconv.Itoa(backups), "P"}
			if r.Chance(1, 4) {
				opts = []string{"E", "P", "S" + strconv.Itoa(max)}
				newFails = true
			}
		default:
			opts = []string{"S" + strconv.Itoa(max), "B" + strconv.Itoa(backups), "P"}
			if r.Bool() {
				opts[0], opts[2] = opts[2], opts[0]
			}
		}
		var pre []string
		if r.Chance(1, 2) {
			if r.Chance(2, 3) {
				pre = append(pre, "0:"+strconv.Itoa(pickSize(r, max)))
			}
			for i := 1; i <= effBackups+2; i++ {
				if r.Chance(1, 3) {
					pre = append(pre, strconv.Itoa(i)+":"+strconv.Itoa(pickSize(r, max)))
				}
			}
			if r.Chance(1, 10) {
				pre = append(pre, strconv.Itoa(effBackups+r.Range(3, 9))+":"+strconv.Itoa(r.Range(0, 5)))
			}
		}
		ps := "-"
		if len(pre) > 0 {
			ps = strings.Join(pre, ",")
		}
		emit("reset " + strings.Join(opts, ",") + " " + ps)
		emitted++
		// long histories for many backups so that more than MaxBackups+1 files get filled
		k := r.Range(4, 16+4*effBackups)
		if !sizeGiven {
			k = r.Range(3, 8)
		}
		if newFails {
			k = r.Range(1, 3)
		}
		big := r.Chance(1, 3) // histories dominated by boundary-sized writes: a rotation on almost every write
		for i := 0; i < k; i++ {
			switch c := r.Intn(40); {
			case c < 3:
				emit("close")
			case c < 6:
				emit("reopen")
			case c < 7:
				emit("sync")
			case c < 8:
				emit("obs")
			default:
				sz := pickSize(r, max)
				if big {
					sz = hx.Pick(r, []int{max, max + 1, max, 3 * max, max - 1 + r.Intn(2), 1})
				}
				if sz < 0 {
					sz = 0
				}
				emit("w " + strconv.Itoa(sz))
			}
			emitted++
		}
	}
}

// rotdef is the same endpoint with one fixed history: the limits that New takes from DefaultMaxSize/DefaultMaxBackups
// are exercised at their boundary (a pre-existing file one byte short of the default MaxSize).
type rotdef struct{ rot }

func (a *rotdef) Gen(_ *hx.Rng, _ int, _ string, emit func(string)) {
	n := strconv.Itoa(rotationDefaultMaxSize() - 1)
	for _, l := range []string{
		"reset B2,P 0:" + n, "w 1", "w 1", "obs",
		"reset P 0:" + n + ",1:3", "w 0", "w 2", "close", "w 1",
	} {
		emit(l)
	}
}
