package main

import (
	"fmt"
	"os"
	"path/filepath"
	"sort"
	"strconv"
	"strings"
	"sync"
	"sync/atomic"
	"time"

	"github.com/richardwilkes/toolbox/log/rotation"
	"verifharness/hx"
)

// stress is the tie between the code and the theorem C12.concurrent_writes_never_interleave (which is about a model in
// which every method is bracketed by the mutex): several goroutines write records with distinct, self-describing
// patterns through ONE Rotator while other goroutines call Close (the next Write re-opens) and Sync. The judge is
// the conclusion of the theorem, read off the directory afterwards:
//
//   - every Write returned (len(b), nil);
//   - every retained file is a sequence of WHOLE records (nothing torn);
//   - the records read from the oldest backup to the current file form a sequence in which every goroutine's records
//     are consecutive in its own order and end with its last record (a suffix of an interleaving of whole writes,
//     each goroutine in program order); if the oldest slot was never reached, every record of every goroutine is there;
//   - the directory is exactly what the SEQUENTIAL rotation rule (re-implemented below in three lines, independent of
//     the library) produces when the retained records are written one at a time in that order: same number of files,
//     same file boundaries — this contains the size bound (no file exceeds MaxSize unless it is a single record) and
//     "size accounting is not confused by concurrency";
//   - no backup beyond MaxBackups, no foreign directory entry.
//
// line: stress <maxSize> <maxBackups> <writers> <perWriter> <seed> <mode>
//
//	mode 0: records of varying length, Close and Sync goroutines running alongside
//	mode 1: fixed-length records (12 bytes), MaxSize a multiple of it, many backups, writers only
//	mode 2: like 1, plus the Close and Sync goroutines
type stress struct{ timedOut bool }

func (*stress) Gen(r *hx.Rng, n int, tier string, emit func(string)) {
	for i := 0; i < n; i++ {
		max := hx.Pick(r, []int{48, 64, 256, 1000, 4096, 100000})
		backups := hx.Pick(r, []int{0, 1, 2, 5})
		writers := r.Range(2, 8)
		per := r.Range(40, 200)
		if tier == "thorough" {
			per = r.Range(100, 600)
		}
		mode := 0
		if i%3 != 0 {
			// tight: all records have the same length (12 bytes) and MaxSize is a multiple of it, many files are kept:
			// every file ends with writers racing for its last slot (check-then-act on the size shows as a file that is
			// longer than MaxSize although no record is)
			mode = i % 3
			max = 12 * hx.Pick(r, []int{2, 5, 10, 50, 100})
			backups = hx.Pick(r, []int{12, 25, 100})
			writers = r.Range(4, 12)
			per = r.Range(150, 400)
		}
		emit(fmt.Sprintf("stress %d %d %d %d %d %d", max, backups, writers, per, r.Intn(1000000), mode))
	}
}

// payloadLen is a deterministic function of (seed, writer, seq) so that the parser knows the exact expected record.
func payloadLen(seed, g, q int) int {
	if seed < 0 { // tight mode
		return 0
	}
	x := uint64(seed)*0x9E3779B97F4A7C15 + uint64(g)*0xBF58476D1CE4E5B9 + uint64(q)*0x94D049BB133111EB
	x ^= x >> 29
	x *= 0xD6E8FEB86659FD93
	x ^= x >> 32
	switch x % 16 {
	case 0:
		return 0
	case 1:
		return 90 + int((x>>8)%40) // longer than the two smallest MaxSize values
	default:
		return int((x >> 8) % 30)
	}
}

func record(seed, g, q int) []byte {
	return []byte(fmt.Sprintf("<%02d:%05d:%s>\n", g, q, strings.Repeat(string(rune('a'+g)), payloadLen(seed, g, q))))
}

type rec struct{ g, q int }

// parse splits a file into whole records; ok=false if the bytes are not a concatenation of whole records.
func parse(seed int, data []byte) ([]rec, bool) {
	var out []rec
	for len(data) > 0 {
		if len(data) < 11 || data[0] != '<' || data[3] != ':' || data[9] != ':' {
			return out, false
		}
		g, e1 := strconv.Atoi(string(data[1:3]))
		q, e2 := strconv.Atoi(string(data[4:9]))
		if e1 != nil || e2 != nil {
			return out, false
		}
		want := record(seed, g, q)
		if len(data) < len(want) || string(data[:len(want)]) != string(want) {
			return out, false
		}
		out = append(out, rec{g, q})
		data = data[len(want):]
	}
	return out, true
}

// sequential is the rotation rule of the property, applied to records written one at a time into an empty directory:
// a record is appended to the current file unless that file is not empty and would grow beyond max, in which case a new
// file is started. It returns the files, oldest first.
func sequential(max int, recs [][]byte) [][]byte {
	var files [][]byte
	for _, b := range recs {
		if len(files) == 0 || (len(files[len(files)-1]) > 0 && len(files[len(files)-1])+len(b) > max) {
			files = append(files, nil)
		}
		files[len(files)-1] = append(files[len(files)-1], b...)
	}
	return files
}

func (st *stress) Run(line string) string {
	f := strings.Fields(line)
	if len(f) != 7 || f[0] != "stress" {
		return "bad-op"
	}
	if st.timedOut {
		return "ok skipped (an earlier stress line timed out)"
	}
	max, backups, writers, per, seed := hx.Atoi(f[1]), hx.Atoi(f[2]), hx.Atoi(f[3]), hx.Atoi(f[4]), hx.Atoi(f[5])
	mode := hx.Atoi(f[6])
	if mode != 0 {
		seed = -1 - seed
	}
	root, err := os.MkdirTemp(scratchBase(), "c12s-")
	if err != nil {
		return "FAIL mktemp"
	}
	defer os.RemoveAll(root)
	path := filepath.Join(root, baseName)
	r, err := rotation.New(rotation.Path(path), rotation.MaxSize(int64(max)), rotation.MaxBackups(backups))
	if err != nil {
		return "FAIL new"
	}
	var wg sync.WaitGroup
	var mu sync.Mutex
	var problems []string
	problem := func(s string) {
		mu.Lock()
		if len(problems) < 3 {
			problems = append(problems, s)
		}
		mu.Unlock()
	}
	start := make(chan struct{})
	for g := 0; g < writers; g++ {
		wg.Add(1)
		go func(g int) {
			defer wg.Done()
			<-start
			for q := 0; q < per; q++ {
				b := record(seed, g, q)
				n, werr := r.Write(b)
				if n != len(b) || werr != nil {
					problem(fmt.Sprintf("write g=%d q=%d returned n=%d/%d err=%v", g, q, n, len(b), werr != nil))
				}
			}
		}(g)
	}
	// Close and Sync from their own goroutines while the writers run (after a Close the next Write re-opens)
	var stop atomic.Bool
	var side sync.WaitGroup
	closes, syncs := 0, 0
	if mode != 1 {
		side.Add(2)
		go func() {
			defer side.Done()
			<-start
			for !stop.Load() {
				if cerr := r.Close(); cerr != nil {
					problem("Close returned an error")
				}
				closes++
				time.Sleep(time.Duration(20+closes%7*15) * time.Microsecond)
			}
		}()
		go func() {
			defer side.Done()
			<-start
			for !stop.Load() {
				if serr := r.Sync(); serr != nil {
					problem("Sync returned an error")
				}
				syncs++
				time.Sleep(time.Duration(30+syncs%5*20) * time.Microsecond)
			}
		}()
	}
	done := make(chan struct{})
	go func() { wg.Wait(); stop.Store(true); side.Wait(); close(done) }()
	close(start)
	select {
	case <-done:
	case <-time.After(envMS("C12_STRESS_MS", 10000)):
		st.timedOut = true
		stop.Store(true)
		// make the spinning writers fail (see guard.call) so that they do not burn cores for the rest of the run
		end := time.Now().Add(5 * time.Second)
		for time.Now().Before(end) {
			_ = os.RemoveAll(root)
			_ = os.WriteFile(root, []byte("x"), 0o600)
			select {
			case <-done:
				end = time.Now()
			case <-time.After(5 * time.Millisecond):
			}
		}
		_ = os.Remove(root)
		return "FAIL writers did not finish within the deadline (a call never returned)"
	}
	_ = r.Close()
	if len(problems) > 0 {
		return "FAIL " + strings.Join(problems, "; ")
	}
	entries, err := os.ReadDir(root)
	if err != nil {
		return "FAIL readdir"
	}
	files := map[int][]byte{}
	var idxs []int
	for _, e := range entries {
		idx := index(e.Name())
		if idx < 0 {
			return "FAIL unexpected directory entry " + e.Name()
		}
		if idx > backups {
			return fmt.Sprintf("FAIL backup %d exists with MaxBackups=%d", idx, backups)
		}
		data, rerr := os.ReadFile(filepath.Join(root, e.Name()))
		if rerr != nil {
			return "FAIL unreadable " + e.Name()
		}
		files[idx] = data
		idxs = append(idxs, idx)
	}
	sort.Sort(sort.Reverse(sort.IntSlice(idxs))) // oldest backup first
	for i, idx := range idxs {
		if idx != len(idxs)-1-i {
			return fmt.Sprintf("FAIL the retained files are not path, path-1 … path-%d without gaps", len(idxs)-1)
		}
	}
	var stream []rec
	var raw [][]byte
	for _, idx := range idxs {
		recs, ok := parse(seed, files[idx])
		if !ok {
			return fmt.Sprintf("FAIL file %d is not a sequence of whole records (after %d good records)", idx, len(recs))
		}
		if len(files[idx]) > max && len(recs) != 1 {
			return fmt.Sprintf("FAIL file %d has %d bytes > MaxSize %d and holds %d records", idx, len(files[idx]), max, len(recs))
		}
		stream = append(stream, recs...)
		for _, x := range recs {
			raw = append(raw, record(seed, x.g, x.q))
		}
	}
	// per writer: consecutive sequence numbers, ending at the writer's last record
	last := map[int]int{}
	count := map[int]int{}
	for _, x := range stream {
		if x.g < 0 || x.g >= writers || x.q < 0 || x.q >= per {
			return fmt.Sprintf("FAIL foreign record g=%d q=%d", x.g, x.q)
		}
		if p, ok := last[x.g]; ok && x.q != p+1 {
			return fmt.Sprintf("FAIL writer %d: record %d follows record %d (lost, duplicated or reordered)", x.g, x.q, p)
		}
		last[x.g] = x.q
		count[x.g]++
	}
	for g, q := range last {
		if q != per-1 {
			return fmt.Sprintf("FAIL writer %d: retained records end at %d, last written was %d (not a suffix)", g, q, per-1)
		}
	}
	// (any interleaving of per-writer suffixes is a suffix of some linearisation that respects each writer's order)
	// nothing can have been dropped unless the oldest slot was reached
	if backups >= 1 && len(idxs) <= backups && len(stream) != writers*per {
		return fmt.Sprintf("FAIL only %d of %d records retained although slot %d was never filled", len(stream), writers*per, backups)
	}
	// the directory is what the sequential rule makes of these records in this order
	want := sequential(max, raw)
	if len(want) != len(idxs) {
		return fmt.Sprintf("FAIL %d files retained, the sequential rule puts these records into %d", len(idxs), len(want))
	}
	for i, idx := range idxs {
		if string(want[i]) != string(files[idx]) {
			return fmt.Sprintf("FAIL file %d holds %d bytes, the sequential rule gives it %d (file boundaries differ)", idx, len(files[idx]), len(want[i]))
		}
	}
	return fmt.Sprintf("ok files=%d records=%d/%d", len(idxs), len(stream), writers*per)
}
