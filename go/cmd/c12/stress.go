package main

import (
	"fmt"
	"os"
	"path/filepath"
	"sort"
	"strconv"
	"strings"
	"sync"
	"time"

	"github.com/richardwilkes/toolbox/log/rotation"
	"verifharness/hx"
)

// stress is the implementation-side oracle for the "concurrent writers never interleave bytes within one write"
// clause: several goroutines write records with distinct, self-describing patterns through one Rotator; afterwards
// every retained file must parse into whole records, and the retained stream (oldest backup → current file) must be
// a suffix of a linearisation of the writes (per writer: consecutive sequence numbers ending at its last record).
//
// line: stress <maxSize> <maxBackups> <writers> <perWriter> <seed> <mode>   (mode 1: fixed-length records)
type stress struct{ timedOut bool }

func (*stress) Gen(r *hx.Rng, n int, tier string, emit func(string)) {
	for i := 0; i < n; i++ {
		max := hx.Pick(r, []int{48, 64, 256, 1000, 4096, 100000})
		backups := hx.Pick(r, []int{0, 1, 2, 5})
		writers := r.Range(2, 8)
		per := r.Range(40, 200)
		if tier == "thorough" {
			per = r.Range(100, 600)
		}
		mode := 0
		if i%3 == 1 {
			// tight: all records have the same length (12 bytes) and MaxSize is a multiple of it, many files are kept:
			// every file ends with writers racing for its last slot (check-then-act on the size shows as a file that is
			// longer than MaxSize although no record is)
			mode = 1
			max = 12 * hx.Pick(r, []int{2, 5, 10, 50, 100})
			backups = hx.Pick(r, []int{12, 25, 100})
			writers = r.Range(4, 12)
			per = r.Range(150, 400)
		}
		emit(fmt.Sprintf("stress %d %d %d %d %d %d", max, backups, writers, per, r.Intn(1000000), mode))
	}
}

// payloadLen is a deterministic function of (seed, writer, seq) so that the parser knows the exact expected record.
func payloadLen(seed, g, q int) int {
	if seed < 0 { // tight mode
		return 0
	}
	x := uint64(seed)*0x9E3779B97F4A7C15 + uint64(g)*0xBF58476D1CE4E5B9 + uint64(q)*0x94D049BB133111EB
	x ^= x >> 29
	x *= 0xD6E8FEB86659FD93
	x ^= x >> 32
	switch x % 16 {
	case 0:
		return 0
	case 1:
		return 90 + int((x>>8)%40) // longer than the two smallest MaxSize values
	default:
		return int((x >> 8) % 30)
	}
}

func record(seed, g, q int) []byte {
	return []byte(fmt.Sprintf("<%02d:%05d:%s>\n", g, q, strings.Repeat(string(rune('a'+g)), payloadLen(seed, g, q))))
}

type rec struct{ g, q int }

// parse splits a file into whole records; ok=false if the bytes are not a concatenation of whole records.
func parse(seed int, data []byte) ([]rec, bool) {
	var out []rec
	for len(data) > 0 {
		if len(data) < 11 || data[0] != '<' || data[3] != ':' || data[9] != ':' {
			return out, false
		}
		g, e1 := strconv.Atoi(string(data[1:3]))
		q, e2 := strconv.Atoi(string(data[4:9]))
		if e1 != nil || e2 != nil {
			return out, false
		}
		want := record(seed, g, q)
		if len(data) < len(want) || string(data[:len(want)]) != string(want) {
			return out, false
		}
		out = append(out, rec{g, q})
		data = data[len(want):]
	}
	return out, true
}

func (st *stress) Run(line string) string {
	f := strings.Fields(line)
	if len(f) != 7 || f[0] != "stress" {
		return "bad-op"
	}
	if st.timedOut {
		return "ok skipped (an earlier stress line timed out)"
	}
	max, backups, writers, per, seed := hx.Atoi(f[1]), hx.Atoi(f[2]), hx.Atoi(f[3]), hx.Atoi(f[4]), hx.Atoi(f[5])
	if f[6] == "1" {
		seed = -1 - seed
	}
	root, err := os.MkdirTemp(scratchBase(), "c12s-")
	if err != nil {
		return "FAIL mktemp"
	}
	defer os.RemoveAll(root)
	path := filepath.Join(root, baseName)
	r, err := rotation.New(rotation.Path(path), rotation.MaxSize(int64(max)), rotation.MaxBackups(backups))
	if err != nil {
		return "FAIL new"
	}
	var wg sync.WaitGroup
	var mu sync.Mutex
	var problems []string
	start := make(chan struct{})
	for g := 0; g < writers; g++ {
		wg.Add(1)
		go func(g int) {
			defer wg.Done()
			<-start
			for q := 0; q < per; q++ {
				b := record(seed, g, q)
				n, werr := r.Write(b)
				if n != len(b) || werr != nil {
					mu.Lock()
					if len(problems) < 3 {
						problems = append(problems, fmt.Sprintf("write g=%d q=%d returned n=%d/%d err=%v", g, q, n, len(b), werr != nil))
					}
					mu.Unlock()
				}
				if q%17 == 3 && g == 0 && seed >= 0 { // Close from one writer in between: later writes re-open
					_ = r.Close()
				}
			}
		}(g)
	}
	done := make(chan struct{})
	go func() { wg.Wait(); close(done) }()
	close(start)
	select {
	case <-done:
	case <-time.After(envMS("C12_STRESS_MS", 10000)):
		st.timedOut = true
		// make the spinning writers fail (see rot.write) so that they do not burn cores for the rest of the run
		stop := time.Now().Add(5 * time.Second)
		for time.Now().Before(stop) {
			_ = os.RemoveAll(root)
			_ = os.WriteFile(root, []byte("x"), 0o600)
			select {
			case <-done:
				stop = time.Now()
			case <-time.After(5 * time.Millisecond):
			}
		}
		_ = os.Remove(root)
		return "FAIL writers did not finish within the deadline (a Write never returned)"
	}
	_ = r.Close()
	if len(problems) > 0 {
		return "FAIL " + strings.Join(problems, "; ")
	}
	entries, err := os.ReadDir(root)
	if err != nil {
		return "FAIL readdir"
	}
	files := map[int][]byte{}
	var idxs []int
	for _, e := range entries {
		idx := index(e.Name())
		if idx < 0 {
			return "FAIL unexpected directory entry " + e.Name()
		}
		if idx > backups {
			return fmt.Sprintf("FAIL backup %d exists with MaxBackups=%d", idx, backups)
		}
		data, rerr := os.ReadFile(filepath.Join(root, e.Name()))
		if rerr != nil {
			return "FAIL unreadable " + e.Name()
		}
		files[idx] = data
		idxs = append(idxs, idx)
	}
	sort.Sort(sort.Reverse(sort.IntSlice(idxs))) // oldest backup first
	var stream []rec
	for _, idx := range idxs {
		recs, ok := parse(seed, files[idx])
		if !ok {
			return fmt.Sprintf("FAIL file %d is not a sequence of whole records (after %d good records)", idx, len(recs))
		}
		if len(files[idx]) > max && len(recs) != 1 {
			return fmt.Sprintf("FAIL file %d has %d bytes > MaxSize %d and holds %d records", idx, len(files[idx]), max, len(recs))
		}
		stream = append(stream, recs...)
	}
	// per writer: consecutive sequence numbers, ending at the writer's last record
	last := map[int]int{}
	count := map[int]int{}
	for _, x := range stream {
		if x.g < 0 || x.g >= writers || x.q < 0 || x.q >= per {
			return fmt.Sprintf("FAIL foreign record g=%d q=%d", x.g, x.q)
		}
		if p, ok := last[x.g]; ok && x.q != p+1 {
			return fmt.Sprintf("FAIL writer %d: record %d follows record %d (lost, duplicated or reordered)", x.g, x.q, p)
		}
		last[x.g] = x.q
		count[x.g]++
	}
	for g, q := range last {
		if q != per-1 {
			return fmt.Sprintf("FAIL writer %d: retained records end at %d, last written was %d (not a suffix)", g, q, per-1)
		}
	}
	// (any interleaving of per-writer suffixes is a suffix of some linearisation that respects each writer's order)
	return fmt.Sprintf("ok files=%d records=%d/%d", len(idxs), len(stream), writers*per)
}
