//go:build !nooverlay

package main

import (
	"os"

	"github.com/richardwilkes/toolbox/log/rotation"
)

// White-box build: the descriptor the rotator holds is reachable through the accessor injected by go/overlay/c12_fd.go.
const overlayBuild = true

func verifFile(r *rotation.Rotator) (*os.File, bool) { return r.VerifFile() }
