// Harness for C12 (log rotation): drives rotation.New / Write / Sync / Close on a scratch directory and prints the
// whole directory after every operation.  Area "rot" is compared line by line with the Lean model (drv_c12); area
// "stress" is an implementation-side oracle for concurrent writers.
//
// Protocol of area "rot" (histories start with `reset`):
//
//	reset <opts> <pre>   opts: comma separated, applied in order: S<n> MaxSize(n), B<n> MaxBackups(n), P Path(<dir>/app.log),
//	                     Q Path(<dir>/sub/deeper/app.log) (directory created by Write), E Path("") (New fails)
//	                     pre: "-" or i:n,i:n,…  pre-existing file with index i (0 = current, i = backup i) holding n
//	                     bytes (pBase(i)+j) mod 251, j = 0 … n-1
//	                     M<octal> WithMask; S and B take signed numbers; without P/Q/E the rotator is only constructed
//	                     (PathToLog must be DefaultPath()) and never written
//	w <n>                Write of the n bytes (wBase(k)+j) mod 251 where k counts the `w` lines of the history; runs under a
//	                     deadline, a Write that does not return prints `hang`
//	close | sync | obs   (also under the deadline: a Close or Sync that blocks prints `hang`)
//	reopen [<opts>]      Close, then New on the same path with the same options, or with <opts> (no path letters)
package main

import (
	"bytes"
	"fmt"
	"os"
	"path/filepath"
	"runtime"
	"sort"
	"strconv"
	"strings"
	"syscall"
	"time"

	"github.com/richardwilkes/toolbox/log/rotation"
	"verifharness/hx"
)

const baseName = "app.log"

type rot struct {
	root   string // scratch directory of the current history
	path   string // path of the log file
	pathO  func(*rotation.Rotator) error
	opts   []func(*rotation.Rotator) error
	r      *rotation.Rotator
	k      int
	dead   bool // a call of this history never returned
	g      guard
	buf    []byte // one buffer reused (and overwritten) for every Write: the rotator must not keep a reference to it
	noskip bool
	// obstacles (faults.go): the log directory is moved aside (to `hidden`, if it existed) and a regular file stands in
	// its place; the file with index `jam` (-1: none) carries the immutable / append-only inode flag
	blocked bool
	hidden  string
	jam     int
}

var scratchDir string

func scratchBase() string {
	if scratchDir == "" {
		scratchDir = findScratch()
	}
	return scratchDir
}

func findScratch() string {
	if d := os.Getenv("C12_TMP"); d != "" {
		return d
	}
	// a memory file system keeps the run independent of disk contention (the model abstracts the disk anyway)
	if fi, err := os.Stat("/dev/shm"); err == nil && fi.IsDir() {
		if f, ferr := os.CreateTemp("/dev/shm", "c12-probe-"); ferr == nil {
			f.Close()
			os.Remove(f.Name())
			return "/dev/shm"
		}
	}
	return os.TempDir()
}

func (a *rot) cleanup() {
	if a.r != nil && !a.dead {
		r := a.r
		a.g.call(func() wres { return wres{0, r.Close()} }, "")
	}
	a.r = nil
	if a.root != "" {
		a.dropObstacles()
		_ = os.RemoveAll(a.root)
		a.root = ""
	}
}

func rotationDefaultMaxSize() int { return rotation.DefaultMaxSize }

// Byte j of the k-th write of a history is (wBase(k)+j) mod 251, byte j of the pre-existing file i is
// (pBase(i)+j) mod 251: position-dependent, so that a permutation inside one record would show.
func wBase(k int) int { return (k*53 + 1) % 251 }
func pBase(i int) int { return (i*29 + 200) % 251 }

func fillRec(b []byte, base int) {
	for j := range b {
		b[j] = byte((base + j) % 251)
	}
}

func fileName(path string, i int) string {
	if i == 0 {
		return path
	}
	return fmt.Sprintf("%s-%d", path, i)
}

// prog prints a byte string losslessly as maximal runs "s+n" in which every byte is its predecessor plus one modulo 251
// (one run per record of the harness).
func prog(b []byte) string {
	var sb strings.Builder
	sb.WriteByte('[')
	for i := 0; i < len(b); {
		j := i + 1
		for j < len(b) && int(b[j]) == (int(b[j-1])+1)%251 {
			j++
		}
		if i > 0 {
			sb.WriteByte(',')
		}
		sb.WriteString(strconv.Itoa(int(b[i])))
		sb.WriteByte('+')
		sb.WriteString(strconv.Itoa(j - i))
		i = j
	}
	sb.WriteByte(']')
	return sb.String()
}

// index maps a directory entry name to its file index (-1: not a log file of this rotator).
func index(name string) int {
	if name == baseName {
		return 0
	}
	if rest, ok := strings.CutPrefix(name, baseName+"-"); ok {
		if v, err := strconv.Atoi(rest); err == nil && v >= 1 && strconv.Itoa(v) == rest {
			return v
		}
	}
	return -1
}

// observe lists the directory of the log file canonically: every file that exists, with its full content.
func observe(path string) string {
	dir := filepath.Dir(path)
	entries, err := os.ReadDir(dir)
	if err != nil {
		if os.IsNotExist(err) {
			return "empty"
		}
		return "readdir-error"
	}
	type ent struct {
		idx int
		s   string
	}
	var known []ent
	var other []string
	for _, e := range entries {
		idx := index(e.Name())
		if idx < 0 || e.IsDir() {
			other = append(other, "?"+e.Name())
			continue
		}
		data, rerr := os.ReadFile(filepath.Join(dir, e.Name()))
		if rerr != nil {
			other = append(other, "?unreadable:"+e.Name())
			continue
		}
		known = append(known, ent{idx, strconv.Itoa(idx) + "=" + prog(data)})
	}
	sort.Slice(known, func(i, j int) bool { return known[i].idx < known[j].idx })
	sort.Strings(other)
	parts := make([]string, 0, len(known)+len(other))
	for _, k := range known {
		parts = append(parts, k.s)
	}
	parts = append(parts, other...)
	if len(parts) == 0 {
		return "empty"
	}
	return strings.Join(parts, " ")
}

func errStr(err error) string {
	if err == nil {
		return "nil"
	}
	return "error"
}

// threadState returns the scheduler state letter and the CPU time (user+system) of one OS thread of this process;
// ok=false if /proc does not tell. (Process-wide CPU time is useless here: garbage collector threads burn CPU while a
// descheduled caller waits.)
func threadState(tid int) (byte, time.Duration, bool) {
	data, err := os.ReadFile(fmt.Sprintf("/proc/self/task/%d/stat", tid))
	if err != nil {
		return 0, 0, false
	}
	i := bytes.LastIndexByte(data, ')')
	if i < 0 {
		return 0, 0, false
	}
	f := strings.Fields(string(data[i+1:]))
	if len(f) < 13 || len(f[0]) != 1 {
		return 0, 0, false
	}
	ut, e1 := strconv.ParseInt(f[11], 10, 64)
	st, e2 := strconv.ParseInt(f[12], 10, 64)
	if e1 != nil || e2 != nil {
		return 0, 0, false
	}
	return f[0][0], time.Duration(ut+st) * (time.Second / 100), true // USER_HZ is 100 on Linux
}

type wres struct {
	n   int
	err error
}

type job struct {
	f   func() wres
	out chan wres
}

// worker is a goroutine pinned to its own OS thread that executes the calls into the library, so that the CPU time and
// the scheduler state of a call can be read per thread.
type worker struct {
	jobs chan job
	tid  int
}

func newWorker() *worker {
	w := &worker{jobs: make(chan job)}
	ready := make(chan int)
	go func() {
		runtime.LockOSThread() // never unlocked: the thread ends with the goroutine
		ready <- syscall.Gettid()
		for j := range w.jobs {
			j.out <- j.f()
		}
	}()
	w.tid = <-ready
	return w
}

func envMS(name string, def int) time.Duration {
	if v := os.Getenv(name); v != "" {
		if ms, err := strconv.Atoi(v); err == nil && ms > 0 {
			return time.Duration(ms) * time.Millisecond
		}
	}
	return time.Duration(def) * time.Millisecond
}

// A call on a file of a few hundred bytes needs microseconds of CPU and never sleeps. It is declared hung when
//   - its thread has burnt spinBudget of CPU time since the first poll (a runaway retry loop; robust against a loaded
//     machine, where wall time says little), or
//   - its thread has been asleep (state S) for sleepBudget without interruption AND the goroutine dump shows a
//     goroutine inside the rotation package parked on a lock/semaphore/channel (a dead-lock: nothing in
//     Write/Close/Sync waits for anything but the rotator's own mutex; a thread merely held up by the scheduler or a
//     garbage collection is not mistaken for one), or
//   - wallBudget has passed.
var (
	spinBudget  = envMS("C12_SPIN_MS", 250)
	sleepBudget = envMS("C12_SLEEP_MS", 1000)
	wallBudget  = envMS("C12_WALL_MS", 10000)
)

const maxHangs = 3 // after that many hung calls the rest of the stream is skipped (the violation is established)

// blockedInLibrary reports whether some goroutine with a frame of the rotation package on its stack is parked on a lock,
// semaphore, channel or condition (the states the runtime prints in the goroutine header).
func blockedInLibrary() bool {
	buf := make([]byte, 1<<20)
	buf = buf[:runtime.Stack(buf, true)]
	for _, g := range strings.Split(string(buf), "\n\n") {
		if !strings.Contains(g, "toolbox/log/rotation.") {
			continue
		}
		head, _, _ := strings.Cut(g, "\n")
		for _, st := range []string{"semacquire", "sync.Mutex.Lock", "sync.RWMutex", "chan receive", "chan send", "select", "sync.Cond.Wait", "sync.WaitGroup"} {
			if strings.Contains(head, "["+st) {
				return true
			}
		}
	}
	return false
}

// guard runs calls into the library under the deadline rules above.
type guard struct {
	w      *worker
	hangs  int // hangs seen by this process
	zombie int // spinning callers that could not be made to return
}

// call runs f; ok=false: it did not return. killDir, if not empty, is the log directory: a spinning caller is made
// to fail by replacing that directory with a regular file (MkdirAll then errors out and Write returns), so that it
// stops burning a core.
func (g *guard) call(f func() wres, killDir string) (wres, bool) {
	if g.w == nil {
		g.w = newWorker()
	}
	w := g.w
	ch := make(chan wres, 1)
	w.jobs <- job{f, ch}
	t0 := time.Now()
	tick := time.NewTicker(20 * time.Millisecond)
	defer tick.Stop()
	var cpu0 time.Duration
	haveBase := false
	var asleepSince time.Time
	spinning := false
	sleepPolls := 0
wait:
	for {
		select {
		case res := <-ch:
			return res, true
		case <-tick.C:
			select { // a result that is already there wins over any judgement below
			case res := <-ch:
				return res, true
			default:
			}
			state, cpu, ok := threadState(w.tid)
			if ok && !haveBase {
				cpu0, haveBase = cpu, true
			}
			if ok && state == 'S' {
				sleepPolls++
				if asleepSince.IsZero() {
					asleepSince = time.Now()
				} else if time.Since(asleepSince) >= sleepBudget && sleepPolls >= 25 {
					// asleep for a long time: a dead-lock only if a goroutine inside the library is really parked on a
					// lock or channel (and not merely held up by the scheduler or the garbage collector)
					if blockedInLibrary() {
						select {
						case res := <-ch:
							return res, true
						default:
						}
						break wait
					}
					asleepSince, sleepPolls = time.Time{}, 0
				}
			} else {
				asleepSince, sleepPolls = time.Time{}, 0
			}
			if ok && cpu-cpu0 >= spinBudget {
				spinning = true
				break wait
			}
			if time.Since(t0) >= wallBudget {
				spinning = true // unknown; try the kill below anyway
				break wait
			}
		}
	}
	g.hangs++
	g.w = nil // the worker is stuck inside the call; it ends when (if) the call returns
	close(w.jobs)
	if spinning && killDir != "" {
		stop := time.Now().Add(3 * time.Second)
		for time.Now().Before(stop) {
			_ = os.RemoveAll(killDir)
			_ = os.WriteFile(killDir, []byte("x"), 0o600)
			select {
			case <-ch:
				_ = os.Remove(killDir)
				return wres{}, false
			case <-time.After(5 * time.Millisecond):
			}
		}
		g.zombie++
		if g.zombie > 2 {
			os.Stdout.Sync()
			os.Exit(3)
		}
	}
	return wres{}, false
}

// parseOpts turns the option letters into option functions. path letters are only allowed when withPath is set.
func (a *rot) parseOpts(spec string, withPath bool) (opts []func(*rotation.Rotator) error, hasPath, ok bool) {
	if spec == "-" {
		return nil, false, true
	}
	for _, o := range strings.Split(spec, ",") {
		switch {
		case o == "P" || o == "Q" || o == "E":
			if !withPath {
				return nil, false, false
			}
			switch o {
			case "P":
				a.path = filepath.Join(a.root, baseName)
				a.pathO = rotation.Path(a.path)
			case "Q":
				a.path = filepath.Join(a.root, "sub", "deeper", baseName)
				a.pathO = rotation.Path(a.path)
			default:
				a.pathO = rotation.Path("")
			}
			opts = append(opts, a.pathO)
			hasPath = true
		case strings.HasPrefix(o, "S"):
			v, err := strconv.ParseInt(o[1:], 10, 64)
			if err != nil {
				return nil, false, false
			}
			opts = append(opts, rotation.MaxSize(v))
		case strings.HasPrefix(o, "B"):
			v, err := strconv.ParseInt(o[1:], 10, 64)
			if err != nil {
				return nil, false, false
			}
			opts = append(opts, rotation.MaxBackups(int(v)))
		case strings.HasPrefix(o, "M"):
			v, err := strconv.ParseUint(o[1:], 10, 32)
			if err != nil {
				return nil, false, false
			}
			opts = append(opts, rotation.WithMask(os.FileMode(v)))
		default:
			return nil, false, false
		}
	}
	return opts, hasPath, true
}

func (a *rot) reset(f []string) string {
	a.cleanup()
	a.dead = false
	a.k = 0
	a.opts = nil
	a.jam = -1
	if len(f) != 3 && len(f) != 4 {
		return "bad-op"
	}
	jam := -1
	if len(f) == 4 {
		v, perr := strconv.Atoi(strings.TrimPrefix(f[3], "J"))
		if !strings.HasPrefix(f[3], "J") || perr != nil || v < 0 || strconv.Itoa(v) != f[3][1:] {
			return "bad-op"
		}
		jam = v
	}
	root, err := os.MkdirTemp(scratchBase(), "c12-")
	if err != nil {
		return "mktemp-error"
	}
	a.root = root
	a.path = filepath.Join(root, baseName)
	opts, hasPath, ok := a.parseOpts(f[1], true)
	if !ok {
		return "bad-op"
	}
	a.opts = opts
	if !hasPath {
		// the default path lies outside the scratch area: construct only, never write
		r, nerr := rotation.New(a.opts...)
		if nerr != nil {
			return "new=err"
		}
		if r.PathToLog() != rotation.DefaultPath() || r.PathToLog() == "" {
			return "new=ok path-mismatch"
		}
		return "new=ok defaultpath"
	}
	r, err := rotation.New(a.opts...) // touches nothing on disk
	if err != nil {
		a.r = nil
		return "new=err"
	}
	jamFound := jam < 0
	if f[2] != "-" {
		for _, p := range strings.Split(f[2], ",") {
			if iv := strings.SplitN(p, ":", 2); len(iv) == 2 && iv[0] == strconv.Itoa(jam) {
				jamFound = true
			}
		}
	}
	if !jamFound {
		return "bad-op"
	}
	if f[2] != "-" {
		if err = os.MkdirAll(filepath.Dir(a.path), 0o755); err != nil {
			return "mkdir-error"
		}
		for _, p := range strings.Split(f[2], ",") {
			iv := strings.SplitN(p, ":", 2)
			if len(iv) != 2 {
				return "bad-op"
			}
			i, n := hx.Atoi(iv[0]), hx.Atoi(iv[1])
			pre := make([]byte, n)
			fillRec(pre, pBase(i))
			if err = os.WriteFile(fileName(a.path, i), pre, 0o644); err != nil {
				return "prefile-error"
			}
		}
	}
	if jam >= 0 {
		if err = chflags(fileName(a.path, jam), jamBits(jam), true); err != nil {
			return "jam-error"
		}
		a.jam = jam
	}
	a.r = r
	if r.PathToLog() != a.path {
		return "new=ok path-mismatch"
	}
	return "new=ok | " + observe(a.path)
}

func (a *rot) Run(line string) string {
	f := strings.Fields(line)
	if len(f) == 0 {
		return "bad-op"
	}
	if a.g.hangs >= maxHangs && !a.noskip {
		return "skipped-after-crash" // token of vlib/core.py for lines that were not executed
	}
	if f[0] == "reset" {
		return a.reset(f)
	}
	switch f[0] {
	case "w", "close", "reopen", "sync", "obs", "wlim", "block", "unblock", "unjam", "breakfd":
	default:
		return "bad-op"
	}
	if (f[0] == "w" && len(f) != 2) || (f[0] == "wlim" && len(f) != 3) {
		return "bad-op"
	}
	if a.r == nil {
		return "norot"
	}
	if a.dead {
		return "dead"
	}
	r := a.r
	dir := filepath.Dir(a.path)
	switch f[0] {
	case "block":
		return a.block()
	case "unblock":
		return a.unblock()
	case "unjam":
		return a.unjam()
	case "breakfd":
		// the descriptor the rotator holds is closed behind its back: every later call on it fails (Write with n = 0, Sync,
		// Close) until the rotator drops the handle
		f, ok := verifFile(r)
		if !ok {
			return "breakfd-unavailable"
		}
		if f == nil {
			return "breakfd=none"
		}
		_ = f.Close()
		return "breakfd=ok"
	case "w", "wlim":
		n := hx.Atoi(f[len(f)-1])
		if cap(a.buf) < n {
			a.buf = make([]byte, n, n+n/2+16)
		}
		b := a.buf[:n]
		fillRec(b, wBase(a.k))
		a.k++
		restore := func() {}
		if f[0] == "wlim" {
			var lok bool
			if restore, lok = limitFileSize(hx.Atoi(f[1])); !lok {
				return "rlimit-error"
			}
		}
		res, ok := a.g.call(func() wres { n, err := r.Write(b); return wres{n, err} }, dir)
		restore()
		if !ok {
			a.dead = true
			return "hang"
		}
		for i := range b { // the caller's buffer is its own again: scribble over it before looking at the files
			b[i] = 0xEE
		}
		return fmt.Sprintf("n=%d err=%s | %s", res.n, errStr(res.err), a.obs())
	case "close":
		res, ok := a.g.call(func() wres { return wres{0, r.Close()} }, "")
		if !ok {
			a.dead = true
			return "hang"
		}
		return "close=" + errStr(res.err) + " | " + a.obs()
	case "reopen":
		if len(f) > 2 {
			return "bad-op"
		}
		opts := a.opts
		if len(f) == 2 {
			extra, _, ok := a.parseOpts(f[1], false)
			if !ok {
				return "bad-op"
			}
			opts = append(extra, a.pathO)
		}
		if _, ok := a.g.call(func() wres { return wres{0, r.Close()} }, ""); !ok {
			a.dead = true
			return "hang"
		}
		nr, err := rotation.New(opts...)
		if err != nil {
			a.r = nil
			return "new=err"
		}
		a.r = nr
		a.opts = opts
		return "new=ok | " + a.obs()
	case "sync":
		res, ok := a.g.call(func() wres { return wres{0, r.Sync()} }, "")
		if !ok {
			a.dead = true
			return "hang"
		}
		return "sync=" + errStr(res.err)
	case "obs":
		return a.obs()
	}
	return "bad-op"
}

func main() {
	a := &rot{jam: -1}
	d := &rotdef{}
	d.jam = -1
	ff := &rotf{}
	ff.jam = -1
	if len(os.Args) == 2 && os.Args[1] == "probe-fd" { // can the white-box accessor reach the descriptor?
		r, err := rotation.New(rotation.Path(filepath.Join(os.TempDir(), "c12-probe-never-written")))
		if err != nil {
			fmt.Println(false)
			return
		}
		_, ok := verifFile(r)
		fmt.Println(ok && overlayBuild)
		return
	}
	if len(os.Args) == 2 && os.Args[1] == "probe-faults" { // vlib/C12.py asks whether area rotf can run here
		fmt.Println(faultsSupported())
		return
	}
	fd := &rotfd{}
	fd.jam = -1
	hx.Main(map[string]hx.Area{"rot": a, "rotdef": d, "rotf": ff, "rotfd": fd, "stress": &stress{}, "errs": &errArea{}})
	a.cleanup()
	d.cleanup()
	ff.cleanup()
	fd.cleanup()
}
