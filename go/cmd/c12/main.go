// Harness for C12 (log rotation): drives rotation.New / Write / Sync / Close on a scratch directory and prints the
// whole directory after every operation.  Area "rot" is compared line by line with the Lean model (drv_c12); area
// "stress" is an implementation-side oracle for concurrent writers.
//
// Protocol of area "rot" (histories start with `reset`):
//
//	reset <opts> <pre>   opts: comma separated, applied in order: S<n> MaxSize(n), B<n> MaxBackups(n), P Path(<dir>/app.log),
//	                     Q Path(<dir>/sub/deeper/app.log) (directory created by Write), E Path("") (New fails)
//	                     pre: "-" or i:n,i:n,…  pre-existing file with index i (0 = current, i = backup i) holding n
//	                     copies of byte 200+i%50
//	w <n>                Write of n copies of byte (k%199)+1 where k counts the `w` lines of the history; runs under a
//	                     deadline, a Write that does not return prints `hang`
//	close | reopen | sync | obs
package main

import (
	"bytes"
	"fmt"
	"os"
	"path/filepath"
	"runtime"
	"sort"
	"strconv"
	"strings"
	"syscall"
	"time"

	"github.com/richardwilkes/toolbox/log/rotation"
	"verifharness/hx"
)

const baseName = "app.log"

type rot struct {
	root   string // scratch directory of the current history
	path   string // path of the log file
	opts   []func(*rotation.Rotator) error
	r      *rotation.Rotator
	k      int
	dead   bool // a Write of this history never returned
	hangs  int  // hangs seen by this process
	zombie int  // writers that could not be made to return
	seq    int
	w      *worker
}

var scratchDir string

func scratchBase() string {
	if scratchDir == "" {
		scratchDir = findScratch()
	}
	return scratchDir
}

func findScratch() string {
	if d := os.Getenv("C12_TMP"); d != "" {
		return d
	}
	// a memory file system keeps the run independent of disk contention (the model abstracts the disk anyway)
	if fi, err := os.Stat("/dev/shm"); err == nil && fi.IsDir() {
		if f, ferr := os.CreateTemp("/dev/shm", "c12-probe-"); ferr == nil {
			f.Close()
			os.Remove(f.Name())
			return "/dev/shm"
		}
	}
	return os.TempDir()
}

func (a *rot) cleanup() {
	if a.r != nil && !a.dead {
		_ = a.r.Close()
	}
	a.r = nil
	if a.root != "" {
		_ = os.RemoveAll(a.root)
		a.root = ""
	}
}

func rotationDefaultMaxSize() int { return rotation.DefaultMaxSize }

func writeTag(k int) byte { return byte(k%199 + 1) }
func preTag(i int) byte   { return byte(200 + i%50) }

func fileName(path string, i int) string {
	if i == 0 {
		return path
	}
	return fmt.Sprintf("%s-%d", path, i)
}

// rle prints a byte string as runs "v*n".
func rle(b []byte) string {
	var sb strings.Builder
	sb.WriteByte('[')
	for i := 0; i < len(b); {
		j := i
		for j < len(b) && b[j] == b[i] {
			j++
		}
		if i > 0 {
			sb.WriteByte(',')
		}
		sb.WriteString(strconv.Itoa(int(b[i])))
		sb.WriteByte('*')
		sb.WriteString(strconv.Itoa(j - i))
		i = j
	}
	sb.WriteByte(']')
	return sb.String()
}

// index maps a directory entry name to its file index (-1: not a log file of this rotator).
func index(name string) int {
	if name == baseName {
		return 0
	}
	if rest, ok := strings.CutPrefix(name, baseName+"-"); ok {
		if v, err := strconv.Atoi(rest); err == nil && v >= 1 && strconv.Itoa(v) == rest {
			return v
		}
	}
	return -1
}

// observe lists the directory of the log file canonically: every file that exists, with its full content.
func observe(path string) string {
	dir := filepath.Dir(path)
	entries, err := os.ReadDir(dir)
	if err != nil {
		if os.IsNotExist(err) {
			return "empty"
		}
		return "readdir-error"
	}
	type ent struct {
		idx int
		s   string
	}
	var known []ent
	var other []string
	for _, e := range entries {
		idx := index(e.Name())
		if idx < 0 || e.IsDir() {
			other = append(other, "?"+e.Name())
			continue
		}
		data, rerr := os.ReadFile(filepath.Join(dir, e.Name()))
		if rerr != nil {
			other = append(other, "?unreadable:"+e.Name())
			continue
		}
		known = append(known, ent{idx, strconv.Itoa(idx) + "=" + rle(data)})
	}
	sort.Slice(known, func(i, j int) bool { return known[i].idx < known[j].idx })
	sort.Strings(other)
	parts := make([]string, 0, len(known)+len(other))
	for _, k := range known {
		parts = append(parts, k.s)
	}
	parts = append(parts, other...)
	if len(parts) == 0 {
		return "empty"
	}
	return strings.Join(parts, " ")
}

func errStr(err error) string {
	if err == nil {
		return "nil"
	}
	return "error"
}

// threadCPU is the CPU time (user+system) consumed so far by one OS thread of this process; ok=false if /proc does
// not tell. (Process-wide CPU time is useless here: garbage collector threads burn CPU while a descheduled writer waits.)
func threadCPU(tid int) (time.Duration, bool) {
	data, err := os.ReadFile(fmt.Sprintf("/proc/self/task/%d/stat", tid))
	if err != nil {
		return 0, false
	}
	i := bytes.LastIndexByte(data, ')')
	if i < 0 {
		return 0, false
	}
	f := strings.Fields(string(data[i+1:]))
	if len(f) < 13 {
		return 0, false
	}
	ut, e1 := strconv.ParseInt(f[11], 10, 64)
	st, e2 := strconv.ParseInt(f[12], 10, 64)
	if e1 != nil || e2 != nil {
		return 0, false
	}
	return time.Duration(ut+st) * (time.Second / 100), true // USER_HZ is 100 on Linux
}

type job struct {
	r   *rotation.Rotator
	b   []byte
	out chan wres
}

// worker is a goroutine pinned to its own OS thread that executes the Write calls, so that the CPU time a Write
// consumes can be read per thread.
type worker struct {
	jobs chan job
	tid  int
}

func newWorker() *worker {
	w := &worker{jobs: make(chan job)}
	ready := make(chan int)
	go func() {
		runtime.LockOSThread() // never unlocked: the thread ends with the goroutine
		ready <- syscall.Gettid()
		for j := range w.jobs {
			n, err := j.r.Write(j.b)
			j.out <- wres{n, err}
		}
	}()
	w.tid = <-ready
	return w
}

func envMS(name string, def int) time.Duration {
	if v := os.Getenv(name); v != "" {
		if ms, err := strconv.Atoi(v); err == nil && ms > 0 {
			return time.Duration(ms) * time.Millisecond
		}
	}
	return time.Duration(def) * time.Millisecond
}

// A Write of at most a few hundred bytes needs microseconds of CPU. It is declared hung when its thread has burnt
// spinBudget of CPU time since the first poll (a runaway retry loop; robust against a loaded machine, where wall time
// says little), or when wallBudget has passed (blocked for good).
var (
	spinBudget = envMS("C12_SPIN_MS", 250)
	wallBudget = envMS("C12_WALL_MS", 10000)
)

const maxHangs = 12 // after that many hung writes the rest of the stream is skipped (the violation is established)

type wres struct {
	n   int
	err error
}

// write runs one Write under a deadline. ok=false: it did not return.
func (a *rot) write(b []byte) (wres, bool) {
	if a.w == nil {
		a.w = newWorker()
	}
	w := a.w
	ch := make(chan wres, 1)
	w.jobs <- job{a.r, b, ch}
	t0 := time.Now()
	tick := time.NewTicker(20 * time.Millisecond)
	defer tick.Stop()
	var cpu0 time.Duration
	haveBase := false
wait:
	for {
		select {
		case res := <-ch:
			return res, true
		case <-tick.C:
			cpu, ok := threadCPU(w.tid)
			if ok && !haveBase {
				cpu0, haveBase = cpu, true
			}
			if (ok && cpu-cpu0 >= spinBudget) || time.Since(t0) >= wallBudget {
				break wait
			}
		}
	}
	a.w = nil // the worker is stuck inside Write; it ends when the Write is made to fail below
	close(w.jobs)
	// The writer spins inside Write holding the lock. Make it fail so that it stops burning a core: replace the
	// log directory by a regular file (MkdirAll then errors out and Write returns).
	a.hangs++
	dir := filepath.Dir(a.path)
	stop := time.Now().Add(3 * time.Second)
	for time.Now().Before(stop) {
		_ = os.RemoveAll(dir)
		_ = os.WriteFile(dir, []byte("x"), 0o600)
		select {
		case <-ch:
			_ = os.Remove(dir)
			return wres{}, false
		case <-time.After(5 * time.Millisecond):
		}
	}
	a.zombie++
	if a.zombie > 3 {
		os.Stdout.Sync()
		os.Exit(3)
	}
	return wres{}, false
}

func (a *rot) reset(f []string) string {
	a.cleanup()
	a.dead = false
	a.k = 0
	a.opts = nil
	if len(f) != 3 {
		return "bad-op"
	}
	a.seq++
	root, err := os.MkdirTemp(scratchBase(), "c12-")
	if err != nil {
		return "mktemp-error"
	}
	a.root = root
	a.path = filepath.Join(root, baseName)
	sub := filepath.Join(root, "sub", "deeper", baseName)
	hasPath := false
	if f[1] != "-" {
		for _, o := range strings.Split(f[1], ",") {
			switch {
			case o == "P":
				a.path = filepath.Join(root, baseName)
				a.opts = append(a.opts, rotation.Path(a.path))
				hasPath = true
			case o == "Q":
				a.path = sub
				a.opts = append(a.opts, rotation.Path(a.path))
				hasPath = true
			case o == "E":
				a.opts = append(a.opts, rotation.Path(""))
				hasPath = true
			case strings.HasPrefix(o, "S"):
				a.opts = append(a.opts, rotation.MaxSize(int64(hx.Atoi(o[1:]))))
			case strings.HasPrefix(o, "B"):
				a.opts = append(a.opts, rotation.MaxBackups(hx.Atoi(o[1:])))
			default:
				return "bad-op"
			}
		}
	}
	if !hasPath {
		return "nopath" // the default path lies outside the scratch area; never written by the harness
	}
	if f[2] != "-" {
		if err = os.MkdirAll(filepath.Dir(a.path), 0o755); err != nil {
			return "mkdir-error"
		}
		for _, p := range strings.Split(f[2], ",") {
			iv := strings.SplitN(p, ":", 2)
			if len(iv) != 2 {
				return "bad-op"
			}
			i, n := hx.Atoi(iv[0]), hx.Atoi(iv[1])
			if err = os.WriteFile(fileName(a.path, i), bytes.Repeat([]byte{preTag(i)}, n), 0o644); err != nil {
				return "prefile-error"
			}
		}
	}
	r, err := rotation.New(a.opts...)
	if err != nil {
		a.r = nil
		return "new=err"
	}
	a.r = r
	if r.PathToLog() != a.path {
		return "new=ok path-mismatch"
	}
	return "new=ok | " + observe(a.path)
}

func (a *rot) Run(line string) string {
	f := strings.Fields(line)
	if len(f) == 0 {
		return "bad-op"
	}
	if a.hangs >= maxHangs {
		return "skipped-after-crash" // token of vlib/core.py for lines that were not executed
	}
	if f[0] == "reset" {
		return a.reset(f)
	}
	switch f[0] {
	case "w", "close", "reopen", "sync", "obs":
	default:
		return "bad-op"
	}
	if f[0] == "w" && len(f) != 2 {
		return "bad-op"
	}
	if a.r == nil {
		return "norot"
	}
	if a.dead {
		return "dead"
	}
	switch f[0] {
	case "w":
		n := hx.Atoi(f[1])
		b := bytes.Repeat([]byte{writeTag(a.k)}, n)
		a.k++
		res, ok := a.write(b)
		if !ok {
			a.dead = true
			return "hang"
		}
		return fmt.Sprintf("n=%d err=%s | %s", res.n, errStr(res.err), observe(a.path))
	case "close":
		err := a.r.Close()
		return "close=" + errStr(err) + " | " + observe(a.path)
	case "reopen":
		_ = a.r.Close()
		r, err := rotation.New(a.opts...)
		if err != nil {
			a.r = nil
			return "new=err"
		}
		a.r = r
		return "new=ok | " + observe(a.path)
	case "sync":
		return "sync=" + errStr(a.r.Sync())
	case "obs":
		return observe(a.path)
	}
	return "bad-op"
}

func main() {
	a := &rot{}
	d := &rotdef{}
	hx.Main(map[string]hx.Area{"rot": a, "rotdef": d, "stress": &stress{}})
	a.cleanup()
	d.cleanup()
}
