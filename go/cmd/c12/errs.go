package main

import (
	"fmt"
	"os"
	"path/filepath"
	"strings"

	"github.com/richardwilkes/toolbox/log/rotation"
	"verifharness/hx"
)

// errArea is an implementation-side oracle for the resource failures that the Lean model does not carry (its file
// system never fails): whatever fails underneath, Write must RETURN (an error, n = 0) instead of hanging or
// panicking, must not lose or damage what is already on disk, must not leave part of the rejected record anywhere, and
// the same Rotator must work again once the obstacle is gone (size re-read from the file).
//
// line: errs <scenario> <maxSize> <maxBackups> <n1> <n2>
//
//	parentfile  the directory of the log file is a regular file (MkdirAll fails)
//	pathisdir   the log path itself is a directory (OpenFile fails)
//	oldestdir   path-<MaxBackups> is a non-empty directory (the Remove at the start of rotate fails); MaxBackups >= 1
//	readonly    the directory is not writable (skipped when running as root, where permissions do not bind)
type errArea struct{ g guard }

var errScenarios = []string{"parentfile", "pathisdir", "oldestdir", "readonly"}

func (*errArea) Gen(r *hx.Rng, n int, _ string, emit func(string)) {
	for i := 0; i < n; i++ {
		sc := errScenarios[i%len(errScenarios)]
		max := hx.Pick(r, []int{1, 2, 5, 10, 100})
		backups := hx.Pick(r, []int{0, 1, 2, 5, 12})
		if sc == "oldestdir" && backups == 0 {
			backups = hx.Pick(r, []int{1, 2, 10})
		}
		n1 := hx.Pick(r, []int{1, max, max + 1, r.Range(1, max+2)})
		n2 := hx.Pick(r, []int{0, 1, max, max + 1, 3 * max})
		emit(fmt.Sprintf("errs %s %d %d %d %d", sc, max, backups, n1, n2))
	}
}

func (a *errArea) write(r *rotation.Rotator, b []byte, dir string) (wres, bool) {
	return a.g.call(func() wres { n, err := r.Write(b); return wres{n, err} }, dir)
}

// snapshot reads every regular file below dir (relative name -> content).
func snapshot(dir string) map[string]string {
	m := map[string]string{}
	_ = filepath.Walk(dir, func(p string, fi os.FileInfo, err error) error {
		if err == nil && fi.Mode().IsRegular() {
			if data, rerr := os.ReadFile(p); rerr == nil {
				rel, _ := filepath.Rel(dir, p)
				m[rel] = string(data)
			}
		}
		return nil
	})
	return m
}

func sameSnap(x, y map[string]string) bool {
	if len(x) != len(y) {
		return false
	}
	for k, v := range x {
		if w, ok := y[k]; !ok || w != v {
			return false
		}
	}
	return true
}

func (a *errArea) Run(line string) string {
	f := strings.Fields(line)
	if len(f) != 6 || f[0] != "errs" {
		return "bad-op"
	}
	if a.g.hangs >= maxHangs {
		return "ok skipped (hang budget used up)"
	}
	sc := f[1]
	max, backups, n1, n2 := hx.Atoi(f[2]), hx.Atoi(f[3]), hx.Atoi(f[4]), hx.Atoi(f[5])
	root, err := os.MkdirTemp(scratchBase(), "c12e-")
	if err != nil {
		return "FAIL mktemp"
	}
	defer os.RemoveAll(root)
	rec1 := make([]byte, n1) // position-dependent contents
	fillRec(rec1, 17)
	rec2 := make([]byte, n2)
	fillRec(rec2, 101)
	mk := func(path string) (*rotation.Rotator, string) {
		r, nerr := rotation.New(rotation.Path(path), rotation.MaxSize(int64(max)), rotation.MaxBackups(backups))
		if nerr != nil {
			return nil, "FAIL new"
		}
		return r, ""
	}
	// mustFail: the write returns, with n = 0 and an error, and the tree below root is unchanged
	mustFail := func(r *rotation.Rotator, b []byte, what string) string {
		before := snapshot(root)
		res, ok := a.write(r, b, root)
		if !ok {
			return "FAIL " + what + ": Write did not return"
		}
		if res.err == nil || res.n != 0 {
			return fmt.Sprintf("FAIL %s: Write returned n=%d err=%s, expected n=0 and an error", what, res.n, errStr(res.err))
		}
		if !sameSnap(before, snapshot(root)) {
			return "FAIL " + what + ": a failed Write changed files on disk"
		}
		return ""
	}
	mustWork := func(r *rotation.Rotator, b []byte, what string) string {
		res, ok := a.write(r, b, root)
		if !ok {
			return "FAIL " + what + ": Write did not return"
		}
		if res.err != nil || res.n != len(b) {
			return fmt.Sprintf("FAIL %s: Write returned n=%d/%d err=%s", what, res.n, len(b), errStr(res.err))
		}
		return ""
	}
	closeIt := func(r *rotation.Rotator) string {
		if _, ok := a.g.call(func() wres { return wres{0, r.Close()} }, ""); !ok {
			return "FAIL Close did not return"
		}
		return ""
	}
	switch sc {
	case "parentfile", "pathisdir":
		var path, obstacle string
		if sc == "parentfile" {
			obstacle = filepath.Join(root, "blocker")
			if err = os.WriteFile(obstacle, []byte("keep"), 0o644); err != nil {
				return "FAIL setup"
			}
			path = filepath.Join(obstacle, baseName)
		} else {
			path = filepath.Join(root, baseName)
			obstacle = path
			if err = os.MkdirAll(filepath.Join(path, "inner"), 0o755); err != nil {
				return "FAIL setup"
			}
		}
		r, msg := mk(path)
		if msg != "" {
			return msg
		}
		for i := 0; i < 3; i++ {
			if msg = mustFail(r, rec1, fmt.Sprintf("%s write %d", sc, i)); msg != "" {
				return msg
			}
		}
		if _, ok := a.g.call(func() wres { return wres{0, r.Sync()} }, ""); !ok {
			return "FAIL Sync did not return"
		}
		if msg = closeIt(r); msg != "" {
			return msg
		}
		// the obstacle goes away: the same Rotator must now work
		if err = os.RemoveAll(obstacle); err != nil {
			return "FAIL setup"
		}
		if msg = mustWork(r, rec1, sc+" after repair"); msg != "" {
			return msg
		}
		if msg = mustWork(r, rec2, sc+" second after repair"); msg != "" {
			return msg
		}
		if msg = closeIt(r); msg != "" {
			return msg
		}
		// independent expectation (single writer, nothing pre-existing): rec1 then rec2 under the rotation rule
		cur, bak := string(rec1), ""
		if len(cur) > 0 && len(cur)+len(rec2) > max {
			cur, bak = string(rec2), string(rec1)
		} else {
			cur += string(rec2)
		}
		got := snapshot(filepath.Dir(path))
		want := map[string]string{baseName: cur}
		if bak != "" && backups >= 1 {
			want[baseName+"-1"] = bak
		}
		if !sameSnap(got, want) {
			return fmt.Sprintf("FAIL %s: files after repair are %d, expected %d (or contents differ)", sc, len(got), len(want))
		}
		return "ok " + sc
	case "oldestdir":
		if backups < 1 {
			return "ok skipped (needs a backup slot)"
		}
		path := filepath.Join(root, baseName)
		obstacle := fileName(path, backups)
		if err = os.MkdirAll(filepath.Join(obstacle, "inner"), 0o755); err != nil {
			return "FAIL setup"
		}
		r, msg := mk(path)
		if msg != "" {
			return msg
		}
		if msg = mustWork(r, rec1, "oldestdir first write"); msg != "" {
			return msg
		}
		rotates := len(rec1) > 0 && len(rec1)+len(rec2) > max
		if !rotates {
			if msg = mustWork(r, rec2, "oldestdir fitting write"); msg != "" {
				return msg
			}
			_ = closeIt(r)
			return "ok oldestdir (no rotation needed)"
		}
		for i := 0; i < 2; i++ {
			if msg = mustFail(r, rec2, fmt.Sprintf("oldestdir rotating write %d", i)); msg != "" {
				return msg
			}
		}
		if err = os.RemoveAll(obstacle); err != nil {
			return "FAIL setup"
		}
		if msg = mustWork(r, rec2, "oldestdir after repair"); msg != "" {
			return msg
		}
		if msg = closeIt(r); msg != "" {
			return msg
		}
		got := snapshot(root)
		want := map[string]string{baseName: string(rec2), baseName + "-1": string(rec1)}
		if !sameSnap(got, want) {
			return "FAIL oldestdir: after repair the directory is not {current: second record, backup 1: first record}"
		}
		return "ok oldestdir"
	case "readonly":
		if os.Geteuid() == 0 {
			return "ok skipped (root: permissions do not bind)"
		}
		dir := filepath.Join(root, "ro")
		if err = os.MkdirAll(dir, 0o755); err != nil {
			return "FAIL setup"
		}
		path := filepath.Join(dir, baseName)
		if err = os.Chmod(dir, 0o555); err != nil {
			return "FAIL setup"
		}
		defer os.Chmod(dir, 0o755) //nolint:errcheck // cleanup
		r, msg := mk(path)
		if msg != "" {
			return msg
		}
		for i := 0; i < 2; i++ {
			if msg = mustFail(r, rec1, fmt.Sprintf("readonly write %d", i)); msg != "" {
				return msg
			}
		}
		if err = os.Chmod(dir, 0o755); err != nil {
			return "FAIL setup"
		}
		if msg = mustWork(r, rec1, "readonly after repair"); msg != "" {
			return msg
		}
		_ = closeIt(r)
		return "ok readonly"
	}
	return "bad-op"
}
