//go:build nooverlay

package main

import (
	"os"

	"github.com/richardwilkes/toolbox/log/rotation"
)

// Black-box build (the overlay did not compile against the working tree): the descriptor cannot be reached; area rotfd
// is not run.
const overlayBuild = false

func verifFile(*rotation.Rotator) (*os.File, bool) { return nil, false }
