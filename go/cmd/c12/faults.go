package main

// Area "rotf": the same endpoint as "rot" on a file system whose calls FAIL, compared line by line with the Lean model of
// the failing file system (Model/RotationErr.lean, run by drv_c12 with the environment `envOf`). The obstacles are real
// ones, set up by the harness around the unchanged library:
//
//	reset <opts> <pre> J<i>   the pre-existing file with index i can be neither removed nor renamed from or onto for the
//	                          rest of the history (inode flag "immutable"; for i = 0 "append only", so that Write still
//	                          works): the Remove at the start of rotate (i = MaxBackups, or i = 0 with MaxBackups < 1) or
//	                          one Rename in the middle of the chain fails
//	unjam                     the flag is taken away again
//	block | unblock           the directory of the log file is moved aside and a regular file stands in its place: every
//	                          call that takes a path fails (MkdirAll, OpenFile, Remove, Rename), the open descriptor works
//	wlim <l> <n>              Write of the next record (n bytes) while the file size limit of the process is l bytes
//	                          (RLIMIT_FSIZE): a SHORT write — the file takes the bytes up to the limit, Write returns
//	                          that count and an error
//
// Everything else (w, close, sync, reopen, obs) is as in area "rot"; the whole directory is printed after every
// operation, so a failed call that changed, lost or duplicated anything shows.

import (
	"os"
	"os/signal"
	"path/filepath"
	"strconv"
	"strings"
	"syscall"
	"unsafe"

	"verifharness/hx"
)

const (
	fsIocGetFlags = 0x80086601
	fsIocSetFlags = 0x40086602
	flImmutable   = 0x10
	flAppend      = 0x20
)

// chflags sets (set=true) or clears the given inode flag bits of a file.
func chflags(path string, bits int, set bool) error {
	f, err := os.Open(path)
	if err != nil {
		return err
	}
	defer f.Close()
	var fl int
	if _, _, e := syscall.Syscall(syscall.SYS_IOCTL, f.Fd(), fsIocGetFlags, uintptr(unsafe.Pointer(&fl))); e != 0 {
		return e
	}
	if set {
		fl |= bits
	} else {
		fl &^= bits
	}
	if _, _, e := syscall.Syscall(syscall.SYS_IOCTL, f.Fd(), fsIocSetFlags, uintptr(unsafe.Pointer(&fl))); e != 0 {
		return e
	}
	return nil
}

// faultsSupported probes the three mechanisms in the scratch area: inode flags, RLIMIT_FSIZE with an ignored SIGXFSZ.
func faultsSupported() bool {
	d, err := os.MkdirTemp(scratchBase(), "c12p-")
	if err != nil {
		return false
	}
	defer os.RemoveAll(d)
	p := filepath.Join(d, "probe")
	if os.WriteFile(p, []byte("ab"), 0o644) != nil {
		return false
	}
	if chflags(p, flImmutable, true) != nil {
		return false
	}
	rmErr := os.Remove(p)
	if chflags(p, flImmutable, false) != nil || rmErr == nil {
		return false
	}
	f, err := os.OpenFile(p, os.O_WRONLY|os.O_APPEND, 0o644)
	if err != nil {
		return false
	}
	defer f.Close()
	restore, ok := limitFileSize(3)
	if !ok {
		return false
	}
	n, werr := f.Write([]byte("cde"))
	restore()
	return n == 1 && werr != nil
}

var sigOnce bool

// limitFileSize sets the soft RLIMIT_FSIZE of the process to l bytes and returns the function that lifts it again.
func limitFileSize(l int) (func(), bool) {
	if !sigOnce {
		signal.Ignore(syscall.SIGXFSZ) // the default action would kill the process at the first refused byte
		sigOnce = true
	}
	var old syscall.Rlimit
	if syscall.Getrlimit(syscall.RLIMIT_FSIZE, &old) != nil {
		return nil, false
	}
	lim := syscall.Rlimit{Cur: uint64(l), Max: old.Max}
	if syscall.Setrlimit(syscall.RLIMIT_FSIZE, &lim) != nil {
		return nil, false
	}
	return func() { _ = syscall.Setrlimit(syscall.RLIMIT_FSIZE, &old) }, true
}

func (a *rot) logDir() string { return filepath.Dir(a.path) }

// obs prints the directory of the log file — wherever it currently is.
func (a *rot) obs() string {
	if !a.blocked {
		return observe(a.path)
	}
	if a.hidden == "" {
		return "empty"
	}
	return observe(filepath.Join(a.hidden, baseName))
}

func (a *rot) block() string {
	if a.blocked {
		return "block=ok"
	}
	dir := a.logDir()
	a.hidden = ""
	if _, err := os.Lstat(dir); err == nil {
		a.hidden = dir + ".aside"
		if err = os.Rename(dir, a.hidden); err != nil {
			return "block-error"
		}
	} else if err = os.MkdirAll(filepath.Dir(dir), 0o755); err != nil {
		return "block-error"
	}
	if err := os.WriteFile(dir, []byte("x"), 0o600); err != nil {
		return "block-error"
	}
	a.blocked = true
	return "block=ok"
}

func (a *rot) unblock() string {
	if !a.blocked {
		return "unblock=ok"
	}
	dir := a.logDir()
	if err := os.Remove(dir); err != nil {
		return "unblock-error"
	}
	if a.hidden != "" {
		if err := os.Rename(a.hidden, dir); err != nil {
			return "unblock-error"
		}
	}
	a.blocked, a.hidden = false, ""
	return "unblock=ok"
}

// jamBits: index 0 must stay writable through an O_APPEND descriptor.
func jamBits(i int) int {
	if i == 0 {
		return flAppend
	}
	return flImmutable
}

func (a *rot) unjam() string {
	if a.jam < 0 {
		return "unjam=ok"
	}
	p := fileName(a.path, a.jam)
	if a.blocked && a.hidden != "" {
		p = fileName(filepath.Join(a.hidden, baseName), a.jam)
	}
	if err := chflags(p, jamBits(a.jam), false); err != nil {
		return "unjam-error"
	}
	a.jam = -1
	return "unjam=ok"
}

// dropObstacles undoes whatever stands in the way of removing the scratch directory.
func (a *rot) dropObstacles() {
	if a.root == "" {
		return
	}
	a.unblock()
	a.unjam()
	a.blocked, a.hidden, a.jam = false, "", -1
	_ = os.RemoveAll(a.root + ".aside")
}

// rotf is the endpoint with the fault operations switched on.
type rotf struct{ rot }

func (a *rotf) Gen(r *hx.Rng, n int, _ string, emit func(string)) {
	emitted := 0
	out := func(s string) { emit(s); emitted++ }
	w := func(sz int) { out("w " + strconv.Itoa(max(sz, 0))) }
	for emitted < n {
		size := hx.Pick(r, []int{1, 2, 3, 7, 10, 25, 100})
		backups := hx.Pick(r, []int{0, 1, 2, 3, 5, 12})
		if r.Chance(1, 30) {
			backups = hx.Pick(r, []int{-1, 25})
		}
		effB := max(backups, 0)
		opts := []string{"S" + strconv.Itoa(size), "B" + strconv.Itoa(backups), hx.Pick(r, []string{"P", "P", "P", "Q"})}
		if r.Bool() {
			opts[0], opts[2] = opts[2], opts[0]
		}
		shape := r.Intn(8)
		pre := "-"
		jam := ""
		if shape <= 2 { // a jammed slot: needs the file
			kind := 1
			if r.Chance(1, 3) {
				kind = 3
			}
			pre = preSpec(r, kind, size, effB)
			var have []int
			for _, p := range strings.Split(pre, ",") {
				i, _ := strconv.Atoi(strings.SplitN(p, ":", 2)[0])
				have = append(have, i)
			}
			j := hx.Pick(r, have)
			switch r.Intn(4) { // the interesting ones: the oldest slot, the current file, slot 1
			case 0:
				j = have[0]
			case 1:
				for _, i := range have {
					if i == effB {
						j = i
					}
				}
			}
			jam = " J" + strconv.Itoa(j)
		} else if r.Chance(1, 2) {
			pre = preSpec(r, r.Intn(4), size, effB)
		}
		out("reset " + strings.Join(opts, ",") + " " + pre + jam)
		misc := func() bool {
			switch c := r.Intn(40); {
			case c < 2:
				out("close")
			case c < 4:
				out("reopen")
			case c < 5:
				out("reopen " + otherLimits(r, size))
			case c < 6:
				out("sync")
			default:
				return false
			}
			return true
		}
		wlim := func() {
			l := hx.Pick(r, []int{0, 1, size - 1, size, size + 1, size / 2, 2 * size, r.Range(0, 2*size+2)})
			out("wlim " + strconv.Itoa(max(l, 0)) + " " + strconv.Itoa(pickSize(r, size)))
		}
		any := func() {
			if !misc() {
				w(hx.Pick(r, []int{size, size + 1, 1, pickSize(r, size), pickSize(r, size)}))
			}
		}
		switch shape {
		case 0, 1, 2: // rotations run into the jammed slot again and again; then the obstacle goes away
			for i, k := 0, r.Range(4, 10+2*min(effB, 6)); i < k; i++ {
				any()
			}
			if r.Chance(2, 3) {
				out("unjam")
				for i, k := 0, r.Range(2, 6+effB); i < k; i++ {
					any()
				}
			}
		case 3, 4: // the directory becomes unreachable while the file is open / closed / about to rotate
			for i, k := 0, r.Range(0, 5); i < k; i++ {
				any()
			}
			if r.Chance(1, 3) {
				out("close")
			}
			out("block")
			for i, k := 0, r.Range(2, 7); i < k; i++ {
				switch r.Intn(8) {
				case 0:
					out("close")
				case 1:
					out("sync")
				case 2:
					out("reopen")
				case 3:
					out("block")
				default:
					w(hx.Pick(r, []int{0, 1, size, size + 1, pickSize(r, size)}))
				}
			}
			out("unblock")
			for i, k := 0, r.Range(2, 6+effB); i < k; i++ {
				any()
			}
		case 5, 6: // short writes at every fill level, then ordinary writes on top of the partial record
			for i, k := 0, r.Range(4, 14); i < k; i++ {
				if r.Chance(1, 2) {
					wlim()
				} else {
					any()
				}
			}
		default: // everything together
			blocked := false
			for i, k := 0, r.Range(6, 20); i < k; i++ {
				switch c := r.Intn(12); {
				case c == 0 && !blocked:
					out("block")
					blocked = true
				case c <= 1 && blocked:
					out("unblock")
					blocked = false
				case c <= 3:
					wlim()
				default:
					any()
				}
			}
		}
	}
}

// rotfd: histories in which the descriptor held by the rotator is closed behind its back (white-box, see fd_overlay.go):
// the failing Close inside rotate() and Close(), the failing Sync, the descriptor write that takes nothing.
type rotfd struct{ rot }

func (a *rotfd) Gen(r *hx.Rng, n int, _ string, emit func(string)) {
	emitted := 0
	out := func(s string) { emit(s); emitted++ }
	for emitted < n {
		size := hx.Pick(r, []int{1, 2, 3, 7, 10, 25})
		backups := hx.Pick(r, []int{0, 1, 2, 3, 5})
		pre := "-"
		if r.Chance(1, 2) {
			pre = preSpec(r, r.Intn(4), size, backups)
		}
		out("reset S" + strconv.Itoa(size) + ",B" + strconv.Itoa(backups) + "," + hx.Pick(r, []string{"P", "Q"}) + " " + pre)
		for i, k := 0, r.Range(5, 18); i < k; i++ {
			switch c := r.Intn(20); {
			case c < 4:
				out("breakfd")
			case c < 6:
				out("close")
			case c < 8:
				out("sync")
			case c < 9:
				out("reopen")
			case c < 10:
				out("wlim " + strconv.Itoa(r.Range(0, 2*size)) + " " + strconv.Itoa(pickSize(r, size)))
			default:
				out("w " + strconv.Itoa(hx.Pick(r, []int{0, 1, size, size + 1, pickSize(r, size), pickSize(r, size)})))
			}
		}
	}
}
