//go:build !nooverlay && !nodump

package main

import "github.com/richardwilkes/toolbox/rate"

// White-box build with go/overlay/c16_rate_dump.go compiled into package rate: after every call of a history the whole
// state of the tree (capacity, used, last, closed of every limiter, the waiting queue in order) is printed behind
// ` # ` and compared with the state of the Lean model.
func dumpState(handles []rate.Limiter) string { return rate.VerifDump(handles) }
