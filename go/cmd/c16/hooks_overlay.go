//go:build !nooverlay

package main

import "github.com/richardwilkes/toolbox/rate"

// White-box build: go/overlay/c16_rate_hook.go is compiled into package rate.
const whiteBox = true

func (h *history) setup() {}

// sentinel injects a request on a detached closed dummy limiter; the next tick (or the final drain) answers it without
// touching the tree.
func (h *history) sentinel() (<-chan error, func()) { return rate.VerifSentinel(h.root), nil }

func lockTree(l rate.Limiter)          { rate.VerifLock(l) }
func unlockTree(l rate.Limiter)        { rate.VerifUnlock(l) }
func tickConsumed(l rate.Limiter) bool { return rate.VerifTickConsumed(l) }
func rlockTree(l rate.Limiter)         { rate.VerifRLock(l) }
func runlockTree(l rate.Limiter)       { rate.VerifRUnlock(l) }
