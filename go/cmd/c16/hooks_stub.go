//go:build nooverlay

package main

import "github.com/richardwilkes/toolbox/rate"

// Black-box build (the overlay no longer compiles against the working tree, e.g. because a private identifier was
// renamed): ticks are observed through the public API only, the `window` area (which has to hold the controller's
// lock) is skipped.  The observation is part of the history the MODEL runs (the check feeds `reset <cap> bb` to the
// driver, which performs the same calls): a hidden child H of the root with capacity 1 is created at `reset`; for every
// tick to be observed H gets Use(1) twice (the first is granted when the root has room — it costs the root one unit of
// that period — the second always has to wait), then SetCap(0): the next tick answers what waits on H with the cap
// error, charging nothing; afterwards SetCap(1).  H is not among the history's handles and its requests are not
// printed, but they are numbered like all others.
const whiteBox = false

func (h *history) setup() { h.hidden = h.root.New(1) }

// sentinel: nil = ticks cannot be observed here (root capacity 0: the line is inconclusive, never a failure).
func (h *history) sentinel() (<-chan error, func()) {
	if h.hidden == nil {
		return nil, nil
	}
	h.hidden.Use(1)
	ch := h.hidden.Use(1)
	h.nreq += 2
	h.hidden.SetCap(0)
	if len(ch) != 0 { // answered at once (no capacity anywhere above H): nothing waits, nothing marks the tick
		return nil, nil
	}
	return ch, func() { h.hidden.SetCap(1) }
}

func lockTree(rate.Limiter)          {}
func unlockTree(rate.Limiter)        {}
func tickConsumed(rate.Limiter) bool { return true }
func rlockTree(rate.Limiter)         {}
func runlockTree(rate.Limiter)       {}
