//go:build nooverlay

package main

import "github.com/richardwilkes/toolbox/rate"

// Black-box build (the overlay no longer compiles against the working tree, e.g. because a private identifier was
// renamed): ticks are observed through the public API only, the `window` area (which has to hold the controller's
// lock) is skipped.
const whiteBox = false

// sentinel: a hidden child Y of the root with capacity 0 is created once; for every tick to be observed a child Z of Y
// with capacity 1 gets Use(1) — within its own cap, but Y never has room, so the request waits and charges nothing —
// and is closed at once: the next tick (or the final drain) answers the request with the "closed" error.  Y and Z are
// not among the history's handles; they never carry usage, so neither `used`/`LastUsed` of the limiters under test nor
// any answer depends on them.  nil = ticks cannot be observed (the line is then inconclusive, never a failure).
func (h *history) sentinel() <-chan error {
	if h.hidden == nil {
		h.hidden = h.root.New(0)
		if h.hidden == nil {
			return nil
		}
	}
	z := h.hidden.New(1)
	if z == nil {
		return nil
	}
	ch := z.Use(1)
	z.Close()
	if len(ch) != 0 { // answered at once: this tree does not let such a request wait
		return nil
	}
	return ch
}

func lockTree(rate.Limiter)          {}
func unlockTree(rate.Limiter)        {}
func tickConsumed(rate.Limiter) bool { return true }
