// Harness for C16 (rate limiter).
//
//	burst   lock-step histories: the API is called in bursts between two observed ticks; compared with the Lean model
//	stress  Close-vs-tick stress with microsecond periods; the harness judges (each line runs in a child process)
//
// `run burst` and `run stress` read the whole input first and run many histories concurrently (every history owns its
// limiter tree and ticker), emitting the outputs in input order.
package main

import (
	"bufio"
	"fmt"
	"os"
	"strconv"
	"strings"
	"sync"

	"verifharness/hx"
)

func envInt(name string, def int) int {
	if v, err := strconv.Atoi(os.Getenv(name)); err == nil && v > 0 {
		return v
	}
	return def
}

// runParallel splits the input into jobs (a job = consecutive lines, a new job starting where start(line) is true),
// runs them with at most par workers and prints the outputs in input order.
func runParallel(par int, start func(string) bool, job func([]string) []string) {
	sc := bufio.NewScanner(os.Stdin)
	sc.Buffer(make([]byte, 1<<20), 1<<28)
	var jobs [][]string
	for sc.Scan() {
		line := sc.Text()
		if len(jobs) == 0 || start(line) {
			jobs = append(jobs, nil)
		}
		jobs[len(jobs)-1] = append(jobs[len(jobs)-1], line)
	}
	outs := make([][]string, len(jobs))
	sem := make(chan struct{}, par)
	var wg sync.WaitGroup
	for i := range jobs {
		wg.Add(1)
		sem <- struct{}{}
		go func(i int) {
			defer wg.Done()
			defer func() { <-sem }()
			defer func() {
				if r := recover(); r != nil {
					o := make([]string, len(jobs[i]))
					for k := range o {
						o[k] = "panic"
					}
					outs[i] = o
				}
			}()
			o := job(jobs[i])
			for len(o) < len(jobs[i]) {
				o = append(o, "missing-output")
			}
			outs[i] = o[:len(jobs[i])]
		}(i)
	}
	wg.Wait()
	w := bufio.NewWriterSize(os.Stdout, 1<<16)
	defer w.Flush()
	for _, o := range outs {
		for _, l := range o {
			w.WriteString(l)
			w.WriteByte('\n')
		}
	}
}

func main() {
	if len(os.Args) >= 2 && os.Args[1] == "child-stress" {
		fmt.Println(stressChild(strings.Join(os.Args[2:], " ")))
		return
	}
	if len(os.Args) >= 3 && os.Args[1] == "run" {
		switch os.Args[2] {
		case "burst":
			runParallel(envInt("C16_PAR", 48), func(l string) bool { return strings.HasPrefix(l, "reset") }, runHistory)
			return
		case "stress":
			runParallel(envInt("C16_STRESS_PAR", 4), func(string) bool { return true },
				func(ls []string) []string { return []string{stressParent(ls[0])} })
			return
		}
	}
	hx.Main(map[string]hx.Area{"burst": burstArea{}, "stress": stressArea{}})
}
