package main

import (
	"context"
	"fmt"
	"os"
	"os/exec"
	"runtime"
	"strings"
	"sync"
	"sync/atomic"
	"time"

	"github.com/richardwilkes/toolbox/rate"
	"verifharness/hx"
)

// Close-vs-tick stress.  One line = one configuration
//
//	stress <seed> <periodNs> <gomaxprocs> <users> <usesPerUser> <target: root|late|child|both> <attempts>
//
// (`late` = root Close against a tree with tiny capacities in which nearly every request has to queue, so that requests
// are being queued at the very moment Close marks the tree and the goroutine drains the queue and ends.)
//
// executed in a child process, so that a deadlock inside the package cannot hang the check: the child reports the first
// attempt that does not finish within 5 s (all goroutines of the attempt are abandoned) and the parent kills a child
// that does not report at all.
type stressArea struct{}

func (stressArea) Gen(r *hx.Rng, n int, tier string, emit func(string)) {
	attempts := 150
	if tier == "thorough" {
		attempts = 300
	}
	for i := 0; i < n; i++ {
		period := hx.Pick(r, []int{1000, 1000, 1000, 2000, 5000, 20000, 100000, 1000000, 10000000, 1000000000})
		emit(fmt.Sprintf("stress %d %d %d %d %d %s %d", r.U64()%1000000007, period, hx.Pick(r, []int{1, 2, 4, 16}),
			hx.Pick(r, []int{1, 2, 4, 8}), hx.Pick(r, []int{5, 20, 50}), hx.Pick(r, []string{"root", "late", "late", "child", "both"}),
			attempts))
	}
}

func (stressArea) Run(line string) string { return stressParent(line) }

// hangs counts the configurations that ended in a hang; after three of them the remaining ones are not run any more
// (each hang costs its 5 s deadline; three replays are enough for a verdict).
var hangs atomic.Int32

func stressParent(line string) string {
	f := strings.Fields(line)
	if len(f) != 8 || f[0] != "stress" {
		return "bad-op"
	}
	if hangs.Load() >= 3 {
		return "ok not-run (three configurations of this run already hung)"
	}
	res := stressParent1(f)
	if strings.HasPrefix(res, "FAIL hang") {
		hangs.Add(1)
	}
	return res
}

func stressParent1(f []string) string {
	ctx, cancel := context.WithTimeout(context.Background(), 60*time.Second)
	defer cancel()
	cmd := exec.CommandContext(ctx, os.Args[0], append([]string{"child-stress"}, f...)...)
	cmd.WaitDelay = time.Second
	out, err := cmd.Output()
	res := strings.TrimSpace(string(out))
	if ctx.Err() != nil {
		return "FAIL hang: the child process running the attempts did not finish within 60s and was killed"
	}
	if err != nil && !strings.HasPrefix(res, "FAIL") {
		return "FAIL child process died: " + strings.ReplaceAll(err.Error(), "\n", " ")
	}
	if res == "" {
		return "FAIL child process printed nothing"
	}
	if i := strings.IndexByte(res, '\n'); i >= 0 {
		res = res[:i]
	}
	return res
}

type issued struct {
	ch  <-chan error
	lim int
	amt int
}

type stressLim struct {
	l      rate.Limiter
	parent int
	cap    int
	depth  int
}

func stressChild(line string) string {
	f := strings.Fields(line)
	if len(f) != 8 {
		return "bad-op"
	}
	r := hx.NewRng(uint64(hx.Atoi(f[1])))
	period := time.Duration(hx.Atoi(f[2])) * time.Nanosecond
	runtime.GOMAXPROCS(hx.Atoi(f[3]))
	users, uses, target, attempts := hx.Atoi(f[4]), hx.Atoi(f[5]), f[6], hx.Atoi(f[7])
	answers := 0
	for a := 0; a < attempts; a++ {
		var phase atomic.Value
		phase.Store("start")
		res := make(chan string, 1)
		rr := r.Fork()
		go func() { res <- attempt(rr, period, users, uses, target, &phase, &answers) }()
		select {
		case s := <-res:
			if s != "" {
				return fmt.Sprintf("FAIL attempt %d: %s", a, s)
			}
		case <-time.After(time.Duration(envInt("C16_ATTEMPT_S", 5)) * time.Second):
			return fmt.Sprintf("FAIL hang: attempt %d did not finish within 5s, blocked in phase `%s`", a, phase.Load())
		}
	}
	return fmt.Sprintf("ok attempts=%d answers=%d", attempts, answers)
}

// attempt returns "" when everything required by the property was observed.
func attempt(r *hx.Rng, period time.Duration, users, uses int, target string, phase *atomic.Value, answers *int) string {
	rootCap := r.Range(1, 20)
	late := target == "late"
	if late {
		target = "root"
		rootCap = r.Range(1, 2)
		uses *= 4
	}
	limits := !late && r.Chance(1, 4) // capacities and amounts at the limits of int
	if limits {
		rootCap = hx.Pick(r, []int{maxInt, maxInt - 1, maxInt/2 + 1})
	}
	root := rate.New(rootCap, period)
	lims := []stressLim{{l: root, parent: -1, cap: rootCap}}
	nkids, maxDepth := r.Range(1, 5), 3
	// (not on one P with a period below 20 µs: a tick over 40 limiters and hundreds of waiting requests takes longer
	// than the period, the ticker goroutine then owns the only P and the callers crawl — slow, not a hang)
	if r.Chance(1, 6) && !(period < 20*time.Microsecond && runtime.GOMAXPROCS(0) == 1) { // depth up to 6, 17+ limiters
		nkids, maxDepth = r.Range(17, 40), 6
	}
	for i, k := 0, nkids; i < k; i++ {
		p := r.Intn(len(lims))
		if maxDepth == 6 && r.Chance(1, 2) {
			p = len(lims) - 1 // grow a chain
		}
		if lims[p].depth >= maxDepth {
			p = 0
		}
		c := hx.Pick(r, []int{1, lims[p].cap, lims[p].cap + 3, lims[p].cap / 2, r.Range(1, 25)})
		if limits {
			c = hx.Pick(r, []int{maxInt, maxInt - 1, maxInt/2 + 1, lims[p].cap, 1000})
		}
		if late {
			c = r.Range(1, 2)
		}
		if c < 0 {
			c = 0
		}
		lims = append(lims, stressLim{l: lims[p].l.New(c), parent: p, cap: c, depth: lims[p].depth + 1})
	}
	tgt := 0
	if target != "root" {
		tgt = r.Range(1, len(lims)-1)
	}
	inSubtree := func(i, top int) bool {
		for j := i; j >= 0; j = lims[j].parent {
			if j == top {
				return true
			}
		}
		return false
	}

	// SetCap calls (lowering and raising) mixed into the run; maxCap = the largest cap a limiter ever has
	maxCap := make([]int, len(lims))
	for i := range lims {
		maxCap[i] = lims[i].cap
	}
	type capChange struct{ lim, cap int }
	var changes []capChange
	if r.Chance(2, 3) {
		for i, k := 0, r.Range(1, 12); i < k; i++ {
			li := r.Intn(len(lims))
			nc := hx.Pick(r, []int{0, 1, lims[li].cap / 2, lims[li].cap - 1, lims[li].cap + 2, r.Range(0, 30)})
			if limits {
				nc = hx.Pick(r, []int{maxInt, maxInt - 1, maxInt/2 + 1, lims[li].cap / 2, 500})
			}
			if nc < 0 {
				nc = 0
			}
			if r.Chance(1, 10) {
				nc = hx.Pick(r, []int{-1, minInt, -maxInt}) // stored as 0
			}
			changes = append(changes, capChange{li, nc})
			if nc > maxCap[li] {
				maxCap[li] = nc
			}
		}
	}

	// the accessors are called concurrently with everything else; they are judged against what the harness itself
	// knows: Cap(false) is one of the values this limiter was ever given, Cap(true) one of the values given to it or an
	// ancestor, 0 <= LastUsed <= the largest cap the limiter ever had, Closed never goes back to false
	capSet := make([]map[int]bool, len(lims))
	for i := range lims {
		capSet[i] = map[int]bool{lims[i].cap: true}
	}
	for _, ch := range changes {
		capSet[ch.lim][max(ch.cap, 0)] = true
	}
	var readerFault atomic.Value
	var stopReaders atomic.Bool
	var rwg sync.WaitGroup
	for q, nr := 0, r.Intn(3); q < nr; q++ {
		rr := r.Fork()
		rwg.Add(1)
		go func() {
			defer rwg.Done()
			wasClosed := make([]bool, len(lims))
			// never spin: with GOMAXPROCS(1) a busy reader would starve the goroutines it is supposed to run against
			for it := 0; it < 4000 && !stopReaders.Load(); it++ {
				runtime.Gosched()
				i := rr.Intn(len(lims))
				l := lims[i].l
				switch rr.Intn(4) {
				case 0:
					if v := l.Cap(false); !capSet[i][v] {
						readerFault.Store(fmt.Sprintf("Cap(false) of limiter %d returned %d, a value it was never given", i, v))
					}
				case 1:
					v := l.Cap(true)
					ok := false
					for j := i; j >= 0; j = lims[j].parent {
						ok = ok || capSet[j][v]
					}
					if !ok {
						readerFault.Store(fmt.Sprintf("Cap(true) of limiter %d returned %d, a value neither it nor an ancestor was ever given", i, v))
					}
				case 2:
					if v := l.LastUsed(); v < 0 || v > maxCap[i] {
						readerFault.Store(fmt.Sprintf("LastUsed of limiter %d returned %d, its cap never exceeded %d", i, v, maxCap[i]))
					}
				default:
					c := l.Closed()
					if wasClosed[i] && !c {
						readerFault.Store(fmt.Sprintf("Closed() of limiter %d went back to false", i))
					}
					wasClosed[i] = c
				}
			}
		}()
	}

	var mu sync.Mutex
	var all []issued
	start := make(chan struct{})
	var wg sync.WaitGroup
	if len(changes) > 0 {
		cr := r.Fork()
		wg.Add(1)
		go func() {
			defer wg.Done()
			<-start
			for _, ch := range changes {
				lims[ch.lim].l.SetCap(ch.cap)
				if cr.Chance(1, 2) {
					runtime.Gosched()
				}
				if cr.Chance(1, 4) {
					_ = lims[ch.lim].l.Cap(true)
					_ = lims[ch.lim].l.LastUsed()
				}
			}
		}()
	}
	for u := 0; u < users; u++ {
		ur := r.Fork()
		wg.Add(1)
		go func() {
			defer wg.Done()
			<-start
			mine := make([]issued, 0, uses)
			for i := 0; i < uses; i++ {
				li := ur.Intn(len(lims))
				c := lims[li].cap
				amt := hx.Pick(ur, []int{0, 1, 1, 2, c, c + 1, -1, ur.Range(1, 6), ur.Range(1, 25)})
				if limits {
					amt = hx.Pick(ur, []int{0, 1, 500, c, c - 10, c/2 + 1, maxInt, maxInt - 10, maxInt/2 + 1, -1})
				}
				if late {
					amt = ur.Range(1, c)
				}
				mine = append(mine, issued{ch: lims[li].l.Use(amt), lim: li, amt: amt})
				if ur.Chance(1, 4) {
					runtime.Gosched()
				}
			}
			mu.Lock()
			all = append(all, mine...)
			mu.Unlock()
		}()
	}
	spin := r.Intn(3000)
	if late {
		spin = r.Intn(40000)
	}
	var cwg sync.WaitGroup
	closer := func(i int, spin int) {
		defer cwg.Done()
		<-start
		x := 0
		for k := 0; k < spin; k++ {
			x += k
		}
		_ = x
		lims[i].l.Close()
	}
	cwg.Add(1)
	go closer(tgt, spin)
	if target == "both" {
		cwg.Add(1)
		go closer(0, r.Intn(3000))
	}
	phase.Store(fmt.Sprintf("Close(%s) concurrently with ticks, Use and SetCap calls", target))
	close(start)
	cwg.Wait()
	phase.Store("Use / SetCap calls (Close has returned)")
	wg.Wait()

	phase.Store("accessors running concurrently (Cap, LastUsed, Closed)")
	stopReaders.Store(true)
	rwg.Wait()
	if f := readerFault.Load(); f != nil {
		return f.(string)
	}
	phase.Store("Closed() after Close")
	top := tgt
	if target == "both" {
		top = 0
	}
	for i := range lims {
		if inSubtree(i, top) && !lims[i].l.Closed() {
			return fmt.Sprintf("limiter %d below the closed limiter %d is not closed after Close returned", i, top)
		}
	}
	phase.Store("Use after Close")
	select {
	case err := <-lims[tgt].l.Use(1):
		if err == nil {
			return "Use(1) on a closed limiter answered nil"
		}
	default:
		return "Use(1) on a closed limiter was queued"
	}
	select {
	case err := <-lims[tgt].l.Use(0):
		if err == nil {
			return "Use(0) on a closed limiter answered nil"
		}
	default:
		return "Use(0) on a closed limiter was queued"
	}
	if lims[tgt].l.New(1) != nil {
		return "New on a closed limiter returned a limiter"
	}
	if top != 0 {
		phase.Store("final Close(root)")
		root.Close()
	}
	phase.Store("Closed() after Close(root)")
	for i := range lims {
		if !lims[i].l.Closed() {
			return fmt.Sprintf("limiter %d is not closed after Close(root) returned", i)
		}
	}
	phase.Store("waiting for the answers of all Use calls")
	for _, q := range all {
		got := classify(<-q.ch)
		*answers++
		// only nil / error is constrained by the property, not which error or its text
		switch {
		case q.amt < 0 && got == "nil":
			return fmt.Sprintf("Use(%d) answered nil", q.amt)
		case q.amt > maxCap[q.lim] && got == "nil":
			return fmt.Sprintf("Use(%d) on a limiter whose capacity never exceeded %d answered nil", q.amt, maxCap[q.lim])
		}
	}
	phase.Store("second answers")
	time.Sleep(50 * time.Microsecond)
	for _, q := range all {
		if len(q.ch) != 0 {
			return "a Use channel received a second answer"
		}
	}
	return ""
}
