package main

import (
	"fmt"
	"strconv"
	"strings"
	"sync/atomic"
	"time"

	"github.com/richardwilkes/toolbox/rate"
	"verifharness/hx"
)

type burstArea struct{}

const waitLimit = 5 * time.Second

// Run is only used when a single line is executed outside a history.
func (burstArea) Run(string) string { return "bad-op" }

func classify(err error) string {
	if err == nil {
		return "nil"
	}
	m := err.Error()
	switch {
	case strings.Contains(m, "must be positive"):
		return "err-neg"
	case strings.Contains(m, "greater than capacity"):
		return "err-cap"
	case strings.Contains(m, "closed"):
		return "err-closed"
	}
	return "err-other"
}

type pend struct {
	ch <-chan error
	id int
}

type history struct {
	root         rate.Limiter
	t0           time.Time
	t1           time.Time    // after rate.New returned: the ticker was started between t0 and t1
	hidden       rate.Limiter // black-box build only: the hidden capacity-1 sentinel child of the root
	handles      []rate.Limiter
	pending      []pend
	period       time.Duration
	nreq         int
	tickIdx      int
	rootClosed   bool
	inconclusive bool
	overlaps     int  // rwin: read-only calls that returned while the harness held the read lock
	dead         bool // a call did not return in time: the tree is considered hung, nothing more is executed
}

// fire is a lower bound of the instant of the j-th tick (the ticker was started at or after t0).
func (h *history) fire(j int) time.Time { return h.t0.Add(time.Duration(j) * h.period) }

// inWindow reports whether the calls made so far in this period certainly happened before the next tick.
func (h *history) inWindow() bool {
	return h.rootClosed || time.Now().Before(h.fire(h.tickIdx+1).Add(-h.period/4))
}

// collect receives, without blocking, the answers that have arrived for pending requests.
func (h *history) collect(block bool) string {
	var sb strings.Builder
	rest := h.pending[:0]
	limit := time.After(waitLimit) // one deadline for all of them
	for _, p := range h.pending {
		if block {
			select {
			case err := <-p.ch:
				fmt.Fprintf(&sb, " r%d=%s", p.id, classify(err))
			case <-limit:
				fmt.Fprintf(&sb, " r%d=never-answered", p.id)
				limit = time.After(0)
				h.dead = true
			}
			continue
		}
		select {
		case err := <-p.ch:
			fmt.Fprintf(&sb, " r%d=%s", p.id, classify(err))
		default:
			rest = append(rest, p)
		}
	}
	h.pending = rest
	return sb.String()
}

func (h *history) perLimiter(f func(rate.Limiter) string) string {
	parts := make([]string, len(h.handles))
	for i, l := range h.handles {
		parts[i] = f(l)
	}
	return strings.Join(parts, ",")
}

// withDeadline runs f in a goroutine; false = it did not return in time.
func withDeadline(f func()) bool {
	done := make(chan struct{})
	go func() { f(); close(done) }()
	select {
	case <-done:
		return true
	case <-time.After(waitLimit):
		return false
	}
}

func (h *history) op(f []string) string {
	handle := func(s string) rate.Limiter {
		i, err := strconv.Atoi(s)
		if err != nil || i < 0 || i >= len(h.handles) {
			return nil
		}
		return h.handles[i]
	}
	switch {
	case len(f) == 3 && f[0] == "new":
		p := handle(f[1])
		if p == nil {
			return "bad-handle"
		}
		c := p.New(hx.Atoi(f[2]))
		if c == nil {
			return "nil"
		}
		h.handles = append(h.handles, c)
		return "ok " + strconv.Itoa(len(h.handles)-1)
	case len(f) == 3 && f[0] == "use":
		l := handle(f[1])
		if l == nil {
			return "bad-handle"
		}
		ch := l.Use(hx.Atoi(f[2]))
		id := h.nreq
		h.nreq++
		select {
		case err := <-ch:
			return "r" + strconv.Itoa(id) + " " + classify(err)
		default:
			h.pending = append(h.pending, pend{ch: ch, id: id})
			return "r" + strconv.Itoa(id) + " pending"
		}
	case len(f) == 2 && f[0] == "chancap":
		l := handle(f[1])
		if l == nil {
			return "bad-handle"
		}
		ch := l.Use(-1) // answered before the lock is taken; the channel is made like every other answer channel
		id := h.nreq
		h.nreq++
		if cap(ch) >= 1 { // more room than the one answer needs is the implementation's business
			return "r" + strconv.Itoa(id) + " room-for-the-answer"
		}
		return "r" + strconv.Itoa(id) + " cap=" + strconv.Itoa(cap(ch))
	case len(f) == 1 && f[0] == "tick":
		if h.rootClosed {
			return "no-ticker"
		}
		ch, after := h.sentinel()
		if ch == nil || !h.inWindow() { // no way to observe the tick, or the sentinel may have missed its tick
			h.inconclusive = true
			return "inconclusive"
		}
		select {
		case <-ch:
		case <-time.After(waitLimit):
			h.dead = true
			return "tick-timeout"
		}
		h.root.Closed() // barrier: returns once the ticker goroutine has left its critical section
		if after != nil {
			after()
		}
		h.tickIdx++
		if time.Now().After(h.fire(h.tickIdx).Add(h.period / 2)) {
			h.inconclusive = true
			return "inconclusive"
		}
		return "tick" + h.collect(false) + " last=" + h.perLimiter(func(l rate.Limiter) string { return strconv.Itoa(l.LastUsed()) })
	case len(f) >= 3 && f[0] == "rwin":
		return h.rwin(strings.Join(f[1:], " "))
	case len(f) >= 3 && f[0] == "window":
		return h.window(f[1] == "early", strings.Split(strings.Join(f[2:], " "), ";"))
	case len(f) == 2 && f[0] == "close":
		l := handle(f[1])
		if l == nil {
			return "bad-handle"
		}
		wasOpen := !h.root.Closed()
		if !withDeadline(l.Close) {
			return "close-timeout"
		}
		ans := ""
		if l == h.root && wasOpen {
			if !h.inWindow() { // the lock may have been taken only after the next tick
				h.inconclusive = true
				return "inconclusive"
			}
			h.rootClosed = true
			ans = h.collect(true) // the goroutine drains the queue after the hand-over
		}
		return "close" + ans + " closed=" + h.perLimiter(func(l rate.Limiter) string {
			if l.Closed() {
				return "1"
			}
			return "0"
		})
	case len(f) == 3 && f[0] == "cap":
		l := handle(f[1])
		if l == nil {
			return "bad-handle"
		}
		return strconv.Itoa(l.Cap(f[2] == "1"))
	case len(f) == 3 && f[0] == "setcap":
		l := handle(f[1])
		if l == nil {
			return "bad-handle"
		}
		l.SetCap(hx.Atoi(f[2]))
		return "ok"
	case len(f) == 2 && f[0] == "last":
		l := handle(f[1])
		if l == nil {
			return "bad-handle"
		}
		return strconv.Itoa(l.LastUsed())
	case len(f) == 2 && f[0] == "closed":
		l := handle(f[1])
		if l == nil {
			return "bad-handle"
		}
		return strconv.FormatBool(l.Closed())
	}
	return "bad-op"
}

// hungHistories counts the histories of this process that ended in a hang or timeout.  Each costs its 5 s deadline, so
// after maxHung of them the remaining histories are not run (their lines are `inconclusive`, which never counts): the
// hangs already seen decide the run.
var hungHistories atomic.Int32

const maxHung = 6

// window runs up to three calls inside the Close-vs-tick window: the harness holds the controller's lock (white box)
// across the next tick, so that the ticker goroutine — having received the tick — and the goroutines making the calls
// all wait for the lock (`early`: the calls queue up before the tick fires, `late`: after), then releases it.  Which of
// them gets the lock in which order is up to the mutex: the model computes the set of outcomes of ALL interleavings
// and the line is accepted when the observed outcome is one of them.  At most one `use` and one `new` per window (so
// that request and limiter numbers do not depend on the order).
func (h *history) window(early bool, ops []string) string {
	if h.rootClosed {
		return "no-ticker"
	}
	if !whiteBox || !h.inWindow() { // holding the controller's lock needs the white-box build
		h.inconclusive = true
		return "inconclusive"
	}
	type call struct {
		f    []string
		l    rate.Limiter
		ch   <-chan error
		nl   rate.Limiter
		done chan struct{}
	}
	var calls []*call
	uses, news := 0, 0
	for _, o := range ops {
		f := strings.Fields(o)
		if len(f) < 2 {
			return "bad-op"
		}
		i, err := strconv.Atoi(f[1])
		if err != nil || i < 0 || i >= len(h.handles) {
			return "bad-handle"
		}
		switch {
		case f[0] == "use" && len(f) == 3:
			uses++
		case f[0] == "new" && len(f) == 3:
			news++
		case f[0] == "setcap" && len(f) == 3, f[0] == "close" && len(f) == 2:
		default:
			return "bad-op"
		}
		calls = append(calls, &call{f: f, l: h.handles[i], done: make(chan struct{})})
	}
	if uses > 1 || news > 1 || len(calls) > 3 {
		return "bad-op"
	}
	wasOpen := !h.root.Closed()
	sentinel, _ := h.sentinel()
	lockTree(h.root)
	launch := func() {
		for _, c := range calls {
			go func(c *call) {
				defer close(c.done)
				defer func() { _ = recover() }()
				switch c.f[0] {
				case "use":
					c.ch = c.l.Use(hx.Atoi(c.f[2]))
				case "new":
					c.nl = c.l.New(hx.Atoi(c.f[2]))
				case "setcap":
					c.l.SetCap(hx.Atoi(c.f[2]))
				case "close":
					c.l.Close()
				}
			}(c)
			time.Sleep(200 * time.Microsecond) // let it reach the lock before the next one starts
		}
	}
	if early {
		launch()
	}
	// the tick fires while the harness holds the lock; wait until the ticker goroutine has received it
	fired := h.t1.Add(time.Duration(h.tickIdx+1) * h.period).Add(h.period / 16) // certainly after the tick has fired
	for time.Now().Before(fired) || !tickConsumed(h.root) {
		if time.Now().After(fired.Add(h.period / 4)) {
			unlockTree(h.root)
			h.inconclusive = true
			return "inconclusive"
		}
		time.Sleep(h.period / 64)
	}
	time.Sleep(time.Millisecond) // from the receive to the Lock() call
	if !early {
		launch()
	}
	unlockTree(h.root)
	limit := time.After(waitLimit)
	for _, c := range calls {
		select {
		case <-c.done:
		case <-limit:
			h.dead = true
			return "window-hang: `" + strings.Join(c.f, " ") + "` did not return"
		}
	}
	select {
	case <-sentinel:
	case <-limit:
		h.dead = true
		return "window-timeout"
	}
	h.root.Closed() // barrier
	h.tickIdx++
	if time.Now().After(h.fire(h.tickIdx).Add(h.period / 2)) {
		h.inconclusive = true
		return "inconclusive"
	}
	var sb strings.Builder
	sb.WriteString("window")
	closedRoot := wasOpen && h.root.Closed()
	var newPend []pend
	for _, c := range calls {
		switch c.f[0] {
		case "use":
			id := h.nreq
			h.nreq++
			got := "pending"
			if c.ch == nil {
				got = "panic"
			} else if closedRoot {
				select {
				case err := <-c.ch:
					got = classify(err)
				case <-limit:
					got = "never-answered"
					h.dead = true
				}
			} else {
				select {
				case err := <-c.ch:
					got = classify(err)
				default:
					newPend = append(newPend, pend{ch: c.ch, id: id})
				}
			}
			sb.WriteString(" u=" + got)
		case "new":
			if c.nl == nil {
				sb.WriteString(" n=nil")
			} else {
				h.handles = append(h.handles, c.nl)
				sb.WriteString(" n=ok")
			}
		}
	}
	if closedRoot {
		h.rootClosed = true
		sb.WriteString(h.collect(true))
	} else {
		sb.WriteString(h.collect(false))
	}
	h.pending = append(h.pending, newPend...)
	sb.WriteString(" closed=" + h.perLimiter(func(l rate.Limiter) string {
		if l.Closed() {
			return "1"
		}
		return "0"
	}))
	sb.WriteString(" last=" + h.perLimiter(func(l rate.Limiter) string { return strconv.Itoa(l.LastUsed()) }))
	sb.WriteString(" cap=" + h.perLimiter(func(l rate.Limiter) string { return strconv.Itoa(l.Cap(false)) }))
	return sb.String()
}

// rwin runs the read-lock window `r ; r ; … | w`: the harness takes the controller's lock in READ mode (white box) and,
// while it is inside, makes the read-only calls r from goroutines of their own — each must return: readers overlap —;
// then it starts the writing call w, sees that it is kept out, releases its read lock and lets w finish.  The driver runs
// the same schedule on the readers-writer machine (RL.rwWindow).  (The reads come before the writer is started: Go's
// RWMutex keeps NEW readers out while a writer is waiting.)
func (h *history) rwin(spec string) string {
	if h.rootClosed {
		return "no-ticker"
	}
	if !whiteBox || !h.inWindow() {
		h.inconclusive = true
		return "inconclusive"
	}
	parts := strings.Split(spec, "|")
	if len(parts) != 2 {
		return "bad-op"
	}
	handle := func(s string) rate.Limiter {
		i, err := strconv.Atoi(s)
		if err != nil || i < 0 || i >= len(h.handles) {
			return nil
		}
		return h.handles[i]
	}
	type rd struct {
		f []string
		l rate.Limiter
	}
	var reads []rd
	for _, o := range strings.Split(parts[0], ";") {
		f := strings.Fields(o)
		if len(f) == 0 {
			continue
		}
		ok := (f[0] == "cap" && len(f) == 3) || ((f[0] == "last" || f[0] == "closed") && len(f) == 2)
		if !ok || handle(f[1]) == nil {
			return "bad-op"
		}
		reads = append(reads, rd{f, handle(f[1])})
	}
	w := strings.Fields(parts[1])
	wok := len(w) >= 2 && ((w[0] == "use" && len(w) == 3) || (w[0] == "setcap" && len(w) == 3) || (w[0] == "new" && len(w) == 3) ||
		(w[0] == "close" && len(w) == 2 && w[1] != "0"))
	if !wok || handle(w[1]) == nil || (w[0] == "use" && hx.Atoi(w[2]) < 0) { // a negative Use never takes the lock
		return "bad-op"
	}
	wl := handle(w[1])
	var sb strings.Builder
	sb.WriteString("rwin")
	rlockTree(h.root)
	for _, r := range reads {
		var v string
		r := r
		got := make(chan struct{})
		go func() {
			defer close(got)
			defer func() { _ = recover() }()
			switch r.f[0] {
			case "cap":
				v = strconv.Itoa(r.l.Cap(r.f[2] == "1"))
			case "last":
				v = strconv.Itoa(r.l.LastUsed())
			default:
				v = strconv.FormatBool(r.l.Closed())
			}
		}()
		select {
		case <-got:
			h.overlaps++
		case <-time.After(100 * time.Millisecond):
			// The call does not overlap with a reader: it takes the lock exclusively (the property does not ask for more),
			// or a tick has come in between and keeps new readers out.  Let it in and go on; what it returns is compared.
			runlockTree(h.root)
			select {
			case <-got:
			case <-time.After(waitLimit):
				h.dead = true
				return "rwin reader-hang: `" + strings.Join(r.f, " ") + "` did not return"
			}
			if !h.inWindow() {
				h.inconclusive = true
				return "inconclusive"
			}
			rlockTree(h.root)
		}
		sb.WriteString(" " + v)
	}
	var ch <-chan error
	var nl rate.Limiter
	done := make(chan struct{})
	go func() {
		defer close(done)
		defer func() { _ = recover() }()
		switch w[0] {
		case "use":
			ch = wl.Use(hx.Atoi(w[2]))
		case "setcap":
			wl.SetCap(hx.Atoi(w[2]))
		case "new":
			nl = wl.New(hx.Atoi(w[2]))
		case "close":
			wl.Close()
		}
	}()
	blocked := "1"
	select {
	case <-done:
		blocked = "0" // every call admitted here takes the write lock first: it must wait for the reader
	case <-time.After(3 * time.Millisecond):
	}
	runlockTree(h.root)
	select {
	case <-done:
	case <-time.After(waitLimit):
		h.dead = true
		return "rwin writer-hang: `" + strings.Join(w, " ") + "` did not return after the readers had left"
	}
	sb.WriteString(" blocked=" + blocked)
	switch w[0] {
	case "use":
		id := h.nreq
		h.nreq++
		if ch == nil {
			sb.WriteString(" r" + strconv.Itoa(id) + " panic")
			break
		}
		select {
		case err := <-ch:
			sb.WriteString(" r" + strconv.Itoa(id) + " " + classify(err))
		default:
			h.pending = append(h.pending, pend{ch: ch, id: id})
			sb.WriteString(" r" + strconv.Itoa(id) + " pending")
		}
	case "new":
		if nl == nil {
			sb.WriteString(" n=nil")
		} else {
			h.handles = append(h.handles, nl)
			sb.WriteString(" n=ok")
		}
	}
	return sb.String()
}

// runHistory executes one history (`reset <rootCap>` and the lines after it).
func runHistory(lines []string) []string {
	out := make([]string, 0, len(lines))
	var h *history
	if hungHistories.Load() >= maxHung {
		for _, line := range lines {
			if strings.HasPrefix(line, "reset ") {
				out = append(out, "reset")
			} else {
				out = append(out, "inconclusive")
			}
		}
		return out
	}
	defer func() {
		if h != nil && h.dead {
			hungHistories.Add(1)
		}
	}()
	defer func() {
		if h != nil && !h.rootClosed && !h.dead && h.root != nil {
			go h.root.Close() // stop the ticker; not part of the history
		}
	}()
	for _, line := range lines {
		f := strings.Fields(line)
		if len(f) == 2 && f[0] == "reset" {
			c, err := strconv.Atoi(f[1])
			if err != nil {
				out = append(out, "bad-op")
				continue
			}
			h = &history{period: time.Duration(envInt("C16_PERIOD_MS", 200)) * time.Millisecond}
			h.t0 = time.Now()
			h.root = rate.New(c, h.period)
			h.t1 = time.Now()
			if h.t1.Sub(h.t0) > h.period/8 {
				h.inconclusive = true
			}
			h.handles = []rate.Limiter{h.root}
			h.setup()
			out = append(out, "reset")
			continue
		}
		if h == nil {
			out = append(out, "bad-op")
			continue
		}
		if h.inconclusive {
			out = append(out, "inconclusive")
			continue
		}
		if h.dead {
			out = append(out, "not-executed-after-hang")
			continue
		}
		res := make(chan string, 1)
		go func(h *history) { res <- hx.Safe(func() string { return h.op(f) }) }(h)
		var o string
		select {
		case o = <-res:
		case <-time.After(waitLimit + 2*time.Second):
			// the call itself never returned (the lock is held for ever): conclusive, and the end of this history
			out = append(out, "hang")
			h = &history{dead: true, rootClosed: true, period: h.period, t0: h.t0}
			continue
		}
		if h.dead {
			out = append(out, o)
			continue
		}
		if !h.inconclusive && o != "bad-op" && o != "bad-handle" {
			// white-box builds: the whole state of the tree after the call, compared with the model's state (read before
			// the window check below, so that a dump that may have been taken after the next tick does not count)
			var d string
			if hh := h; withDeadline(func() { d = hx.Safe(func() string { return dumpState(hh.handles) }) }) && d != "" {
				o += " # " + d
			}
		}
		if !h.inconclusive && !h.inWindow() {
			// this call (and everything after it) may have happened after the next tick
			h.inconclusive = true
		}
		if h.inconclusive {
			o = "inconclusive"
		}
		out = append(out, o)
	}
	return out
}

// ---------------------------------------------------------------------------------------------------- generator

type genLim struct {
	cap, depth int
	closed     bool
	parent     int
}

func (burstArea) Gen(r *hx.Rng, n int, tier string, emit func(string)) {
	lines := 0
	for lines < n {
		lines += genHistory(r.Fork(), emit)
	}
}

// genPressure: a tree with small caps, a burst that overfills it, then several ticks during which the queue drains
// front to back; children are closed while they have requests waiting.
func genPressure(r *hx.Rng, emit func(string)) int {
	cnt := 0
	out := func(s string) { emit(s); cnt++ }
	rootCap := r.Range(1, 8)
	out("reset " + strconv.Itoa(rootCap))
	caps := []int{rootCap}
	parent := []int{-1}
	depth := []int{0}
	for i, k := 0, r.Range(0, 4); i < k; i++ {
		p := r.Intn(len(caps))
		if depth[p] >= 3 {
			p = 0
		}
		c := hx.Pick(r, []int{caps[p] + r.Range(1, 4), caps[p], caps[p] - 1, (caps[p] + 1) / 2, r.Range(1, 9)})
		if c < 1 {
			c = 1
		}
		out(fmt.Sprintf("new %d %d", p, c))
		caps, parent, depth = append(caps, c), append(parent, p), append(depth, depth[p]+1)
	}
	closed := make([]bool, len(caps))
	use := func() {
		l := r.Intn(len(caps))
		if len(caps) > 1 && r.Chance(2, 3) {
			l = r.Range(1, len(caps)-1)
		}
		amt := hx.Pick(r, []int{1, 1, 2, 3, caps[l], caps[l], (caps[l] + 1) / 2, rootCap, r.Range(1, 8)})
		out(fmt.Sprintf("use %d %d", l, amt))
	}
	for i, k := 0, r.Range(3, 12); i < k; i++ {
		use()
	}
	for t, k := 0, r.Range(2, 6); t < k; t++ {
		if len(caps) > 1 && r.Chance(1, 4) {
			l := r.Range(1, len(caps)-1)
			if !closed[l] {
				out(fmt.Sprintf("close %d", l))
				closed[l] = true
			}
		}
		for i, m := 0, r.Intn(3); i < m; i++ {
			use()
		}
		if r.Chance(1, 6) {
			out(fmt.Sprintf("last %d", r.Intn(len(caps))))
		}
		out("tick")
	}
	if r.Chance(2, 3) {
		out("close 0")
		out(fmt.Sprintf("last %d", r.Intn(len(caps))))
	}
	return cnt
}

// genSetCap: a limiter is filled, a further request has to queue, then SetCap changes the cap of the limiter itself or of
// an ancestor (below the queued amount, exactly to it, or above) before the tick; afterwards the tree must still answer.
func genSetCap(r *hx.Rng, emit func(string)) int {
	cnt := 0
	out := func(s string) { emit(s); cnt++ }
	depth := r.Intn(3) // the target is the root, a child or a grandchild
	ct := r.Range(2, 9)
	caps := make([]int, depth+1)
	for i := range caps {
		caps[i] = ct + r.Intn(4) // the ancestors have at least the target's cap
	}
	caps[depth] = ct
	out("reset " + strconv.Itoa(caps[0]))
	for i := 1; i <= depth; i++ {
		out(fmt.Sprintf("new %d %d", i-1, caps[i]))
	}
	t := depth
	out(fmt.Sprintf("use %d %d", t, ct)) // fills the target for this period
	q := r.Range(1, ct)
	out(fmt.Sprintf("use %d %d", t, q)) // has to queue
	if r.Chance(1, 3) {
		out(fmt.Sprintf("use %d %d", r.Intn(depth+1), r.Range(1, 3)))
	}
	victim := t
	if depth > 0 && r.Chance(1, 2) {
		victim = r.Intn(depth) // an ancestor
	}
	nc := hx.Pick(r, []int{q - 1, q - 1, q - 1, 0, q, q + 1, ct + 5})
	if nc < 0 {
		nc = 0
	}
	out(fmt.Sprintf("setcap %d %d", victim, nc))
	if r.Chance(1, 3) {
		out(fmt.Sprintf("cap %d 1", t))
	}
	out("tick")
	out(fmt.Sprintf("use %d 1", t))
	out(fmt.Sprintf("use %d %d", r.Intn(depth+1), r.Range(0, 3)))
	if r.Chance(1, 2) {
		out(fmt.Sprintf("setcap %d %d", victim, hx.Pick(r, []int{ct, ct + 3, 1, q})))
	}
	if r.Chance(1, 2) {
		out(fmt.Sprintf("last %d", r.Intn(depth+1)))
	}
	out("tick")
	if r.Chance(1, 2) {
		out(fmt.Sprintf("use %d %d", t, r.Range(1, 4)))
		out("tick")
	}
	out("close 0")
	out(fmt.Sprintf("closed %d", t))
	return cnt
}

const maxInt = int(^uint(0) >> 1)
const minInt = -maxInt - 1

// genLimits: capacities and amounts at the limits of Go's int (MaxInt, MaxInt-1, MaxInt/2+1): usage within one period
// that sums past MaxInt must make the later request wait (the code compares `capacity - used`, which cannot overflow
// for 0 <= used <= capacity); the model computes in unbounded naturals.
func genLimits(r *hx.Rng, emit func(string)) int {
	cnt := 0
	out := func(s string) { emit(s); cnt++ }
	big := []int{maxInt, maxInt, maxInt - 1, maxInt/2 + 1, maxInt/2 + 2, maxInt / 2, maxInt - 10, maxInt/2 - 1}
	if r.Chance(1, 10) {
		big = []int{minInt, -maxInt, -1, minInt + 1}
	}
	caps := []int{hx.Pick(r, big)}
	parent := []int{-1}
	depth := []int{0}
	out("reset " + strconv.Itoa(caps[0]))
	for i, k := 0, r.Range(1, 4); i < k; i++ {
		p := r.Intn(len(caps))
		if depth[p] >= 2 {
			p = 0
		}
		c := hx.Pick(r, []int{maxInt, maxInt - 1, maxInt/2 + 1, caps[p], caps[p] - 1, 1000, 500, minInt, -1})
		out(fmt.Sprintf("new %d %d", p, c))
		caps, parent, depth = append(caps, c), append(parent, p), append(depth, depth[p]+1)
	}
	amount := func(l int) int {
		c := caps[l]
		if c < 0 { // no wrap-around in the generator itself
			return hx.Pick(r, []int{1, 0, 500, maxInt, minInt, -1})
		}
		a := hx.Pick(r, []int{c - 10, c - 10, c, c - 1, c/2 + 1, c / 2, maxInt - 10, maxInt/2 + 1, 500, 500, 1, 9, 10, 11, c - 500, maxInt, minInt, -maxInt})
		if a == 0 || (a < 0 && a > -maxInt) {
			a = 1
		}
		return a
	}
	for t, k := 0, r.Range(1, 4); t < k; t++ {
		for i, m := 0, r.Range(2, 7); i < m; i++ {
			l := r.Intn(len(caps))
			out(fmt.Sprintf("use %d %d", l, amount(l)))
		}
		if r.Chance(1, 5) {
			l := r.Intn(len(caps))
			nc := hx.Pick(r, []int{maxInt, maxInt - 1, maxInt/2 + 1, 500, minInt, -1, 0})
			out(fmt.Sprintf("setcap %d %d", l, nc))
			caps[l] = nc
		}
		if r.Chance(1, 4) {
			out(fmt.Sprintf("cap %d 1", r.Intn(len(caps))))
		}
		out("tick")
		if r.Chance(1, 3) {
			out(fmt.Sprintf("last %d", r.Intn(len(caps))))
		}
	}
	if r.Chance(1, 2) {
		out("close 0")
	}
	return cnt
}

// genWide: a root with 12 ... 70 children (the sizes around 16/17, 32/33, 64/65); children are closed at the first,
// last and middle position of the parent's list (swap-remove) and in the only-child case; every tick prints LastUsed of
// all limiters, so a child that is no longer reached by reset shows.
func genWide(r *hx.Rng, emit func(string)) int {
	cnt := 0
	out := func(s string) { emit(s); cnt++ }
	w := hx.Pick(r, []int{1, 2, 12, 16, 17, 32, 33, 64, 65, 70})
	rootCap := hx.Pick(r, []int{w / 2, w, w + 3, 2 * w, 5})
	out("reset " + strconv.Itoa(rootCap))
	for i := 0; i < w; i++ {
		out(fmt.Sprintf("new 0 %d", hx.Pick(r, []int{1, 1, 2, 3, 0, rootCap})))
	}
	grand := 0
	if r.Chance(1, 2) { // some grandchildren under the first / last child
		for i, k := 0, r.Range(1, 3); i < k; i++ {
			out(fmt.Sprintf("new %d %d", hx.Pick(r, []int{1, w, (w + 1) / 2}), r.Range(1, 3)))
			grand++
		}
	}
	n := 1 + w + grand
	burst := func(k int) {
		for i := 0; i < k; i++ {
			out(fmt.Sprintf("use %d %d", r.Range(1, n-1), hx.Pick(r, []int{1, 1, 1, 2})))
		}
	}
	burst(r.Range(w/2, w+4))
	for t, k := 0, r.Range(2, 4); t < k; t++ {
		for i, m := 0, r.Intn(4); i < m; i++ {
			out(fmt.Sprintf("close %d", hx.Pick(r, []int{1, w, (w + 1) / 2, r.Range(1, n-1), r.Range(1, n-1)})))
		}
		out("tick")
		burst(r.Intn(w/2 + 2))
		if r.Chance(1, 3) {
			out(fmt.Sprintf("new 0 %d", r.Range(1, 2)))
			n++
		}
	}
	out("tick")
	out("tick") // idle periods
	out("tick")
	if r.Chance(1, 2) {
		out("close 0")
	}
	return cnt
}

// genDeep: a chain of depth 4-6 with side branches and caps above and below the parents; requests queue on leaves
// and inner limiters; an inner (non-root, non-leaf) limiter is closed while requests wait below it; siblings are used
// afterwards; New on the closed limiter, Close twice; several fully idle periods at the end (LastUsed of every level
// is printed by each tick).
func genDeep(r *hx.Rng, emit func(string)) int {
	cnt := 0
	out := func(s string) { emit(s); cnt++ }
	d := r.Range(4, 6)
	rootCap := r.Range(3, 12)
	out("reset " + strconv.Itoa(rootCap))
	caps := []int{rootCap}
	parent := []int{-1}
	add := func(p, c int) int {
		if c < 0 {
			c = 0
		}
		out(fmt.Sprintf("new %d %d", p, c))
		caps, parent = append(caps, c), append(parent, p)
		return len(caps) - 1
	}
	chain := []int{0}
	for i := 1; i <= d; i++ {
		p := chain[len(chain)-1]
		chain = append(chain, add(p, hx.Pick(r, []int{caps[p], caps[p] + 2, caps[p] - 1, (caps[p] + 1) / 2, r.Range(1, 9)})))
	}
	for i, k := 0, r.Range(1, 4); i < k; i++ { // side branches
		p := chain[r.Intn(len(chain)-1)]
		add(p, r.Range(1, 8))
	}
	n := len(caps)
	use := func(l int) {
		c := caps[l]
		if c < 1 {
			c = 1
		}
		out(fmt.Sprintf("use %d %d", l, hx.Pick(r, []int{1, 2, c, (c + 1) / 2, r.Range(1, c)})))
	}
	for i, k := 0, r.Range(4, 12); i < k; i++ {
		if r.Chance(2, 3) {
			use(chain[r.Range(2, d)]) // deep down
		} else {
			use(r.Intn(n))
		}
	}
	mid := chain[r.Range(1, d-1)] // neither the root nor the leaf of the chain
	closedMid := false
	for t, k := 0, r.Range(3, 5); t < k; t++ {
		if !closedMid && r.Chance(1, 2) {
			out(fmt.Sprintf("close %d", mid))
			closedMid = true
			use(chain[d])                     // below the closed limiter: refused
			use(parent[mid])                  // above it: still alive
			use(r.Intn(n))                    // anywhere
			out(fmt.Sprintf("new %d 3", mid)) // New on a closed limiter
			if r.Chance(1, 2) {
				out(fmt.Sprintf("close %d", mid)) // twice
			}
			if r.Chance(1, 2) {
				out(fmt.Sprintf("close %d", chain[d])) // a descendant of the closed limiter
			}
			out(fmt.Sprintf("closed %d", chain[d]))
		}
		out("tick")
		for i, m := 0, r.Intn(4); i < m; i++ {
			use(r.Intn(n)) // in the new period, after the queue has been served
		}
	}
	for i, k := 0, r.Range(1, 3); i < k; i++ {
		out("tick") // idle
	}
	out(fmt.Sprintf("last %d", chain[d]))
	if r.Chance(1, 2) {
		out("close 0")
		out("close 0")
		out(fmt.Sprintf("new 0 1"))
	}
	return cnt
}

// genQueue: 100-300 requests of mixed sizes wait and are served front to back over many ticks; the queue drains to
// empty, stays idle, and is filled again.
func genQueue(r *hx.Rng, emit func(string)) int {
	cnt := 0
	out := func(s string) { emit(s); cnt++ }
	rootCap := r.Range(8, 20)
	out("reset " + strconv.Itoa(rootCap))
	n := 1
	if r.Chance(1, 2) {
		out(fmt.Sprintf("new 0 %d", hx.Pick(r, []int{rootCap + 5, rootCap, rootCap / 2})))
		n++
		if r.Chance(1, 2) {
			out(fmt.Sprintf("new 1 %d", r.Range(2, rootCap)))
			n++
		}
	}
	total := 0
	fill := func(k int) {
		for i := 0; i < k; i++ {
			a := hx.Pick(r, []int{1, 1, 1, 2, 2, 3})
			total += a
			out(fmt.Sprintf("use %d %d", r.Intn(n), a))
		}
	}
	fill(hx.Pick(r, []int{100, 128, 129, 200, 256, 300}))
	ticks := total/(rootCap/2+1) + 2
	if ticks > 25 {
		ticks = 25
	}
	for t := 0; t < ticks; t++ {
		out("tick")
	}
	out("tick") // idle
	fill(r.Range(10, 30))
	out("tick")
	out("tick")
	out("close 0")
	return cnt
}

// genExact: amounts that are exactly what is left (the generator tracks the binding limiter itself), one more waits;
// SetCap to exactly the used amount, one below, one above, and two-digit values right before the next call.
func genExact(r *hx.Rng, emit func(string)) int {
	cnt := 0
	out := func(s string) { emit(s); cnt++ }
	c := hx.Pick(r, []int{1, 2, 9, 10, 11, 99, 100, 101, 255, 256, 1000})
	out("reset " + strconv.Itoa(c))
	t := 0
	if r.Chance(1, 2) { // the child's cap is above: the root binds
		out(fmt.Sprintf("new 0 %d", c+r.Range(0, 5)))
		t = 1
	}
	for p, k := 0, r.Range(2, 4); p < k; p++ {
		a := r.Range(0, c)
		if a > 0 {
			out(fmt.Sprintf("use %d %d", t, a))
		}
		if c-a > 0 {
			out(fmt.Sprintf("use %d %d", r.Intn(t+1), c-a)) // exactly what is left
		}
		out(fmt.Sprintf("use %d 1", t)) // nothing left: waits
		switch r.Intn(4) {
		case 0:
			out(fmt.Sprintf("setcap 0 %d", c)) // exactly the used amount
		case 1:
			out(fmt.Sprintf("setcap 0 %d", c+1))
			out(fmt.Sprintf("use %d 1", t)) // immediately after the change
			c++
		case 2:
			if c > 1 {
				out(fmt.Sprintf("setcap 0 %d", c-1))
				c--
			}
		}
		out(fmt.Sprintf("cap %d 1", t))
		out("tick")
	}
	out("tick")
	out(fmt.Sprintf("last %d", t))
	return cnt
}

// genWindow: calls made inside the Close-vs-tick window (see history.window): root Close, child Close, Use, SetCap and
// New racing the tick that the ticker goroutine has already received.
func genWindow(r *hx.Rng, emit func(string)) int {
	cnt := 0
	out := func(s string) { emit(s); cnt++ }
	rootCap := r.Range(1, 8)
	out("reset " + strconv.Itoa(rootCap))
	caps := []int{rootCap}
	for i, k := 0, r.Range(0, 3); i < k; i++ {
		p := r.Intn(len(caps))
		if p > 1 {
			p = 0
		}
		c := hx.Pick(r, []int{caps[p] + 2, caps[p], (caps[p] + 1) / 2, r.Range(1, 6)})
		out(fmt.Sprintf("new %d %d", p, c))
		caps = append(caps, c)
	}
	n := len(caps)
	for i, k := 0, r.Range(1, 6); i < k; i++ { // fill, so that requests are waiting when the window opens
		l := r.Intn(n)
		out(fmt.Sprintf("use %d %d", l, hx.Pick(r, []int{1, 2, caps[l], (caps[l] + 1) / 2, rootCap})))
	}
	windows := r.Range(1, 3)
	for w := 0; w < windows; w++ {
		var ops []string
		useDone, newDone, rootDone := false, false, false
		for i, k := 0, r.Range(1, 3); i < k; i++ {
			l := r.Intn(n)
			switch x := r.Intn(10); {
			case x < 3 && !rootDone:
				ops = append(ops, "close 0")
				rootDone = true
			case x < 5 && n > 1:
				ops = append(ops, fmt.Sprintf("close %d", r.Range(1, n-1)))
			case x < 7 && !useDone:
				ops = append(ops, fmt.Sprintf("use %d %d", l, hx.Pick(r, []int{1, 2, caps[l], rootCap, 0})))
				useDone = true
			case x < 9:
				ops = append(ops, fmt.Sprintf("setcap %d %d", l, hx.Pick(r, []int{0, 1, caps[l] - 1, caps[l] + 2, r.Range(0, 8)})))
			case !newDone:
				ops = append(ops, fmt.Sprintf("new %d %d", l, r.Range(1, 5)))
				newDone = true
			}
		}
		if len(ops) == 0 {
			ops = []string{"close 0"}
			rootDone = true
		}
		for i, o := range ops { // no negative caps in the script
			ops[i] = strings.ReplaceAll(o, " -1", " 0")
		}
		out("window " + hx.Pick(r, []string{"early", "early", "late"}) + " " + strings.Join(ops, " ; "))
		if rootDone {
			out(fmt.Sprintf("use %d 1", r.Intn(n)))
			out("tick")
			return cnt
		}
		for i, k := 0, r.Intn(3); i < k; i++ {
			l := r.Intn(n)
			out(fmt.Sprintf("use %d %d", l, hx.Pick(r, []int{1, caps[l], rootCap})))
		}
		if r.Chance(1, 2) {
			out("tick")
		}
	}
	if r.Chance(1, 2) {
		out("close 0")
	}
	return cnt
}

// genRW: read-lock windows (see history.rwin): the read-only calls overlap with a reader that is already inside, one
// writing call (Use that is granted / has to wait / is refused, SetCap, New, child Close) is kept out until the readers
// have left; ticks in between so that LastUsed has something to report.
func genRW(r *hx.Rng, emit func(string)) int {
	cnt := 0
	out := func(s string) { emit(s); cnt++ }
	rootCap := r.Range(1, 9)
	out("reset " + strconv.Itoa(rootCap))
	caps := []int{rootCap}
	for i, k := 0, r.Range(0, 3); i < k; i++ {
		p := r.Intn(len(caps))
		c := hx.Pick(r, []int{caps[p] + 2, caps[p], (caps[p] + 1) / 2, r.Range(0, 6)})
		out(fmt.Sprintf("new %d %d", p, c))
		caps = append(caps, c)
	}
	closed := make([]bool, 8)
	for w, k := 0, r.Range(2, 5); w < k; w++ {
		n := len(caps)
		for i, m := 0, r.Intn(3); i < m; i++ {
			l := r.Intn(n)
			out(fmt.Sprintf("use %d %d", l, hx.Pick(r, []int{1, 2, caps[l], rootCap})))
		}
		var reads []string
		for i, m := 0, r.Range(1, 3); i < m; i++ {
			l := r.Intn(n)
			reads = append(reads, hx.Pick(r, []string{fmt.Sprintf("cap %d 1", l), fmt.Sprintf("cap %d 0", l), fmt.Sprintf("last %d", l),
				fmt.Sprintf("closed %d", l)}))
		}
		l := r.Intn(n)
		var wr string
		switch x := r.Intn(10); {
		case x < 5:
			wr = fmt.Sprintf("use %d %d", l, hx.Pick(r, []int{1, 2, caps[l], caps[l] + 1, rootCap, 0}))
		case x < 7:
			nc := hx.Pick(r, []int{0, 1, caps[l] + 1, r.Range(0, 8), -1})
			wr = fmt.Sprintf("setcap %d %d", l, nc)
			caps[l] = nc
		case x < 8 && n < 7:
			c := r.Range(1, 5)
			wr = fmt.Sprintf("new %d %d", l, c)
			if !closed[l] {
				caps = append(caps, c)
			}
		case n > 1:
			l = r.Range(1, n-1)
			wr = fmt.Sprintf("close %d", l)
			closed[l] = true
		default:
			wr = fmt.Sprintf("use %d 1", l)
		}
		out("rwin " + strings.Join(reads, " ; ") + " | " + wr)
		if r.Chance(1, 2) {
			out("tick")
		}
	}
	if r.Chance(1, 2) {
		out("close 0")
	}
	return cnt
}

func genHistory(r *hx.Rng, emit func(string)) int {
	if r.Chance(1, 7) {
		return genWindow(r, emit)
	}
	if r.Chance(1, 12) {
		return genRW(r, emit)
	}
	switch x := r.Intn(120); {
	case x < 2:
		return genQueue(r, emit)
	case x < 10:
		return genWide(r, emit)
	case x < 26:
		return genDeep(r, emit)
	case x < 34:
		return genExact(r, emit)
	}
	if r.Chance(1, 8) {
		return genLimits(r, emit)
	}
	if r.Chance(1, 6) {
		return genSetCap(r, emit)
	}
	if r.Chance(2, 5) {
		return genPressure(r, emit)
	}
	cnt := 0
	out := func(s string) { emit(s); cnt++ }
	rootCap := hx.Pick(r, []int{0, 1, 2, 3, 4, 5, 6, 8, 10, 12})
	out("reset " + strconv.Itoa(rootCap))
	lims := []genLim{{cap: rootCap, parent: -1}}
	rootClosed := false
	isClosed := func(i int) bool {
		for j := i; j >= 0; j = lims[j].parent {
			if lims[j].closed {
				return true
			}
		}
		return rootClosed
	}
	newChild := func() {
		p := r.Intn(len(lims))
		if lims[p].depth >= 3 {
			p = 0
		}
		pc := lims[p].cap
		c := hx.Pick(r, []int{0, 1, pc - 1, pc, pc + 1, 2 * pc, pc / 2, r.Range(1, 12), r.Range(1, 6)})
		if c < 0 && !r.Chance(1, 3) {
			c = 0
		}
		if r.Chance(1, 60) {
			c = hx.Pick(r, []int{-1, minInt, -maxInt, maxInt, 1 << 32, 100, 1000})
		}
		out(fmt.Sprintf("new %d %d", p, c))
		if !isClosed(p) {
			lims = append(lims, genLim{cap: c, depth: lims[p].depth + 1, parent: p})
		}
	}
	for i, k := 0, r.Intn(5); i < k; i++ {
		newChild()
	}
	useSetCap := r.Chance(1, 12)
	periods := r.Range(1, 4)
	for p := 0; p < periods; p++ {
		for i, k := 0, r.Intn(8); i < k; i++ {
			l := r.Intn(len(lims))
			c := lims[l].cap
			switch x := r.Intn(40); {
			case x < 26:
				amt := hx.Pick(r, []int{0, 1, 1, 2, c, c, c + 1, c - 1, c / 2, (c + 1) / 2, -1, -7, r.Range(1, 4), r.Range(1, 13), rootCap, rootCap - 1,
					hx.Pick(r, []int{minInt, -maxInt, maxInt, maxInt - 1, maxInt/2 + 1, 1 << 31, 1<<32 + 1, 1000000001, 99})})
				out(fmt.Sprintf("use %d %d", l, amt))
			case x < 29:
				newChild()
			case x < 32:
				out(fmt.Sprintf("close %d", l))
				if l == 0 {
					rootClosed = true
				} else {
					lims[l].closed = true
				}
			case x < 33:
				out(fmt.Sprintf("cap %d %d", l, r.Intn(2)))
			case x < 34:
				out(fmt.Sprintf("chancap %d", l))
			case x < 36:
				out(fmt.Sprintf("last %d", l))
			case x < 38:
				out(fmt.Sprintf("closed %d", l))
			default:
				if useSetCap {
					nc := hx.Pick(r, []int{0, 1, c - 1, c + 1, r.Range(0, 12), 10, 11, 99, 100, -1, minInt, maxInt})
					out(fmt.Sprintf("setcap %d %d", l, nc))
					lims[l].cap = nc
				} else {
					out(fmt.Sprintf("use %d %d", l, hx.Pick(r, []int{1, c, c + 1})))
				}
			}
		}
		out("tick")
		if rootClosed {
			break
		}
	}
	if !rootClosed && r.Chance(1, 2) {
		out("close 0")
		rootClosed = true
	}
	if rootClosed {
		for i, k := 0, r.Intn(4); i < k; i++ {
			l := r.Intn(len(lims))
			switch r.Intn(7) {
			case 5:
				out(fmt.Sprintf("setcap %d %d", l, r.Range(0, 12))) // SetCap / Cap on a closed limiter
				out(fmt.Sprintf("cap %d %d", l, r.Intn(2)))
			case 6:
				out(fmt.Sprintf("cap %d %d", l, r.Intn(2)))
			case 0:
				out(fmt.Sprintf("use %d %d", l, hx.Pick(r, []int{0, 1, -1, lims[l].cap + 1})))
			case 1:
				out(fmt.Sprintf("new %d 3", l))
			case 2:
				out(fmt.Sprintf("closed %d", l))
			case 3:
				out(fmt.Sprintf("close %d", l))
			default:
				out(fmt.Sprintf("last %d", l))
			}
		}
	}
	return cnt
}
