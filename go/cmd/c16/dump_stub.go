//go:build nooverlay || nodump

package main

import "github.com/richardwilkes/toolbox/rate"

// The state dump names private fields of rate/limiter.go (used, last, capacity, closed, waiting); when it no longer
// compiles against the working tree the harness is built without it (tag nodump) and only what the exported API returns
// is compared.
func dumpState([]rate.Limiter) string { return "" }
