#!/bin/bash
# tools/take_seed8.sh <round dir, e.g. /tmp/mut6> <Cxx>
# Round-8 format: out-Cxx/a and out-Cxx/b = regressions (stored as seeded/ind8-cxx-{a,b}), out-Cxx/c = behaviour-preserving
# control (stored as seeded/control-ind8-cxx). Confirms each independently, runs the property's check on it.
round=$1; id=$2
lid=$(echo "$id" | tr 'C' 'c')
cd /verif || exit 1
for x in a b c; do
  d="$round/out-$id/$x"
  [ -f "$d/patch.diff" ] || { echo "$id/$x: no patch"; continue; }
  python3 - "$d/meta.json" "$round/wt-$id" <<'PY'
import json,sys
p,wt=sys.argv[1],sys.argv[2]
m=json.load(open(p))
c=m.get('demo_cmd','').split('   (')[0]
c=c.replace('cd '+wt+' && ','').replace(wt+'/','')
m['demo_cmd']=c
d=m.get('demo_dir','.')
m['demo_dir']=d.replace(wt+'/','').replace(wt,'.')
json.dump(m,open(p,'w'),indent=1)
PY
done
for x in a b; do
  if [ -f "$round/out-$id/$x/patch.diff" ]; then
    python3 tools/confirm_seed.py "$round/out-$id/$x" "ind8-$lid-$x" 2>&1 | head -2
    if [ -d "seeded/ind8-$lid-$x" ]; then
      echo "== ind8-$lid-$x vs check $id"
      tools/mut.sh "seeded/ind8-$lid-$x/patch.diff" "$id" 2>&1 | grep -E "^VIOLATION|^# |tier=" | head -4 | cut -c1-220
    fi
  fi
done
if [ -f "$round/out-$id/c/patch.diff" ]; then
  python3 tools/take_control.py "$round/out-$id/c" "control-ind8-$lid" "$id" 2>&1 | head -10
fi
git -C /repo worktree remove --force "$round/wt-$id" 2>/dev/null
