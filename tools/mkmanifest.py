#!/usr/bin/env python3
"""Regenerates /verif/MANIFEST.json from the table below (one entry per claimed property)."""
import json

TECH = "Lean 4 proof over a hand-written executable model + differential correspondence against the Go code"
NOTE_COMMON = ("trusted: Lean 4.33 kernel (axioms propext/Classical.choice/Quot.sound only, audited per theorem on every run); "
               "the hand-written model, tied to /repo's working tree by running model and implementation on the same "
               "generated + corpus operations on every run; the Go toolchain; the harness. ")

P = {
 "C01": dict(
  text="89 Lean theorems about the executable models of every arithmetic, ordering and bit method of num.Uint128 and num.Int128 "
       "(hi/lo words as BitVec 64, math/bits by its contracts, the six division entry points and three kernels transcribed "
       "separately, dispatch threshold from the regenerated Facts): add/sub/inc/dec/mul and their 64-bit forms = the operation "
       "mod 2^128, all comparison predicates = the order on toNat/toInt, and/or/xor/not/andNot on BitVec 128, shifts for every "
       "count, bit queries incl. onesCount_spec, division by zero panics and nothing else does, divMod_spec unconditionally "
       "(both Knuth kernels proved: divmod128by64 through the correction-loop invariant, divmod128by128 through the estimate "
       "lemma q <= qhat <= q+1; the binary kernel; the dispatch), q*n+r = u, signed layer (neg/abs/Min fixed points, tdiv/tmod "
       "incl. Div64). SECOND TIE (translator): on every run go/packages+SSA (gossa/ssagen) regenerates Lean definitions of the 80 "
       "loop-free functions of xmath/num from the working tree (lean/Generated/SSA_Num.lean) and Props/C01Gen.lean proves each "
       "regenerated definition equal to the verified hand-written model (94 theorems incl. transported specs), so the spec "
       "theorems are re-checked against what the code says now; a changed function breaks its equality proof by name. ~200k "
       "lines per quick run; a second pass histograms dispatch path x correction counts and fails if a path stops being reached.",
  note="math/bits contracts (Add64, Sub64, Mul64, Len64, LeadingZeros64, TrailingZeros64, OnesCount64) are trusted as documented; "
       "the SSA translator (gossa, ~1000 lines of Go over golang.org/x/tools/go/ssa) is trusted to render loop-free integer "
       "SSA faithfully (it fails safe: an untranslatable or changed function breaks a proof); the division entry points and "
       "kernels (panics, loops) are outside the translated fragment and tied by the differential run only; a harmless rewrite "
       "that re-routes a math/bits call can break an equality proof and is then reported without a failing input; the "
       "float/big.Int/string conversions belong to C02.",
  ref="DESIGN.md section 5 C01"),
 "C11": dict(
  text="33 Lean theorems about the heap model of errs.Error (nodes with message/cause/next, Append transcribed with its cursor, "
       "node-by-node copy and write log; Wrap/WrapTyped/Unwrap/NewWithCause/ErrorOrNil) and of its rendering (Model/ErrsFmt.lean: "
       "%s, %q, Detail, the Caused-by structure of %v/%+v, the recorded stack as an abstract token = creating function + capture "
       "serial): append_items, append_nil_iff, append_written / append_frame / append_args_unchanged (NO argument is mutated - "
       "every argument, since fix f2f6175), append_chain, count_eq, wrapped_errors_eq, wrap_reaches_cause, reachable_wf incl. "
       "WrappedErrors elements, append_items_alias (content law under any aliasing), message_of_items / append_message, "
       "stacks_never_change, append_stacks / append_stacks_fresh (the stacks along an Append result are the accumulator's, then "
       "copies keeping their source's stack, then wrappers captured by this call). Histories over named variables print every "
       "variable after every call, so mutation of arguments and pointer identity are compared; on every render line the real "
       "%v/%+v with each block of frame lines replaced by creator.serial must equal the model's text.",
  note="wrap_nil / wrapTyped_nil / wrap_idempotent / error_or_nil / capture_records_creator / copy_keeps_stack / "
       "caused_by_structure are unfoldings of the transcription (tied to the code by the correspondence run); implementation-"
       "only (oracle): frames below the creating function, file:line text, errors.Is/As, Unwrap() []error, Recovery, slog; heaps "
       "after CloneWithPrefixMessage of an aggregate are outside the WF invariant (shared tails; correspondence only); each "
       "Append argument is read as the value it has when consumed (Append(a,b,a) has four items - reading, Appendix B).",
  ref="DESIGN.md section 5 C11, section 0"),
 "C02": dict(
  text="37 Lean theorems about executable models of the Uint128/Int128 conversion surface and of IEEE binary64 (GoSem/F64.lean, "
       "floats as data, rounding by exact integer arithmetic): String/parse and unmarshal round trips, Scan (text printed with %d %b %o %O %x %X - any sign form, any zero padding, every "
       "value of both types, lower and upper case, hexadecimal digit e included - reads back with the same verb; other verbs = "
       "FromString), both Int64() accessors, fromString_rejects (the "
       "text is accepted iff it is an integer literal of the declarative grammar, plain and exponent forms, value stated over Q), "
       "FromBigInt exact-or-saturates and AsBigInt identities, the five narrowing predicates iff the As* conversion preserves "
       "the value, FromFloat64 = truncation in range / nearest bound outside / NaN to 0 with no implementation-defined "
       "conversion ever evaluated, AsFloat64: sign and zero-ness for all 2^128 values of both types, exact below 2^53, and "
       "within one unit in the last place (both of the result's and of the exact value's binade; tight, relies on ties-to-even). "
       "~500k lines per quick run incl. f64op lines validating the float model against the hardware.",
  note="Scan and Unmarshal*: what the methods do with a token/text (scanText, FromString, receiver kept on error) is modelled "
       "and proved and compared per line (areas scan, conv); fmt's tokenisation, widths and flags, Format (delegated to "
       "big.Int.Format), encoding/json and yaml.v3 dispatch, ToBigInt onto a used destination and AsBigFloat are an "
       "implementation-side identity oracle against math/big (no theorem); the 32-bit big.Word branches are not modelled "
       "separately but are run against the same model and oracle on a GOARCH=386 build; math/big and strconv grammars transcribed from go1.24.2 (incl. math/big's exponent limits: an "
       "exponent literal beyond them is rejected rather than saturated - reading, Appendix B).",
  ref="DESIGN.md section 5 C02"),
 "C09": dict(
  text="53 Lean theorems about the executable byte-level model of eval's parser and evaluator (nextOperator with the e- hack "
       "for signed exponents e-/e+/E-/E+ restricted to numeric literals, two-stack reduction with the evaluator state explicit between calls, function capture "
       "by parenthesis counting, NextArg, replaceVariables, TrimSpace) and of the FIXED-POINT evaluator's values "
       "(Model/EvalFixed.lean: FixedFrom for every operand kind through C04's literal parser, the operators || && == != < <= > "
       ">= + - * / % with their string fall-backs and the configured division by zero, signs, abs ceil floor round max min if, "
       "all arithmetic being C03's F64 operations): precedence_table on the regenerated operator tables, parse_render and "
       "evaluate_render for the full expression language in every blank layout, fixed_value_render (Evaluate of a rendered "
       "well-formed expression = value of its tree, for D1..D16, both division-by-zero settings, every layout) and "
       "fixed_value_render_vars (the same with variables answered by literals, at top level and inside call arguments), "
       "fixed_evaluate_no_panic (every byte list, every Dk), "
       "fixed_operators_are_f64 / fixed_operators_exact (composition with C03's exactness theorems), div_by_zero_configured, "
       "sign_on_literal / sign_applies_to_operand_value, whitespace_irrelevant, reuse_eq_fresh for EVERY old evaluator state "
       "with reuse_after_any_history and the contrast reset_is_needed, parse_no_panic and evaluate_no_panic / evaluate_total "
       "for every byte string and every resolver whose answers contain no '$' (explicit step budget). Ties: stateful structural "
       "differential against a real Evaluator with symbolic functions; fxval stream (the model COMPUTES the result text of "
       "whole expressions for several configurations, compared directly with the code); tree-walk value oracle over ten real "
       "evaluators (leaf literals converted independently); whitespace/precedence oracle.",
  note="opaque in the model (values taken from the implementation, tied by the val stream's independent reference): exponent "
       "literals inside the fixed evaluator, ^, sqrt cbrt exp exp2 log log10 log1p, and the float evaluators altogether; "
       "resolver hypothesis: answers contain no '$' (replaceVariables re-scans its own output, so a self-referential resolver "
       "never returns - outside 'resolvers mapping variables to literals', Appendix B); after a REJECTED expression the model "
       "continues from a fixed placeholder state rather than the true leftover stacks (the theorem covers every old state, the "
       "driver threads the true state only after successful evaluations); a variable answered by a NEGATIVE literal inside call "
       "arguments is outside evaluate_render (it is re-parsed there as a sign on the literal; covered at top level and "
       "empirically); wrong-arity calls are outside 'well-formed'.",
  ref="DESIGN.md section 5 C09, section 0"),
 "C13": dict(
  text="34 Lean theorems. tracelog: the bytes of a record proved equal to a declarative line specification (format_spec, "
       "format_flat, stack_lines_follow), derivation isolation (WithAttrs/WithGroup never affect the parent; the append-in-place "
       "variant is refuted); SYNCHRONOUS mode proved linearizable under every schedule by instantiating the generic mutex "
       "machine (sync_records_never_interleave, sync_preserves_goroutine_order, sync_returns_sink_error; without the lock "
       "\"ab\" and \"cd\" reach the sink as \"acbd\"); BUFFERED mode proved on a small-step protocol (N producers, one delivery "
       "goroutine, channel of capacity BufferDepth, any scheduler): buffered_never_blocks (a Handle call is two of its own "
       "steps, always enabled), buffered_no_tear_no_dup, buffered_drop_only_when_full, per-producer FIFO, "
       "buffered_payload_stable (buffer.Bytes() as a reference read at Write time: a fresh buffer per call is what makes the "
       "queued line immutable; a reused buffer is refuted). multilog: fan-out to exactly the enabled children once, "
       "fanout_survives_panics in a propagating-panic semantics (a recover frame around the whole loop is refuted), "
       "handle_nil_iff_heap (the returned value is nil exactly when every delivery returned no error - proved on the errs heap, "
       "typed nils and aggregates included), children's error values never modified (handle_keeps_child_errors). Ties: log "
       "histories over derivation trees with scripted children returning errors of 26 dynamic kinds; sched scripts (forced "
       "schedules with a controllable sink: the real outcome must be in the set the model computes); a -race stress oracle.",
  note="that the code IS these protocols is DECIDED on every run about event tables regenerated from the typed SSA form of the "
       "working tree (gossa/lockfacts -> Generated/Lock_tracelog.lean -> Props/C13Lock.lean: a caller's goroutine writes the sink "
       "only where no delivery channel exists and then under the mutex on all paths; on the buffered path it does one "
       "non-blocking send holding nothing; one go statement; no handler field is written after construction), the extractor "
       "being trusted; isolation, no-tear and fan-out-continues hold by the shape of the "
       "transcribed code, with contrast variants showing each failure is expressible; stack-trace lines follow only when no "
       "WithGroup is in force (reading, Appendix B); 'one line' holds unless the message, keys, group names or non-string "
       "values contain a line feed, which the code writes raw (reading, Appendix B); a sink panic in the buffered delivery "
       "goroutine is unrecovered (the process dies; modelled as a dead consumer); leaf renderings (%q, RFC3339, Value.String) "
       "and stack text are tokens taken from stdlib/errs.",
  ref="DESIGN.md section 5 C13, section 0"),
 "C14": dict(
  text="34 Lean theorems over a syscall-level action model of safe.WriteFile/safe.File including CreateWithMode's name check "
       "(filepath.Clean/Dir transcribed), CreateTemp's naming and O_EXCL retry loop (random numbers as a parameter stream, at "
       "most 1000 attempts, ErrExist with the directory unchanged), bufio's sticky error, three callback behaviours, callback "
       "error or panic, a fault on any write/flush/close/rename and a failing unlink of the cleanup, for every initial "
       "directory, umask, mode, buffer size, piece list, fault and kill point: dest_old_or_new_at_every_prefix, "
       "rename_after_all_bytes, failure_clean, commit_result, close_commit_idempotent, history_dest_old_or_new for arbitrary "
       "File API histories, create_touches_no_existing_entry, create_gives_up_after_1000, full_dest_old_or_new, "
       "full_failure_leaves_only_the_temp, full_commit_result, and for the complete File API full_history_dest_old_or_new / "
       "full_history_failure_leaves_only_the_temp / full_history_commit_result with a failing unlink, unlink_error_reporting, "
       "no_clash_unless_lookalike. Tied by in-process differential streams (api, wf, paths, dest, and collide: REAL name "
       "collisions with crypto/rand.Reader pinned - 0..1000 existing candidate names skipped untouched, ErrExist after 1000, the "
       "excluded safe<n> self-collision reproduced) and an exhaustive strace enumeration (syscall sequences, injected errno on every "
       "write/close/rename/unlink, EEXIST on the first 1, 2, 999, 1000 temp opens, SIGKILL on entry to every syscall incl. the "
       "cleanup and panic-unwind paths); the buffer size is measured from behaviour.",
  note="assumed: POSIX rename atomicity, page-cache survival after SIGKILL, kernel umask arithmetic, no short writes; excluded "
       "by hypothesis and shown by example: an absent destination whose name is itself a candidate safe<digits> hit by the "
       "random draw (2^-63 per attempt); with a failing unlink the temporary file necessarily remains and Commit/WriteFile "
       "return the earlier error (a double fault the code cannot avoid; transcribed); two faults in one failure path are "
       "checked by a harness-judged strace oracle only; directory, symlink and dangling destinations are encoded by the driver "
       "as flag bits and environment rules: exercised against the code but outside every theorem; if strace is unavailable "
       "the trace stream is skipped and the evidence says so.",
  ref="DESIGN.md section 5 C14, section 0"),
 "C16": dict(
  text="38 Lean theorems about a protocol model in which controller.lock is part of the state (RL.Step: separate lock / body / "
       "unlock steps for the ticker goroutine and for root Close - lock, mark, unlock, send on the unbuffered done - and lock + "
       "body-and-unlock steps for every other call), over all trees, request streams and interleavings: cap bounds with SetCap "
       "anywhere (granted in period p <= the largest cap in force during p, for the limiter and each ancestor; without SetCap so "
       "far <= cap), Go-int exactness up to MaxInt, lastUsed_spec, exactly-once answers, nil only with a logged grant, never a "
       "grant on a closed limiter, immediate errors incl. an amount above ANY cap of the chain "
       "(use_above_chain_cap_fails_at_once), a queued request fails at the next tick after SetCap on its limiter or an ancestor, "
       "FIFO service with every tick answering the head of the queue, every_request_answered (on runs on which ticks keep "
       "being served every waiting request gets exactly one answer), Close marks the subtree and fails pending requests, "
       "lock_discipline (mutual exclusion; the goroutine blocked on done does not hold the lock), close_returns (no reachable "
       "state is deadlocked; any holder can release the lock), ticker_never_blocked, api_call_returns, termination of Close under "
       "scheduler-only fairness (holders run, mutex fair to the ticker, select fair) with a witness run (fair_run_exists), and the "
       "CONTRAST unrepaired_close_deadlocks: in RL.StepU (send while holding the lock, the code before its fix) a deadlock is "
       "reachable. Tie: lock-step bursts through the fused scheduler RL.exec (proved to take only steps of the relation); "
       "forced schedules of the Close-vs-tick window (the model giving the set of outcomes of all interleavings); a model-free "
       "stress oracle in child processes, also under -race.",
  note="that every access of the Go code to the waiting list and to a limiter's children/capacity/used/last/closed - callers and "
       "ticker goroutine, through every helper - happens under the one controller lock on ALL paths, that the lock is never "
       "re-acquired and that the blocking send/receive on done happen with the lock free is DECIDED on every run about tables "
       "regenerated from the typed SSA form of the working tree (gossa/lockfacts -> Generated/Lock_rate.lean -> "
       "Props/C16Lock.lean), the extractor being trusted; Go scheduler/select/mutex fairness only as hypotheses about the scheduler; timing-ambiguous bursts are discarded as "
       "inconclusive, never failed; answered/glog/capMax are history fields written by the model in the same step as the action "
       "they record (that the code's critical sections do the same is the transcription, checked by the tie); answer channels "
       "are not modelled as channels; read locks are treated as exclusive; LastUsed is specified for limiters still linked into "
       "the tree; TicksServed (ticks keep being served until the final drain) is an assumption about time and the scheduler, not "
       "derived from the fairness hypotheses; a black-box fallback build (private identifiers renamed) observes ticks through "
       "the public API on a hidden limiter that the model mirrors, and skips the window area.",
  ref="DESIGN.md section 5 C16, section 0"),
 "C04": dict(
  text="55 Lean theorems about the executable byte-level model of String/StringWithSign/Comma/CommaWithSign/FromString (plain "
       "branch)/Unmarshal*/txt.CommaFromStringNum/txt.Comma of integers/txt.Unquote/integer As and CheckedAs of f64.Int and "
       "f128.Int, and of float As/CheckedAs at the instance GoSem.F64 (Model/FixedTextFloat.lean: ParseFloat as correctly rounded "
       "conversion of the denoted rational, FormatFloat(-1) as a search for the first text by digit count that parses back): "
       "toString_exact and toString_canonical, fromString_toString for every raw value incl. Min and every configuration of the "
       "regenerated table, comma and with-sign forms parse back, fromString_literal (every plain literal whose truncated value "
       "is representable gives that value truncated to D places), fromString_total (range of every parse result), the dispatch "
       "(the float detour is taken iff the text contains e/E: fromString_exp_iff(128), literal_never_float_path, "
       "renderings_never_float_path), integer CheckedAs in closed form (checkedAs_signed_iff64, checkedAs_narrow_unsigned_iff64, "
       "checkedAs_u64_iff64, checkedAs_all_iff128, and the f64/f128 difference on uint64 as a theorem pair), as_int_same_as_C03, "
       "float CheckedAs at the executed instance (parseFloat_toString, formatFloat_roundtrip, checkedAs_float_go64: f64 CheckedAs "
       "returns x iff x is the nearest float and its shortest text is the number's own text; checkedAs_float_go128_sound). ~313k "
       "lines per quick run over all 16 configurations of both types, incl. a stream fltm comparing float As/CheckedAs bit for "
       "bit with the code and the two Lean definitions with strconv.ParseFloat/FormatFloat themselves.",
  note="float CheckedAs: minimality of the formatFloatGo text (no shorter text parses back) and nearest-ness of ofRat are not "
       "proved; they are tied to strconv by the pf/ff streams; four earlier theorems over uninterpreted stdlib functions are "
       "schematic and do not carry the clause; f128 completeness is not proved (soundness only); a big.Rat oracle (float) stays "
       "as a second opinion; exponent literals are not plain literals (Appendix B) and stay outside the model (exp oracle: no "
       "panic, FromString = From(ParseFloat), entry points agree); encoding/json and yaml.v3 round trips are an identity oracle; "
       "literals whose value is not representable wrap (f64) or saturate (f128) and are compared model-vs-code only (reading, "
       "Appendix B); f64 CheckedAs to uint64 kinds accepts negative whole numbers because converting back yields the original "
       "(now a theorem: checkedAs_u64_f64_vs_f128).",
  ref="DESIGN.md section 5 C04, section 0"),
 "C05": dict(
  text="Translation validation: the clipper is not modelled; every individual call of the real Union/Intersect/Sub/Xor (float32 "
       "and float64) is judged by an executable Lean even-odd oracle in exact dyadic arithmetic whose soundness is proved "
       "(23 theorems about the definitions the driver runs): validateLattice_sound (+ outside the square, + emptiness) makes the "
       "per-call verdict universal over all points of all open cells for rectilinear lattice inputs; validateGeneral_sound / "
       "validatePoints_sound / clear_not_on_edge for general-position inputs on sample points (also taken from the result's own "
       "interior) that provably keep a margin from every edge; emptyCert_sound + resultEmpty_no_region: where the combined "
       "region is certified empty (operands separated by an axis-parallel line or by the line through one of their edges - every "
       "pair of disjoint convex contours, overlapping boxes or not -, identical operands for Sub/Xor, a covering axis-parallel "
       "rectangle for Sub, an operand without edges) the result must be empty and the law then holds at every point "
       "(sepLine_sound, noContact_disjoint_partial, validateGeneral_judged); decodeBits_exact / decodeBits_none_iff (the float decoding "
       "is exact for every finite bit pattern), inside_int_iff_rat, inside_scale/translate, xor_concat, inside_rotate/reverse. "
       "~102k calls / 7.0M judgements per quick run (5.1M exhaustive cells, 2.0M sample points; ~9800 general-position calls "
       "of which ~3100 certified-empty and ~990 judged-empty); operands deep-compared, panics caught.",
  note="nothing universal about the clipper over inputs is proved; lattice calls are decided exhaustively per call, general-"
       "position calls are judged on sample points only (100 candidates per call plus about 60 from the result, margin 1/64 or "
       "1/1024); 'empty when the region is empty' is exhaustive on lattice calls and on sampled calls required only where "
       "emptyCert certifies emptiness; beyond the proved certificate the validator applies the exact general judgement noContact "
       "(Intersect: boundaries do not meet and no vertex of one operand is inside the other) and containedIn (Sub) and demands an "
       "empty result: the soundness of that judgement is a topological fact that is STATED, NOT PROVED (proved only for "
       "line-separated operands) - were it false the effect would be false alarms, not misses; points on lattice lines are not judged; a call with no judged point is counted as "
       "unjudged, never as validated; KNOWN FINDINGS (known_findings.json, 9 fixed inputs in corpus/C05/degenerate.known.ops): on "
       "degenerate non-rectilinear lattice inputs the clipper panics or returns wrong regions, and on one sub-epsilon input it "
       "panics - the repair is not a small patch. Inputs whose coordinates are all below the clipper's ABSOLUTE epsilon of 1e-5 "
       "(the lattice and general-position families scaled by 2^-20) are outside the reading of 'a margin'/'the lattice' "
       "(Appendix B) and are run as counted observations only (the real code gets most of them wrong).",
  technique="per-call validation by a Lean oracle with a proved soundness theorem (translation validation)",
  ref="DESIGN.md section 5 C05"),
 "C06": dict(
  text="24 Lean theorems about a functional model that performs the same rotations and recolourings as the Go loops (validated "
       "node for node through a -overlay dump): run_inv (red-black invariants after every history, any compare function), "
       "height_le 2*log2(n+1), insert_inorder (stable insertion), remove_inorder (erases the FIRST equal entry), inorder_run/"
       "count_run (refinement to the sorted association list), get_first, first_last, traverse and traverseFrom specs with the "
       "visitor cut, comparison-count bounds (find <= height, insert <= height+1). fixups_never_dereference_nil (a partial model with Option-returning accessors exactly at the Go "
       "dereference sites - sibling, nephews, parent, grandparent, uncle, pivots - never hits none after any history, for "
       "every compare function; contrast trees violating black-height equality do). ~1.5M operations per quick run; exact "
       "compare counts are not compared: the harness judges the REAL count of every operation against the bound proved for "
       "the model plus the property's allowance - Get/Remove <= 2*floor(log2(n+1)) + E + 1, Insert <= 2*floor(log2(n+1)) + 1 "
       "(n = entries before the operation, E = entries comparing equal to the key).",
  note="compare assumed a total preorder (explicit hypothesis, proved for the driver's two modes); parent pointers and Go "
       "recursion depth are outside the model (parent links checked at run time by the overlay's inv op); shape/count "
       "observables are model detail: a mismatch only there is reported without a concrete failing input; visitors may stop, "
       "keep state, panic or call read-only methods - a visitor that calls Insert/Remove on the tree it is traversing is "
       "outside the theorems and the correspondence run; the white-box accessor adapts to renamed private fields and falls "
       "back to the exported Dump() text (parent links then unchecked).",
  ref="DESIGN.md section 5 C06"),
 "C10": dict(
  text="33 Lean theorems about the executable byte-level model of CmdLine.Parse (option table construction through every "
       "declaration route, three-state scanner incl. the lone '-' as first positional, rune-aware short-option loop, @file "
       "expansion with the seen guard) and of the OPTION VARIABLES (setVar: a case-by-case transcription of GeneralValue.Set - "
       "ParseBool's table, all ten integer kinds through the model's own base-0 parser with prefixes, underscore rule and the "
       "kind's bit size, strings, slices appending - threaded as a store the driver prints): parse_render for every valid "
       "spelling and arbitrary rune names, positional_tail_verbatim, bare_dash_is_first_positional, set_semantics, "
       "variable_is_fold_of_its_sets, scalar_last_successful_set / last_assignment_wins, slice_appends, unmentioned_untouched, "
       "variables_after_parse, response_split / response_inline, malformed_fatal. Each line declares options over all 28 "
       "pointer types; possibly-malformed vectors run in a child process and the exit path is observed.",
  note="float and duration acceptance is taken from strconv/time results computed by the generator (parameter of the model); "
       "a first positional that starts with '-' (other than a lone '-') or with '@' without a preceding '--' is an option or "
       "response file by construction; an @file reference in value position is taken literally (observation); response-file "
       "lines of 64 KiB or more and arguments containing LF are outside the domain; response_split requires FilesNoRef over "
       "all files (stronger than needed).",
  ref="DESIGN.md section 5 C10, section 0"),
 "C12": dict(
  text="35 Lean theorems about the state machine of rotation.Rotator (Write with its retry as a step function, the rename "
       "chain, Close, re-open with size from Stat, New with options and regenerated defaults, histories in segments each with "
       "its own limits): write_terminates (<= 2 passes), write_whole, retained_is_suffix over every history, retained_whole "
       "until more than MaxBackups+1 files are filled, size_bound, backup_count, preexisting_appended, restart theorems "
       "(size_bound_across_restarts, backup_frame_across_restarts, retained_is_suffix_across_restarts), "
       "current_file_exists_at_write. CONCURRENCY: a generic mutex machine (Model/Mutex.lean, Lemmas/MutexLin.lean: threads "
       "running operations bracketed by one mutex, micro-steps on shared state, any scheduler) is proved linearizable, "
       "mutually exclusive, deadlock-free and schedule-bounded, and instantiated with Write/Sync/Close split into their "
       "syscall-level micro-steps: concurrent_writes_never_interleave, concurrent_complete, concurrent_bounds, "
       "concurrent_progress, concurrent_returns_in_bounded_time; contrast: without the bracket concrete schedules tear a "
       "record (unbracketed_writes_tear) and break the size accounting. Every Write runs under a deadline (a hang is an output, "
       "not a hung check); the whole directory (position-dependent record bytes) is compared after every operation.",
  note="the concurrent_* theorems are about a machine bracketed BY CONSTRUCTION: proved for the bracketed model, observed (not "
       "proved) for the code. That rotator.go really takes the lock around every method is DECIDED on every run about lock-state "
       "tables regenerated from the typed SSA form of the working tree (gossa/lockfacts -> lean/Generated/Lock_rotation.lean -> "
       "Props/C12Lock.lean: every read/write/use of the file handle and the size counter happens with the mutex held on ALL "
       "paths, no re-acquisition; consequence bodies_never_overlap by Lemmas/LockSound.lean), the extractor (about 2000 lines of "
       "Go over go/ssa) being trusted to bound the lock state soundly; the concrete search for a failing schedule is the stress oracle "
       "(2-12 writer goroutines with Close and Sync alongside, judged by the theorem's conclusion: whole records, per-goroutine "
       "order, size bound, directory equal to the sequential rule), with and without -race; file-system error paths and "
       "WithMask are not modelled.",
  ref="DESIGN.md section 5 C12, section 0"),
 "C15": dict(
  text="25 Lean theorems over the threaded model of the queue (TQW.TStep: the dispatcher process() as a thread with one "
       "program-counter value per blocking point, the in/tasks/ready channels, the backlog, and `workers` worker threads in the "
       "loop of work() with exception semantics for panics - a panic unwinds to the deferred errs.Recovery of runTask, the "
       "handler call is a step of its own, an unrecovered panic would terminate the thread), for all worker counts >= 1, all "
       "depths, handler installed or not, all task sets, panic patterns and interleavings: refines_protocol (the shared part is "
       "simulated by the 22-rule dispatcher protocol TQ.Step), conservation, exactly_once, running_le_workers (derived: only "
       "worker threads execute tasks, one at a time), dispatcher_index_safe, counter_equation, fifo / fifo_single_worker, "
       "no_worker_dies, panic_always_recovered, panic_reported_once, no_deadlock, shutdown_after_all_done/_all_reported, "
       "shutdown_returns (a variant decreases on every rule after Shutdown, no fairness needed). Contrast theorems with concrete "
       "schedules show the clauses fail for programs outside the class: no recover in runTask (worker dies), a dispatcher that "
       "runs backlog tasks (Workers+1 executing), tasks that Submit to their own queue (deadlock). The executable tnext is proved "
       "equal to TStep and is what the driver runs: forced schedules (tasks blocked on release channels) compare the real "
       "queue's quiescent observable - for one worker including start and finish order - with the model's over all "
       "interleavings, under GOMAXPROCS 1 and default.",
  note="Domain: tasks end, by returning or by panicking (runtime.Goexit in a task terminates its worker without a completion "
       "signal and Shutdown never returns: observed, outside the domain); Submit is not called with nil, nor after or "
       "concurrently with Shutdown (a Submit blocked on a full `in` when Shutdown closes it panics); tasks do not Submit to the "
       "queue that runs them (on a bounded queue this deadlocks deterministically - inherent to blocking at Depth; modelled as "
       "Variant.nest: the safety theorems cover it, the liveness theorems exclude it). Panic values are abstracted in the model "
       "and varied by the harness over ten kinds; the `in` capacity is a model parameter, injected as 1..5 in the forced area by "
       "an overlay and the real 2*NumCPU runs only in stress; for Workers > 1 the forced tie compares sets; random schedules are "
       "judged by a model-free stress oracle in child processes (crash or hang = violation with the configuration as replay); Go "
       "scheduler fairness is outside the model and is not needed by shutdown_returns.",
  ref="DESIGN.md section 5 C15, section 0"),
 "C19": dict(
  text="45 Lean theorems. Model: a file system that follows symbolic links as the kernel does (Ex.walk; os.MkdirAll and "
       "internal.EnsureNoSymlinks transcribed call by call), both extractor loops and the six exported wrappers over it; this "
       "is what the driver executes against the real code on whole trees, including a destination that is itself a link. "
       "Proved: with the guard every call acts at its lexical path (resolving_is_lexical), hence containment of nodes, "
       "contents and hard links on the link-following file system for every archive and every real tree in which no proper "
       "ancestor of the destination is a file or a link (missing ancestors are allowed, MkdirAll creates them) and the "
       "destination itself is not a link (extract_contained_resolving, extract_contained_inodes_resolving); the same loops WITHOUT the "
       "guard calls escape (guardless_escapes, concrete archives); exact reproduction of well-formed archives into an empty or "
       "missing destination (tar and zip); for any pre-existing tree an error-free run is exactly the overlay of the archive "
       "on the old tree (extract_overlay: skipped type flags contribute nothing, ./ entries, existing files rewritten with "
       "their mode kept, a late-listed directory keeps the mode of the first MkdirAll); every failing iteration characterised "
       "by look-ups in the tree (step_error_tree_iff, guard_error_iff) and what it leaves (failed_step_effect); re-extraction "
       "(reextract_identity, reextract_link_fails); error propagation for truncated, corrupt, unwritable and unopenable "
       "entries.",
  note="privileged process: permission bits never make a call fail in the model or in the correspondence run; for an ordinary "
       "user 'no error' needs owner write and search permission after masking on every directory that later receives a child. A "
       "PRE-EXISTING hard link inside the destination to an outside file: a regular entry on it replaces the outside file's "
       "content, mode and everything else stay (existing_file_rule; Appendix B). A destination that is ITSELF a symbolic link "
       "(chains of 40 links are followed, 41 give ELOOP, as the kernel) and a destination below a LINKED ANCESTOR (the real code "
       "and the resolving model extract into the physical place): differential run only, area dstlinkm, no theorem (containment "
       "relative to the physical root is not proved). A missing parent of the destination is inside the theorems and is run. Not "
       "modelled: NAME_MAX/PATH_MAX/NUL; node types other than directory, regular file and symbolic link (a pre-existing fifo, "
       "socket or device at an entry path: open on a fifo without a reader would hang); a destination /; races; the archive/tar "
       "and archive/zip readers (the model sees the entries they yield). The zip root test fi.IsDir() versus kind = dir differs "
       "only for a symlink-bit entry named ./ (an error in both; not generated); umask set to 0 by the harness.",
  ref="DESIGN.md section 5 C19, section 0"),
 "C03": dict(
  text="145 Lean theorems. Props/C03.lean (60) about the executable model Model/Fixed.lean + Model/FixedFloat.lean of f64.Int/"
       "f128.Int (raw values as integers with Go's wrap-around): Add/Sub exact; Mul/Div = exact result truncated toward zero "
       "under the representability hypotheses (result and intermediate product); Mod = a - b*trunc(a/b) for EVERY operand pair "
       "with a non-zero divisor (no intermediate-product hypothesis; the result always fits); Trunc/Ceil/Round (halves away from "
       "zero, both signs); Abs/Neg/Min/Max/Inc/Dec/comparisons; f64/f128 agreement; integer From/As for every machine kind; "
       "Fraction; 10 theorems on float From/As over the binary64 model; restatement over Q; for every configuration of the "
       "regenerated multiplier table (multiplier_table: each = 10^places). The model is run against all 16 configurations of "
       "both types on ~750k operations per quick run: areas fx (in-hypothesis, judged), fxwrap (overflow / zero divisor, model "
       "drift only), fxfloatm (float paths bit for bit against the model), fxfloat (exact-rational oracle of the literal bound), "
       "fxcfg, plus a direct f64/f128 twin comparison. TRANSLATOR TIES: on every run gossa/ssagen regenerates Lean definitions of "
       "the integer functions of xmath/fixed + xmath/fixed/f64 (Generated/SSA_F64.lean; Props/C03Gen.lean, 55 theorems over "
       "BitVec 64, wrap-around included; the type parameter becomes a dictionary (Multiplier, Places)) and of xmath/fixed/f128 "
       "(Generated/SSA_F128.lean; Props/C03Gen128.lean, 30 theorems, calls into num.Int128 tied through C01Gen to the C01 model) "
       "and proves each equal to the hand-written model.",
  note="the SSA translator (gossa) is trusted to render the integer fragment faithfully; From/As/CheckedAs, text methods and "
       "Fraction are outside the translated fragment (correspondence only); a function of the committed list "
       "lean/Generated/expected_*.txt that a change moves outside the fragment is reported as 'translator tie lost' (a VIOLATION "
       "ending in no-failing-input-found unless the differential run supplies an input). Float From/As for the float64 kinds: "
       "modelled and bounded by theorem under named contracts of strconv.ParseFloat, big.Float.Quo/Float64/Text and the C04 "
       "text; only the float32 kinds have no bound theorem (modelled and compared bit for bit; literal bound judged by the "
       "big.Rat oracle with relative part 2^-23). Wrap-around of non-representable results and division by zero are compared "
       "model-vs-code only (recorded as model drift, never a violation); Mod is not among them: every Mod with a non-zero "
       "divisor is judged. f64.From of an unsigned source >= 2^63 lies outside every theorem (never representable; Appendix B). "
       "With build tag nooverlay (white-box accessor does not compile against the tree) f128 raw values go through "
       "String()/FromString - exact, recorded as overlay_fallback.",
  ref="DESIGN.md section 5 C03, section 0"),
 "C07": dict(
  text="25 Lean theorems, generic over rectangle laws proved from C18 and instantiated at Int and Rat: after any history the ids "
       "reported by All equal the specification's multiset (abs_run, size_run), each of the 8 Find* queries (plain and matched) "
       "equals the filter of the stored nodes by the geom predicate, each boolean query is true iff its Find* is non-empty, "
       "insert/remove node-level refinement, split_depth_rat / reorganize_depth_rat (depth logarithmic in root width over smallest "
       "item width), fuel_suffices_int / fuel_independent_int (results do not depend on the fuel once it exceeds "
       "width+height of the root box; the driver additionally checks at run time that its fuel was never exhausted, since "
       "its histories contain boxes larger than its fuel). The model (outside list, "
       "auto-Reorganize, swap-remove, thresholds) is run against quadtree over int and float64 (exact dyadic inputs).",
  note="the same node inserted twice is two entries; nodes whose Bounds change while stored are outside the contract "
       "(hypothesis OpOK); integer coordinates are modelled as unbounded (machine overflow of X+Width is outside the "
       "theorems); float rounding is outside the exact-arithmetic theorems: the fractional-float clause is evidenced "
       "by the floatscan oracle (non-dyadic floats vs a linear scan with the library's own predicates); the theorems transfer to "
       "Go ints for histories where every stored and query rectangle has X+Width and Y+Height within int64 and the union of "
       "the stored rectangles is narrower than 2^63 - outside that domain the evidence is the intwrap oracle (histories near "
       "MaxInt/MinInt judged against a linear scan; predicates cross-checked against math/big); OpOK fixes one bounds function "
       "per history (remove / change bounds / re-insert under the same id is excluded, also by the harness). KNOWN FINDINGS: 3 "
       "inputs with float rectangles whose positive size is absorbed by rounding and 2 with int rectangles whose own X+Width "
       "wraps (geom's Contains and Intersects become inconsistent there, so the Intersects-based pruning disagrees with the "
       "scan).",
  ref="DESIGN.md section 5 C07"),
 "C08": dict(
  text="50 Lean theorems about the executable model of xmath.BitSet (words as BitVec 64, every loop transcribed): after every "
       "history of all 14 mutating calls on two bit sets the members equal those of a mathematical set (run_refines) and Count "
       "is the cardinality (count_card); the six searches return the extreme index or the sentinel; Trim, Data, EnsureCapacity, "
       "Clone, Copy, Reset preserve the set, Load(Data()) reproduces it, Equal iff the members agree; countSetBits is the "
       "popcount on every word (SWAR proof, kernel only). NO PANIC: a checked transcription whose reads, writes and slicings "
       "return none exactly where Go would panic is proved to return some of the total model on every state "
       "(all_accesses_in_bounds, _run, _queries; bounds_contrast shows it sees a missing EnsureCapacity/clamp/swap). NO "
       "ALIASING: in a heap-of-arrays model that places every write where the code places it, the two bit sets and the caller's "
       "slices never share storage and the heap denotes what the value model computes (heap_refines, no_aliasing, "
       "scribble_harmless; aliasing_contrast refutes a sharing Clone, a Data returning the receiver's slice and the pre-fix "
       "Copy(self)). RANGE MASKS: any word-at-a-time range implementation with masks MaxUint64<<startBit / "
       "MaxUint64>>(63-endBit) equals the per-bit loops in words and count (word_at_a_time_ops, mask_contrast). The driver runs "
       "the heap model and the checked transcription against two real bit sets with caller scribbles.",
  note="the value model the set theorems speak about is linked to the executed heap/checked models by theorem; identity of "
       "*BitSet values is not modelled; Go int overflow near MaxInt is outside the model; stored indexes stay below 2^20+64 in "
       "the streams while non-allocating calls are driven to MaxInt; negative indexes terminate the process by design (domain "
       "index >= 0); capacity growth policy is not observable through the API and deliberately not compared; countSetBits is "
       "reached through an overlay and that area is dropped if the helper disappears; the mask library is about a shape the "
       "code does not currently have (groundwork, and documentation of why the ind4/ind5 mutants are wrong).",
  ref="DESIGN.md section 5 C08, section 0"),
 "C17": dict(
  text="27 Lean theorems about the executable model of notifier.Notifier (three maps, batch level, enabled flag, a world of "
       "notifiers): registered_spec and maps_consistent over all histories, notify_targets (exactly the targets registered for "
       "the name or a dot-ancestor, each once), notify_priority_order, no_textual_prefix, disabled/unregistered/reset silence, "
       "merge_spec, batch_nesting; PANICS in a propagating-panic semantics (a panic leaves every frame that does not recover "
       "it; errs.Recovery with good, nil and panicking handler): unrecovered_panic_aborts, recovery_frame_contains_panic, "
       "panic_does_not_stop_delivery / _batch, and the refuted variant recover_at_loop_level_refuted; CONCURRENT USE on the "
       "generic mutex machine: concurrent_registry_linearizable (every schedule; micro-steps per loop iteration), "
       "concurrent_callbacks_sequential, notify_delivers_snapshot / batch_delivers_snapshot (a concurrent Notify invokes exactly "
       "the targets registered at its linearization point, once, in priority order, whatever other goroutines do), "
       "delivery_touches_no_shared_state (unlocked delivery commutes with every other step), and the counter-example "
       "unlocked_not_linearizable. Histories over 3 notifiers (recovery handler good / itself panicking / nil) x 128 targets "
       "(batch-capable, panicking with 7 kinds of panic value, two re-entrant ones that call any method back from inside "
       "HandleNotification/BatchMode), priorities up to the int limits, names up to 4 KiB / 300 segments, are run against the "
       "Go code (black-box calls received + a rename-robust white-box dump with a black-box fallback).",
  note="the lock discipline of the Go code is DECIDED on every run about tables regenerated from the typed SSA form of the "
       "working tree (gossa/lockfacts -> Generated/Lock_notifier.lean -> Props/C17Lock.lean: every access to the three maps, "
       "current batch, batch level and enabled flag under the lock on ALL paths - writes exclusive, reads at least shared - "
       "except READS of the elements of a slice copied out under the lock; no map access unlocked; targets called with the lock "
       "free on every path; no re-acquisition; by Lemmas/LockSound.lean no write ever coincides with another locked access), the "
       "extractor being trusted and the snapshot element reads staying with -race. Beyond that, memory-level race freedom is not "
       "proved: the logical half (linearizability under the lock bracket, "
       "unlocked delivery touching only its own snapshot) is proved for the model, and the code is observed by a -race stress "
       "run whose judge is the linearizability theorem's conclusion (a DFS must find one order, respecting program order and "
       "real time, that explains every delivered list, BatchMode broadcast and result); snapshots are immutable values in the "
       "model (that nobody writes a snapshot's backing array after hand-out stays with -race); RLock brackets are treated as "
       "exclusive; re-entrant targets are transcribed by the driver, not proved; batch_nesting excludes Reset/SetEnabled of the "
       "same notifier inside the pair; check-then-act windows of nanoseconds are detected only probabilistically.",
  ref="DESIGN.md section 5 C17, section 0"),
 "C18": dict(
  text="36 Lean theorems over any ordered ring/field, instantiated at the Int and Rat types the driver runs: Rect contains_iff, "
       "intersects_iff, intersect_spec, union_covers/union_smallest, empty_absorbs; Matrix transform_multiply/translate/scale/"
       "rotate (any sin/cos pair), identity_neutral; contour crossing-number characterisation, even-odd spec, bounds_encloses, "
       "transform_maps_vertices. ~720k exact (dyadic) cases per quick run compared bit-exactly. SECOND TIE "
       "(translator): on every run gossa/ssagen regenerates Lean definitions of 54 loop-free methods of xmath/geom Rect, Point, "
       "Size, Insets and Matrix from the working tree (lean/Generated/SSA_Geom.lean; the type parameter T becomes an abstract "
       "type with exactly the operations the body uses) and Props/C18Gen.lean proves the 25 that have a model counterpart equal "
       "to the Model/Geom functions the theorems are about, for every such type (Contains, Intersects, Intersect, Union, "
       "Point.In, Expand, Inset, Matrix Multiply/Translate/Scale/TransformPoint, ...), plus 3 transported corollaries.",
  note="the SSA translator (gossa) is trusted to render the loop-free fragment faithfully; a function that a change moves out "
       "of the fragment is reported as 'translator tie lost'. Float rounding is outside the theorems: the model-vs-code streams "
       "use only inputs on which every float operation of the source is exact (small dyadic rationals; contour queries filtered "
       "with big.Rat) and demand equality of the exact values. Under rounding (non-dyadic float64/float32 inputs of tiny, large "
       "and mixed magnitudes) the implementation-side oracle floatspec judges exactly, without tolerance: Rect Contains/"
       "Intersects/Intersect/Union and Point.In through their point-set specifications on the extreme representable points; "
       "Contour.Bounds (every vertex In the bounds, strict) and Polygon.Bounds; Polygon.Transform (each result vertex "
       "bit-identical to Matrix.TransformPoint of the original vertex, operand untouched, no shared storage); the identity "
       "matrix; Contour.Contains/Polygon.Contains/ContainsEvenOdd away from edges against the exact crossing number (big.Rat; "
       "points within 64 eps x magnitude of an edge are skipped and counted). Rotate/RotateByDegrees with libm sin/cos only "
       "through the relative 16-ulp oracle. NOT evidenced under rounding: the composition laws of Multiply/Translate/Scale "
       "(exact-arithmetic theorems plus exactly representable inputs only). Integer overflow of X+Width is not modelled. "
       "'Without touching the original' is vacuous in the pure model and checked on the Go side only. KNOWN FINDINGS by call "
       "site (specific inputs judged strictly on every run, other inputs of the class counted, not alarmed): Union/Intersect's "
       "recomputed far edge one ulp off (4 inputs; Polygon.Bounds inherits it). Contour.Bounds' absorbed 1 was repaired in "
       "/repo (c8f36a0).",
  ref="DESIGN.md section 5 C18"),
 "C20": dict(
  text="29 Lean theorems about the executable model of txt.NaturalCmp for all byte strings and both case modes: antisymmetry, "
       "transitivity, 0 iff identical, characterisation as lexicographic order of chunk keys, digit runs by numeric value then "
       "fewer zeros first, digits before non-digits, proper prefix first, bytewise/case-folded comparison, NaturalLess, sorted "
       "permutation and uniqueness of the sorted result. ~150k pairs per quick run.",
  note="slices.SortFunc is modelled by merge sort (sorted_perm_unique shows every correct sort returns the same list).",
  ref="DESIGN.md section 5 C20"),
}

LEVEL = {"C05": "translation_validation"}


def main():
    props = [json.loads(l) for l in open("/verif/properties.jsonl")]
    na_reason = {}
    try:
        na_reason = json.load(open("/verif/tools/not_applicable.json"))
    except Exception:
        pass
    checks = []
    for p in props:
        pid = p["id"]
        if pid not in P:
            continue
        m = dict(P[pid])
        # keep the theorem count in the text in step with what the last run of the check audited
        try:
            ev = json.load(open("/verif/evidence/%s.json" % pid))
            n = ev["coverage"]["discharged"]
            import re
            m["text"] = re.sub(r"^(\d+)( of \d+)? Lean theorems", "%d Lean theorems" % n, m["text"])
            m["text"] = re.sub(r"\((\d+) theorems\)", "(%d theorems)" % n, m["text"])
        except Exception:
            pass
        checks.append({
            "property_id": pid,
            "quick_cmd": "./check %s --tier quick" % pid,
            "thorough_cmd": "./check %s --tier thorough" % pid,
            "evidence_file": "/verif/evidence/%s.json" % pid,
            "replay_cmd_template": "./check %s --replay {path}" % pid,
            "engine": "lean4-proof+correspondence",
            "level_claimed": {"category": LEVEL.get(pid, "proof"), "text": m["text"], "design_ref": m["ref"]},
            "level_note": NOTE_COMMON + m["note"],
            "technique": m.get("technique", TECH),
        })
    man = {
        "version": 1,
        "setup_cmd": "./setup.sh",
        "hooks": {"guard": "verif",
                  "enable": "go build -tags verif -overlay <generated overlay.json> (white-box accessors live under /verif/go/overlay "
                            "and are injected at build time; /repo carries no hook code)",
                  "baseline_off_cmd": "cd /repo && go test -vet=off -count=1 ./...",
                  "source_commits": [], "add_only": True},
        "engines": [{"name": "lean4-proof+correspondence", "path": "/verif/check", "serves_properties": sorted(P),
                     "kind_free_text": "Lean 4 models/theorems (lean/), Go harnesses (go/), python driver (check, vlib/)"}],
        "checks": checks,
        "notes": "see DESIGN.md section 0 for the as-built state; fix: commits in /repo are listed in known_findings.json",
        "not_applicable": [{"property_id": p["id"],
                            "reason": na_reason.get(p["id"], "check still being built in this revision (planned per DESIGN.md "
                                                             "section 5); not claimed yet")}
                           for p in props if p["id"] not in P],
    }
    json.dump(man, open("/verif/MANIFEST.json", "w"), indent=1)
    print("claimed:", sorted(P))


if __name__ == "__main__":
    main()
