#!/usr/bin/env python3
"""Regenerates /verif/MANIFEST.json from the table below (one entry per claimed property)."""
import json

TECH = "Lean 4 proof over a hand-written executable model + differential correspondence against the Go code"
NOTE_COMMON = ("trusted: Lean 4.33 kernel (axioms propext/Classical.choice/Quot.sound only, audited per theorem on every run); "
               "the hand-written model, tied to /repo's working tree by running model and implementation on the same "
               "generated + corpus operations on every run; the Go toolchain; the harness. ")

# one file per claimed property, owned by the builder of that property: tools/manifest.d/Cxx.json with the keys
# "text" (level_claimed), "note" (what is NOT proved / trusted, appended to NOTE_COMMON), "ref", optional "technique"
import os
D = os.path.join(os.path.dirname(os.path.abspath(__file__)), "manifest.d")
P = {f[:-5]: json.load(open(os.path.join(D, f))) for f in sorted(os.listdir(D)) if f.endswith(".json")}

LEVEL = {"C05": "translation_validation"}


def main():
    props = [json.loads(l) for l in open("/verif/properties.jsonl")]
    na_reason = {}
    try:
        na_reason = json.load(open("/verif/tools/not_applicable.json"))
    except Exception:
        pass
    checks = []
    for p in props:
        pid = p["id"]
        if pid not in P:
            continue
        m = dict(P[pid])
        # keep the theorem count in the text in step with what the last run of the check audited
        try:
            ev = json.load(open("/verif/evidence/%s.json" % pid))
            n = ev["coverage"]["discharged"]
            import re
            m["text"] = re.sub(r"^(\d+)( of \d+)? Lean theorems", "%d Lean theorems" % n, m["text"])
            m["text"] = re.sub(r"\((\d+) theorems\)", "(%d theorems)" % n, m["text"])
        except Exception:
            pass
        checks.append({
            "property_id": pid,
            "quick_cmd": "./check %s --tier quick" % pid,
            "thorough_cmd": "./check %s --tier thorough" % pid,
            "evidence_file": "/verif/evidence/%s.json" % pid,
            "replay_cmd_template": "./check %s --replay {path}" % pid,
            "engine": "lean4-proof+correspondence",
            "level_claimed": {"category": LEVEL.get(pid, "proof"), "text": m["text"], "design_ref": m["ref"]},
            "level_note": NOTE_COMMON + m["note"],
            "technique": m.get("technique", TECH),
        })
    man = {
        "version": 1,
        "setup_cmd": "./setup.sh",
        "hooks": {"guard": "verif",
                  "enable": "go build -tags verif -overlay <generated overlay.json> (white-box accessors live under /verif/go/overlay "
                            "and are injected at build time; /repo carries no hook code)",
                  "baseline_off_cmd": "cd /repo && go test -vet=off -count=1 ./...",
                  "source_commits": [], "add_only": True},
        "engines": [{"name": "lean4-proof+correspondence", "path": "/verif/check", "serves_properties": sorted(P),
                     "kind_free_text": "Lean 4 models/theorems (lean/), Go harnesses (go/), python driver (check, vlib/)"}],
        "checks": checks,
        "notes": "see DESIGN.md section 0 for the as-built state; fix: commits in /repo are listed in known_findings.json",
        "not_applicable": [{"property_id": p["id"],
                            "reason": na_reason.get(p["id"], "check still being built in this revision (planned per DESIGN.md "
                                                             "section 5); not claimed yet")}
                           for p in props if p["id"] not in P],
    }
    json.dump(man, open("/verif/MANIFEST.json", "w"), indent=1)
    print("claimed:", sorted(P))


if __name__ == "__main__":
    main()
