#!/usr/bin/env python3
"""Regenerates /verif/MANIFEST.json from the table below (one entry per claimed property)."""
import json

TECH = "Lean 4 proof over a hand-written executable model + differential correspondence against the Go code"
NOTE_COMMON = ("trusted: Lean 4.33 kernel (axioms propext/Classical.choice/Quot.sound only, audited per theorem on every run); "
               "the hand-written model, tied to /repo's working tree by running model and implementation on the same "
               "generated + corpus operations on every run; the Go toolchain; the harness. ")

P = {
 "C03": dict(
  text="47 Lean theorems about the executable model of f64.Int/f128.Int (raw values with Go's wrap-around): Add/Sub exact, "
       "Mul/Div/Mod = truncated exact result, Trunc/Ceil/Round (halves away from zero, both signs), Abs/Neg/Min/Max/Inc/Dec/"
       "comparisons, f64/f128 agreement, integer From/As, Fraction, all under the property's representability hypotheses, "
       "for every configuration of the regenerated multiplier table (multiplier_table: each = 10^places); restated over Q. "
       "The model is run against all 16 configurations of both types on ~600k operations per quick run.",
  note="float From/As error bound: implementation-side oracle against big.Rat only (no theorem; float32 kinds read with "
       "relative bound 2^-23); Uint128.Div inside f128.Div taken by its contract (proved under C01); wrap-around behaviour of "
       "non-representable results is compared model-vs-code only.",
  ref="DESIGN.md section 5 C03, section 0"),
 "C07": dict(
  text="22 Lean theorems, generic over rectangle laws proved from C18 and instantiated at Int and Rat: after any history the ids "
       "reported by All equal the specification's multiset (abs_run, size_run), each of the 8 Find* queries (plain and matched) "
       "equals the filter of the stored nodes by the geom predicate, each boolean query is true iff its Find* is non-empty, "
       "insert/remove node-level refinement, splitting depth bounded by W+H for integer rectangles. The model (outside list, "
       "auto-Reorganize, swap-remove, thresholds) is run against quadtree over int and float64 (exact dyadic inputs).",
  note="the same node inserted twice is two entries; nodes whose Bounds change while stored are outside the contract "
       "(hypothesis OpOK); lifting the depth bound to whole histories is argued, not proved; float rounding excluded by exact "
       "dyadic inputs.",
  ref="DESIGN.md section 5 C07"),
 "C08": dict(
  text="33 Lean theorems about the executable model of xmath.BitSet (words as BitVec 64, every loop transcribed): per-operation "
       "effect on membership for Set/Clear/Flip and the three range forms (reversed, in-word, multi-word, beyond capacity), "
       "run_refines (any history on two bit sets = mathematical set), the six searches return the extreme matching index or the "
       "sentinel, Trim/Data/EnsureCapacity/Clone/Copy/Reset/Load laws, Load(Data()) identity, Equal iff same members. "
       "~360k operations per quick run incl. full observations.",
  note="the SWAR popcount identity countSetBits = popcount is NOT proved: it is the explicit named hypothesis BS.SwarPopcount of "
       "three _partial theorems (range/whole-history count accounting); supported by a kernel decide over all byte patterns "
       "in all lanes and by a dedicated popcnt stream comparing Go's countSetBits (via -overlay accessor) with the model; "
       "negative indexes terminate the process by design (domain index >= 0).",
  ref="DESIGN.md section 5 C08"),
 "C17": dict(
  text="14 Lean theorems about the executable model of notifier.Notifier (three maps, batch level, enabled flag, a world of "
       "notifiers): registered_spec and maps_consistent over all histories, notify_targets (exactly the targets registered for "
       "the name or a dot-ancestor, each once), notify_priority_order, no_textual_prefix, disabled/unregistered/reset silence, "
       "merge_spec, batch_nesting, panic_does_not_stop_delivery. Histories over 2 notifiers x 5 targets are run against the Go "
       "code (black-box calls received + a white-box dump through -overlay).",
  note="freedom from data races is NOT proved (sequential model under the mutex); it is exercised by a -race stress oracle; "
       "batch_nesting excludes Reset/SetEnabled of the same notifier inside the pair.",
  ref="DESIGN.md section 5 C17"),
 "C18": dict(
  text="36 Lean theorems over any ordered ring/field, instantiated at the Int and Rat types the driver runs: Rect contains_iff, "
       "intersects_iff, intersect_spec, union_covers/union_smallest, empty_absorbs; Matrix transform_multiply/translate/scale/"
       "rotate (any sin/cos pair), identity_neutral; contour crossing-number characterisation, even-odd spec, bounds_encloses, "
       "transform_maps_vertices. ~800k exact (dyadic) cases per quick run compared bit-exactly.",
  note="float rounding is outside the theorems (inputs are chosen so every float operation is exact, asserted with big.Rat); "
       "Rotate/RotateByDegrees with libm sin/cos only through a 16-ulp implementation-side oracle; integer overflow of X+Width "
       "not modelled.",
  ref="DESIGN.md section 5 C18"),
 "C20": dict(
  text="29 Lean theorems about the executable model of txt.NaturalCmp for all byte strings and both case modes: antisymmetry, "
       "transitivity, 0 iff identical, characterisation as lexicographic order of chunk keys, digit runs by numeric value then "
       "fewer zeros first, digits before non-digits, proper prefix first, bytewise/case-folded comparison, NaturalLess, sorted "
       "permutation and uniqueness of the sorted result. ~150k pairs per quick run.",
  note="slices.SortFunc is modelled by merge sort (sorted_perm_unique shows every correct sort returns the same list).",
  ref="DESIGN.md section 5 C20"),
}

LEVEL = {"C05": "translation_validation"}


def main():
    props = [json.loads(l) for l in open("/verif/properties.jsonl")]
    na_reason = {}
    try:
        na_reason = json.load(open("/verif/tools/not_applicable.json"))
    except Exception:
        pass
    checks = []
    for p in props:
        pid = p["id"]
        if pid not in P:
            continue
        m = P[pid]
        checks.append({
            "property_id": pid,
            "quick_cmd": "./check %s --tier quick" % pid,
            "thorough_cmd": "./check %s --tier thorough" % pid,
            "evidence_file": "/verif/evidence/%s.json" % pid,
            "replay_cmd_template": "./check %s --replay {path}" % pid,
            "engine": "lean4-proof+correspondence",
            "level_claimed": {"category": LEVEL.get(pid, "proof"), "text": m["text"], "design_ref": m["ref"]},
            "level_note": NOTE_COMMON + m["note"],
            "technique": m.get("technique", TECH),
        })
    man = {
        "version": 1,
        "setup_cmd": "./setup.sh",
        "hooks": {"guard": "verif",
                  "enable": "go build -tags verif -overlay <generated overlay.json> (white-box accessors live under /verif/go/overlay "
                            "and are injected at build time; /repo carries no hook code)",
                  "baseline_off_cmd": "cd /repo && go test -vet=off -count=1 ./...",
                  "source_commits": [], "add_only": True},
        "engines": [{"name": "lean4-proof+correspondence", "path": "/verif/check", "serves_properties": sorted(P),
                     "kind_free_text": "Lean 4 models/theorems (lean/), Go harnesses (go/), python driver (check, vlib/)"}],
        "checks": checks,
        "notes": "see DESIGN.md section 0 for the as-built state; fix: commits in /repo are listed in known_findings.json",
        "not_applicable": [{"property_id": p["id"],
                            "reason": na_reason.get(p["id"], "check still being built in this revision (planned per DESIGN.md "
                                                             "section 5); not claimed yet")}
                           for p in props if p["id"] not in P],
    }
    json.dump(man, open("/verif/MANIFEST.json", "w"), indent=1)
    print("claimed:", sorted(P))


if __name__ == "__main__":
    main()
