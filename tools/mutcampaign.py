#!/usr/bin/env python3
"""tools/mutcampaign.py [-j N] [-n SURVIVORS_PER_PROPERTY] [--seed S] [Cxx ...]

Automatic mutation campaign (a measurement, not a check): for every property, small syntactic mutants of the files the
property is anchored in (relational / boolean / arithmetic operator replacement, boundary constants, negated conditions,
true/false) are generated in a scratch worktree of /repo; a mutant is kept only if the library still builds and its WHOLE
existing test suite still passes (a "survivor" of the tests); the property's registered quick check is then run on it with
VERIF_REPO. Result: seeded/campaign.json with, per survivor, the mutation and whether the check reported a VIOLATION
(concrete or not).  A silent survivor is either an equivalent mutant or a miss: those are listed for triage.
Nothing is ever written to /repo; the scratch worktrees are removed at the end."""
import hashlib
import json
import os
import random
import re
import subprocess
import sys
import time
from concurrent.futures import ThreadPoolExecutor

V = "/verif"
OUT = os.path.join(V, "seeded", "campaign.json")
ALLPROPS = {}

OPS = [
    (r"(?<![<>=!+\-*/&|^%])<=(?!=)", ["<"]), (r"(?<![<>=!+\-*/&|^%-])<(?![<=\-])", ["<="]),
    (r"(?<![<>=!+\-*/&|^%])>=(?!=)", [">"]), (r"(?<![<>=!+\-*/&|^%-])>(?![>=])", [">="]),
    (r"(?<![<>=!+\-*/&|^%:])==(?!=)", ["!="]), (r"!=(?!=)", ["=="]),
    (r"&&", ["||"]), (r"\|\|", ["&&"]),
    (r"(?<=[\w\)\]] )\+(?= [\w\(])", ["-"]), (r"(?<=[\w\)\]] )-(?= [\w\(])", ["+"]),
    (r"(?<=[\w\)\]] )\*(?= [\w\(])", ["/"]),
    (r"(?<=[ \(\[])\b1\b(?=[ \)\],;:]|$)", ["0", "2"]), (r"(?<=[ \(\[])\b0\b(?=[ \)\],;:]|$)", ["1"]),
    (r"\btrue\b", ["false"]), (r"\bfalse\b", ["true"]),
    (r"\+\+", ["--"]), (r"(?<=\w)--", ["++"]),
    (r"<<", [">>"]), (r">>", ["<<"]),
]


def sh(cmd, cwd=None, env=None, timeout=1800):
    e = dict(os.environ, GOFLAGS="-mod=mod", GOPROXY="off")
    e.pop("GOTOOLCHAIN", None)
    if env:
        e.update(env)
    try:
        p = subprocess.run(cmd, cwd=cwd, env=e, shell=isinstance(cmd, str), executable="/bin/bash" if isinstance(cmd, str) else None,
                           stdout=subprocess.PIPE, stderr=subprocess.STDOUT, text=True, errors="replace", timeout=timeout)
        return p.returncode, p.stdout
    except subprocess.TimeoutExpired:
        return -9, "timeout"


def code_lines(path):
    """(line index, text) of lines that are code inside function bodies (rough): no comments, imports, const tables"""
    res = []
    inblock = False
    infunc = False
    for i, l in enumerate(open(path, errors="replace").read().split("\n")):
        st = l.strip()
        if inblock:
            if "*/" in st:
                inblock = False
            continue
        if st.startswith("/*"):
            inblock = "*/" not in st
            continue
        if l.startswith("func "):
            infunc = True
        if l.startswith("}"):
            infunc = False
            continue
        if not infunc or not st or st.startswith("//") or l.startswith("func "):
            continue
        res.append((i, l))
    return res


def candidates(repo, files):
    c = []
    for f in files:
        p = os.path.join(repo, f)
        if not os.path.exists(p):
            continue
        for i, l in code_lines(p):
            code = l.split("//")[0]
            for pat, reps in OPS:
                for m in re.finditer(pat, code):
                    # not inside a string / rune literal (rough: even number of quotes before the match)
                    before = code[:m.start()]
                    if before.count('"') % 2 or before.count("`") % 2 or before.count("'") % 2:
                        continue
                    for r in reps:
                        c.append({"file": f, "line": i + 1, "col": m.start(), "old": m.group(0), "new": r})
            m = re.match(r"^(\s*)if (.+) \{\s*$", code)
            if m and ";" not in m.group(2):
                c.append({"file": f, "line": i + 1, "col": -1, "old": "if " + m.group(2), "new": "if !(" + m.group(2) + ")"})
    return c


def apply(repo, mu):
    p = os.path.join(repo, mu["file"])
    lines = open(p, errors="replace").read().split("\n")
    l = lines[mu["line"] - 1]
    if mu["col"] < 0:
        l = l.replace(mu["old"], mu["new"], 1)
    else:
        l = l[:mu["col"]] + mu["new"] + l[mu["col"] + len(mu["old"]):]
    lines[mu["line"] - 1] = l
    open(p, "w").write("\n".join(lines))
    return l.strip()


def worker(pid, files, want, seed, k, log):
    wt = "/tmp/mc-%s-%d" % (pid, k)
    subprocess.run(["git", "-C", "/repo", "worktree", "remove", "--force", wt], stdout=subprocess.DEVNULL, stderr=subprocess.DEVNULL)
    subprocess.run(["git", "-C", "/repo", "worktree", "add", "-q", "--detach", wt, "HEAD"], check=True)
    rnd = random.Random("%s-%d-%d" % (pid, seed, k))
    cands = candidates(wt, files)
    rnd.shuffle(cands)
    res = []
    tried = 0
    try:
        for mu in cands:
            if len(res) >= want or tried >= want * 12:
                break
            tried += 1
            sh(["git", "checkout", "-q", "--", "."], cwd=wt)
            newline = apply(wt, mu)
            pk = "./" + os.path.dirname(mu["file"]) + "/..."
            rc, out = sh("go build ./... 2>&1 | tail -3", cwd=wt, timeout=300)
            if rc != 0 or "cannot" in out or "undefined" in out or "syntax error" in out or ": " in out and ".go:" in out:
                continue
            rc, out = sh("go test -vet=off -count=1 -timeout 120s ./... 2>&1 | grep -v 'no test files'", cwd=wt, timeout=900)
            if "FAIL" in out or "panic:" in out or rc == -9:
                continue            # killed by the existing tests (or hangs them)
            t0 = time.time()
            rc, out = sh(["./check", pid], cwd=V, env={"VERIF_REPO": wt}, timeout=1500)
            viol = [x for x in out.splitlines() if x.startswith("VIOLATION")]
            first = next((x[2:] for x in out.splitlines() if x.startswith("# ")), "")
            r = dict(mu, property=pid, mutated_line=newline[:160], exit=rc, caught=rc == 1 and bool(viol),
                     concrete=any("no-failing-input-found" not in x for x in viol), first_report=first[:200],
                     wall_s=round(time.time() - t0, 1))
            if not r["caught"]:
                # the file may be anchored by further properties: a mutant counts as caught when any of them reports it
                for other in sorted(p2 for p2, fs in ALLPROPS.items() if p2 != pid and mu["file"] in fs):
                    rc2, out2 = sh(["./check", other], cwd=V, env={"VERIF_REPO": wt}, timeout=1500)
                    v2 = [x for x in out2.splitlines() if x.startswith("VIOLATION")]
                    r.setdefault("also", {})[other] = {"caught": rc2 == 1 and bool(v2),
                                                       "concrete": any("no-failing-input-found" not in x for x in v2)}
                    shutil_rm(os.path.join(V, ".work", other + "-" + hashlib.sha1(wt.encode()).hexdigest()[:8]))
            res.append(r)
            log("%s %s:%d %r -> %r  %s %s" % (pid, mu["file"], mu["line"], mu["old"][:30], mu["new"][:36],
                                                "CAUGHT" if r["caught"] else ("CAUGHT-BY " + ",".join(k for k, v in r.get("also", {}).items() if v["caught"])) if any(v["caught"] for v in r.get("also", {}).values()) else "SILENT(exit %d)" % rc,
                                                "" if r["concrete"] or not r["caught"] else "(no concrete input)"))
    finally:
        subprocess.run(["git", "-C", "/repo", "worktree", "remove", "--force", wt], stdout=subprocess.DEVNULL)
        shutil_rm(os.path.join(V, ".work", pid + "-" + hashlib.sha1(wt.encode()).hexdigest()[:8]))
    return res


def shutil_rm(p):
    import shutil
    shutil.rmtree(p, ignore_errors=True)


def main():
    a = sys.argv[1:]
    j, n, seed = 3, 12, 1
    while a and a[0].startswith("-"):
        if a[0] == "-j":
            j = int(a[1]); a = a[2:]
        elif a[0] == "-n":
            n = int(a[1]); a = a[2:]
        elif a[0] == "--seed":
            seed = int(a[1]); a = a[2:]
    props = {}
    for l in open(os.path.join(V, "properties.jsonl")):
        p = json.loads(l)
        props[p["id"]] = p["anchors"]["files"]
    ALLPROPS.update(props)
    ids = a or sorted(props)
    lockf = open(OUT + ".lock", "w")

    def log(s):
        print(s)
        sys.stdout.flush()

    jobs = []
    per = max(1, (n + 1) // 2)
    for pid in ids:
        for k in range(2):
            jobs.append((pid, props[pid], per, seed, k, log))
    allres = json.load(open(OUT)) if os.path.exists(OUT) else {}
    with ThreadPoolExecutor(max_workers=j) as ex:
        for res in ex.map(lambda t: worker(*t), jobs):
            for r in res:
                key = "%s:%s:%d:%d:%s" % (r["property"], r["file"], r["line"], r["col"], r["new"])
                allres[key] = r
            tmp = OUT + ".tmp"
            json.dump(allres, open(tmp, "w"), indent=1, sort_keys=True)
            os.replace(tmp, OUT)
    tot = len(allres)
    caught = sum(1 for r in allres.values() if r["caught"] or any(v["caught"] for v in r.get("also", {}).values()))
    print("survivors of the test suite: %d, caught by the checks: %d, silent: %d" % (tot, caught, tot - caught))
    for k2, r in sorted(allres.items()):
        if not (r["caught"] or any(v["caught"] for v in r.get("also", {}).values())):
            print("  SILENT %s  %s" % (k2, r["mutated_line"][:110]))


if __name__ == "__main__":
    main()
