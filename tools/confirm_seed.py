#!/usr/bin/env python3
"""tools/confirm_seed.py <candidate dir with patch.diff, demo, meta.json> <seeded name>

Confirms a candidate regression independently in a fresh scratch worktree of /repo:
  1. the demo passes on the unchanged tree,
  2. the patch applies, the library builds and its whole existing test suite still passes,
  3. the demo fails with the patch applied.
Only then the candidate is stored as /verif/seeded/<name>/ (patch.diff, demo, meta.json with what was run)."""
import json
import os
import shutil
import subprocess
import sys
import tempfile


def sh(cmd, cwd, timeout=1800):
    env = dict(os.environ, GOFLAGS="-mod=mod", GOPROXY="off")
    env.pop("GOTOOLCHAIN", None)
    p = subprocess.run(cmd, cwd=cwd, shell=True, executable='/bin/bash', env=env, stdout=subprocess.PIPE, stderr=subprocess.STDOUT, text=True,
                       timeout=timeout)
    return p.returncode, p.stdout


def main():
    cand, name = sys.argv[1], sys.argv[2]
    meta = json.load(open(os.path.join(cand, "meta.json")))
    demo_dir = meta.get("demo_dir", ".").replace("/tmp/mut/wt-%s/" % meta.get("property", ""), "").strip("/")
    demo_cmd = meta["demo_cmd"]
    demos = [f for f in os.listdir(cand) if f not in ("patch.diff", "meta.json")]
    wt = tempfile.mkdtemp(prefix="confirm-", dir="/tmp")
    os.rmdir(wt)
    subprocess.run(["git", "-C", "/repo", "worktree", "add", "-q", "--detach", wt, "HEAD"], check=True)
    ran = []
    ok = False
    try:
        ddir = os.path.join(wt, demo_dir) if demo_dir not in ("", ".") else wt
        os.makedirs(ddir, exist_ok=True)
        for d in demos:
            src = os.path.join(cand, d)
            if os.path.isdir(src):
                shutil.copytree(src, os.path.join(ddir, d))
            else:
                shutil.copy(src, ddir)
        # the demo command may mention the agent's worktree path
        cmd = demo_cmd.replace("/tmp/mut/wt-%s" % meta.get("property", ""), wt)
        rc0, out0 = sh(cmd, wt if ("cd " in cmd or (demo_dir not in ("", ".") and demo_dir in cmd)) else ddir)
        ran.append({"step": "demo on unchanged tree", "cmd": cmd, "exit": rc0})
        rc, out = sh("git apply " + os.path.abspath(os.path.join(cand, "patch.diff")), wt)
        ran.append({"step": "git apply patch.diff", "exit": rc})
        if rc != 0:
            print("patch does not apply:", out)
            return 1
        # move demo away while running the suite
        stash = tempfile.mkdtemp(prefix="demo-", dir="/tmp")
        for d in demos:
            shutil.move(os.path.join(ddir, d), stash)
        rcs, outs = sh("go build ./... && go test -vet=off -count=1 ./... 2>&1 | grep -v 'no test files'", wt)
        suite_ok = rcs == 0 and "FAIL" not in outs
        if not suite_ok:
            print("suite failures:", [l for l in outs.splitlines() if "FAIL" in l or "panic" in l][:10])
        ran.append({"step": "existing suite with patch", "cmd": "go build ./... && go test -vet=off -count=1 ./...",
                    "passes": suite_ok})
        for d in os.listdir(stash):
            shutil.move(os.path.join(stash, d), ddir)
        shutil.rmtree(stash, ignore_errors=True)
        rc1, out1 = sh(cmd, wt if ("cd " in cmd or (demo_dir not in ("", ".") and demo_dir in cmd)) else ddir)
        ran.append({"step": "demo with patch", "cmd": cmd, "exit": rc1})
        ok = rc0 == 0 and suite_ok and rc1 != 0
        print("demo unchanged exit=%d, suite with patch %s, demo with patch exit=%d -> %s" % (
            rc0, "passes" if suite_ok else "FAILS", rc1, "CONFIRMED" if ok else "REJECTED"))
        if not ok:
            print(out0[-600:])
            print(outs[-600:])
            print(out1[-600:])
    finally:
        subprocess.run(["git", "-C", "/repo", "worktree", "remove", "--force", wt])
    if ok:
        dst = os.path.join("/verif/seeded", name)
        shutil.rmtree(dst, ignore_errors=True)
        shutil.copytree(cand, dst)
        meta["demo_dir"] = demo_dir
        meta["confirmed"] = ran
        meta["source"] = "independent sub-agent given only the property text and a scratch worktree"
        json.dump(meta, open(os.path.join(dst, "meta.json"), "w"), indent=1)
    return 0 if ok else 1


if __name__ == "__main__":
    sys.exit(main())
