#!/usr/bin/env python3
"""tools/run_seeds.py [-j N] [name-substring ...]
Runs every seeded change under /verif/seeded against the check of its property (tools/mut.sh, scratch worktree of /repo,
never /repo itself) and records caught / missed in /verif/seeded/results.json.  A change is `caught` when the check exits 1
with a VIOLATION line; `concrete` when at least one VIOLATION line carries a replay with a concrete failing input (i.e. does
not end in no-failing-input-found)."""
import json
import os
import re
import subprocess
import sys
import time
from concurrent.futures import ThreadPoolExecutor

SEEDED = "/verif/seeded"
RESULTS = os.path.join(SEEDED, "results.json")


def prop_of(name):
    m = re.search(r"-c(\d\d)-", name + "-")
    return "C" + m.group(1) if m else None


def run(name, also=None):
    pid = also or prop_of(name)
    patch = os.path.join(SEEDED, name, "patch.diff")
    t0 = time.time()
    try:
        p = subprocess.run(["/verif/tools/mut.sh", patch, pid], stdout=subprocess.PIPE, stderr=subprocess.STDOUT, text=True,
                           timeout=3600)
        out, rc = p.stdout, p.returncode
    except subprocess.TimeoutExpired:
        # no verdict (typically: an hour in the queue for the shared Lean lock on a loaded machine): keep the previous record
        return name, pid, None
    viol = [l for l in out.splitlines() if l.startswith("VIOLATION")]
    first = next((l[2:] for l in out.splitlines() if l.startswith("# ")), "")
    return name, pid, {
        "property": pid, "exit": rc, "caught": rc == 1 and bool(viol),
        "concrete": any("no-failing-input-found" not in l for l in viol),
        "first_report": first[:240], "wall_s": round(time.time() - t0, 1),
        "applies": "patch does not apply" not in out,
    }


def save_one(key, r):
    """merge one result into results.json under a lock (several builders may run this tool at once)"""
    import fcntl
    with open(RESULTS + ".lock", "w") as lk:
        fcntl.flock(lk, fcntl.LOCK_EX)
        cur = json.load(open(RESULTS)) if os.path.exists(RESULTS) else {}
        cur[key] = r
        tmp = RESULTS + ".tmp"
        json.dump(cur, open(tmp, "w"), indent=1, sort_keys=True)
        os.replace(tmp, RESULTS)


def main():
    args = sys.argv[1:]
    j = 3
    if args and args[0] == "-j":
        j = int(args[1])
        args = args[2:]
    names = sorted(d for d in os.listdir(SEEDED)
                   if os.path.exists(os.path.join(SEEDED, d, "patch.diff")) and prop_of(d)
                   )
    if args:
        names = [n for n in names if any(a in n for a in args)]
    res = json.load(open(RESULTS)) if os.path.exists(RESULTS) else {}
    jobs = [(n, None) for n in names]
    # a seeded change may concern further properties: seeded/<name>/also.txt lists them (one id per line); the expectation
    # (caught / silent) is the same as for the property in its name
    for n in names:
        ap = os.path.join(SEEDED, n, "also.txt")
        if os.path.exists(ap):
            for pid in open(ap).read().split():
                jobs.append((n, pid))
    # the Rect.Contains revert concerns the quadtree as well
    if "revert-c18-rect-contains" in names:
        jobs.append(("revert-c18-rect-contains", "C07"))
    # one run per property at a time (mut.sh work dirs are per property+worktree, but the Lean lock serialises anyway)
    with ThreadPoolExecutor(max_workers=j) as ex:
        for name, pid, r in ex.map(lambda a: run(*a), jobs):
            key = name if pid == prop_of(name) else name + "@" + pid
            if r is None:
                print("%-40s %s TIMEOUT (no verdict; previous record kept)" % (key, pid), flush=True)
                continue
            if name.startswith("control-"):
                r["expected"] = "silent"
                r["ok"] = r["exit"] == 0
            elif name.startswith("rewrite-"):
                # a behaviour-preserving rewrite that breaks a PROOF OBLIGATION (translator tie): by the brief it is
                # reported, but only as `... no-failing-input-found`; a concrete replay would be a false alarm
                r["expected"] = "no concrete violation (silent, or reported with no-failing-input-found only)"
                r["ok"] = r["exit"] == 0 or (r["caught"] and not r["concrete"])
            else:
                r["expected"] = "caught"
                r["ok"] = r["caught"]
            res[key] = r
            save_one(key, r)
            print("%-40s %s %s %s %.0fs" % (key, pid, ("SILENT" if r["ok"] else "FALSE-ALARM") if name.startswith("control-") else
                                            ("NO-CONCRETE" if r["ok"] else "FALSE-ALARM") if name.startswith("rewrite-") else
                                            "CAUGHT" if r["caught"] else ("NOAPPLY" if not r["applies"] else "MISSED"),
                                            "" if r["concrete"] or not r["caught"] else "(no concrete input)", r["wall_s"]))
            sys.stdout.flush()
    res = json.load(open(RESULTS)) if os.path.exists(RESULTS) else res
    bad = [k for k, v in res.items() if not v.get("ok", v.get("caught"))]
    print("total %d, as expected %d, not as expected: %s" % (len(res), len(res) - len(bad), bad))


if __name__ == "__main__":
    main()
