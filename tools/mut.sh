#!/bin/sh
# tools/mut.sh <patch.diff> <Cxx> [tier]  — run a check against a scratch worktree of /repo with the patch applied.
# Prints the check's output; exit status 1 = violation reported (the mutation was caught).
set -u
patch=$(readlink -f "$1"); id=$2; tier=${3:-quick}
wt=$(mktemp -d /tmp/mutwt-XXXXXX)
git -C /repo worktree add -q --detach "$wt" HEAD || exit 3
if ! git -C "$wt" apply "$patch"; then echo "patch does not apply"; git -C /repo worktree remove --force "$wt"; exit 3; fi
cd /verif
VERIF_REPO="$wt" ./check "$id" --tier "$tier"
rc=$?
git -C /repo worktree remove --force "$wt"
tag=$(printf %s "$wt" | sha1sum | cut -c1-8)
rm -rf "/verif/.work/$id-$tag" 2>/dev/null
exit $rc
