#!/bin/bash
# tools/take_seed5.sh <round dir, e.g. /tmp/mut5> <Cxx>
# Round-5 format: out-Cxx/a = regression (stored as seeded/ind5-cxx-a), out-Cxx/c = behaviour-preserving control
# (stored as seeded/control-ind5-cxx). Confirms each independently, runs the property's check on it.
round=$1; id=$2
lid=$(echo "$id" | tr 'C' 'c')
cd /verif || exit 1
for x in a c; do
  d="$round/out-$id/$x"
  [ -f "$d/patch.diff" ] || { echo "$id/$x: no patch"; continue; }
  python3 - "$d/meta.json" "$round/wt-$id" <<'PY'
import json,sys
p,wt=sys.argv[1],sys.argv[2]
m=json.load(open(p))
c=m.get('demo_cmd','').split('   (')[0]
c=c.replace('cd '+wt+' && ','').replace(wt+'/','')
m['demo_cmd']=c
d=m.get('demo_dir','.')
m['demo_dir']=d.replace(wt+'/','').replace(wt,'.')
json.dump(m,open(p,'w'),indent=1)
PY
done
if [ -f "$round/out-$id/a/patch.diff" ]; then
  python3 tools/confirm_seed.py "$round/out-$id/a" "ind5-$lid-a" 2>&1 | head -2
  if [ -d "seeded/ind5-$lid-a" ]; then
    echo "== ind5-$lid-a vs check $id"
    tools/mut.sh "seeded/ind5-$lid-a/patch.diff" "$id" 2>&1 | grep -E "^VIOLATION|^# |tier=" | head -4 | cut -c1-220
  fi
fi
if [ -f "$round/out-$id/c/patch.diff" ]; then
  python3 tools/take_control.py "$round/out-$id/c" "control-ind5-$lid" "$id" 2>&1 | head -10
fi
git -C /repo worktree remove --force "$round/wt-$id" 2>/dev/null
