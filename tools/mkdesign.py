#!/usr/bin/env python3
"""Regenerates the as-built block of DESIGN.md (between the ASBUILT markers) from MANIFEST.json, the evidence files and
seeded/results.json, so that the counts in the document are the ones the checks measured."""
import json
import os
import re

V = "/verif"
AREAS = {
 "C01": "`int128` (both types, one line per call) + a second pass histogramming dispatch path x correction counts",
 "C02": "`conv`, `f64` (model vs hardware), `words` (big.Int word slices before/after, 64- and 32-bit builds), `format` (Format through a harness fmt.State, Sprintf and Sscanf read-back), `glue` oracle (fmt/JSON/YAML/Scan vs math/big); source facts regenerated into `Generated/C02Facts.lean`; overlay accessor for private constants with black-box fallback",
 "C03": "`fx` (exact result representable - classified by the result, not by a margin), `fxwrap` (overflow, model-vs-code only), `fxfloatm` (float conversions through the model), `fxfloat` oracle (big.Rat bound), twin comparison f64 vs f128; conversion-constant tie `c03facts` -> `Props/C03Conv.lean`; overlay accessor for f128 raw data",
 "C04": "`val`, `parse` (plain, exponent, hexadecimal and underscore texts - all modelled), `as`, `txtfn`, `fltm`; oracles `float`, `exp`, `misc`",
 "C05": "per-call validation: `lattice` (exhaustive per call), `general` (margin-checked sample points), fixed `degenerate` corpus; transcribed stages `prune`, `emit`, `sbt`, `lmt` (overlay accessors, stub fallback), `contains` (library point tests)",
 "C06": "`rbtree` histories (results; compare counts judged against the property's bound; functional and pointer-level model in lock step), overlay `dump`/`inv`",
 "C07": "`quadtree` (Int / exact Rat), `quadwrap` (Int64 model, ends of the int64 range), `quadfloat` (IEEE-double model, non-dyadic floats); oracles `floatscan`, `intwrap`",
 "C08": "`bitset` histories on two sets (mutators print Count + a hash of the canonical words; every line also through the access-checked machine-int model), `popcnt` (Go countSetBits via overlay vs model vs popcount)",
 "C09": "`struct` (symbolic operators), `val` (tree walk, independent reference), `wf` oracle, `fxval` and `flval` (model computes fixed / float64 / float32 values; float compared bit for bit, also on a reused evaluator), `state` (advisory white-box stack dump after every call)",
 "C10": "`parse` with child processes for exits and response files on disk (float and duration values computed by the model), `ax` (process ends through atexit), `gs`/`gf` lines; `bufio.MaxScanTokenSize` regenerated into `Generated/C10Facts.lean`",
 "C11": "`errs` histories over named variables (pointer identity, every variable printed; Is/As/Recovery/Log* ops), `trace` (whole Detail text over real frames taken with runtime.Callers), `fmt` oracle",
 "C12": "`rot` (whole directory after every op, deadline per Write; restarts, also with other limits), `rotf` (real faults: immutable slots, a file where the directory should be, RLIMIT_FSIZE), `rotfd` (descriptor closed behind the rotator's back), `rotdef`, `stress` oracle (+ `-race`); call-inventory tie `c12facts` -> `Generated/RotationCalls.lean` -> `Props/C12Calls.lean`",
 "C13": "`log` histories (derivation trees, nested multilog handlers, scripted children incl. reused sentinel errors, the library's own stackValue), `rec` (errs.Recovery call by call), `sched` scripts (forced schedules, exhaustion = inconclusive), `stress` oracle (`-race`); facts tie `c13facts` -> `Props/C13Facts.lean`",
 "C14": "`api`, `duo` (two handles), `wf` (callback modes, in-process write faults), `trace` / `hist` / `multi` (strace: sequences, histories with faults on any call, multi-fault, SIGKILL at every syscall)",
 "C15": "`cfg` (New's options vs TQNew.newCfg), `forced` schedules (model explores all interleavings per line), `stress` oracle in child processes incl. simultaneous first use, channel-protocol tie `c15facts` -> `Generated/C15Facts.lean` -> `Props/C15Chan.lean`",
 "C16": "`burst` (lock step with observed ticks; whole private state compared after every call; `rwin` read-lock windows, `chancap`), `window` (forced Close-vs-tick schedules, all interleavings by RL.explore), `stress` oracle in child processes (+ `-race`)",
 "C17": "`notifier` (re-entrant targets at any depth, merges in both directions), `nwb` (white-box dumps of all three maps about every third operation, source dumped after a merge), `race` oracle judged twice (Go judge and `drv_c17 lin` against the mutex machine)",
 "C18": "`rect` (`ri`/`rf` exact, `rw` Int64 with wrap-around, `rd` IEEE double bit for bit), `arith` (`ai`/`af`/`aw`), `matrix`, `poly` (exact dyadics; `pd` Bounds in source form at double), oracles `rotate`, `floatspec`, `compose`",
 "C19": "`extract` (whole sandbox tree under and beside the destination; payload, CRC and write-limit faults), `dstform` (destination spellings, removed working directory), `closefault` (strace-injected close failure), `guard` (EnsureNoSymlinks through an overlay accessor), `dstlinkm`",
 "C20": "`natsort` (pairs, NaturalLess, both sort functions), `rows` (all 256x256 byte pairs in 16 contexts, both modes)",
}


def main():
    man = json.load(open(os.path.join(V, "MANIFEST.json")))
    rows = []
    for c in man["checks"]:
        pid = c["property_id"]
        ev = json.load(open(c["evidence_file"]))
        cov = ev["coverage"]
        files = [f for f in cov.get("lean_files_scanned", []) if f.startswith("Model/") or f.startswith("GoSem/")]
        rows.append("| %s | %s | %d/%d | %s | %s |" % (
            pid, ", ".join("`%s`" % f for f in files) or "-", cov["discharged"], cov["obligations"],
            "{:,}".format(cov["evaluations"]), AREAS.get(pid, "")))
    res = {}
    rp = os.path.join(V, "seeded", "results.json")
    if os.path.exists(rp):
        res = json.load(open(rp))
    kinds = {"revert-": "reverse patches of the `fix:` commits", "own-": "builders' own mutations",
             "ind-": "independent testers, round 1", "ind2-": "independent testers, round 2",
             "ind3-": "independent testers, round 3", "ind4-": "independent testers, round 4 (after the hardening passes)",
             "ind5-": "independent testers, round 5 (dependencies and left-behind state)",
             "ind6-": "independent testers, round 6", "ind7-": "independent testers, round 7 (after the extension wave)",
             "control-": "behaviour-preserving controls (expected: no alarm)",
             "rewrite-": "behaviour-preserving rewrites that break a translator-tie proof (expected: reported only as no-failing-input-found)"}
    srows = []
    for k, label in kinds.items():
        items = {n: v for n, v in res.items() if n.startswith(k)}
        ok = sum(1 for v in items.values() if v.get("ok", v.get("caught")))
        noconc = sum(1 for v in items.values() if v.get("caught") and not v.get("concrete"))
        bad = sorted(n for n, v in items.items() if not v.get("ok", v.get("caught")))
        srows.append("| %s | %d | %d | %s | %s |" % (label, len(items), ok, noconc if k not in ("control-",) else "-", ", ".join(bad) or "-"))
    block = ["<!-- ASBUILT-BEGIN -->",
             "**As built, per property** (generated by `tools/mkdesign.py` from the evidence of the last quick run; "
             "`obligations` = theorems of `lean/Props/Cxx.lean` (and of the translator-tie modules `Props/CxxGen*.lean` where they exist) audited with `#print axioms` on every run; what is *not* "
             "proved is in each MANIFEST `level_note`):", "",
             "| Prop | Executable model files (`lean/`) | Theorems discharged | Evaluations per quick run | Tie to the code (areas of `go/cmd/cNN`) |",
             "|---|---|---|---|---|"] + rows + ["",
             "**Seeded changes** (`seeded/results.json`, produced by `tools/run_seeds.py`; each run applies the patch to a scratch "
             "worktree and runs the registered quick check of the property):", "",
             "| Kind | Number | As expected | Caught without a concrete input | Not as expected |", "|---|---|---|---|---|"] + srows + [
             "", "<!-- ASBUILT-END -->"]
    p = os.path.join(V, "DESIGN.md")
    s = open(p).read()
    s = re.sub(r"<!-- ASBUILT-BEGIN -->.*?<!-- ASBUILT-END -->", lambda m: "\n".join(block), s, flags=re.S)
    # per-property build notes of the extension session (one file per property, owned by its builder)
    nd = os.path.join(V, "tools", "design.d")
    notes = ["<!-- NOTES-BEGIN -->",
             "**Extension session, per property** (stitched by `tools/mkdesign.py` from `tools/design.d/Cxx.md`, each written by "
             "the builder of that property: what was added to model, theorems and tie after round 5, what round 6 and the "
             "mutation campaign showed, what stays unproved):", ""]
    if os.path.isdir(nd):
        for f in sorted(os.listdir(nd)):
            if f.endswith(".md"):
                notes.append("*%s.* %s" % (f[:-3], open(os.path.join(nd, f)).read().strip()))
                notes.append("")
    notes.append("<!-- NOTES-END -->")
    if "<!-- NOTES-BEGIN -->" in s:
        s = re.sub(r"<!-- NOTES-BEGIN -->.*?<!-- NOTES-END -->", lambda m: "\n".join(notes), s, flags=re.S)
    else:
        s = s.replace("<!-- ASBUILT-END -->", "<!-- ASBUILT-END -->\n\n" + "\n".join(notes), 1)
    open(p, "w").write(s)
    print("DESIGN.md as-built block regenerated")


if __name__ == "__main__":
    main()
