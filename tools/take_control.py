#!/usr/bin/env python3
"""tools/take_control.py <candidate dir with patch.diff, equiv_test.go, meta.json> <seeded name (control-...)> <Cxx>

Confirms a behaviour-preserving CONTROL produced by an independent tester in a fresh scratch worktree of /repo:
  1. its equivalence test passes on the unchanged tree,
  2. the patch applies, the library builds and its whole existing test suite passes,
  3. the equivalence test passes with the patch applied as well.
Only then it is stored as /verif/seeded/<name>/ and the check of the property is run on it (tools/mut.sh): it must stay silent."""
import json
import os
import shutil
import subprocess
import sys
import tempfile


def sh(cmd, cwd, timeout=1800):
    env = dict(os.environ, GOFLAGS="-mod=mod", GOPROXY="off")
    env.pop("GOTOOLCHAIN", None)
    p = subprocess.run(cmd, cwd=cwd, shell=True, executable="/bin/bash", env=env, stdout=subprocess.PIPE,
                       stderr=subprocess.STDOUT, text=True, timeout=timeout)
    return p.returncode, p.stdout


def main():
    cand, name, pid = sys.argv[1], sys.argv[2], sys.argv[3]
    meta = json.load(open(os.path.join(cand, "meta.json")))
    demo_dir = meta.get("demo_dir", ".").strip("/")
    cmd = meta["demo_cmd"].split("   (")[0]
    demos = [f for f in os.listdir(cand) if f not in ("patch.diff", "meta.json")]
    wt = tempfile.mkdtemp(prefix="confirm-", dir="/tmp")
    os.rmdir(wt)
    subprocess.run(["git", "-C", "/repo", "worktree", "add", "-q", "--detach", wt, "HEAD"], check=True)
    ran, ok = [], False
    try:
        ddir = os.path.join(wt, demo_dir) if demo_dir not in ("", ".") else wt
        for d in demos:
            shutil.copy(os.path.join(cand, d), ddir)
        rc0, out0 = sh(cmd, wt)
        ran.append({"step": "equivalence test on unchanged tree", "cmd": cmd, "exit": rc0})
        rc, out = sh("git apply " + os.path.abspath(os.path.join(cand, "patch.diff")), wt)
        if rc != 0:
            print("patch does not apply:", out)
            return 1
        rc1, out1 = sh(cmd, wt)
        ran.append({"step": "equivalence test with patch", "cmd": cmd, "exit": rc1})
        for d in demos:
            os.remove(os.path.join(ddir, d))
        rcs, outs = sh("go build ./... && go test -vet=off -count=1 ./... 2>&1 | grep -v 'no test files'", wt)
        suite_ok = rcs == 0 and "FAIL" not in outs
        ran.append({"step": "existing suite with patch", "passes": suite_ok})
        ok = rc0 == 0 and rc1 == 0 and suite_ok
        print("equiv unchanged exit=%d, with patch exit=%d, suite with patch %s -> %s" % (
            rc0, rc1, "passes" if suite_ok else "FAILS", "CONFIRMED" if ok else "REJECTED"))
        if not ok:
            print(out0[-500:], outs[-500:], out1[-500:])
    finally:
        subprocess.run(["git", "-C", "/repo", "worktree", "remove", "--force", wt])
    if not ok:
        return 1
    dst = os.path.join("/verif/seeded", name)
    shutil.rmtree(dst, ignore_errors=True)
    shutil.copytree(cand, dst)
    meta["confirmed"] = ran
    meta["kind"] = "control (behaviour-preserving rewrite; the check must stay silent)"
    meta["source"] = "independent sub-agent given only the property text and a scratch worktree"
    json.dump(meta, open(os.path.join(dst, "meta.json"), "w"), indent=1)
    p = subprocess.run(["/verif/tools/mut.sh", os.path.join(dst, "patch.diff"), pid], stdout=subprocess.PIPE,
                       stderr=subprocess.STDOUT, text=True)
    viol = [l for l in p.stdout.splitlines() if l.startswith("VIOLATION") or l.startswith("# ")]
    print("check %s on %s: exit=%d %s" % (pid, name, p.returncode, "SILENT" if p.returncode == 0 else "ALARM"))
    for l in viol[:6]:
        print("   " + l[:260])
    return 0


if __name__ == "__main__":
    sys.exit(main())
