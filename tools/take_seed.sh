#!/bin/bash
# tools/take_seed.sh <round dir, e.g. /tmp/mut2> <Cxx> <prefix, e.g. ind2>
# Confirms both candidates of an independent tester, stores them as seeded/<prefix>-cxx-{a,b}, runs the check on each.
round=$1; id=$2; prefix=$3
lid=$(echo "$id" | tr 'C' 'c')
cd /verif || exit 1
for x in a b; do
  d="$round/out-$id/$x"
  [ -f "$d/patch.diff" ] || { echo "$id/$x: no patch"; continue; }
  python3 - "$d/meta.json" "$round/wt-$id" <<'PY'
import json,sys,re
p,wt=sys.argv[1],sys.argv[2]
m=json.load(open(p))
c=m.get('demo_cmd','')
c=c.split('   (')[0]
c=c.replace('cd '+wt+' && ','').replace(wt+'/','')
m['demo_cmd']=c
d=m.get('demo_dir','.')
m['demo_dir']=d.replace(wt+'/','').replace(wt,'.')
json.dump(m,open(p,'w'),indent=1)
PY
  python3 tools/confirm_seed.py "$d" "$prefix-$lid-$x" 2>&1 | head -2
  if [ -d "seeded/$prefix-$lid-$x" ]; then
    echo "== $prefix-$lid-$x vs check $id"
    tools/mut.sh "seeded/$prefix-$lid-$x/patch.diff" "$id" 2>&1 | grep -E "^VIOLATION|^# |tier=" | head -4 | cut -c1-220
  fi
done
git -C /repo worktree remove --force "$round/wt-$id" 2>/dev/null
