import Model.EvalSoftFloat
import Generated.C10Facts
/-! C10: the argument scanner of `cmdline.(*CmdLine).Parse` (cmdline.go:86-195), option-table construction
    (cmdline.go:225-249, option.go:36-66), `@file` expansion with the `seen` guard, and the typed `Set` layer of
    `GeneralValue` (values.go) for the bool / integer / string kinds.  Strings are byte lists (bytes as `Nat`), because
    the Go code mixes a rune loop with byte arithmetic.  Core-only. -/
namespace Cmd

abbrev Str := List Nat

def ofString (s : String) : Str := s.toUTF8.toList.map (·.toNat)

/-- "true" -/
def strTrue : Str := [116, 114, 117, 101]

structure Opt where
  id : Nat
  isBool : Bool
deriving DecidableEq, Repr

/-- the option table: long names and one-character names live in the same map, as in the source -/
abbrev Table := Str → Option Opt

/-- the abstracted `Value.Set`: does option `id` accept this raw string? -/
abbrev Accepts := Nat → Str → Bool

inductive Mode
  | look
  | value (o : Opt)
  | collect

structure PAcc where
  sets : List (Nat × Str) := []       -- assignments in order
  rest : List Str := []               -- positional arguments in order
deriving DecidableEq, Repr

inductive Res | ok (a : PAcc) | fatal
deriving DecidableEq, Repr

/-! ### Go's `for j, ch := range arg` : UTF-8 decoding of the first rune -/

def isCont (b : Nat) : Bool := 128 ≤ b && b ≤ 191

/-- (width in bytes, valid) of the first rune, as `utf8.DecodeRuneInString`; an invalid sequence is width 1 -/
def runeLen : Str → Nat × Bool
  | [] => (1, false)
  | c :: t =>
    if c < 128 then (1, true)
    else if 194 ≤ c && c ≤ 223 then
      match t with
      | b1 :: _ => if isCont b1 then (2, true) else (1, false)
      | _ => (1, false)
    else if 224 ≤ c && c ≤ 239 then
      match t with
      | b1 :: b2 :: _ =>
        if (if c = 224 then 160 else 128) ≤ b1 && b1 ≤ (if c = 237 then 159 else 191) && isCont b2 then (3, true)
        else (1, false)
      | _ => (1, false)
    else if 240 ≤ c && c ≤ 244 then
      match t with
      | b1 :: b2 :: b3 :: _ =>
        if (if c = 240 then 144 else 128) ≤ b1 && b1 ≤ (if c = 244 then 143 else 191) && isCont b2 && isCont b3
        then (4, true) else (1, false)
      | _ => (1, false)
    else (1, false)

/-- U+FFFD in UTF-8 -/
def fffd : Str := [239, 191, 189]

/-- `string(ch)` for the rune the range loop yields at the head of `s` -/
def runeKey (s : Str) : Str := if (runeLen s).2 then s.take (runeLen s).1 else fffd

/-- Go's `string(rune)` -/
def encodeRune (r : Int) : Str :=
  if r < 0 then fffd else
  let n := r.toNat
  if n < 128 then [n]
  else if n < 2048 then [192 + n / 64, 128 + n % 64]
  else if n < 65536 then
    (if 55296 ≤ n && n ≤ 57343 then fffd else [224 + n / 4096, 128 + n / 64 % 64, 128 + n % 64])
  else if n ≤ 1114111 then [240 + n / 262144, 128 + n / 4096 % 64, 128 + n / 64 % 64, 128 + n % 64]
  else fffd

/-! ### the scanner -/

/-- `setOrFail`: `none` = FatalMsg -/
def set (acc : Accepts) (a : PAcc) (o : Opt) (v : Str) : Option PAcc :=
  if acc o.id v then some { a with sets := a.sets ++ [(o.id, v)] } else none

/-- split at the first '=' (`strings.Index(arg, "=")`) -/
def splitEq : Str → Str × Option Str
  | [] => ([], none)
  | 61 :: t => ([], some t)
  | c :: t => let (a, b) := splitEq t; (c :: a, b)

/-- `_, size := utf8.DecodeRuneInString(arg[j:])`: the number of bytes the range loop consumes for the rune at the
    head of `s` (1 for an invalid byte, which the loop yields as U+FFFD) -/
def nextLen (s : Str) : Nat := (runeLen s).1

/-- the per-rune loop over a `-abc` argument (cmdline.go:146-169); returns the new accumulator and mode, or none for
    fatal.  `next := j + size`; `next == len(arg)` starts value mode, `arg[next:next+1] == "="` and `arg[next:]` give
    the attached value. -/
def shortLoop (tbl : Table) (acc : Accepts) : Str → PAcc → Option (PAcc × Mode)
  | [], a => some (a, .look)
  | c :: t, a =>
    match tbl (runeKey (c :: t)) with
    | none => none
    | some o =>
      if o.isBool then
        match set acc a o strTrue with
        | none => none
        | some a' => shortLoop tbl acc (t.drop ((runeLen (c :: t)).1 - 1)) a'
      else match (c :: t).drop (nextLen (c :: t)) with
        | [] => some (a, .value o)
        | 61 :: v => (set acc a o v).map (fun a' => (a', .look))
        | v => (set acc a o v).map (fun a' => (a', .look))
termination_by s => s.length
decreasing_by simp; omega

/-- one argument that is not a response-file reference in `look` mode -/
def stepArg (tbl : Table) (acc : Accepts) (a : PAcc) (m : Mode) (arg : Str) : Option (PAcc × Mode) :=
  match m with
  | .collect => some ({ a with rest := a.rest ++ [arg] }, .collect)
  | .value o => (set acc a o arg).map (fun a' => (a', .look))
  | .look =>
    match arg with
    | [45, 45] => some (a, .collect)
    | [45] => some ({ a with rest := a.rest ++ [arg] }, .collect)     -- a lone "-" is the first positional
    | 45 :: 45 :: body =>
      match tbl (splitEq body).1 with
      | none => none
      | some o =>
        if o.isBool then
          (match (splitEq body).2 with
           | some _ => none
           | none => (set acc a o strTrue).map (fun a' => (a', .look)))
        else match (splitEq body).2 with
          | some v => (set acc a o v).map (fun a' => (a', .look))
          | none => some (a, .value o)
    | 45 :: body => shortLoop tbl acc body a
    | _ => some ({ a with rest := a.rest ++ [arg] }, .collect)

/-- response files: path ↦ lines -/
abbrev Files := List (Str × List Str)

/-- number of response files not yet loaded (termination measure) -/
def unseen (files : Files) (seen : List Str) : Nat := files.countP (fun e => decide (e.1 ∉ seen))

theorem unseen_le (files : Files) (seen : List Str) (p : Str) : unseen files (p :: seen) ≤ unseen files seen := by
  unfold unseen
  apply List.countP_mono_left
  intro e _ h
  simp only [List.mem_cons, not_or, decide_eq_true_eq] at h ⊢
  exact h.2

theorem unseen_lt (files : Files) (seen : List Str) (p : Str) (ins : List Str)
    (hs : p ∉ seen) (hf : files.lookup p = some ins) : unseen files (p :: seen) < unseen files seen := by
  induction files with
  | nil => simp at hf
  | cons e es ih =>
    have hle := unseen_le es seen p
    unfold unseen at *
    simp only [List.countP_cons]
    by_cases he : p = e.1
    · subst he
      have h1 : decide (e.1 ∉ e.1 :: seen) = false := by simp
      have h2 : decide (e.1 ∉ seen) = true := by simpa using hs
      simp only [h1, h2, Bool.false_eq_true, if_false, if_true, Nat.add_zero]
      omega
    · have hf' : es.lookup p = some ins := by
        cases e with
        | mk k v =>
          have : (p == k) = false := by simpa using he
          simpa [List.lookup, this] using hf
      have hlt := ih hf'
      have : (if decide (e.1 ∉ p :: seen) = true then 1 else 0) ≤ (if decide (e.1 ∉ seen) = true then 1 else 0) := by
        by_cases h : e.1 ∈ seen
        · simp [h]
        · have : e.1 ≠ p := fun x => he x.symm
          simp [h, this]
      omega

/-- the main loop of `Parse` (cmdline.go:100-176 and the check at 177-179) -/
def run (tbl : Table) (acc : Accepts) (files : Files) : List Str → PAcc → Mode → List Str → Res
  | _, a, m, [] => match m with
    | .value _ => .fatal
    | _ => .ok a
  | seen, a, m, arg :: args =>
    match m, arg with
    | .look, 64 :: path =>
      if hs : path ∈ seen then .fatal
      else match hf : files.lookup path with
        | none => .fatal
        | some ins => run tbl acc files (path :: seen) a .look (ins ++ args)
    | m, arg =>
      match stepArg tbl acc a m arg with
      | none => .fatal
      | some (a', m') => run tbl acc files seen a' m' args
termination_by seen _ _ args => (unseen files seen, args.length)
decreasing_by
  · apply Prod.Lex.left
    exact unseen_lt files seen path ins hs hf
  · apply Prod.Lex.right
    simp

/-- the scanner proper -/
def scan (tbl : Table) (acc : Accepts) (files : Files) (args : List Str) : Res := run tbl acc files [] {} .look args

/-! ### option declarations and the table (`availableOptions`) -/

/- `wbool`: a boolean behind a user-defined `Value` (not a `*GeneralValue` holding a `*bool`): it takes a value, it is
   not a flag -/
inductive Base | bool | int (bits : Nat) | uint (bits : Nat) | f32 | f64 | str | dur | log | wbool
deriving DecidableEq, Repr

structure Kind where
  base : Base
  slice : Bool
deriving DecidableEq, Repr

structure Decl where
  single : Int                 -- argument of SetSingle (0 = not set)
  name : Option Str            -- argument of SetName, if called
  kind : Kind
  defs : List Str              -- initial contents of the variable, as raw strings (one for a scalar)
deriving Repr

def Kind.isBool (k : Kind) : Bool := k.base == .bool && !k.slice

/-- the pointer types `GeneralValue.Set` has a case for: all but `*[]float32` / `*[]float64` (values.go:32-173 has no such
    case: `Set` answers "unhandled type", which `setOrFail` turns into the fatal exit) -/
def Kind.supported (k : Kind) : Bool := !(k.slice && (k.base == .f32 || k.base == .f64))

/-- ids of the built-in options -/
def idHelp : Nat := 0
def idVersion : Nat := 1
def idLongVersion : Nat := 2
def firstUserId : Nat := 3

abbrev Entries := List (Str × Opt)

def addKey (es : Entries) (k : Str) (o : Opt) : Option Entries :=
  if (es.lookup k).isSome then none else some (es ++ [(k, o)])

/-- one option in `availableOptions`: isValid, then the single-character key, then the long key -/
def addOpt (es : Entries) (single : Int) (name : Str) (o : Opt) : Option Entries :=
  if single = 0 ∧ name = [] then none else
  match (if single ≠ 0 then addKey es (encodeRune single) o else some es) with
  | none => none
  | some es1 => if name ≠ [] then addKey es1 name o else some es1

def addDecls : Entries → Nat → List Decl → Option Entries
  | es, _, [] => some es
  | es, id, d :: ds =>
    match addOpt es d.single (d.name.getD []) ⟨id, d.kind.isBool⟩ with
    | none => none
    | some es' => addDecls es' (id + 1) ds

/-- `New(includeDefault)` followed by the declarations; `none` = fatal exit (a `SetName` with fewer than two bytes
    exits at declaration time, duplicates and unnamed options exit at the start of `Parse`) -/
def build (includeDefault : Bool) (decls : List Decl) : Option Entries :=
  if decls.any (fun d => match d.name with | some n => n.length ≤ 1 | none => false) then none else
  let es0 : Entries := [([104], ⟨idHelp, true⟩), ([104, 101, 108, 112], ⟨idHelp, true⟩)]
  let es1 : Entries := if includeDefault then
      es0 ++ [([118], ⟨idVersion, true⟩), ([118, 101, 114, 115, 105, 111, 110], ⟨idVersion, true⟩),
              ([86], ⟨idLongVersion, true⟩), ([86, 101, 114, 115, 105, 111, 110], ⟨idLongVersion, true⟩)]
    else es0
  addDecls es1 firstUserId decls

def tableOf (es : Entries) : Table := fun k => es.lookup k

/-! ### the typed `Set` layer (values.go) for the kinds modelled exactly -/

def lower (c : Nat) : Nat := c ||| 32

def digitVal (c : Nat) : Option Nat :=
  if 48 ≤ c && c ≤ 57 then some (c - 48)
  else if 97 ≤ lower c && lower c ≤ 122 then some (lower c - 97 + 10)
  else none

/-- base detection of `strconv.ParseUint(s, 0, _)` -/
def splitBase : Str → Nat × Str
  | 48 :: c :: d :: r =>
    if lower c = 98 then (2, d :: r) else if lower c = 111 then (8, d :: r) else if lower c = 120 then (16, d :: r)
    else (8, c :: d :: r)
  | 48 :: r => (8, r)
  | s => (10, s)

/-- digit loop (underscores skipped, as with base 0); returns the unbounded value -/
def digits (base : Nat) : Str → Nat → Option Nat
  | [], n => some n
  | c :: t, n =>
    if c = 95 then digits base t n
    else match digitVal c with
      | some d => if d < base then digits base t (n * base + d) else none
      | none => none

/-- `strconv.underscoreOK`; state: 0 = '^', 1 = '0', 2 = '_', 3 = '!' -/
def usLoop (hex : Bool) : Str → Nat → Bool
  | [], i => i != 2
  | c :: t, i =>
    if (48 ≤ c && c ≤ 57) || (hex && 97 ≤ lower c && lower c ≤ 102) then usLoop hex t 1
    else if c = 95 then (if i != 1 then false else usLoop hex t 2)
    else if i == 2 then false
    else usLoop hex t 3

def underscoreOK (s : Str) : Bool :=
  let s := match s with
    | 45 :: r => r
    | 43 :: r => r
    | _ => s
  match s with
  | 48 :: c :: r =>
    if lower c = 98 || lower c = 111 || lower c = 120 then usLoop (lower c = 120) r 1 else usLoop false s 0
  | _ => usLoop false s 0

/-- `strconv.ParseUint(s, 0, 64)` without the range check: the value as a natural number, none = syntax error -/
def parseNat (s : Str) : Option Nat :=
  if s = [] then none else
  match digits (splitBase s).1 (splitBase s).2 0 with
  | none => none
  | some n => if s.contains 95 && !underscoreOK s then none else some n

def parseUint (bits : Nat) (s : Str) : Option Int :=
  match parseNat s with
  | some n => if n < 2 ^ bits then some n else none
  | none => none

/-- `strconv.ParseInt(s, 0, bits)`; none = any error -/
def parseInt (bits : Nat) (s : Str) : Option Int :=
  match s with
  | [] => none
  | 43 :: r => (match parseNat r with | some n => if n < 2 ^ (bits - 1) then some n else none | none => none)
  | 45 :: r => (match parseNat r with | some n => if n ≤ 2 ^ (bits - 1) then some (-(n : Int)) else none | none => none)
  | r => (match parseNat r with | some n => if n < 2 ^ (bits - 1) then some n else none | none => none)

/-- `strconv.ParseBool` -/
def parseBool (s : Str) : Option Bool :=
  if s = [49] || s = [116] || s = [84] || s = [84, 82, 85, 69] || s = strTrue || s = [84, 114, 117, 101] then some true
  else if s = [48] || s = [102] || s = [70] || s = [70, 65, 76, 83, 69] || s = [102, 97, 108, 115, 101]
    || s = [70, 97, 108, 115, 101] then some false
  else none

/-- results of `strconv.ParseFloat` / `time.ParseDuration` supplied from outside: (kind tag, raw, canonical text) -/
abbrev Oracle := List (Nat × Str × String)
def tagF32 : Nat := 0
def tagF64 : Nat := 1
def tagDur : Nat := 2

def orcFind (orc : Oracle) (tag : Nat) (s : Str) : Option String :=
  match orc.find? (fun e => e.1 == tag && e.2.1 == s) with
  | some e => some e.2.2
  | none => none

/-- fixed-width lower-case hexadecimal text of a bit pattern (`%08x` / `%016x`) -/
def hexPadAux : Nat → Nat → List Char → List Char
  | 0, _, acc => acc
  | w + 1, n, acc => hexPadAux w (n / 16) ((if n % 16 < 10 then Char.ofNat (48 + n % 16) else Char.ofNat (87 + n % 16)) :: acc)

def hexPad (width n : Nat) : String := String.ofList (hexPadAux width n [])

/-- `math.NaN()` is the bit pattern 0x7FF8000000000001 in Go; converted to float32 it is 0x7fc00000 -/
def goNaN (f : SoftFloat.Fmt) : Nat := if f = SoftFloat.f64 then 0x7FF8000000000001 else 0x7fc00000

/-- the value `strconv.ParseFloat(s, 32|64)` yields, converted to the declared float type, as the text of its bit
    pattern: COMPUTED by the IEEE-754 model for decimal literals, `inf`/`infinity`/`nan` (`SoftFloat.parse`: exact
    rational arithmetic, round to nearest even, overflow = `ErrRange` = refused); only for the texts that model leaves
    `outside` — hexadecimal floats and literals with `_` — the result is looked up in the per-line oracle -/
def floatVal (orc : Oracle) (f : SoftFloat.Fmt) (s : Str) : Option String :=
  match SoftFloat.parse f s with
  | .ok bits => some (hexPad (if f = SoftFloat.f64 then 16 else 8) (if SoftFloat.isNaN f bits then goNaN f else bits))
  | .err => none
  | .outside => orcFind orc (if f = SoftFloat.f64 then tagF64 else tagF32) s

/-! ### `time.ParseDuration` (time/format.go), transcribed: `[-+]?([0-9]*(\.[0-9]*)?[a-z]+)+` with its overflow rules; the
    fraction goes through float64 exactly as in the source (`uint64(float64(f) * (float64(unit) / scale))`, `scale` built
    by repeated `scale *= 10`), computed on bit patterns by the IEEE-754 model -/

def dIsDigit (c : Nat) : Bool := 48 ≤ c && c ≤ 57

/-- `leadingInt`: `none` = overflow -/
def leadingInt : Str → Nat → Option (Nat × Str)
  | [], x => some (x, [])
  | c :: t, x =>
    if dIsDigit c then
      (if x > 2 ^ 63 / 10 then none
       else if x * 10 + (c - 48) > 2 ^ 63 then none
       else leadingInt t (x * 10 + (c - 48)))
    else some (x, c :: t)

/-- float64(n) for a natural number -/
def f64OfNat (n : Nat) : Nat := SoftFloat.ofRat SoftFloat.f64 false n 1

/-- `leadingFraction`: digits after the point as an integer `x` and `scale` (a float64, as bits) with value `x / scale`;
    digits behind an overflow are skipped -/
def leadingFraction : Str → Nat → Nat → Bool → Nat × Nat × Str
  | [], x, sc, _ => (x, sc, [])
  | c :: t, x, sc, ov =>
    if dIsDigit c then
      (if ov then leadingFraction t x sc true
       else if x > (2 ^ 63 - 1) / 10 then leadingFraction t x sc true
       else if x * 10 + (c - 48) > 2 ^ 63 then leadingFraction t x sc true
       else leadingFraction t (x * 10 + (c - 48)) (SoftFloat.mul SoftFloat.f64 sc (f64OfNat 10)) false)
    else (x, sc, c :: t)

/-- the unit: everything up to the next `.` or digit -/
def takeUnit : Str → Str × Str
  | [] => ([], [])
  | c :: t => if c = 46 || dIsDigit c then ([], c :: t) else (c :: (takeUnit t).1, (takeUnit t).2)

/-- `unitMap`: ns, us, µs (U+00B5), μs (U+03BC), ms, s, m, h in nanoseconds -/
def unitOf (u : Str) : Option Nat :=
  if u = [110, 115] then some 1
  else if u = [117, 115] || u = [194, 181, 115] || u = [206, 188, 115] then some 1000
  else if u = [109, 115] then some 1000000
  else if u = [115] then some 1000000000
  else if u = [109] then some 60000000000
  else if u = [104] then some 3600000000000
  else none

/-- `uint64(x)` for a finite non-negative float64: truncation -/
def truncU (b : Nat) : Nat :=
  match SoftFloat.decode SoftFloat.f64 b with
  | .fin _ m e => if 0 ≤ e then m * 2 ^ e.toNat else m / 2 ^ (-e).toNat
  | _ => 0

/-- `(\.[0-9]*)?` behind the integer part: the fraction digits as an integer, `scale`, the rest of the text, and whether
    any digit was consumed -/
def fracPart (s1 : Str) : Nat × Nat × Str × Bool :=
  match s1 with
  | 46 :: t => ((leadingFraction t 0 (f64OfNat 1) false).1, (leadingFraction t 0 (f64OfNat 1) false).2.1,
                (leadingFraction t 0 (f64OfNat 1) false).2.2,
                (leadingFraction t 0 (f64OfNat 1) false).2.2.length != t.length)
  | _ => (0, f64OfNat 1, s1, false)

/-- one `number unit` group in front of `s` (non-empty), up to the addition to the running total `d` (uint64 arithmetic:
    this addition is the one that can wrap, so it is taken modulo 2^64): the new total and the rest of the text -/
def durGroupRaw (s : Str) (d : Nat) : Option (Nat × Str) :=
  match s with
  | [] => none
  | c :: _ =>
    if !(c = 46 || dIsDigit c) then none else
    match leadingInt s 0 with
    | none => none
    | some (v, s1) =>
      let fr := fracPart s1
      if s1.length == s.length && !fr.2.2.2 then none else
      if (takeUnit fr.2.2.1).1 = [] then none else
      match unitOf (takeUnit fr.2.2.1).1 with
      | none => none
      | some unit =>
        if v > 2 ^ 63 / unit then none else
        let v2 := if fr.1 > 0 then
            v * unit + truncU (SoftFloat.mul SoftFloat.f64 (f64OfNat fr.1)
              (SoftFloat.div SoftFloat.f64 (f64OfNat unit) fr.2.1))
          else v * unit
        if v2 > 2 ^ 63 then none else some ((d + v2) % 2 ^ 64, (takeUnit fr.2.2.1).2)

/-- … and the check `d > 1<<63` behind the addition -/
def durGroup (s : Str) (d : Nat) : Option (Nat × Str) :=
  match durGroupRaw s d with
  | none => none
  | some p => if p.1 > 2 ^ 63 then none else some p

/-- the loop over the groups; the fuel is the length of the text (every round consumes at least the unit) -/
def durLoop : Nat → Str → Nat → Option Nat
  | 0, s, d => if s = [] then some d else none
  | fuel + 1, s, d =>
    if s = [] then some d else
    match durGroup s d with
    | none => none
    | some p => durLoop fuel p.2 p.1

/-- `time.ParseDuration(s)` in nanoseconds; `none` = any error -/
def parseDuration (s : Str) : Option Int :=
  let neg := s.head? == some 45
  let r := if s.head? == some 45 || s.head? == some 43 then s.tail else s
  if r = [48] then some 0
  else if r = [] then none
  else match durLoop r.length r 0 with
    | none => none
    | some d =>
      if neg then some (if d = 2 ^ 63 then -((2 ^ 63 : Nat) : Int) else -(d : Int))
      else if d > 2 ^ 63 - 1 then none else some (d : Int)

/-- the text of the `time.Duration` a `Set` stores (nanoseconds, decimal) -/
def durVal (s : Str) : Option String := (parseDuration s).map toString

/-- "reject": the one string the harness's logging `Value` refuses -/
def strReject : Str := [114, 101, 106, 101, 99, 116]

def hexChar (d : Nat) : Char := if d < 10 then Char.ofNat (48 + d) else Char.ofNat (87 + d)
def hexOf (l : Str) : String :=
  if l.isEmpty then "-" else String.ofList (l.flatMap fun b => [hexChar (b / 16 % 16), hexChar (b % 16)])

/-- canonical text of the typed value `Set` stores for a raw string; none = `Set` returns an error -/
def typed (orc : Oracle) : Base → Str → Option String
  | .bool, s => (parseBool s).map toString
  | .int b, s => (parseInt b s).map toString
  | .uint b, s => (parseUint b s).map toString
  | .f32, s => floatVal orc SoftFloat.f32 s
  | .f64, s => floatVal orc SoftFloat.f64 s
  | .dur, s => durVal s
  | .str, s => some (hexOf s)
  | .log, s => if s = strReject then none else some (hexOf s)
  | .wbool, s => (parseBool s).map toString

def kindOfId (includeDefault : Bool) (decls : List Decl) (id : Nat) : Option Kind :=
  if id < firstUserId then (if id = idHelp || includeDefault then some ⟨.bool, false⟩ else none)
  else (decls[id - firstUserId]?).map (·.kind)

def acceptsOf (orc : Oracle) (includeDefault : Bool) (decls : List Decl) : Accepts := fun id v =>
  match kindOfId includeDefault decls id with
  | some k => k.supported && (typed orc k.base v).isSome
  | none => false

/-! ### final contents of the option variables -/

def assigned (id : Nat) (sets : List (Nat × Str)) : List Str := (sets.filter (fun s => s.1 == id)).map (·.2)

/-- raw strings whose typed values the variable holds at the end: a scalar keeps the last one, a slice (and the
    logging value) all of them after its initial contents -/
def finalRaws (k : Kind) (defs : List Str) (id : Nat) (sets : List (Nat × Str)) : List Str :=
  if k.slice || k.base == .log then defs ++ assigned id sets
  else match (defs ++ assigned id sets).getLast? with
    | some v => [v]
    | none => []

inductive Outcome
  | done (a : PAcc)
  | fatal
  | help          -- usage text, exit status 1
  | longVersion   -- exit status 0
  | version       -- exit status 0
deriving DecidableEq, Repr

/-- cmdline.go:180-191 -/
def finish : Res → Outcome
  | .fatal => .fatal
  | .ok a =>
    if a.sets.any (fun s => s.1 == idHelp) then .help
    else if a.sets.any (fun s => s.1 == idLongVersion) then .longVersion
    else if a.sets.any (fun s => s.1 == idVersion) then .version
    else .done a

/-- declare, then `Parse` -/
def parse (orc : Oracle) (includeDefault : Bool) (decls : List Decl) (files : Files) (args : List Str) : Outcome :=
  match build includeDefault decls with
  | none => .fatal
  | some es => finish (scan (tableOf es) (acceptsOf orc includeDefault decls) files args)

def renderOpt (orc : Oracle) (d : Decl) (id : Nat) (sets : List (Nat × Str)) : String :=
  let vals := (finalRaws d.kind d.defs id sets).map (fun r => (typed orc d.kind.base r).getD "?")
  if d.kind.slice || d.kind.base == .log then "[" ++ ",".intercalate vals ++ "]"
  else ",".intercalate vals

def renderOpts (orc : Oracle) (sets : List (Nat × Str)) : Nat → List Decl → List String
  | _, [] => []
  | id, d :: ds => renderOpt orc d id sets :: renderOpts orc sets (id + 1) ds

def render (orc : Oracle) (decls : List Decl) : Outcome → String
  | .fatal => "fatal"
  | .help => "help"
  | .longVersion => "longversion"
  | .version => "version"
  | .done a => " ".intercalate (("ok" :: renderOpts orc a.sets firstUserId decls) ++ ("|" :: a.rest.map hexOf))

/-! ### extensions (hardening pass): response files as raw bytes, `Parse` called twice, the exported fatal entry points -/

/-- `bufio.dropCR` -/
def dropCR (l : Str) : Str := if l.getLast? = some 13 then l.dropLast else l

/-- the lines `bufio.Scanner` (ScanLines) yields for the content of a file: split at `\n`, one trailing `\r` dropped
    from each line; a final piece without terminator is a line if it is non-empty (also when it is a lone `\r`) -/
def linesAux : Str → Str → List Str
  | [], cur => if cur = [] then [] else [dropCR cur.reverse]
  | 10 :: t, cur => dropCR cur.reverse :: linesAux t []
  | c :: t, cur => linesAux t (c :: cur)

def linesOf (content : Str) : List Str := linesAux content []

/-- two `Parse` calls on the same `CmdLine`: the option variables keep what the first call stored (so the second call's
    "defaults" are the first call's results, slices keep growing, a help/version flag set by the first call is still
    set), the set of loaded response files starts empty again, the second call returns its own remaining arguments;
    a fatal first call ends the process -/
def parseTwice (orc : Oracle) (includeDefault : Bool) (decls : List Decl) (files : Files) (args1 args2 : List Str) :
    Outcome × List Str :=
  match build includeDefault decls with
  | none => (.fatal, [])
  | some es =>
    let tbl := tableOf es
    let acc := acceptsOf orc includeDefault decls
    match finish (scan tbl acc files args1) with
    | .done a1 =>
      (match scan tbl acc files args2 with
       | .fatal => (.fatal, a1.rest)
       | .ok a2 => (finish (.ok ⟨a1.sets ++ a2.sets, a2.rest⟩), a1.rest))
    | o => (o, [])

/-- `FatalIfError(err)`: returns when `err == nil`, otherwise the fatal exit (`FatalError` → `FatalMsg` → `atexit.Exit(1)`) -/
def fatalIfError (isNil : Bool) : Option Unit := if isNil then some () else none


/-! ### the option variables as a store (transcription of `GeneralValue.Set`, values.go:32-173)

A variable holds a list of typed values in canonical text (exactly one for a scalar).  `setVar` is one call of
`Value.Set` on one variable, case by case as the type switch of values.go: the scalar kinds overwrite, the slice kinds
append; bool through `strconv.ParseBool`, the integer kinds through `strconv.ParseInt/ParseUint(str, 0, bits)` with the
bit size of the kind (so the narrowing conversion is exact), string as is; float and duration values are computed by `floatVal` /
`durVal`; the parameter `orc` only serves float texts outside `SoftFloat.parse`.  (For `*bool`, `*int64`, `*uint64`, `*float64` and `*time.Duration` the Go code assigns the result
of the failed conversion before returning the error; the error is fatal, so that store is never observed.) -/

abbrev Var := List String
/-- the variables by option id: the latest entry for an id is its current contents -/
abbrev Store := List (Nat × Var)

def Store.get (st : Store) (id : Nat) : Var := (st.lookup id).getD []

def setVar (orc : Oracle) (k : Kind) (cur : Var) (raw : Str) : Option Var :=
  match k.base, k.slice with
  | .bool, false => (parseBool raw).map (fun b => [toString b])                       -- *bool
  | .bool, true => (parseBool raw).map (fun b => cur ++ [toString b])                 -- *[]bool
  | .int bits, false => (parseInt bits raw).map (fun v => [toString v])               -- *int, *int8 … *int64
  | .int bits, true => (parseInt bits raw).map (fun v => cur ++ [toString v])         -- *[]int, *[]int8 … *[]int64
  | .uint bits, false => (parseUint bits raw).map (fun v => [toString v])             -- *uint, *uint8 … *uint64
  | .uint bits, true => (parseUint bits raw).map (fun v => cur ++ [toString v])       -- *[]uint, *[]uint8 … *[]uint64
  | .f32, false => (floatVal orc SoftFloat.f32 raw).map (fun v => [v])                        -- *float32
  | .f32, true => none                                                                -- no case *[]float32: unhandled type
  | .f64, false => (floatVal orc SoftFloat.f64 raw).map (fun v => [v])                        -- *float64
  | .f64, true => none                                                                -- no case *[]float64: unhandled type
  | .str, false => some [hexOf raw]                                                   -- *string
  | .str, true => some (cur ++ [hexOf raw])                                           -- *[]string
  | .dur, false => (durVal raw).map (fun v => [v])                        -- *time.Duration
  | .dur, true => (durVal raw).map (fun v => cur ++ [v])                  -- *[]time.Duration
  | .log, _ => if raw = strReject then none else some (cur ++ [hexOf raw])            -- the harness's logging Value
  | .wbool, false => (parseBool raw).map (fun b => [toString b])                      -- a bool behind a user Value
  | .wbool, true => (parseBool raw).map (fun b => cur ++ [toString b])

/-- `setOrFail` on the store: the option's variable is updated by its `Set`; an error leaves the store alone (and is
    fatal in the scanner) -/
def setOpt (orc : Oracle) (includeDefault : Bool) (decls : List Decl) (st : Store) (p : Nat × Str) : Store :=
  match kindOfId includeDefault decls p.1 with
  | none => st
  | some k =>
    match setVar orc k (st.get p.1) p.2 with
    | none => st
    | some v => (p.1, v) :: st

/-- the assignments of a run applied in order -/
def applySets (orc : Oracle) (includeDefault : Bool) (decls : List Decl) (st : Store) (sets : List (Nat × Str)) : Store :=
  sets.foldl (setOpt orc includeDefault decls) st

/-- the caller's initial contents of a variable (given as raw strings, converted with the conversion of the kind) -/
def initVar (orc : Oracle) (k : Kind) (defs : List Str) : Var := defs.filterMap (typed orc k.base)

def initStoreFrom (orc : Oracle) : Nat → List Decl → Store
  | _, [] => []
  | id, d :: ds => (id, initVar orc d.kind d.defs) :: initStoreFrom orc (id + 1) ds

/-- the built-in flags (fields of the CmdLine) start false, the declared variables with the caller's contents -/
def initStore (orc : Oracle) (decls : List Decl) : Store :=
  (idHelp, ["false"]) :: (idVersion, ["false"]) :: (idLongVersion, ["false"]) :: initStoreFrom orc firstUserId decls

def renderVar (d : Decl) (v : Var) : String :=
  if d.kind.slice || d.kind.base == .log then "[" ++ ",".intercalate v ++ "]" else ",".intercalate v

def renderStoreOpts (st : Store) : Nat → List Decl → List String
  | _, [] => []
  | id, d :: ds => renderVar d (st.get id) :: renderStoreOpts st (id + 1) ds

/-- what the driver prints: the option variables after all `Set` calls of the run, then the remaining arguments -/
def renderStore (orc : Oracle) (includeDefault : Bool) (decls : List Decl) : Outcome → String
  | .fatal => "fatal"
  | .help => "help"
  | .longVersion => "longversion"
  | .version => "version"
  | .done a =>
    " ".intercalate (("ok" :: renderStoreOpts (applySets orc includeDefault decls (initStore orc decls) a.sets)
      firstUserId decls) ++ ("|" :: a.rest.map hexOf))

/-! ### `loadArgsFromFile` (cmdline.go:258-275) on the bytes of a file

`os.Open`, then `bufio.NewScanner(file)` with the default split function and the default buffer, then `scanner.Err()`.
The scanner's buffer grows to `bufio.MaxScanTokenSize` (64 KiB in every toolchain so far) and no further: a line whose bytes up to the next `\n`
(or up to the end of the file) fill the whole buffer makes `Scan` stop with `ErrTooLong`, which `loadArgsFromFile`
returns and `Parse` turns into the fatal exit.  (Without the `scanner.Err()` test the lines read so far would be
used and the rest of the file silently dropped.) -/

/-- `bufio.MaxScanTokenSize` of the Go toolchain in use: read from the built harness on every run
    (`Generated/C10Facts.lean`), not copied -/
def maxToken : Nat := Generated.C10.maxScanTokenSize

/-- `n` = bytes of the current line seen so far; true iff some line reaches `maxToken` bytes before its `\n` / the end -/
def tooLongAux : Str → Nat → Bool
  | [], n => decide (maxToken ≤ n)
  | c :: t, n => if c = 10 then (if maxToken ≤ n then true else tooLongAux t 0) else tooLongAux t (n + 1)

def tooLong (content : Str) : Bool := tooLongAux content 0

/-- the result of `loadArgsFromFile` for a file that can be opened and read: `none` = an error is returned -/
def readFile (content : Str) : Option (List Str) := if tooLong content then none else some (linesOf content)

/-- what the scanner that does not look at `scanner.Err()` would hand to `Parse`: the lines in front of the first line
    that is too long (CONTRAST; `Cmd.readFile` returns the error instead) -/
def readFileNoErrAux : Str → Str → Nat → List Str
  | [], cur, n => if maxToken ≤ n then [] else (if cur = [] then [] else [dropCR cur.reverse])
  | c :: t, cur, n =>
    if c = 10 then (if maxToken ≤ n then [] else dropCR cur.reverse :: readFileNoErrAux t [] 0)
    else readFileNoErrAux t (c :: cur) (n + 1)

def readFileNoErr (content : Str) : List Str := readFileNoErrAux content [] 0

/-- the response files of one run from their bytes on disk: a file `loadArgsFromFile` fails on is like a missing one -/
def filesOf (raw : List (Str × Option Str)) : Files :=
  raw.filterMap (fun e => match e.2 with
    | some content => (readFile content).map (fun ls => (e.1, ls))
    | none => none)

end Cmd

/-! ## `atexit` (atexit/atexit.go): the registry of exit functions and `Exit`

Functions are identified by a number (what the harness prints when the function runs).  `Register` appends a pair
(id, function) and hands out `nextID`; `Unregister` deletes the pairs with that id; `Exit` — unless an exit is already
in progress — takes a snapshot of the registered functions and runs them last-registered first, each inside
`errs.Recovery` (so a panic of one of them, which includes the panic of a recursive `Exit`, does not stop the others),
then ends the process with the status of the FIRST `Exit`. -/
namespace AtExit

structure St where
  pairs : List (Nat × Nat) := []     -- (id, function) in registration order
  nextID : Nat := 1
  exiting : Bool := false
deriving Repr

/-- `Register(f)`: the new state and the returned id -/
def register (s : St) (f : Nat) : St × Nat :=
  ({ s with pairs := s.pairs ++ [(s.nextID, f)], nextID := s.nextID + 1 }, s.nextID)

/-- `Unregister(id)` (`slices.DeleteFunc(pairs, p.id == id)`) -/
def unregister (s : St) (id : Nat) : St := { s with pairs := s.pairs.filter (fun p => p.1 != id) }

/-- what a registered function does when it runs (besides announcing itself) -/
inductive Act
  | plain
  | panic                 -- panics (string, error, runtime error …): recovered by `run`
  | reExit                -- calls `atexit.Exit` again: recursive, panics, recovered
  | reg (f : Nat)         -- registers another function
  | unreg (k : Nat)       -- unregisters the function registered k-th (0-based ordinal)
deriving Repr, DecidableEq

/-- the effect of a running exit function on the registry (the snapshot taken by `Exit` is not touched) -/
def effect (ids : List Nat) (s : St) : Act → St
  | .reg f => (register s f).1
  | .unreg k => (match ids[k]? with | some id => unregister s id | none => s)
  | _ => s

/-- the loop `for i := len(f) - 1; i >= 0; i-- { run(f[i]) }` over the snapshot (given last-registered first): the log
    of functions run -/
def runAll (acts : Nat → Act) (ids : List Nat) : St → List Nat → List Nat
  | _, [] => []
  | s, f :: fs => f :: runAll acts ids (effect ids s (acts f)) fs

/-- `Exit(status)`: the functions run, in order, and the exit status; `none` when an exit is already in progress (the
    call then never returns and runs nothing) -/
def exit (acts : Nat → Act) (ids : List Nat) (s : St) (status : Nat) : Option (List Nat × Nat) :=
  if s.exiting then none
  else some (runAll acts ids { s with exiting := true } (s.pairs.map (·.2)).reverse, status)

/-- a history of `Register` / `Unregister` calls before `Exit`; `unreg k` names the id returned by the k-th `Register`
    (an ordinal that has not been handed out names an id that was never returned: nothing happens) -/
inductive Op
  | reg (f : Nat)
  | unreg (k : Nat)
deriving Repr, DecidableEq

/-- state and the ids handed out so far, in order -/
def applyOp (p : St × List Nat) : Op → St × List Nat
  | .reg f => ((register p.1 f).1, p.2 ++ [(register p.1 f).2])
  | .unreg k => (match p.2[k]? with | some id => (unregister p.1 id, p.2) | none => p)

def applyOps (ops : List Op) : St × List Nat := ops.foldl applyOp ({}, [])

/-- the whole observable behaviour of one process: the history, then `Exit(status)` -/
def runHistory (acts : Nat → Act) (ops : List Op) (status : Nat) : Option (List Nat × Nat) :=
  exit acts (applyOps ops).2 (applyOps ops).1 status

/-- CONTRAST: an `Exit` that walks the live registry instead of a snapshot — a function unregistered by an earlier exit
    function would be skipped -/
def exitLive (acts : Nat → Act) (ids : List Nat) : Nat → St → List Nat
  | 0, _ => []
  | fuel + 1, s =>
    match s.pairs.getLast? with
    | none => []
    | some p => p.2 :: exitLive acts ids fuel (effect ids { s with pairs := s.pairs.dropLast } (acts p.2))

end AtExit

/-! ## `Parse` and the process: which outcomes end in `atexit.Exit`, and with which status -/
namespace Cmd

/-- what `Parse` does with the process: `none` = it returns to its caller, `some st` = it ends in `atexit.Exit(st)`
    (`FatalMsg` exits with 1 — every fatal message, also through `FatalError` / `FatalIfError`; cmdline.go:180-191: the
    usage text exits with 1, the two version texts with 0) -/
def Outcome.exitStatus : Outcome → Option Nat
  | .done _ => none
  | .fatal => some 1
  | .help => some 1
  | .longVersion => some 0
  | .version => some 0

/-- the end of a process that made the `atexit.Register` / `Unregister` calls `ops` and then reaches an outcome of
    `Parse` (or of one of the exported fatal entry points): `none` = the call returns and nothing is run, otherwise the
    exit functions that run, in order, and the exit status of the process -/
def processEnd (acts : Nat → AtExit.Act) (ops : List AtExit.Op) (o : Outcome) : Option (List Nat × Nat) :=
  match o.exitStatus with
  | none => none
  | some st => AtExit.runHistory acts ops st

end Cmd

/-! ## `GeneralValue` used directly: `Set` then `String()` (values.go:32-197) for the kinds whose `%v` text the model owns -/
namespace Cmd

/-- the text `%v` prints for the value `Set` stores for `raw` (bool, the integer kinds, string); `none` = `Set` returns
    an error, or the kind is not modelled here (float, duration: their text is `strconv` / `time` output) -/
def vText (b : Base) (raw : Str) : Option Str :=
  match b with
  | .bool | .wbool => (parseBool raw).map (fun v => ofString (toString v))
  | .int bits => (parseInt bits raw).map (fun v => ofString (toString v))
  | .uint bits => (parseUint bits raw).map (fun v => ofString (toString v))
  | .str => some raw
  | _ => none

/-- one successful `Set` on a value holding `elems` (the `%v` texts of its elements; exactly one for a scalar) -/
def gvSet (k : Kind) (elems : List Str) (raw : Str) : Option (List Str) :=
  (vText k.base raw).map (fun t => if k.slice then elems ++ [t] else [t])

/-- `GeneralValue.String()`: a slice is its elements joined with ", " — the separator is written only when the buffer is
    not empty (`if buffer.Len() != 0`), so empty leading elements leave no trace —, a string is put between double quotes
    without escaping, everything else is `%v` -/
def gvString (k : Kind) (elems : List Str) : Str :=
  if k.slice then elems.foldl (fun buf e => (if buf = [] then buf else buf ++ [44, 32]) ++ e) []
  else match k.base with
    | .str => [34] ++ elems.headD [] ++ [34]
    | _ => elems.headD []

/-- a history of `Set` calls with `String()` after each; it ends at the first `Set` that fails (`none` in the log) -/
def gvHistory (k : Kind) : List Str → List Str → List (Option Str)
  | _, [] => []
  | elems, raw :: rest =>
    match gvSet k elems raw with
    | none => [none]
    | some e' => some (gvString k e') :: gvHistory k e' rest

end Cmd

/-! ## what a FAILING `GeneralValue.Set` leaves behind (values.go:38-104)

The cases `*bool`, `*int64`, `*uint64` (and `*float64`, `*time.Duration`, not modelled here) parse straight into the
destination: `*value, err = strconv.ParseX(str, …)` stores what the conversion returns TOGETHER with its error — `false`, 0
for a syntax error, the nearest limit for a range error.  Every other case parses into a temporary and returns before the
store.  In `Parse` the error is fatal, so this is only visible to a caller of `Set`. -/
namespace Cmd

inductive ScanRes | syntax | range | ok (n : Nat)
deriving DecidableEq, Repr

/-- the digit loop of `strconv.ParseUint` with base 0: the FIRST offence in scan order decides between syntax error and
    range error (`n*base + d > maxVal`) -/
def scanU (base maxVal : Nat) : Str → Nat → ScanRes
  | [], n => .ok n
  | c :: t, n =>
    if c = 95 then scanU base maxVal t n
    else match digitVal c with
      | none => .syntax
      | some d => if base ≤ d then .syntax else if maxVal < n * base + d then .range else scanU base maxVal t (n * base + d)

/-- `strconv.ParseUint(s, 0, bits)` with the value it returns beside an error -/
def parseUintFull (bits : Nat) (s : Str) : ScanRes :=
  if s = [] then .syntax else
  match scanU (splitBase s).1 (2 ^ bits - 1) (splitBase s).2 0 with
  | .ok n => if s.contains 95 && !underscoreOK s then .syntax else .ok n
  | r => r

/-- the value `strconv.ParseInt(s, 0, bits)` returns and whether it comes with an error -/
def parseIntFull (bits : Nat) (s : Str) : Int × Bool :=
  match s with
  | [] => (0, false)
  | c :: r =>
    let neg := c = 45
    let body := if c = 43 ∨ c = 45 then r else s
    match parseUintFull bits body with
    | .syntax => (0, false)
    | res =>
      let un := match res with | .ok n => n | _ => 2 ^ bits - 1
      if !neg && 2 ^ (bits - 1) ≤ un then (((2 ^ (bits - 1) - 1 : Nat) : Int), false)
      else if neg && 2 ^ (bits - 1) < un then (-((2 ^ (bits - 1) : Nat) : Int), false)
      else ((if neg then -(un : Int) else (un : Int)), true)

/-- the `%v` text a FAILING `Set` stores, for the cases that parse straight into the destination (`direct`: the Go type is
    `*bool`, `*int64` or `*uint64` — not `*int` / `*uint`, which go through a temporary); `none` = nothing is stored -/
def failStore (direct : Bool) (k : Kind) (raw : Str) : Option Str :=
  if !direct || k.slice then none else
  match k.base with
  | .bool => some (ofString "false")
  | .int 64 => some (ofString (toString (parseIntFull 64 raw).1))
  | .uint 64 => some (ofString (toString (match parseUintFull 64 raw with
      | .ok n => n | .range => 2 ^ 64 - 1 | .syntax => 0)))
  | _ => none

/-- one `Set`, successful or not: the new contents and whether it succeeded -/
def gvSetFull (direct : Bool) (k : Kind) (elems : List Str) (raw : Str) : List Str × Bool :=
  match gvSet k elems raw with
  | some e' => (e', true)
  | none => (match failStore direct k raw with | some t => [t] | none => elems, false)

/-- a history of `Set` calls, each followed by `String()`; nothing ends it -/
def gvHistoryFull (direct : Bool) (k : Kind) : List Str → List Str → List (Bool × Str)
  | _, [] => []
  | elems, raw :: rest =>
    let r := gvSetFull direct k elems raw
    (r.2, gvString k r.1) :: gvHistoryFull direct k r.1 rest

end Cmd
