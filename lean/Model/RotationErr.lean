import Model.Rotation
/-! C12: the state machine of `rotator.go` on a file system whose calls can FAIL.  Core-only.

`Model/Rotation.lean` describes `Write`/`rotate`/`Close` on a file system that never fails.  Here every system call the
code makes — `os.MkdirAll`, `os.Stat`, `os.OpenFile`, `(*os.File).Close`, `os.Remove`, every single `os.Rename` of the
chain, `(*os.File).Write`, `(*os.File).Sync` — asks an ENVIRONMENT whether it fails (with an error other than "not
exist", which the code does not ignore; a failing call has no effect on the directory), and the descriptor write may be
SHORT (the environment says how many bytes the file accepted before the error: a full disk, a file size limit).  The
environment is a parameter: it may depend on the moment (`tick` counts the system calls made so far), on the call, and
— for the write — on the length of the file and of the request.  The error returns of the Go code are transcribed branch
for branch (`return 0, errs.Wrap(err)` after MkdirAll / OpenFile / rotate, `r.file = nil` before the Close error is
looked at, `r.size += int64(n)` after a short write).  With the calm environment this is the old model
(`Lemmas/RotationErr.lean: writeE_calmFrom`, `runE_calmFrom`). -/
namespace Rot

/-- the system calls of rotator.go; `remove i ex` / `rename i j ex` name the files by index (0 = `path`, i = `path-i`);
    `ex` tells the environment whether the file to remove / the source of the rename exists at that moment.  The
    environment decides whether the call fails with an error OTHER than "not exist" (for a missing file the kernel
    reports "not exist" — which the code ignores — unless something fails before the lookup, e.g. an unreachable
    directory). -/
inductive Sys where
  | mkdirAll | stat | openFile | closeFd | syncFd | writeFd
  | remove (i : Nat) (ex : Bool)
  | rename (i j : Nat) (ex : Bool)
deriving DecidableEq, Repr

/-- the environment.  `fails t c`: the call `c` made as the `t`-th system call fails (no effect, error returned).
    `wr t cur want`: outcome of writing `want` bytes through the descriptor to a file that is `cur` bytes long:
    `none` = all bytes written, `some k` = `min k want` bytes written, then an error. -/
structure Env where
  fails : Nat → Sys → Bool
  wr : Nat → Nat → Nat → Option Nat

/-- the file system of `Model/Rotation.lean`: nothing ever fails -/
def Env.calm : Env := { fails := fun _ _ => false, wr := fun _ _ _ => none }

/-- rotator state plus the number of system calls made so far -/
structure StE where
  st : St
  tick : Nat

/-- the `if r.file == nil { … }` block: MkdirAll (error: return), `r.size = 0`, Stat (ANY error is ignored by the code:
    the size stays 0), OpenFile with O_CREATE|O_APPEND (error: return; `r.size` was already assigned) -/
def openE (env : Env) (s : StE) : StE × Option Sys :=
  if s.st.isOpen then (s, none)
  else if env.fails s.tick .mkdirAll then ({ s with tick := s.tick + 1 }, some .mkdirAll)
  else
    let statFails := env.fails (s.tick + 1) .stat
    if env.fails (s.tick + 2) .openFile then
      ({ st := { s.st with size := if statFails then 0 else (content s.st.files 0).length }, tick := s.tick + 3 },
       some .openFile)
    else match s.st.files 0 with
      | some c => ({ st := { s.st with isOpen := true, size := if statFails then 0 else c.length },
                     tick := s.tick + 3 }, none)
      | none => ({ st := { files := s.st.files.set 0 (some []), isOpen := true, size := 0 }, tick := s.tick + 3 }, none)

/-- `mv` behind a structure: compiled code then performs the lookup of the source once per rename (a definition of
    type `Files` is compiled as a function of the index too, and would repeat that lookup on every later directory
    lookup — exponential in the length of the chain) -/
structure Dir where
  get : Files

def mvD (f : Files) (old new : Nat) : Dir :=
  match f old with
  | none => ⟨f⟩
  | some c => ⟨(f.set new (some c)).set old none⟩

@[simp] theorem mvD_get (f : Files) (old new : Nat) : (mvD f old new).get = mv f old new := by
  unfold mvD mv; cases f old <;> rfl

/-- the loop `for i := maxBackups; i > 0; i-- { if err := os.Rename(path-(i-1), path-i); err != nil && !IsNotExist { return } }`:
    directory, tick and the failing call (if any) -/
def renameChainE (env : Env) (f : Files) (t : Nat) : Nat → Files × Nat × Option Sys
  | 0 => (f, t, none)
  | i+1 =>
    if env.fails t (.rename i (i+1) (f i).isSome) then (f, t + 1, some (.rename i (i+1) (f i).isSome))
    else renameChainE env (mvD f i (i+1)).get (t + 1) i

/-- `rotate()`: Close (the handle is forgotten BEFORE the error is looked at), Remove of `path` (no backups) or of
    `path-MaxBackups`, the rename chain; `r.size = 0` only when everything succeeded -/
def rotateE (cfg : Cfg) (env : Env) (s : StE) : StE × Option Sys :=
  let t0 := if s.st.isOpen then s.tick + 1 else s.tick
  if s.st.isOpen && env.fails s.tick .closeFd then ({ st := { s.st with isOpen := false }, tick := t0 }, some .closeFd)
  else
    let idx := if cfg.maxBackups < 1 then 0 else cfg.maxBackups
    let ex := (s.st.files idx).isSome
    if env.fails t0 (.remove idx ex) then ({ st := { s.st with isOpen := false }, tick := t0 + 1 }, some (.remove idx ex))
    else if cfg.maxBackups < 1 then
      ({ st := { files := s.st.files.set idx none, isOpen := false, size := 0 }, tick := t0 + 1 }, none)
    else
      match renameChainE env (s.st.files.set idx none) (t0 + 1) cfg.maxBackups with
      | (f2, t2, some e) => ({ st := { files := f2, isOpen := false, size := s.st.size }, tick := t2 }, some e)
      | (f2, t2, none) => ({ st := { files := f2, isOpen := false, size := 0 }, tick := t2 }, none)

/-- one pass from `retry:`: either the method returns `(n, err)` or it jumps back -/
inductive StepE where
  | ret (s : StE) (n : Nat) (err : Option Sys)
  | again (s : StE)

def StepE.isRet : StepE → Bool | .ret .. => true | .again _ => false

def writeStepE (cfg : Cfg) (env : Env) (s : StE) (b : Bytes) : StepE :=
  match openE env s with
  | (s1, some e) => .ret s1 0 (some e)
  | (s1, none) =>
    if s1.st.size > 0 ∧ s1.st.size + b.length > cfg.maxSize then
      match rotateE cfg env s1 with
      | (s2, some e) => .ret s2 0 (some e)
      | (s2, none) => .again s2
    else
      -- `n, err := r.file.Write(b); r.size += int64(n)`
      let out := env.wr s1.tick (content s1.st.files 0).length b.length
      let n := match out with | none => b.length | some k => min k b.length
      .ret { st := { s1.st with files := s1.st.files.set 0 (some ((s1.st.files 0).getD [] ++ b.take n)),
                                size := s1.st.size + n },
             tick := s1.tick + 1 } n (match out with | none => none | some _ => some .writeFd)

/-- the `retry` loop with a bound on the number of passes (what the driver runs) -/
def iterateE (cfg : Cfg) (env : Env) : Nat → StE → Bytes → StepE
  | 0, s, _ => .again s
  | k+1, s, b =>
    match writeStepE cfg env s b with
    | .ret s' n e => .ret s' n e
    | .again s1 => iterateE cfg env k s1 b

/-- what a method returns: new state, byte count, failing call -/
structure WRes where
  s : StE
  n : Nat
  err : Option Sys

/-- `Write` with the loop unrolled twice (`Lemmas/RotationErr.lean: iterateE_eq_writeE`) -/
def writeE (cfg : Cfg) (env : Env) (s : StE) (b : Bytes) : WRes :=
  match writeStepE cfg env s b with
  | .ret s' n e => ⟨s', n, e⟩
  | .again s1 =>
    match writeStepE cfg env s1 b with
    | .ret s' n e => ⟨s', n, e⟩
    | .again s2 => ⟨s2, 0, none⟩      -- unreachable, see writeE_terminates

/-- `Close()`: `file := r.file; r.file = nil; return errs.Wrap(file.Close())` -/
def closeE (env : Env) (s : StE) : WRes :=
  if s.st.isOpen then ⟨{ st := close s.st, tick := s.tick + 1 }, 0, if env.fails s.tick .closeFd then some .closeFd else none⟩
  else ⟨s, 0, none⟩

/-- `Sync()` -/
def syncE (env : Env) (s : StE) : WRes :=
  if s.st.isOpen then ⟨{ s with tick := s.tick + 1 }, 0, if env.fails s.tick .syncFd then some .syncFd else none⟩
  else ⟨s, 0, none⟩

/-- process restart: `Close` (whatever it returns), then a new `Rotator` on the same directory -/
def reopenE (env : Env) (s : StE) : WRes :=
  ⟨{ st := fresh (closeE env s).s.st.files, tick := (closeE env s).s.tick }, 0, none⟩

def applyE (cfg : Cfg) (env : Env) (s : StE) : Op → WRes
  | .write b => writeE cfg env s b
  | .close => closeE env s
  | .reopen => reopenE env s
  | .sync => syncE env s

def runE (cfg : Cfg) (env : Env) (s : StE) : List Op → StE
  | [] => s
  | o :: os => runE cfg env (applyE cfg env s o).s os

/-- the bytes the history was told were written: for every `Write(b)` the first `n` bytes of `b`, `n` the returned count -/
def ackedE (cfg : Cfg) (env : Env) (s : StE) : List Op → List Bytes
  | [] => []
  | .write b :: os => b.take (writeE cfg env s b).n :: ackedE cfg env (writeE cfg env s b).s os
  | o :: os => ackedE cfg env (applyE cfg env s o).s os

/-- which Go calls a constructor of `Sys` stands for: (receiver, name) with receiver `os` for a function of package os,
    `File` for a method of `os.File` (the size of the log file may be asked of the path or of the descriptor, the bytes
    may be written as a string) -/
def Sys.goCalls : Sys → List (String × String)
  | .mkdirAll => [("os", "MkdirAll")]
  | .stat => [("os", "Stat"), ("os", "Lstat"), ("File", "Stat")]
  | .openFile => [("os", "OpenFile")]
  | .closeFd => [("File", "Close")]
  | .syncFd => [("File", "Sync")]
  | .writeFd => [("File", "Write"), ("File", "WriteString")]
  | .remove _ _ => [("os", "Remove")]
  | .rename _ _ _ => [("os", "Rename")]

/-- functions of package os / methods of `os.File` that make no system call (predicates on error values, the name the
    file was opened with) -/
def Sys.pureOs : List String := ["IsNotExist", "IsExist", "IsPermission", "IsTimeout"]
def Sys.pureFile : List String := ["Name"]

/-- one representative of every constructor -/
def Sys.kinds : List Sys := [.mkdirAll, .stat, .openFile, .closeFd, .syncFd, .writeFd, .remove 0 true, .rename 0 1 true]

end Rot
