import Model.RBTree
/-! C06: **pointer-level model** of `collection/redblack/tree.go` — the mutating half of the package (`Insert`,
`rotateLeft`, `rotateRight`, `Remove`, `recolor`, `node.find`) transcribed *statement for statement*, with the
`parent` / `left` / `right` links, the colour bit, `t.root` and `t.count` as they are in the Go structs.

* A pointer is `Option Nat` (`none` = Go's `nil`, `some i` = the node stored at index `i` of the node store).
  `&node{…}` is `alloc` (a fresh index); nodes are never freed (an unlinked node is garbage, as in Go).
* Every dereference goes through `get` / `upd`, which are `none` on `nil`: `none` = the Go code would panic with a nil
  dereference.  The nil-safe methods `isBlack` / `isRed` (`node.go:26-32`) are total.
* Go's loops are recursions on a fuel argument (`none` = the loop did not finish within `fuel` rounds, i.e. the Go code
  would spin); every caller passes `nodes.size + 2`, more than the length of any path of a well-formed tree.

The driver `drv_c06` runs this model in lock-step with the functional model `RB.Tree` on every `ins` / `rem` line and
compares `abs` (the tree read off the links, with every parent link checked) with the functional tree; the node dump
that is compared with the real Go nodes is printed from THIS structure.

Theorems (`Props/C06.lean`, section "the pointer-level model"): `heap_run_refines` — for every history and every compare
function the run of this model is defined (no nil dereference, every loop within its fuel), its memory represents a tree
(`PTree.Rep`: `t.root` without parent, every parent link the node above, distinct addresses) and `abs` / `count` are the
functional `Tree.run`; per operation `heap_insert_refines`, `heap_remove_refines`, `rotations_keep_parent_links`,
`heap_find_first`, `heap_abs_of_owns`.  Lemma files: `Lemmas/RBHeap.lean` (ownership, frame rule), `RBHeapRot.lean`
(rotations), `RBHeapRead.lean` (`abs`, `find`), `RBHeapCtx.lean` (contexts), `RBHeapIns.lean` (`Insert`),
`RBHeapDel.lean` (`recolor`), `RBHeapRem.lean` (`Remove`, histories). -/
namespace RB

abbrev Ptr := Option Nat

/-- `type node[K, V any] struct` (`node.go:17-24`) -/
structure PNode (K V : Type) where
  key : K
  value : V
  parent : Ptr
  left : Ptr
  right : Ptr
  black : Bool

/-- `type Tree[K, V any] struct` (`tree.go:13-17`) together with the memory its nodes live in; `compare` is passed to
    the operations as in the functional model -/
structure PTree (K V : Type) where
  nodes : Array (PNode K V)
  root : Ptr
  count : Nat

namespace PTree
variable {K V : Type}

def empty : PTree K V := ⟨#[], none, 0⟩

/-- `*p` — `none` if `p` is nil -/
def get (t : PTree K V) (p : Ptr) : Option (PNode K V) :=
  match p with
  | none => none
  | some i => t.nodes[i]?

/-- `p.field = …` — `none` if `p` is nil -/
def upd (t : PTree K V) (p : Ptr) (f : PNode K V → PNode K V) : Option (PTree K V) :=
  match p with
  | none => none
  | some i => if i < t.nodes.size then some { t with nodes := t.nodes.modify i f } else none

/-- `&node[K, V]{key: key, value: value}` -/
def alloc (t : PTree K V) (k : K) (v : V) : PTree K V × Ptr :=
  ({ t with nodes := t.nodes.push ⟨k, v, none, none, none, false⟩ }, some t.nodes.size)

def setLeft (t : PTree K V) (p q : Ptr) := t.upd p fun x => { x with left := q }
def setRight (t : PTree K V) (p q : Ptr) := t.upd p fun x => { x with right := q }
def setParent (t : PTree K V) (p q : Ptr) := t.upd p fun x => { x with parent := q }
def setBlack (t : PTree K V) (p : Ptr) (b : Bool) := t.upd p fun x => { x with black := b }

/-- `n.isBlack()` = `n == nil || n.black` -/
def isBlack (t : PTree K V) (p : Ptr) : Bool :=
  match t.get p with
  | some x => x.black
  | none => true

/-- `n.isRed()` = `n != nil && !n.black` -/
def isRed (t : PTree K V) (p : Ptr) : Bool :=
  match t.get p with
  | some x => !x.black
  | none => false

/-- `rotateLeft` (`tree.go:172-190`) -/
def rotateLeft (t : PTree K V) (n : Ptr) : Option (PTree K V) := do
  let right := (← t.get n).right                       -- right := n.right
  let t ← t.setRight n (← t.get right).left            -- n.right = right.left
  let rl := (← t.get right).left
  let nr := (← t.get n).right
  let t ← if rl.isSome then t.setParent nr n else some t  -- if right.left != nil { n.right.parent = n }
  let t ← t.setParent right (← t.get n).parent         -- right.parent = n.parent
  let np := (← t.get n).parent
  let t ← if np.isSome then do                          -- if n.parent != nil {
      let pl := (← t.get np).left
      if pl == n then t.setLeft np right                --   if n.parent.left == n { n.parent.left = right }
      else t.setRight np right                          --   else { n.parent.right = right }
    else some { t with root := right }                  -- } else { t.root = right }
  let t ← t.setLeft right n                             -- right.left = n
  t.setParent n right                                   -- n.parent = right

/-- `rotateRight` (`tree.go:192-210`) -/
def rotateRight (t : PTree K V) (n : Ptr) : Option (PTree K V) := do
  let left := (← t.get n).left
  let t ← t.setLeft n (← t.get left).right
  let lr := (← t.get left).right
  let nl := (← t.get n).left
  let t ← if lr.isSome then t.setParent nl n else some t
  let t ← t.setParent left (← t.get n).parent
  let np := (← t.get n).parent
  let t ← if np.isSome then do
      let pr := (← t.get np).right
      if pr == n then t.setRight np left
      else t.setLeft np left
    else some { t with root := left }
  let t ← t.setRight left n
  t.setParent n left

/-- the descent loop of `Insert` (`tree.go:100-107`): returns the final `n.parent` -/
def descend (cmp : K → K → Ordering) (t : PTree K V) (key : K) : Nat → Ptr → Ptr → Option Ptr
  | 0, _, _ => none
  | fuel + 1, cur, par =>
    if cur.isSome then do
      let c ← t.get cur
      if cmp key c.key = .lt then descend cmp t key fuel c.left cur else descend cmp t key fuel c.right cur
    else some par

/-- the red-red repair loop of `Insert` (`tree.go:120-166`), loop variables `n`, `parent`, `grandParent` -/
def insertFix (t : PTree K V) : Nat → Ptr → Ptr → Ptr → Option (PTree K V)
  | 0, _, _, _ => none
  | fuel + 1, n, parent, gp =>
    if gp.isSome && t.isRed parent then do
      let g ← t.get gp
      if parent == g.left then
        let uncle := g.right
        if t.isRed uncle then do
          let t ← t.setBlack parent true
          let t ← t.setBlack uncle true
          let t ← t.setBlack gp false
          let n := gp
          let parent := (← t.get n).parent
          let gp ← if parent.isSome then (t.get parent).map (·.parent) else some none
          insertFix t fuel n parent gp
        else if n == (← t.get parent).right then do
          let t ← t.rotateLeft parent                    -- n, parent = parent, n; t.rotateLeft(n)
          insertFix t fuel parent n gp
        else do
          let t ← t.setBlack parent true
          let t ← t.setBlack gp false
          let t ← t.rotateRight gp
          insertFix t fuel n parent gp
      else
        let uncle := g.left
        if t.isRed uncle then do
          let t ← t.setBlack parent true
          let t ← t.setBlack uncle true
          let t ← t.setBlack gp false
          let n := gp
          let parent := (← t.get n).parent
          let gp ← if parent.isSome then (t.get parent).map (·.parent) else some none
          insertFix t fuel n parent gp
        else if n == (← t.get parent).left then do
          let t ← t.rotateRight parent
          insertFix t fuel parent n gp
        else do
          let t ← t.setBlack parent true
          let t ← t.setBlack gp false
          let t ← t.rotateLeft gp
          insertFix t fuel n parent gp
    else some t

/-- `Insert` (`tree.go:96-170`) -/
def insert (cmp : K → K → Ordering) (t : PTree K V) (key : K) (val : V) : Option (PTree K V) := do
  let fuel := t.nodes.size + 2
  let root := t.root
  let (t, n) := t.alloc key val
  let par ← descend cmp t key fuel root root            -- cur := t.root; n.parent = t.root; for cur != nil { … }
  let t ← t.setParent n par
  let t ← if par.isNone then some { t with root := n }
    else do
      let pk := (← t.get par).key
      if cmp key pk = .lt then t.setLeft par n else t.setRight par n
  let t ← if par.isSome then do
      let gp := (← t.get par).parent
      insertFix t fuel n par gp
    else some t
  let t ← t.setBlack t.root true                         -- t.root.black = true
  some { t with count := t.count + 1 }                   -- t.count++

/-- `node.find` (`node.go:34-51`); `some none` = not found -/
def find (cmp : K → K → Ordering) (t : PTree K V) (key : K) : Nat → Ptr → Option Ptr
  | 0, _ => none
  | fuel + 1, n =>
    if n.isNone then some none else do
      let x ← t.get n
      match cmp key x.key with
      | .lt => find cmp t key fuel x.left
      | .gt => find cmp t key fuel x.right
      | .eq =>
        let found ← find cmp t key fuel x.left
        if found.isSome then some found else some n

/-- `for splice.left != nil { splice = splice.left }` -/
def leftmost (t : PTree K V) : Nat → Ptr → Option Ptr
  | 0, _ => none
  | fuel + 1, p => do
    let x ← t.get p
    if x.left.isSome then leftmost t fuel x.left else some p

/-- one side of the loop body of `recolor`, `far`/`near` select the nephews (`tree.go:283-307` / `309-333`) -/
def recolor (t : PTree K V) : Nat → Ptr → Option (PTree K V)
  | 0, _ => none
  | fuel + 1, n =>
    if n != t.root && t.isBlack n then do
      let parent := (← t.get n).parent
      let pn ← t.get parent
      if pn.left == n then
        let sibling := pn.right
        if sibling.isSome then do
          let (t, parent, sibling) ←
            if t.isRed sibling then do
              let t ← t.setBlack sibling true
              let t ← t.setBlack parent false
              let t ← t.rotateLeft parent
              let parent := (← t.get n).parent
              let sibling := (← t.get parent).right
              some (t, parent, sibling)
            else some (t, parent, sibling)
          let s ← t.get sibling
          if t.isBlack s.left && t.isBlack s.right then do
            let t ← t.setBlack sibling false
            recolor t fuel (← t.get n).parent
          else do
            let (t, sibling) ←
              if t.isBlack s.right then do
                let t ← t.setBlack s.left true
                let t ← t.setBlack sibling false
                let t ← t.rotateRight sibling
                some (t, (← t.get parent).right)
              else some (t, sibling)
            let t ← t.setBlack sibling (← t.get parent).black
            let t ← t.setBlack parent true
            let t ← t.setBlack (← t.get sibling).right true
            let t ← t.rotateLeft parent
            recolor t fuel t.root
        else recolor t fuel n                             -- `if sibling != nil` without else: no progress
      else if pn.right == n then
        let sibling := pn.left
        if sibling.isSome then do
          let (t, parent, sibling) ←
            if t.isRed sibling then do
              let t ← t.setBlack sibling true
              let t ← t.setBlack parent false
              let t ← t.rotateRight parent
              let parent := (← t.get n).parent
              let sibling := (← t.get parent).left
              some (t, parent, sibling)
            else some (t, parent, sibling)
          let s ← t.get sibling
          if t.isBlack s.right && t.isBlack s.left then do
            let t ← t.setBlack sibling false
            recolor t fuel (← t.get n).parent
          else do
            let (t, sibling) ←
              if t.isBlack s.left then do
                let t ← t.setBlack s.right true
                let t ← t.setBlack sibling false
                let t ← t.rotateLeft sibling
                some (t, (← t.get parent).left)
              else some (t, sibling)
            let t ← t.setBlack sibling (← t.get parent).black
            let t ← t.setBlack parent true
            let t ← t.setBlack (← t.get sibling).left true
            let t ← t.rotateRight parent
            recolor t fuel t.root
        else recolor t fuel n
      else do
        let t ← t.setBlack parent true                    -- default: parent.black = true
        recolor t fuel n
    else t.setBlack n true                                -- n.black = true

/-- `Remove` (`tree.go:214-276`) from `splice := n` on -/
def removeNode (t : PTree K V) (n : Ptr) : Option (PTree K V) := do
  let fuel := t.nodes.size + 2
  let nn ← t.get n
  let splice ← if nn.left.isSome && nn.right.isSome then leftmost t fuel nn.right else some n
  let sn ← t.get splice
  let child := if sn.left.isSome then sn.left else sn.right
  let t ← if child.isSome then t.setParent child sn.parent else some t
  let t ← if sn.parent.isSome then do
      let parent := sn.parent
      let left := splice == (← t.get parent).left
      let t ← if left then t.setLeft parent child else t.setRight parent child
      let t ← if splice != n then do                      -- swap key and value of n and splice
          let a ← t.get n
          let b ← t.get splice
          let t ← t.upd n fun x => { x with key := b.key, value := b.value }
          t.upd splice fun x => { x with key := a.key, value := a.value }
        else some t
      if (← t.get splice).black then
        if child.isSome then recolor t fuel child
        else do
          let child := splice
          let t ← t.setParent child parent
          let t ← t.setLeft child none
          let t ← t.setRight child none
          let t ← if left then t.setLeft parent child else t.setRight parent child
          let t ← recolor t fuel child
          if left then t.setLeft parent none else t.setRight parent none
      else some t
    else some { t with root := child }
  let t ← if t.root.isSome then t.setBlack t.root true else some t
  some { t with count := t.count - 1 }

def remove (cmp : K → K → Ordering) (t : PTree K V) (key : K) : Option (PTree K V) := do
  let n ← find cmp t key (t.nodes.size + 2) t.root
  if n.isNone then some t else removeNode t n

/-- the tree the links describe below `p`, `none` if a link dangles, a parent link is not the node the walk came
    from (`par`), or the structure is deeper than `fuel` (cyclic) -/
def toT (t : PTree K V) : Nat → Ptr → Ptr → Option (T K V)
  | 0, _, _ => none
  | fuel + 1, par, p =>
    match p with
    | none => some .nil
    | some i => do
      let x ← t.nodes[i]?
      if x.parent != par then none else do
        let l ← toT t fuel p x.left
        let r ← toT t fuel p x.right
        some (.node (if x.black then .black else .red) l x.key x.value r)

/-- the whole tree; the root must have no parent -/
def abs (t : PTree K V) : Option (T K V) := toT t (t.nodes.size + 1) none t.root

end PTree
end RB
