import Model.Errs
/-! C11, rendering: what is logic in `%s` / `%q` / `%v` / `%+v` of an `*errs.Error`.

The recorded call stack of an error is modelled as an abstract token `Tok` (which function captured it + the serial
number of the capture), kept in a table `Toks` parallel to the heap, so that "a copy keeps the ORIGINAL stack", "an older
error's stack is never touched" and "the stack names the function that created the error" are statements about tokens.
The harness maps the real frames of every rendered stack to the same token (top function outside the library ↦ creator,
identity of the recorded stack ↦ serial) and compares.  The heap functions of `Model/Errs.lean` are used unchanged: the
token-carrying operations below compute the heap with them and the tokens beside them.  Core-only. -/
namespace Errs

/-- a recorded call stack: the function that captured it and the serial number of the capture -/
structure Tok where
  creator : Nat
  site : Nat
deriving DecidableEq, Repr, Inhabited

/-- parallel to the heap: the recorded stack of every cell (`none` = `stack == nil`) -/
abbrev Toks := Array (Option Tok)

def tokOf (T : Toks) (i : Nat) : Option Tok := match T[i]? with | some t => t | none => none

/-- heap, stacks, number of stacks captured so far -/
structure FHeap where
  h : Heap := #[]
  T : Toks := #[]
  sites : Nat := 0

/-- `callStack()` in function `f` -/
def FHeap.capture (s : FHeap) (f : Nat) : Tok := { creator := f, site := s.sites }

/-! ### the constructors -/

def newF (s : FHeap) (f : Nat) (m : String) : FHeap × Val :=
  ({ h := (new s.h m).1, T := s.T.push (some (s.capture f)), sites := s.sites + 1 }, (new s.h m).2)

def newWithCauseF (s : FHeap) (f : Nat) (m : String) (c : Val) : FHeap × Val :=
  ({ h := (newWithCause s.h m c).1, T := s.T.push (some (s.capture f)), sites := s.sites + 1 }, (newWithCause s.h m c).2)

def newEmptyF (s : FHeap) : FHeap × Val := ({ s with h := (newEmpty s.h).1, T := s.T.push none }, (newEmpty s.h).2)

/-- `Wrap`: a stack is captured exactly when a new error is made -/
def wrapF (s : FHeap) (f : Nat) (v : Val) : FHeap × Val :=
  if isNil v || asError v then ({ s with h := (wrap s.h v).1 }, (wrap s.h v).2)
  else ({ h := (wrap s.h v).1, T := s.T.push (some (s.capture f)), sites := s.sites + 1 }, (wrap s.h v).2)

def isRef : Val → Bool
  | .ref _ => true
  | _ => false

def wrapTypedF (s : FHeap) (f : Nat) (v : Val) : FHeap × Val :=
  if isNil v || isRef v then ({ s with h := (wrapTyped s.h v).1 }, (wrapTyped s.h v).2)
  else ({ h := (wrapTyped s.h v).1, T := s.T.push (some (s.capture f)), sites := s.sites + 1 }, (wrapTyped s.h v).2)

/-- `CloneWithPrefixMessage`: `revised := *e` copies the stack -/
def cloneF (s : FHeap) (v : Val) (pre : String) : FHeap × Val :=
  match v with
  | .ref id =>
    if (clone s.h v pre).1.size = s.h.size then ({ s with h := (clone s.h v pre).1 }, (clone s.h v pre).2)
    else ({ s with h := (clone s.h v pre).1, T := s.T.push (tokOf s.T id) }, (clone s.h v pre).2)
  | _ => ({ s with h := (clone s.h v pre).1 }, (clone s.h v pre).2)

/-- an element of `WrappedErrors()`: `eCopy := *err` copies the stack of the i-th cell of the chain -/
def elemF (s : FHeap) (v : Val) (i : Nat) : FHeap × Val :=
  match v with
  | .ref id =>
    if (elem s.h v i).1.size = s.h.size then ({ s with h := (elem s.h v i).1 }, (elem s.h v i).2)
    else ({ s with h := (elem s.h v i).1,
                   T := s.T.push (match (chain s.h (fuelOf s.h) id)[i]? with | some j => tokOf s.T j | none => none) },
          (elem s.h v i).2)
  | _ => ({ s with h := (elem s.h v i).1 }, (elem s.h v i).2)

/-! ### Append -/

/-- the stacks of the cells `argNode` allocates for one argument (copies keep the stack of their source, a wrapped plain
    error gets a stack captured now) and the number of captures afterwards -/
def argToks (h : Heap) (T : Toks) (f c : Nat) (a : Val) : List (Option Tok) × Nat :=
  match a with
  | .ref id => if isEmpty h id then ([], c) else ((chain h (fuelOf h) id).map (tokOf T), c)
  | .typedNil => ([], c)
  | v => if isNil v then ([], c) else ([some { creator := f, site := c }], c + 1)

/-- `appendLoop` with the stacks beside it (same heap, root and log: `appendLoopF_fst`) -/
def appendLoopF (h : Heap) (root cur : Option Nat) (log : List Nat) (T : Toks) (f c : Nat) :
    List Val → Heap × Option Nat × List Nat × Toks × Nat
  | [] => (h, root, log, T, c)
  | a :: as =>
    let T1 := T ++ (argToks h T f c a).1.toArray
    let c1 := (argToks h T f c a).2
    match argNode h a with
    | (h1, none, _) => appendLoopF h1 root cur log T1 f c1 as
    | (h1, some n, w) =>
      match cur with
      | none => appendLoopF h1 (some n) (some (tailOf h1 (fuelOf h1) n)) (log ++ w) T1 f c1 as
      | some e =>
        let h2 := setNext h1 e n
        appendLoopF h2 root (some (tailOf h2 (fuelOf h2) n)) (log ++ w ++ [e]) T1 f c1 as

/-- `Append` with the stacks beside it -/
def appendFx (h : Heap) (T : Toks) (f c : Nat) : Val → List Val → Heap × Option Nat × List Nat × Toks × Nat
  | .ref id, args =>
    if isEmpty h id then appendLoopF h none none [] T f c args
    else appendLoopF h (some id) (some (tailOf h (fuelOf h) id)) [] T f c args
  | .typedNil, args => appendLoopF h none none [] T f c args
  | .nilIface, args => appendLoopF h none none [] T f c args
  | v, args =>
    if isNil v then appendLoopF h none none [] T f c args
    else appendLoopF (h.push (wrapperNode v)) (some h.size) (some h.size) [] (T.push (some { creator := f, site := c })) f (c + 1) args

def appendF (s : FHeap) (f : Nat) (acc : Val) (args : List Val) : FHeap × Val :=
  let r := appendFx s.h s.T f s.sites acc args
  ({ h := r.1, T := r.2.2.2.1, sites := r.2.2.2.2 }, ptrVal r.2.1)

/-! ### rendering -/

/-- `%s` -/
def fmtS (h : Heap) (id : Nat) : String := message h id

def quotable (c : Char) : Bool := (32 ≤ c.toNat && c.toNat ≤ 126) || c == '\n' || c == '\t' || c == '\r'

def quoteChar (c : Char) : String :=
  if c == '"' then "\\\"" else if c == '\\' then "\\\\" else if c == '\n' then "\\n" else if c == '\t' then "\\t"
  else if c == '\r' then "\\r" else c.toString

/-- `%q` (`strconv.Quote`) for messages of printable ASCII, newline, tab and carriage return; `none` outside that class -/
def fmtQ (h : Heap) (id : Nat) : Option String :=
  let m := message h id
  if m.toList.all quotable then some ("\"" ++ String.join (m.toList.map quoteChar) ++ "\"") else none

def tokText : Option Tok → String
  | some t => "«" ++ toString t.creator ++ "." ++ toString t.site ++ "»"
  | none => ""

/-- `Detail`: message and stack text, with the four cases of the source -/
def detailOf (msg st : String) : String :=
  if msg == "" && st == "" then "<no detail>" else if msg == "" then st else if st == "" then msg else msg ++ "\n" ++ st

/-- `StackTrace` with the block of frame lines replaced by the token of the recorded stack: the frames of the error
    itself, then — for a cause that is present and not merely wrapped — `Caused by:` and the cause's own `Detail` (an
    `*Error` cause) or `Error()` text (a foreign cause) -/
def stackC (h : Heap) (T : Toks) : Nat → Nat → String
  | 0, _ => ""
  | fuel+1, id =>
    match h[id]? with
    | none => tokText (tokOf T id)
    | some n =>
      if n.cause != .nilIface && !n.wrapped then
        tokText (tokOf T id) ++ "\n  Caused by: " ++
          (match n.cause with
           | .ref c => detailOf (message h c) (stackC h T fuel c)
           | v => errorText v)
      else tokText (tokOf T id)

/-- `%v` and `%+v` (they differ only inside the frame blocks) -/
def fmtV (h : Heap) (T : Toks) (id : Nat) : String := detailOf (message h id) (stackC h T (h.size + 1) id)

end Errs
