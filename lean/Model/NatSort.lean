/-! C20: total transcription of txt.NaturalCmp on byte lists (bytes as Nat), and the chunk-key specification. Core-only. -/
namespace NatSort


def isDigit (c : Nat) : Bool := 48 ≤ c && c ≤ 57
def fold (ci : Bool) (c : Nat) : Nat := if ci && 97 ≤ c && c ≤ 122 then c - 32 else c

def dropZeros : List Nat → Nat × List Nat
  | 48 :: t => ((dropZeros t).1 + 1, (dropZeros t).2)
  | l => (0, l)
def takeDigits : List Nat → List Nat × List Nat
  | c :: t => if isDigit c then (c :: (takeDigits t).1, (takeDigits t).2) else ([], c :: t)
  | [] => ([], [])

theorem dropZeros_len (l : List Nat) : (dropZeros l).1 + (dropZeros l).2.length = l.length := by
  induction l with
  | nil => simp [dropZeros]
  | cons c t ih =>
    by_cases h : c = 48
    · subst h; simp [dropZeros]; omega
    · have : dropZeros (c :: t) = (0, c :: t) := by
        unfold dropZeros; split
        · rename_i heq; simp at heq; exact absurd heq.1 h
        · rfl
      simp [this]
theorem takeDigits_len (l : List Nat) : (takeDigits l).1.length + (takeDigits l).2.length = l.length := by
  induction l with
  | nil => simp [takeDigits]
  | cons c t ih =>
    simp only [takeDigits]; split <;> simp <;> omega

/-- after dropping zeros and taking digits from a list that starts with a digit, something was consumed -/
theorem digit_progress (c : Nat) (t : List Nat) (h : isDigit c = true) :
    (takeDigits (dropZeros (c :: t)).2).2.length < (c :: t).length := by
  have h1 := dropZeros_len (c :: t)
  have h2 := takeDigits_len (dropZeros (c :: t)).2
  by_cases hz : c = 48
  · subst hz
    have : (dropZeros (48 :: t)).1 ≥ 1 := by simp [dropZeros]
    omega
  · have hd : dropZeros (c :: t) = (0, c :: t) := by
      unfold dropZeros; split
      · rename_i heq; simp at heq; exact absurd heq.1 hz
      · rfl
    rw [hd] at h2 ⊢
    simp only [takeDigits, h, if_true] at h2 ⊢
    simp at h2 ⊢; omega

def cmpBytes : List Nat → List Nat → Ordering
  | [], [] => .eq
  | [], _ => .lt
  | _, [] => .gt
  | a :: s, b :: t => if a < b then .lt else if a > b then .gt else cmpBytes s t

def cmpNat (a b : Nat) : Ordering := if a < b then .lt else if a > b then .gt else .eq

def zc (l : List Nat) : Nat := (dropZeros l).1
def dg (l : List Nat) : List Nat := (takeDigits (dropZeros l).2).1
def rs (l : List Nat) : List Nat := (takeDigits (dropZeros l).2).2

/-- the body of the loop; `none` = "identical so far and at least one side is exhausted" -/
def ncmpLoop (ci : Bool) (s1 s2 : List Nat) : Option Ordering :=
  match s1, s2 with
  | [], _ => none
  | _, [] => none
  | c1 :: t1, c2 :: t2 =>
    if isDigit c1 != isDigit c2 then some (if isDigit c1 then .lt else .gt)
    else if hd : isDigit c1 = false then
      if fold ci c1 != fold ci c2 then some (cmpNat (fold ci c1) (fold ci c2))
      else ncmpLoop ci t1 t2
    else
      if (dg (c1 :: t1)).length != (dg (c2 :: t2)).length then some (cmpNat (dg (c1 :: t1)).length (dg (c2 :: t2)).length)
      else if dg (c1 :: t1) != dg (c2 :: t2) then some (cmpBytes (dg (c1 :: t1)) (dg (c2 :: t2)))
      else if zc (c1 :: t1) != zc (c2 :: t2) then some (cmpNat (zc (c1 :: t1)) (zc (c2 :: t2)))
      else ncmpLoop ci (rs (c1 :: t1)) (rs (c2 :: t2))
termination_by s1.length + s2.length
decreasing_by
  · simp; omega
  · have h1 : isDigit c1 = true := by simpa using hd
    have := digit_progress c1 t1 h1
    have h2' := dropZeros_len (c2 :: t2)
    have h3' := takeDigits_len (dropZeros (c2 :: t2)).2
    simp [rs] at *; omega

def ncmp (s1 s2 : List Nat) (ci : Bool) : Ordering :=
  match ncmpLoop ci s1 s2 with
  | some r => r
  | none =>
    if s1.length = s2.length then (if ci then (match ncmpLoop false s1 s2 with | some r => r | none => cmpNat s1.length s2.length) else .eq)
    else cmpNat s1.length s2.length


inductive Chunk where
  | num (digits : List Nat) (zeros : Nat)
  | byte (b : Nat)
deriving DecidableEq, Repr

def key (ci : Bool) (s : List Nat) : List Chunk :=
  match s with
  | [] => []
  | c :: t =>
    if h : isDigit c = true then
      Chunk.num (dg (c :: t)) (zc (c :: t)) :: key ci (rs (c :: t))
    else Chunk.byte (fold ci c) :: key ci t
termination_by s.length
decreasing_by
  · exact digit_progress c t h
  · simp

def cmpChunk : Chunk → Chunk → Ordering
  | .num _ _, .byte _ => .lt
  | .byte _, .num _ _ => .gt
  | .byte a, .byte b => cmpNat a b
  | .num n1 z1, .num n2 z2 =>
    if n1.length != n2.length then cmpNat n1.length n2.length
    else if n1 != n2 then cmpBytes n1 n2
    else cmpNat z1 z2

def cmpKeysO : List Chunk → List Chunk → Option Ordering
  | [], _ => none
  | _, [] => none
  | a :: s, b :: t => if cmpChunk a b != .eq then some (cmpChunk a b) else cmpKeysO s t

end NatSort

namespace NatSort

/-- Go's `int` result of `NaturalCmp` -/
def ordInt : Ordering → Int | .lt => -1 | .eq => 0 | .gt => 1

def naturalCmp (a b : List Nat) (ci : Bool) : Int := ordInt (ncmp a b ci)
def naturalLess (a b : List Nat) (ci : Bool) : Bool := naturalCmp a b ci < 0

/-- `SortStringsNaturalAscending`: `slices.SortFunc` with `NaturalCmp(a, b, true)`; modelled by a stable merge sort
    (the order is total with `0` only for identical strings, so every correct sort returns the same list). -/
def sortAsc (l : List (List Nat)) : List (List Nat) := l.mergeSort (fun a b => naturalCmp a b true ≤ 0)
def sortDesc (l : List (List Nat)) : List (List Nat) := l.mergeSort (fun a b => naturalCmp b a true ≤ 0)

end NatSort
