import Model.RateLimiter
/-! C16, area `window`: the exploration of ALL interleavings of the ticker goroutine with up to three calls that wait for
    the lock together (the harness holds the lock across a tick and releases it).  Every thread is a list of named single
    steps in program order; a step is taken through `RL.micro` when `enabledM` says it can move.  Core-only; run by the
    driver, `Lemmas/RateLimiterWindow.lean` proves that every outcome is a run of `RL.Step`. -/
namespace RL

/-- can the named step move in `s` (the guards of `RL.micro`, so that a thread that is blocked is not advanced) -/
def enabledM (s : S) : Micro → Bool
  | .useNeg => true
  | .apiLock => s.holder == .free
  | .apiRead | .use _ _ | .newChild _ _ | .closeChild _ | .setCap _ _ => s.holder == .api
  | .closeLock => s.holder == .free && s.cpc == .idle
  | .closeMark => s.holder == .closer && s.cpc == .crit && !s.closed 0
  | .closeSkip => s.cpc == .crit && s.closed 0
  | .closeUnlock => s.cpc == .marked
  | .tickFires => s.tpc == .sel
  | .tickLock => s.tpc == .tlock && s.holder == .free
  | .tickRuns => s.tpc == .tcrit
  | .tickUnlock => s.tpc == .tunl
  | .doneReceived => s.tpc == .sel && s.cpc == .send
  | .drainLock => s.tpc == .dlock && s.holder == .free
  | .drain => s.tpc == .dcrit
  | .drainUnlock => s.tpc == .dunl

/-- the successors of a configuration (state, remaining steps of every thread): one per thread whose next step is
    enabled -/
def nexts (s : S) (ths : List (List Micro)) : List (S × List (List Micro)) :=
  (List.range ths.length).filterMap fun i =>
    match ths.getD i [] with
    | [] => none
    | m :: rest => if enabledM s m then some (micro s m, ths.set i rest) else none

/-- every complete interleaving of the threads; `none` = a schedule got stuck (or the fuel ran out) -/
def explore : Nat → S → List (List Micro) → List (Option S)
  | 0, _, _ => [none]
  | fuel + 1, s, ths =>
    if ths.all List.isEmpty then [some s]
    else if (nexts s ths).isEmpty then [none]
    else (nexts s ths).flatMap fun (s', ths') => explore fuel s' ths'

end RL
