import Model.BitSetChecked
/-! C08: the same transcription with Go's 64-bit `int` made explicit.

`Model/BitSet.lean` computes indexes in unbounded `Nat`.  Go computes them in `int` (64 bits, wrapping silently).  Here
every `int` expression of the source whose value can GROW (`i + 1`, `i2 + 1`, `size * 2`, `len(b.data) << 6`,
`(maximum+1)<<6 - 1`, `i<<6 + j`, `maximum * 64`, the `i++` of every word loop) goes through `fit?`, which is `none`
exactly when the mathematical value does not fit in an `int` (Go would wrap to a negative number).  Expressions that can
only shrink a non-negative value (`>> 6`, `& 63`, `len - 1`, `i--`, `j--` — they bottom out at `-1`) and the counters of
the 64-step bit loops (`j`, `last`, never above 64) cannot leave the range and are left as they are; the cached count
`set` stays an unbounded `Int` here (`C08.count_bounds`: between calls it is within `[0, 64·len]`).  The word accesses
are checked as in `Model/BitSetChecked.lean`.  So `none` = the real code would have wrapped an index (or panicked), and
`Lemmas/BitSetMachineLemmas.lean` (`C08.no_int_overflow*`) proves that this never happens for arguments up to
`math.MaxInt` on any storage of fewer than 2^57 words.  Core-only; the driver executes these. -/
namespace BS

/-- `math.MaxInt` (64-bit `int`) -/
def maxInt : Nat := 9223372036854775807

/-- a non-negative `int` result as Go holds it: `none` when the value does not fit (Go would wrap) -/
def fit? (v : Nat) : Option Nat := if v ≤ maxInt then some v else none

/-- `EnsureCapacity`: `size *= 2` -/
def ensureCapacityM (b : T) (words : Nat) : Option T :=
  let size := b.data.length
  if words > size then do
    let size2 ← fit? (size * 2)
    let size3 := if size2 < words then words else size2
    some { b with data := b.data ++ List.replicate (size3 - size) 0#64 }
  else some b

def setBitM (b : T) (index : Nat) : Option T := do
  let i := wordIdx index
  let b ← ensureCapacityM b (← fit? (i + 1))
  let mask := wordMask index
  let w ← getW? b.data i
  if (w &&& mask) == 0#64 then do
    let d ← setW? b.data i (w ||| mask)
    some { data := d, set := b.set + 1 }
  else some b

def flipBitM (b : T) (index : Nat) : Option T := do
  let i := wordIdx index
  let b ← ensureCapacityM b (← fit? (i + 1))
  let mask := wordMask index
  let w0 ← getW? b.data i
  let w := w0 ^^^ mask
  let d ← setW? b.data i w
  some { data := d, set := if (w &&& mask) == mask then b.set + 1 else b.set - 1 }

/-- the word loop of the range operations: `i++` is an `int` increment -/
def rangeLoopM (whole : W → Int → W × Int) (bit : W → Int → Nat → W × Int) (i1 i2 lastBit : Nat)
    (d : List W) (set : Int) (i j : Nat) : Nat → Option (List W × Int)
  | 0 => some (d, set)
  | n + 1 => do
    let w ← getW? d i
    if i != i1 && i != i2 then
      let r := whole w set
      let d' ← setW? d i r.1
      rangeLoopM whole bit i1 i2 lastBit d' r.2 (← fit? (i + 1)) j n
    else
      let last := if i == i2 then lastBit + 1 else dbpw
      let r := bitLoop bit w set j (last - j)
      let d' ← setW? d i r.1
      rangeLoopM whole bit i1 i2 lastBit d' r.2 (← fit? (i + 1)) 0 n

def runRangeM (whole : W → Int → W × Int) (bit : W → Int → Nat → W × Int) (b : T) (start end_ i1 i2 : Nat) : Option T := do
  let j := bitIndexForMask (wordMask start)
  let r ← rangeLoopM whole bit i1 i2 (bitIndexForMask (wordMask end_)) b.data b.set i1 j (i2 + 1 - i1)
  some { data := r.1, set := r.2 }

def setRangeM (b : T) (start end_ : Nat) : Option T := do
  let se := if start > end_ then (end_, start) else (start, end_)
  let i1 := wordIdx se.1
  let i2 := wordIdx se.2
  let b ← ensureCapacityM b (← fit? (i2 + 1))
  runRangeM wholeSet bitSet b se.1 se.2 i1 i2

def clearRangeM (b : T) (start end_ : Nat) : Option T :=
  let se := if start > end_ then (end_, start) else (start, end_)
  let len := b.data.length
  let i1 := wordIdx se.1
  if i1 + 1 > len then some b
  else
    let i2 := wordIdx se.2
    if i2 + 1 > len then do
      -- `end = (maximum+1)<<addressBitsPerWord - 1`
      let top ← fit? (len <<< abpw)
      runRangeM wholeClear bitClear b se.1 (top - 1) i1 (len - 1)
    else runRangeM wholeClear bitClear b se.1 se.2 i1 i2

def flipRangeM (b : T) (start end_ : Nat) : Option T := do
  let se := if start > end_ then (end_, start) else (start, end_)
  let i1 := wordIdx se.1
  let i2 := wordIdx se.2
  let b ← ensureCapacityM b (← fit? (i2 + 1))
  runRangeM wholeFlip bitFlip b se.1 se.2 i1 i2

/-- CONTRAST (not the code; the shape of ind6-c08-a): `ClearRange` over a half-open range `[start, limit)` with
    `limit := min(end+1, len(b.data)<<6)` — `end + 1` is an `int` addition -/
def clearRangeHalfOpenM (b : T) (start end_ : Nat) : Option T := do
  let se := if start > end_ then (end_, start) else (start, end_)
  let e1 ← fit? (se.2 + 1)
  let top ← fit? (b.data.length <<< abpw)
  let limit := min e1 top
  some ((List.range' se.1 (limit - se.1)).foldl clearBit b)

/-- `return i<<addressBitsPerWord + j` -/
def idxM (i j : Nat) : Option Nat := do fit? ((← fit? (i <<< abpw)) + j)

def nextLoopM (skip : W) (test : W → W → Bool) (d : List W) (i firstBit : Nat) : Nat → Option (Option Nat)
  | 0 => some none
  | n + 1 => do
    let word ← getW? d i
    match (if word != skip then scanUp test word firstBit (dbpw - firstBit) else none) with
    | some j => some (some (← idxM i j))
    | none => nextLoopM skip test d (← fit? (i + 1)) 0 n

def prevLoopM (skip : W) (test : W → W → Bool) (d : List W) (firstBit : Nat) : Nat → Option (Option Nat)
  | 0 => some none
  | i + 1 => do
    let word ← getW? d i
    match (if word != skip then scanDown test word (firstBit + 1) else none) with
    | some j => some (some (← idxM i j))
    | none => prevLoopM skip test d 63 i

def nextSetM (b : T) (start : Nat) : Option Int := do
  let i := wordIdx start
  let firstBit := bitIndexForMask (wordMask start)
  let maximum := b.data.length
  match ← nextLoopM 0#64 testSet b.data i firstBit (maximum - i) with
  | some r => some (Int.ofNat r)
  | none => some (-1)

def previousSetM (b : T) (start : Nat) : Option Int := do
  let i := wordIdx start
  let p := if i + 1 > b.data.length then (b.data.length, 63) else (i + 1, bitIndexForMask (wordMask start))
  match ← prevLoopM 0#64 testSet b.data p.2 p.1 with
  | some r => some (Int.ofNat r)
  | none => some (-1)

def firstSetM (b : T) : Option Int := nextSetM b 0
/-- `b.PreviousSet(len(b.data) << addressBitsPerWord)` -/
def lastSetM (b : T) : Option Int := do previousSetM b (← fit? (b.data.length <<< abpw))

def previousClearM (b : T) (start : Nat) : Option Int :=
  let i := wordIdx start
  if i + 1 > b.data.length then some (Int.ofNat start)
  else do
    let firstBit := bitIndexForMask (wordMask start)
    match ← prevLoopM (BitVec.allOnes 64) testClear b.data firstBit (i + 1) with
    | some r => some (Int.ofNat r)
    | none => some (-1)

def nextClearM (b : T) (start : Nat) : Option Int := do
  let i := wordIdx start
  let firstBit := bitIndexForMask (wordMask start)
  let maximum := b.data.length
  match ← nextLoopM (BitVec.allOnes 64) testClear b.data i firstBit (maximum - i) with
  | some r => some (Int.ofNat r)
  | none => some (Int.ofNat (max (← fit? (maximum * dbpw)) start))

/-- `Trim`: the `i++` after the first non-zero word from the top -/
def trimLoopM (d : List W) : Nat → Option (Option Nat)
  | 0 => some none
  | i + 1 => do
    let w ← getW? d i
    if w != 0#64 then some (some (← fit? (i + 1))) else trimLoopM d i

def trimM (b : T) : Option T := do
  let size := b.data.length
  match ← trimLoopM b.data size with
  | some i => some (if i != size then { b with data := b.data.take i } else b)
  | none => some { b with data := [] }

def dataM (b : T) : Option (T × List W) := do
  let b ← trimM b
  some (b, b.data)

def loadM (b : T) (data : List W) : Option T := do
  let b ← trimM { b with data := data }
  let s ← loadLoopC data 0 b.data.length
  some { data := b.data, set := s }

/-- one call of a history with `int` arithmetic and word accesses checked (`State`, `Clear`, `Equal`, `Copy`, `Clone`,
    `Reset` contain no growing `int` expression: they are the checked forms) -/
def applyOpM (p : Pair) : Op → Option Pair
  | .set r i => do some (p.put r (← setBitM (p.get r) i))
  | .clear r i => do some (p.put r (← clearBitC (p.get r) i))
  | .flip r i => do some (p.put r (← flipBitM (p.get r) i))
  | .setRange r s e => do some (p.put r (← setRangeM (p.get r) s e))
  | .clearRange r s e => do some (p.put r (← clearRangeM (p.get r) s e))
  | .flipRange r s e => do some (p.put r (← flipRangeM (p.get r) s e))
  | .load r ws => do some (p.put r (← loadM (p.get r) ws))
  | .copy r q => some (p.put r (copy (p.get r) (p.get q)))
  | .clone r q => some (p.put r (clone (p.get q)))
  | .trim r => do some (p.put r (← trimM (p.get r)))
  | .ensure r n => do some (p.put r (← ensureCapacityM (p.get r) n))
  | .reset r => some (p.put r (reset (p.get r)))
  | .data r => do some (p.put r (← dataM (p.get r)).1)
  | .loadData r q => do
    let d ← dataM (p.get q)
    let p := p.put q d.1
    some (p.put r (← loadM (p.get r) d.2))

/-- the `int` quantities a call brings in: indexes, the word count of `EnsureCapacity`, `len(data)` of `Load` -/
def Op.args : Op → List Nat
  | .set _ i | .clear _ i | .flip _ i => [i]
  | .setRange _ s e | .clearRange _ s e | .flipRange _ s e => [s, e]
  | .ensure _ n => [n]
  | .load _ ws => [ws.length]
  | _ => []

end BS
