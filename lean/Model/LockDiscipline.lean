/-! # Lock discipline facts: types and decidable checks.  Core-only.

`gossa/lockfacts` computes, from the typed SSA form of the Go source of the working tree, for every instruction that
touches mutable shared state of a mutex-guarded struct, which lock state the executing goroutine holds there
(`Generated/Lock_<target>.lean`, regenerated on every run of C12, C13, C16, C17).  This file holds the types of those
tables and the checks the property modules `Props/CxxLock.lean` decide about them; `Lemmas/LockSound.lean` proves what
the checks buy (no two goroutines are ever inside conflicting accesses; nothing blocks while holding the lock). -/
namespace LockFacts

/-- what a goroutine holds of the mutex that guards the struct: nothing, the read half, the mutex -/
inductive State where | free | shared | exclusive
deriving DecidableEq, Repr

inductive Kind where | read | write | use
deriving DecidableEq, Repr

/-- how the state is reached from the guarded struct: the field cell itself, an entry of the map / an element of the
    slice / the object the field refers to -/
inductive Via where | cell | mapEntry | sliceElem | pointee
deriving DecidableEq, Repr

/-- the code runs on the caller's goroutine, on a goroutine the package started, or in a closure that escaped -/
inductive Ctx where | api | spawned | escaped
deriving DecidableEq, Repr

inductive What where | callback | sinkWrite | send | sendNB | recv | recvNB | acquire | acquireShared | spawn
deriving DecidableEq, Repr

/-- for a struct with a channel-typed field: is the instruction dominated by the test `field == nil` / `field != nil` -/
inductive Guard where | none | chanNil | chanSet
deriving DecidableEq, Repr

/-- one access to mutable shared state.  `must` is the weakest lock state over ALL paths to the instruction, `may` the
    strongest over SOME path. -/
structure Access where
  fn : String
  owner : String
  field : String
  kind : Kind
  via : Via
  must : State
  may : State
  ctx : Ctx
deriving Repr

structure Event where
  fn : String
  what : What
  name : String
  must : State
  may : State
  ctx : Ctx
  guard : Guard
deriving Repr

def State.rank : State → Nat
  | .free => 0
  | .shared => 1
  | .exclusive => 2

instance : LE State := ⟨fun a b => a.rank ≤ b.rank⟩
instance (a b : State) : Decidable (a ≤ b) := inferInstanceAs (Decidable (a.rank ≤ b.rank))

/-- the access is made with enough of the lock held on every path: a write (of the cell, of a map entry, of a slice
    element, of the object referred to) under the mutex, a read under at least its read half -/
def Access.locked (a : Access) : Bool :=
  match a.kind with
  | .write => a.must == .exclusive
  | .read => a.must != .free
  | .use => a.must != .free

/-- the one unlocked access pattern of this code base: READING the elements of a slice value that was copied out of the
    struct under the lock (a snapshot handed to the code that runs the callbacks).  Element WRITES are never exempt. -/
def Access.snapshotRead (a : Access) : Bool :=
  a.kind == .read && a.via == .sliceElem

/-- every access is locked, without exception -/
def strictlyDisciplined (l : List Access) : Bool := l.all Access.locked

/-- every access is locked, or is a read of the elements of a snapshot -/
def disciplined (l : List Access) : Bool := l.all (fun a => a.locked || a.snapshotRead)

def Event.isAcquire (e : Event) : Bool := e.what == .acquire || e.what == .acquireShared
def Event.isBlockingChan (e : Event) : Bool := e.what == .send || e.what == .recv

/-- no acquisition of the (non re-entrant) mutex on a path that already holds it -/
def noReacquire (l : List Event) : Bool := l.all (fun e => !e.isAcquire || e.may == .free)

/-- user callbacks (targets, batch targets) run with the lock free on every path -/
def callbacksUnlocked (l : List Event) : Bool := l.all (fun e => !(e.what == .callback) || e.may == .free)

/-- blocking channel operations happen with the lock free on every path -/
def blockingUnlocked (l : List Event) : Bool := l.all (fun e => !e.isBlockingChan || e.may == .free)

/-- the sink is written by a caller's goroutine only on the path where no delivery channel exists, and then under the
    mutex on every path -/
def sinkWritesSerialized (l : List Event) : Bool :=
  l.all (fun e => !(e.what == .sinkWrite && e.ctx == .api) || (e.guard == .chanNil && e.must == .exclusive))

/-- with a delivery channel the caller's goroutine only does a non-blocking send, holding nothing -/
def bufferedPathLockFree (l : List Event) : Bool :=
  l.all (fun e => !(e.guard == .chanSet) || (e.what == .sendNB && e.may == .free))

/-- the sink writes that do not come from a caller's goroutine all come from goroutines the package started itself -/
def backgroundWritesSpawned (l : List Event) : Bool :=
  l.all (fun e => !(e.what == .sinkWrite && e.ctx != .api) || e.ctx == .spawned)

def spawnCount (l : List Event) : Nat := (l.filter (fun e => e.what == .spawn)).length

end LockFacts
