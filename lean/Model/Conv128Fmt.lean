import Model.Conv128
/-! # C02 — `Format` (fmt.Formatter) of `num.Uint128` / `num.Int128` (core Lean only, executable)

`func (u Uint128) Format(s fmt.State, c rune) { u.AsBigInt().Format(s, c) }` (and the same for `Int128`): the value goes
through `AsBigInt` (modelled in `Model/Conv128.lean`) into `(*big.Int).Format`, transcribed here statement for statement
from go1.24.2 `math/big/intconv.go`: base of the verb, sign character, base prefix (`#`, and always for `O`), digits
(`nat.utoa`, upper-cased for `X`), zero padding from the precision, field padding from the width (`-` supersedes `0`,
`0` only without a precision), output `[left pad][sign][prefix][zero pad][digits][right pad]`.

The `fmt.State` is data: the five flags as `State.Flag` reports them, `Width()` and `Precision()`.  The driver runs
`U128.format` / `I128.format` against the real method called with exactly such a `fmt.State` and against `fmt.Sprintf`
with the corresponding format string (area `format`). -/
namespace Conv

/-- what a `fmt.State` answers: `Flag('+')`, `Flag('-')`, `Flag('#')`, `Flag(' ')`, `Flag('0')`, `Width()`, `Precision()` -/
structure FmtState where
  plus : Bool
  minus : Bool
  sharp : Bool
  space : Bool
  zero : Bool
  width : Option Nat
  prec : Option Nat
deriving DecidableEq, Repr

/-- digit `d < 36` as `nat.utoa` writes it (`0123456789abcdefghijklmnopqrstuvwxyz`), upper-cased on request -/
def fmtDigit (upper : Bool) (d : Nat) : Char :=
  if d < 10 then Char.ofNat (48 + d) else if upper then Char.ofNat (55 + d) else Char.ofNat (87 + d)

/-- `x.abs.utoa(base)`: digits of `n` in base `b ≥ 2`, most significant first, `0` for zero; `upper` = the
    `'a'..'z' → 'A'..'Z'` loop of the verb `X`; `fuel` bounds the number of digits -/
def utoaAux (upper : Bool) (b : Nat) : Nat → Nat → List Char
  | 0, n => [fmtDigit upper n]
  | fuel + 1, n =>
    if 2 ≤ b ∧ b ≤ n then utoaAux upper b fuel (n / b) ++ [fmtDigit upper (n % b)] else [fmtDigit upper n]
def utoa (upper : Bool) (b n : Nat) : List Char := utoaAux upper b n n

/-- the `switch ch` that determines the base; `none` = unknown format (`%!c(big.Int=…)`, not constrained) -/
def verbBase (ch : Char) : Option Nat :=
  if ch = 'b' then some 2
  else if ch = 'o' ∨ ch = 'O' then some 8
  else if ch = 'd' ∨ ch = 's' ∨ ch = 'v' then some 10
  else if ch = 'x' ∨ ch = 'X' then some 16
  else none

def fmtSign (st : FmtState) (neg : Bool) : List Char :=
  if neg then ['-'] else if st.plus then ['+'] else if st.space then [' '] else []

def fmtPrefix (st : FmtState) (ch : Char) : List Char :=
  if ch = 'O' then ['0', 'o']
  else if st.sharp then
    (if ch = 'b' then ['0', 'b'] else if ch = 'o' then ['0'] else if ch = 'x' then ['0', 'x']
     else if ch = 'X' then ['0', 'X'] else [])
  else []

/-- the three paddings `(left, zeros, right)`; `none` = the early `return` (zero value with zero precision) -/
def fmtPads (st : FmtState) (signLen prefixLen : Nat) (digits : List Char) : Option (Nat × Nat × Nat) :=
  let zerosP : Option Nat :=
    match st.prec with
    | some p => if digits.length < p then some (p - digits.length) else if digits = ['0'] ∧ p = 0 then none else some 0
    | none => some 0
  match zerosP with
  | none => none
  | some z =>
    let length := signLen + prefixLen + z + digits.length
    match st.width with
    | some w =>
      if length < w then
        let d := w - length
        if st.minus then some (0, z, d)
        else if st.zero ∧ st.prec = none then some (0, d, 0)
        else some (d, z, 0)
      else some (0, z, 0)
    | none => some (0, z, 0)

def blanks (k : Nat) : List Char := List.replicate k ' '
def zeroPad (k : Nat) : List Char := List.replicate k '0'

/-- `(*big.Int).Format(s, ch)` on the value `z`: `none` = unknown verb (the text is not constrained) -/
def bigFormat (st : FmtState) (ch : Char) (z : Int) : Option (List Char) :=
  match verbBase ch with
  | none => none
  | some base =>
    let sign := fmtSign st (decide (z < 0))
    let pfx := fmtPrefix st ch
    let digits := utoa (decide (ch = 'X')) base z.natAbs
    match fmtPads st sign.length pfx.length digits with
    | none => some []
    | some (l, zr, r) => some (blanks l ++ sign ++ pfx ++ zeroPad zr ++ digits ++ blanks r)

/-- `Uint128.Format` / `Int128.Format` -/
def U128.format (st : FmtState) (ch : Char) (u : U128) : Option (List Char) := bigFormat st ch u.asBigInt
def I128.format (st : FmtState) (ch : Char) (i : I128) : Option (List Char) := bigFormat st ch i.asBigInt

/-- `state.Token(true, nil)` of `fmt.ScanState` on a text: leading blanks are skipped, the token runs to the next blank -/
def fmtToken (text : List Char) : List Char := (text.dropWhile (· = ' ')).takeWhile (· ≠ ' ')

end Conv
