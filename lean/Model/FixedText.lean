/-! C04: text forms of the fixed-point types `f64.Int[T]` / `f128.Int[T]` — `String`, `FromString`, `Comma`,
    the `*WithSign` forms, `txt.CommaFromStringNum`, `txt.Unquote`, integer-target `As`/`CheckedAs`.
    Strings are Go strings = byte lists (`List Nat`); a raw value is an `Int` (f64: wrap-around through `wrap64`,
    f128: `num.Int128` operations by their contracts, `Int128FromBigInt` saturating).  A configuration is the pair
    `(places, mult)` = `(T.Places(), T.Multiplier())` taken from `Facts.fixedConfigs`.  Core-only. -/
namespace FixedText

abbrev Str := List Nat

/-! ### machine integers -/
def wrap64 (z : Int) : Int := (z + 2^63) % 2^64 - 2^63
def fits64 (z : Int) : Bool := -(2^63) ≤ z && z < 2^63
def wrap128 (z : Int) : Int := (z + 2^127) % 2^128 - 2^127
def fits128 (z : Int) : Bool := -(2^127) ≤ z && z < 2^127
/-- `num.Int128FromBigInt`: magnitudes that do not fit become `MaxInt128` / `MinInt128` -/
def sat128 (z : Int) : Int :=
  if 0 ≤ z then (if z < 2^127 - 1 then z else 2^127 - 1)
  else (if -z < 2^127 then z else -(2^127))

/-! ### decimal digits (strconv.FormatInt / Int128.String) -/
/-- digit values of `n`, most significant first; `[]` for 0 -/
def natDigits : Nat → List Nat
  | 0 => []
  | n+1 => natDigits ((n+1) / 10) ++ [(n+1) % 10]
decreasing_by omega
def natStr (n : Nat) : Str := if n = 0 then [48] else (natDigits n).map (48 + ·)
def intStr (z : Int) : Str := if z < 0 then 45 :: natStr z.natAbs else natStr z.natAbs

/-! ### String() -/
def stripZeros (l : Str) : Str := (l.reverse.dropWhile (· = 48)).reverse

/-- `for i := len(fStr)-1; i > 0; i-- { if fStr[i] != '0' { fStr = fStr[1:i+1]; break } }` — when a byte other than
    '0' exists behind position 0 the result is `fStr[1:]` without its trailing zeros, otherwise `fStr` is unchanged -/
def stripLoop : Str → Str
  | [] => []
  | h :: t => if stripZeros t = [] then h :: t else stripZeros t

/-- `Int[T].String()` of both types (f64: `f / mult`, `f % mult`; f128: `Div`, see `toStr128`) -/
def toStr (mult : Int) (raw : Int) : Str :=
  let integer := raw.tdiv mult
  let fraction := raw.tmod mult
  if fraction = 0 then intStr integer
  else
    let fraction := if fraction < 0 then -fraction else fraction
    let fStr := stripLoop (intStr (fraction + mult))
    (if integer = 0 ∧ raw < 0 then [45] else []) ++ intStr integer ++ [46] ++ fStr

/-- f128 computes the fraction as `f.data.Sub(integer.Mul(mult))` -/
def toStr128 (mult : Int) (raw : Int) : Str :=
  let integer := raw.tdiv mult
  let fraction := raw - integer * mult
  if fraction = 0 then intStr integer
  else
    let fraction := if fraction < 0 then -fraction else fraction
    let fStr := stripLoop (intStr (fraction + mult))
    (if integer = 0 ∧ raw < 0 then [45] else []) ++ intStr integer ++ [46] ++ fStr

def toStrSign (mult raw : Int) : Str := if raw ≥ 0 then 43 :: toStr mult raw else toStr mult raw

/-! ### txt.CommaFromStringNum -/
/-- `strings.SplitN(s, ".", 2)`: the part before the first dot and, if there is a dot, everything behind it -/
def splitDot : Str → Str × Option Str
  | [] => ([], none)
  | c :: t => if c = 46 then ([], some t) else (c :: (splitDot t).1, (splitDot t).2)

/-- the loop writing groups of three, a comma in front of each once `needComma` is set -/
def groups : Bool → Str → Str
  | nc, a :: b :: c :: t => (if nc then [44] else []) ++ [a, b, c] ++ groups true t
  | _, _ => []

/-- the integer part with separators: a first group of `len % 3` bytes (if any), then groups of three -/
def commaBody (ip : Str) : Str :=
  (if ip.length % 3 ≠ 0 then ip.take (ip.length % 3) else []) ++ groups (ip.length % 3 ≠ 0) (ip.drop (ip.length % 3))

/-- what follows the optional '-': `parts := strings.Split(s, ".")`, parts[0] grouped, then "." and parts[1] if present -/
def commaUnsigned (s : Str) : Str :=
  match (splitDot s).2 with
  | none => commaBody (splitDot s).1
  | some rest => commaBody (splitDot s).1 ++ [46] ++ (splitDot rest).1

def commaNum (s : Str) : Str :=
  match s with
  | 45 :: t => 45 :: commaUnsigned t
  | _ => commaUnsigned s

def comma (mult raw : Int) : Str := commaNum (toStr mult raw)
def commaSign (mult raw : Int) : Str := if raw ≥ 0 then 43 :: comma mult raw else comma mult raw

/-! ### txt.Unquote -/
def unquote (s : Str) : Str :=
  if s.length > 1 ∧ s.head? = some 34 ∧ s.getLast? = some 34 then (s.drop 1).dropLast else s

/-! ### FromString -/
def isDigit (c : Nat) : Bool := 48 ≤ c && c ≤ 57
def parseDigits (ds : Str) : Nat := ds.foldl (fun acc c => acc * 10 + (c - 48)) 0

/-- at least one byte, digits only -/
def parseUnsigned (ds : Str) : Option Nat :=
  if ds = [] ∨ ds.all isDigit = false then none else some (parseDigits ds)

/-- the grammar shared by `strconv.ParseInt(s, 10, 64)` and `big.Int.SetString(s, 10)`: optional sign, at least one
    digit, nothing else (no underscores in base 10) -/
def parseSigned (s : Str) : Option Int :=
  match s with
  | 45 :: t => (parseUnsigned t).map (fun n => -(n : Int))
  | 43 :: t => (parseUnsigned t).map (fun n => (n : Int))
  | t => (parseUnsigned t).map (fun n => (n : Int))

/-- `strconv.ParseInt(s, 10, 64)`: out-of-range is an error -/
def parseInt64 (s : Str) : Option Int :=
  match parseSigned s with
  | some z => if fits64 z then some z else none
  | none => none

inductive Res where
  | ok (raw : Int)
  | err
  | exp        -- the `strconv.ParseFloat` branch (contains 'e' or 'E'): outside the model
deriving DecidableEq, Repr

def stripCommas (s : Str) : Str := s.filter (· != 44)
def hasExp (s : Str) : Bool := s.any (fun c => c == 69 || c == 101)

/-- "1" + fraction, padded with '0' to `1 + places` bytes, cut to `1 + places` bytes -/
def fracBuf (places : Nat) (f : Str) : Str :=
  ((49 :: f) ++ List.replicate (1 + places - (49 :: f).length) 48).take (1 + places)

/-- `f64.FromString[T]`, the `switch parts[0]`: the scaled integer part and the sign flag, `none` = error -/
def head64 (mult : Int) (p0 : Str) : Option (Int × Bool) :=
  if p0 = [] ∨ p0 = [43] then some (0, false)     -- case "", "+"
  else if p0 = [45] ∨ p0 = [45, 48] then some (0, true)
  else match parseInt64 p0 with
    | none => none
    | some v =>
      if v < 0 then some (wrap64 (wrap64 (-v) * mult), true)
      else some (wrap64 (v * mult), p0.head? = some 45)

/-- `f64.FromString[T]`, the `if len(parts) > 1` block and the final negation -/
def tail64 (places : Nat) (mult : Int) (value : Int) (neg : Bool) (frac : Option Str) : Res :=
  match frac with
  | none => .ok (if neg then wrap64 (-value) else value)
  | some f =>
    match parseInt64 (fracBuf places f) with
    | none => .err
    | some fraction =>
      let value := wrap64 (value + (fraction - mult))
      .ok (if neg then wrap64 (-value) else value)

/-- `f64.FromString[T]` -/
def fromStr64 (places : Nat) (mult : Int) (str : Str) : Res :=
  if str = [] then .err else
  let str := stripCommas str
  if hasExp str then .exp else
  match head64 mult (splitDot str).1 with
  | none => .err
  | some (value, neg) => tail64 places mult value neg (splitDot str).2

/-- `f128.FromString[T]` (big.Int arithmetic), the `switch parts[0]` -/
def head128 (mult : Int) (p0 : Str) : Option (Int × Bool) :=
  if p0 = [] ∨ p0 = [43] then some (0, false)     -- case "", "+"
  else if p0 = [45] ∨ p0 = [45, 48] then some (0, true)
  else match parseSigned p0 with
    | none => none
    | some v =>
      if v < 0 then some ((-v) * mult, true)
      else some (v * mult, p0.head? = some 45)

/-- `f128.FromString[T]`, the fraction block, the negation and the saturating `num.Int128FromBigInt` -/
def tail128 (places : Nat) (mult : Int) (value : Int) (neg : Bool) (frac : Option Str) : Res :=
  match frac with
  | none => .ok (sat128 (if neg then -value else value))
  | some f =>
    match parseSigned (fracBuf places f) with
    | none => .err
    | some fraction =>
      let value := value + fraction - mult
      .ok (sat128 (if neg then -value else value))

/-- `f128.FromString[T]` -/
def fromStr128 (places : Nat) (mult : Int) (str : Str) : Res :=
  if str = [] then .err else
  let str := stripCommas str
  if hasExp str then .exp else
  match head128 mult (splitDot str).1 with
  | none => .err
  | some (value, neg) => tail128 places mult value neg (splitDot str).2

/-- `UnmarshalText` / `UnmarshalJSON`: `FromString(txt.Unquote(text))` -/
def unmarshal64 (places : Nat) (mult : Int) (s : Str) : Res := fromStr64 places mult (unquote s)
def unmarshal128 (places : Nat) (mult : Int) (s : Str) : Res := fromStr128 places mult (unquote s)

/-! ### As / CheckedAs, integer targets -/
structure Target where
  bits : Nat
  signed : Bool
deriving DecidableEq, Repr

/-- Go integer conversion `TO(x)` -/
def conv (t : Target) (z : Int) : Int :=
  if t.signed then (z + 2^(t.bits - 1)) % 2^t.bits - 2^(t.bits - 1) else z % 2^t.bits

/-- `f64.As`: `TO(int64(f) / Multiplier)` -/
def as64 (mult : Int) (t : Target) (raw : Int) : Int := conv t (raw.tdiv mult)
/-- `f64.From` of an integer: `Int[T](int64(value) * Multiplier)` -/
def from64 (mult : Int) (n : Int) : Int := wrap64 (wrap64 n * mult)
def checkedAs64 (mult : Int) (t : Target) (raw : Int) : Option Int :=
  let n := as64 mult t raw
  if from64 mult n ≠ raw then none else some n

/-- `f128.As`: `TO(f.data.Div(mult).AsInt64())` (`AsInt64` keeps the low 64 bits) -/
def as128 (mult : Int) (t : Target) (raw : Int) : Int := conv t (wrap64 (raw.tdiv mult))
/-- `f128.From` of an integer: through `uint64` for unsigned kinds, through `int64` otherwise; `Int128.Mul` wraps -/
def from128 (mult : Int) (t : Target) (n : Int) : Int :=
  if t.signed then wrap128 (wrap64 n * mult) else wrap128 ((n % 2^64) * mult)
def checkedAs128 (mult : Int) (t : Target) (raw : Int) : Option Int :=
  let n := as128 mult t raw
  if from128 mult t n ≠ raw then none else some n

/-! ### As / CheckedAs, float targets

The two strconv functions (and, for f128, the big.Float quotient) are parameters: `F` is the target float type,
`parseFloat t` = `strconv.ParseFloat(t, bits)`, `formatFloat x` = `strconv.FormatFloat(float64(x), 'f', -1, bits)`,
`quo raw mult` = `big.Float(prec 128).Quo(raw, mult).Float64()` converted to `TO`.  These definitions are not run by the
driver (the harness judges this clause with an exact-rational oracle); they exist so that the clause can be stated and
reduced to the contracts of the stdlib functions (Props/C04.lean, `checkedAs_float_*`). -/

/-- `f64.As` to a float type: `TO(asFloat(f, bits))`, `asFloat` = `strconv.ParseFloat(f.String(), bits)` -/
def asFloat64 {F : Type} (parseFloat : Str → F) (mult raw : Int) : F := parseFloat (toStr mult raw)

/-- `f64.CheckedAs` to a float type -/
def checkedAsFloat64 {F : Type} (parseFloat : Str → F) (formatFloat : F → Str) (mult raw : Int) : Option F :=
  let n := asFloat64 parseFloat mult raw
  if formatFloat n ≠ toStr mult raw then none else some n

/-- `f128.As` to a float type -/
def asFloat128 {F : Type} (quo : Int → Int → F) (mult raw : Int) : F := quo raw mult

/-- `f128.CheckedAs` to a float type -/
def checkedAsFloat128 {F : Type} (quo : Int → Int → F) (formatFloat : F → Str) (mult raw : Int) : Option F :=
  let n := asFloat128 quo mult raw
  if formatFloat n ≠ toStr128 mult raw then none else some n

end FixedText
