import Model.TaskQueue
/-! C15: callers that use the queue outside its contract — `Submit` after, or blocked in `q.in <- task` at, `Shutdown`.
    What the code does: `Shutdown` closes `q.in`; a send on a closed channel panics in the SENDING goroutine ("send on
    closed channel"), also a send that was blocked on the full channel when it was closed.  Nothing reaches the queue:
    the task is not accepted.  The layer adds to the threaded model the count of such caller panics; the queue part
    moves by `TQW.tnext` unchanged.  Core-only; run by the driver for the script lines `late` and `shutx`. -/
namespace TQE
open TQ TQW

structure ES where
  ts : TS := {}
  callerPanics : Nat := 0   -- Submit calls that ended in the panic "send on closed channel"
deriving DecidableEq, BEq, Hashable, Repr

inductive ELabel where
  | inner (l : TLabel)      -- a rule of the queue
  | submitClosed            -- a Submit call whose send finds `q.in` closed (or is woken by the close): panics
deriving DecidableEq, BEq, Hashable, Repr

/-- executable step -/
def enext (v : Variant) (c : Cfg) (e : ES) : ELabel → Option ES
  | .inner l => (tnext v c e.ts l).map fun ts' => { e with ts := ts' }
  | .submitClosed => if 1 ≤ e.ts.q.shut then some { e with callerPanics := e.callerPanics + 1 } else none

inductive EStep (v : Variant) (c : Cfg) : ES → ES → Prop
  | inner (e : ES) (ts' : TS) (h : TStep v c e.ts ts') : EStep v c e { e with ts := ts' }
  | submitClosed (e : ES) (h : 1 ≤ e.ts.q.shut) : EStep v c e { e with callerPanics := e.callerPanics + 1 }

inductive EReachable (v : Variant) (c : Cfg) : ES → Prop
  | init : EReachable v c { ts := TQW.init c }
  | step (e e' : ES) : EReachable v c e → EStep v c e e' → EReachable v c e'

def erunLabels (v : Variant) (c : Cfg) : ES → List ELabel → Option ES
  | e, [] => some e
  | e, l :: ls => match enext v c e l with
    | some e' => erunLabels v c e' ls
    | none => none

end TQE
