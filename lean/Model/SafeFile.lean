/-! C14: `safe.File` / `safe.WriteFileWithMode` (xio/fs/safe/file.go, writefile.go, xio/fs/internal/temp.go) as the
    sequence of file-system actions the kernel sees, a file-system state with atomic rename, and `bufio.Writer`'s
    fill / flush / bypass rule.  Core-only. -/
namespace Safe

abbrev Bytes := List Nat
abbrev Path := Nat                      -- paths are opaque names inside the destination directory

structure FileData where
  content : Bytes
  mode : Nat
deriving DecidableEq, Repr

/-- the destination directory: name ↦ file (content, permission bits) or absent -/
abbrev FS := Path → Option FileData

def FS.set (fs : FS) (p : Path) (v : Option FileData) : FS := fun q => if q = p then v else fs q

/-- `mode &^ umask` (what `openat(…, O_CREAT, mode)` gives the new file) -/
def lessUmask (mode umask : Nat) : Nat := mode ^^^ (mode &&& umask)

/-- what strace shows in the destination directory.  The `…Fail` actions are system calls that return an error:
    they have no effect on the file system, what follows them is the cleanup path. -/
inductive Act
  | createExcl (p : Path) (mode : Nat)  -- openat(p, O_RDWR|O_CREAT|O_EXCL|O_CLOEXEC, mode)
  | write (p : Path) (chunk : Bytes)    -- write(fd of p, chunk) = |chunk|
  | writeFail (p : Path) (n : Nat)      -- write(fd of p, n bytes) = -1
  | close (p : Path)
  | closeFail (p : Path)
  | rename (src dst : Path)             -- renameat(src, dst) = 0, atomic
  | renameFail (src dst : Path)
  | unlink (p : Path)                   -- unlinkat(p, 0) = 0
deriving DecidableEq, Repr

def applyAct (umask : Nat) (fs : FS) : Act → FS
  | .createExcl p m => fs.set p (some ⟨[], lessUmask m umask⟩)
  | .write p c => match fs p with
      | some d => fs.set p (some ⟨d.content ++ c, d.mode⟩)
      | none => fs
  | .rename s d => match fs s with
      | some c => (fs.set s none).set d (some c)      -- the source name goes, the destination name gets the file
      | none => fs                                     -- (in this order `rename x x` leaves the file alone, as POSIX says)
  | .unlink p => fs.set p none
  | .writeFail _ _ => fs
  | .close _ => fs
  | .closeFail _ => fs
  | .renameFail _ _ => fs

/-- the file system after a sequence of actions; `run u fs (acts.take k)` is the state found after a kill on entry
    to action number `k` -/
def run (umask : Nat) (fs : FS) : List Act → FS
  | [] => fs
  | a :: as => run umask (applyAct umask fs a) as

/-- paths an action can change -/
def targets : Act → List Path
  | .createExcl p _ => [p]
  | .write p _ => [p]
  | .unlink p => [p]
  | .rename s d => [s, d]
  | .writeFail _ _ => []
  | .close _ => []
  | .closeFail _ => []
  | .renameFail _ _ => []

/-! ## bufio.Writer (size `N`) in front of the file -/

/-- one `bufio.Writer.Write(p)`: the chunks handed to the underlying file, and the new buffer content.
    Go: `for len(p) > b.Available() { if b.Buffered() == 0 { wr.Write(p) } else { copy; Flush } ; p = p[n:] }; copy`. -/
def bufWrite (N : Nat) (buf p : Bytes) : List Bytes × Bytes :=
  if p.length ≤ N - buf.length then ([], buf ++ p)            -- fits: copy only
  else if buf.length = 0 then ([p], [])                        -- large write, empty buffer: bypass
  else
    if (p.drop (N - buf.length)).length ≤ N then
      ([buf ++ p.take (N - buf.length)], p.drop (N - buf.length))        -- fill, flush, copy the rest
    else
      ([buf ++ p.take (N - buf.length), p.drop (N - buf.length)], [])    -- fill, flush, bypass with the rest

/-- the writer callback handing over `pieces` one `Write` at a time: (chunks written to the file, buffer left) -/
def feed (N : Nat) : Bytes → List Bytes → List Bytes × Bytes
  | buf, [] => ([], buf)
  | buf, p :: ps =>
    let r := bufWrite N buf p
    let r2 := feed N r.2 ps
    (r.1 ++ r2.1, r2.2)

/-- `Flush`: nothing buffered — no system call -/
def flush (buf : Bytes) : List Bytes := if buf.length = 0 then [] else [buf]

/-- every `write(2)` of a fault-free `WriteFile` whose callback writes `pieces` -/
def chunks (N : Nat) (pieces : List Bytes) : List Bytes :=
  let r := feed N [] pieces
  r.1 ++ flush r.2

/-! ## safe.File -/

inductive Res | ok | invalid | closed | cb | errno | panic
deriving DecidableEq, Repr

structure File where
  tmp : Path
  dst : Path
  committed : Bool := false
  closed : Bool := false
  fdOpen : Bool := true        -- the embedded *os.File has not been closed yet
deriving DecidableEq, Repr

/-- `CreateWithMode` (the temporary name is the first one `O_EXCL` accepts; it is a parameter here) -/
def File.create (tmp dst : Path) (mode : Nat) : File × List Act := ({ tmp := tmp, dst := dst }, [.createExcl tmp mode])

/-- `(*os.File).Write` through the embedded file; `fails`: the system call returns an error -/
def File.write (f : File) (c : Bytes) (fails : Bool) : Res × List Act :=
  if !f.fdOpen then (.closed, [])
  else if fails then (.errno, [.writeFail f.tmp c.length])
  else (.ok, [.write f.tmp c])

/-- `Commit`; `closeFails` / `renameFails`: the respective system call returns an error -/
def File.commit (f : File) (closeFails renameFails : Bool) : File × Res × List Act :=
  if f.committed then (f, .ok, [])
  else if f.closed then (f, .invalid, [])
  else
    let f' := { f with committed := true, closed := true, fdOpen := false }
    if !f.fdOpen then (f', .closed, [.unlink f.tmp])                       -- File.Close: already closed; deferred Remove
    else if closeFails then (f', .errno, [.closeFail f.tmp, .unlink f.tmp])
    else if renameFails then (f', .errno, [.close f.tmp, .renameFail f.tmp f.dst, .unlink f.tmp])
    else (f', .ok, [.close f.tmp, .rename f.tmp f.dst])

/-- `Close` -/
def File.close (f : File) (closeFails : Bool) : File × Res × List Act :=
  if f.committed then (f, .ok, [])
  else if f.closed then (f, .invalid, [])
  else
    let f' := { f with closed := true, fdOpen := false }
    if !f.fdOpen then (f', .closed, [.unlink f.tmp])
    else if closeFails then (f', .errno, [.closeFail f.tmp, .unlink f.tmp])
    else (f', .ok, [.close f.tmp, .unlink f.tmp])

/-- `f.File.Close()` called directly on the embedded file -/
def File.closeFd (f : File) : File × Res × List Act :=
  if !f.fdOpen then (f, .closed, []) else ({ f with fdOpen := false }, .ok, [.close f.tmp])

/-! ## WriteFileWithMode -/

/-- where the operation fails -/
inductive Fault
  | none
  | callback (after : Nat)      -- the writer callback returns an error after `after` pieces were handed to bufio
  | panic (after : Nat)         -- the writer callback panics after `after` pieces: the panic propagates out of
                                -- WriteFileWithMode, only its deferred `f.Close()` runs during unwinding
  | write (k : Nat)             -- write(2) number `k` (0-based) fails — inside the callback or inside `Flush`
  | close                       -- close(2) in `Commit` fails
  | rename                      -- renameat(2) in `Commit` fails
deriving DecidableEq, Repr

/-- write the chunks one by one; `failAt = some k`: chunk `k` fails and (bufio's sticky error) nothing is written
    after it -/
def writeAll (f : File) : List Bytes → Option Nat → Res × List Act
  | [], _ => (.ok, [])
  | c :: cs, failAt =>
    if failAt = some 0 then f.write c true
    else
      let r := writeAll f cs (failAt.map (· - 1))
      (r.1, (f.write c false).2 ++ r.2)

def Fault.writeAt : Fault → Option Nat
  | .write k => some k
  | _ => Option.none

/-- the chunks the callback and `Flush` try to write: a failing callback hands over only its first `j` pieces and
    `Flush` is not reached -/
def attempted (N : Nat) (pieces : List Bytes) : Fault → List Bytes
  | .callback j => (feed N [] (pieces.take j)).1
  | .panic j => (feed N [] (pieces.take j)).1
  | _ => chunks N pieces

/-- the callback itself ends the call (by returning its own error or by panicking) -/
def Fault.isCallback : Fault → Bool
  | .callback _ => true
  | .panic _ => true
  | _ => false

/-- how control leaves a callback that ends the call by itself: with its error, or as a panic -/
def Fault.stopRes : Fault → Res
  | .panic _ => .panic
  | _ => .cb

/-- closed form of `writeFile` below (proved equal to it for every callback behaviour in `Lemmas/SafeFile.lean`,
    `writeFile_closed`): the chunk list is computed first, the writes stop at the failing one -/
def writeFileClosed (tmp dst : Path) (N mode : Nat) (pieces : List Bytes) (fault : Fault) : Res × List Act :=
  let fa := File.create tmp dst mode
  -- `writer(w)` then `w.Flush()`
  let w := writeAll fa.1 (attempted N pieces fault) fault.writeAt
  if w.1 ≠ .ok ∨ fault.isCallback = true then
    -- `return` with err set; deferred `f.Close()`
    let c := fa.1.close false
    ((if w.1 ≠ .ok then w.1 else fault.stopRes), fa.2 ++ w.2 ++ c.2.2)
  else
    let m := fa.1.commit (fault = .close) (fault = .rename)
    let c := m.1.close false                                   -- deferred `f.Close()`
    ((if m.2.1 ≠ .ok then m.2.1 else c.2.1), fa.2 ++ w.2 ++ m.2.2 ++ c.2.2)

/-! ### `bufio.Writer` with its sticky error, the writer callback, and `WriteFileWithMode` statement by statement -/

/-- what the callback does when `w.Write` returns an error -/
inductive CbMode
  | propagate      -- returns the error
  | swallowStop    -- stops writing, returns nil (relies on the final Flush to report it)
  | swallowKeep    -- ignores it, keeps calling Write for the remaining pieces, returns nil
deriving DecidableEq, Repr

/-- `bufio.Writer`: the buffered bytes, the sticky error `b.err`, and the fault oracle (`failIn = some k`: the
    `write(2)` after `k` more successful ones fails) -/
structure BW where
  buf : Bytes := []
  err : Bool := false
  failIn : Option Nat := none
deriving DecidableEq, Repr

/-- `b.wr.Write(c)`: one `write(2)` on the temporary file; a failure sets `b.err` (Go keeps the unwritten bytes in
    the buffer; they are never written — `Write` and `Flush` test `b.err` first — so the model drops them) -/
def BW.sys (f : File) (b : BW) (c : Bytes) : BW × List Act :=
  if b.failIn = some 0 then ({ buf := [], err := true, failIn := none }, (f.write c true).2)
  else ({ b with failIn := b.failIn.map (· - 1) }, (f.write c false).2)

/-- `(*bufio.Writer).Write(p)`; it returns an error iff `err` is set in the result.
    Go: `for len(p) > b.Available() && b.err == nil {…}; if b.err != nil { return nn, b.err }; copy` -/
def BW.write (N : Nat) (f : File) (b : BW) (p : Bytes) : BW × List Act :=
  if b.err then (b, [])                                           -- sticky error: the file is not touched any more
  else if p.length ≤ N - b.buf.length then ({ b with buf := b.buf ++ p }, [])
  else if b.buf.length = 0 then b.sys f p                          -- by-pass; on failure nothing is left buffered
  else
    let r := ({ b with buf := [] } : BW).sys f (b.buf ++ p.take (N - b.buf.length))    -- fill the buffer, Flush
    if r.1.err then r
    else if (p.drop (N - b.buf.length)).length ≤ N then ({ r.1 with buf := p.drop (N - b.buf.length) }, r.2)
    else
      let r2 := r.1.sys f (p.drop (N - b.buf.length))
      (r2.1, r.2 ++ r2.2)

/-- `(*bufio.Writer).Flush()`: `if b.err != nil { return b.err }` comes FIRST — the sticky error is reported even when
    nothing is buffered; it returns an error iff `err` is set in the result -/
def BW.flush (f : File) (b : BW) : BW × List Act :=
  if b.err then (b, [])
  else if b.buf.length = 0 then (b, [])
  else ({ b with buf := [] } : BW).sys f b.buf

/-- the writer callback: one `w.Write` per piece; `cbFail = some j`: after `j` pieces it ends by itself with `stop`
    (`.cb`: it returns its own error; `.panic`: it panics) -/
def callback (N : Nat) (f : File) (cb : CbMode) (stop : Res) : BW → Option Nat → List Bytes → BW × Res × List Act
  | b, cbFail, [] => (b, (if cbFail.isSome then stop else .ok), [])
  | b, cbFail, p :: ps =>
    if cbFail = some 0 then (b, stop, [])
    else
      let r := b.write N f p
      if r.1.err = true ∧ cb = .propagate then (r.1, .errno, r.2)
      else if r.1.err = true ∧ cb = .swallowStop then (r.1, .ok, r.2)
      else
        let r2 := callback N f cb stop r.1 (cbFail.map (· - 1)) ps
        (r2.1, r2.2.1, r.2 ++ r2.2.2)

def Fault.cbAt : Fault → Option Nat
  | .callback j => some j
  | .panic j => some j
  | _ => Option.none

/-- `WriteFileWithMode(dst, writer, mode)`: result and the system calls issued, for a callback that hands `pieces` to
    the `bufio.Writer` and treats write errors as `cb` says -/
def writeFile (tmp dst : Path) (N mode : Nat) (pieces : List Bytes) (cb : CbMode) (fault : Fault) : Res × List Act :=
  let fa := File.create tmp dst mode
  let w : BW := { failIn := fault.writeAt }                   -- bufio.NewWriterSize(f, N)
  let c := callback N fa.1 cb fault.stopRes w fault.cbAt pieces   -- err = writer(w)
  if c.2.1 ≠ .ok then
    -- `return` with err set — or a panic unwinding through the function: either way only the deferred f.Close() runs
    let cl := fa.1.close false
    (c.2.1, fa.2 ++ c.2.2 ++ cl.2.2)
  else
    let fl := c.1.flush fa.1                                   -- err = w.Flush()
    if fl.1.err = true then
      let cl := fa.1.close false
      (.errno, fa.2 ++ c.2.2 ++ fl.2 ++ cl.2.2)
    else
      let m := fa.1.commit (fault = .close) (fault = .rename)  -- err = f.Commit()
      let cl := m.1.close false                                -- deferred f.Close()
      ((if m.2.1 ≠ .ok then m.2.1 else cl.2.1), fa.2 ++ c.2.2 ++ fl.2 ++ m.2.2 ++ cl.2.2)

/-- the same through the `safe.File` API without bufio: `CreateWithMode`, one `Write` per piece, then
    `Commit` + `Close` (`doCommit`) or `Close` alone (abort).  A failing `Write` is followed by `Close`. -/
def fileRun (tmp dst : Path) (mode : Nat) (pieces : List Bytes) (doCommit : Bool) (fault : Fault) : Res × List Act :=
  let fa := File.create tmp dst mode
  let w := writeAll fa.1 pieces fault.writeAt
  if w.1 ≠ .ok then
    let c := fa.1.close false
    (w.1, fa.2 ++ w.2 ++ c.2.2)
  else if doCommit then
    let m := fa.1.commit (fault = .close) (fault = .rename)
    let c := m.1.close false
    ((if m.2.1 ≠ .ok then m.2.1 else c.2.1), fa.2 ++ w.2 ++ m.2.2 ++ c.2.2)
  else
    let c := fa.1.close (fault = .close)
    (c.2.1, fa.2 ++ w.2 ++ c.2.2)

/-- the content a fault-free call leaves in the destination -/
def newFile (mode umask : Nat) (pieces : List Bytes) : FileData := ⟨pieces.flatten, lessUmask mode umask⟩

/-! ## histories of the `safe.File` API -/

/-- one call on a handle; the Booleans say whether the system call it would issue fails -/
inductive Op
  | write (c : Bytes) (fails : Bool)
  | commit (closeFails renameFails : Bool)
  | close (closeFails : Bool)
  | closeFd
deriving DecidableEq, Repr

def File.step (f : File) : Op → File × Res × List Act
  | .write c fails => (f, f.write c fails)
  | .commit a b => f.commit a b
  | .close a => f.close a
  | .closeFd => f.closeFd

/-- all actions of a history -/
def File.steps (f : File) : List Op → File × List Act
  | [] => (f, [])
  | o :: os =>
    let r := f.step o
    let r2 := r.1.steps os
    (r2.1, r.2.2 ++ r2.2)

/-- what a history commits: `some p` when its first `Commit`/`Close` is a `Commit` that succeeds, `p` being the bytes
    that reached the temporary file before it (`fdOpen`: the descriptor is still open — after a direct
    `f.File.Close()` writes fail and so does `Commit`); `none` when the history commits nothing -/
def committed (fdOpen : Bool) : List Op → Option Bytes
  | [] => none
  | .write c fails :: os => (committed fdOpen os).map ((if fdOpen && !fails then c else []) ++ ·)
  | .closeFd :: os => committed false os
  | .commit a b :: _ => if fdOpen && !a && !b then some [] else none
  | .close _ :: _ => none

/-! ## names: `filepath.Clean` / `filepath.Dir`, the name handling of `CreateWithMode`, the naming of `CreateTemp` -/

abbrev Str := List Char

def sep : Char := '/'

/-- split at every separator: "a//b/" ↦ ["a", "", "b", ""] -/
def splitSep : Str → List Str
  | [] => [[]]
  | c :: s =>
    if c = sep then [] :: splitSep s
    else match splitSep s with
      | [] => [[c]]
      | h :: t => (c :: h) :: t

/-- one path element against the stack of kept elements (top first): `filepath.Clean`'s rules 2–4 -/
def cleanStep (rooted : Bool) (stack : List Str) (comp : Str) : List Str :=
  if comp = [] ∨ comp = ['.'] then stack                      -- empty element, "."
  else if comp = ['.', '.'] then
    match stack with
    | top :: rest => if top = ['.', '.'] then comp :: stack else rest     -- ".." cancels the element before it
    | [] => if rooted then [] else [comp]                                  -- "/.." ↦ "/"; a leading ".." is kept
  else comp :: stack

def joinSep : List Str → Str
  | [] => []
  | [a] => a
  | a :: b :: t => a ++ sep :: joinSep (b :: t)

/-- `filepath.Clean` (Unix) -/
def clean (p : Str) : Str :=
  if p = [] then ['.']
  else
    let rooted := p.head? = some sep
    let body := joinSep ((splitSep p).foldl (cleanStep rooted) []).reverse
    if rooted then sep :: body else if body = [] then ['.'] else body

/-- `filepath.Dir`: everything up to the last separator, cleaned -/
def dirOf (p : Str) : Str := clean (p.reverse.dropWhile (· ≠ sep)).reverse

/-- last path element (for the kernel's 255-byte limit) -/
def baseOf (p : Str) : Str := (p.reverse.takeWhile (· ≠ sep)).reverse

/-- `CreateWithMode`: `filename = filepath.Clean(filename)`; empty or ending in a separator → `os.ErrInvalid` -/
def validName (filename : Str) : Option Str :=
  if clean filename = [] ∨ (clean filename).getLast? = some sep then none else some (clean filename)

def hasSep (s : Str) : Bool := s.any (· = sep)

/-- `strings.LastIndexByte(pattern, '*')`: (prefix, suffix); no star: everything is prefix -/
def splitStar (pat : Str) : Str × Str :=
  match pat.reverse.span (· ≠ '*') with
  | (_, []) => (pat, [])
  | (sufRev, _ :: preRev) => (preRev.reverse, sufRev.reverse)

/-- `filepath.Join(dir, pre)` for a non-empty `dir`: empty elements are dropped, the result is cleaned -/
def joinPath (dir pre : Str) : Str := if pre = [] then clean dir else clean (dir ++ sep :: pre)

/-- the part of the temporary path in front of the random number (`tmpdir` = `os.TempDir()`, used for an empty `dir`) -/
def tempPrefix (tmpdir dir pat : Str) : Str :=
  let d := if dir = [] then tmpdir else dir
  if d ≠ [] ∧ d.getLast? = some sep then d ++ (splitStar pat).1 else joinPath d (splitStar pat).1

/-- `strconv.Itoa` of a non-negative number (`fuel` only makes the recursion structural) -/
def decimalAux : Nat → Nat → Str
  | 0, n => [Char.ofNat (48 + n % 10)]
  | fuel + 1, n => if n < 10 then [Char.ofNat (48 + n)] else decimalAux fuel (n / 10) ++ [Char.ofNat (48 + n % 10)]

def decimal (n : Nat) : Str := decimalAux n n

/-- the path `CreateTemp` tries when its random source yields `r` -/
def tempName (tmpdir dir pat : Str) (r : Nat) : Str :=
  tempPrefix tmpdir dir pat ++ decimal r ++ (splitStar pat).2

/-! ## `CreateTemp`'s loop, `CreateWithMode`, and a cleanup whose unlink can fail -/

/-- system calls the first model leaves out: an `openat(O_RDWR|O_CREAT|O_EXCL)` that fails (`exist`: with EEXIST) and an
    `unlinkat` that fails; neither changes the file system -/
inductive Act2
  | openFail (p : Path) (mode : Nat) (exist : Bool)
  | unlinkFail (p : Path)
  | base (a : Act)
deriving DecidableEq, Repr

def applyAct2 (umask : Nat) (fs : FS) : Act2 → FS
  | .base a => applyAct umask fs a
  | .openFail _ _ _ => fs
  | .unlinkFail _ => fs

def run2 (umask : Nat) (fs : FS) : List Act2 → FS
  | [] => fs
  | a :: as => run2 umask (applyAct2 umask fs a) as

/-- what the fault assignment does to one `openat`: `exist` — it fails with EEXIST although the name is free;
    `other` — it fails with another error.  (Nothing can make an `O_EXCL` open of an existing name succeed.) -/
inductive OpenFault | exist | other
deriving DecidableEq, Repr

inductive TempRes
  | ok (p : Path)
  | errSep          -- "pattern contains path separator", before any system call
  | errExist        -- 1000 attempts hit existing names: os.ErrExist
  | errOther        -- another error of openat, returned at once
deriving DecidableEq, Repr

/-- the loop of `CreateTemp`: attempt `i` tries `names i`; `for { f, err := OpenFile(…O_EXCL…); if IsExist(err) { try++;
    if try < 1000 { continue }; return ErrExist }; return f, err }`.  `fuel` only makes the recursion structural
    (`fuel + i = 1000`). -/
def tempLoop (mode : Nat) (names : Nat → Path) (faults : Nat → Option OpenFault) (fs : FS) :
    Nat → Nat → TempRes × List Act2
  | 0, _ => (.errExist, [])
  | fuel + 1, i =>
    if faults i = some .other then (.errOther, [.openFail (names i) mode false])
    else if faults i = some .exist ∨ (fs (names i)).isSome = true then
      if i + 1 < 1000 then
        let r := tempLoop mode names faults fs fuel (i + 1)
        (r.1, .openFail (names i) mode true :: r.2)
      else (.errExist, [.openFail (names i) mode true])
    else (.ok (names i), [.base (.createExcl (names i) mode)])

/-- `internal.CreateTemp(dir, pattern, perm)`; `code` names the paths, `rands` is the stream of random numbers -/
def createTemp (code : Str → Path) (tmpdir dir pat : Str) (mode : Nat) (rands : Nat → Nat)
    (faults : Nat → Option OpenFault) (fs : FS) : TempRes × List Act2 :=
  if hasSep pat = true then (.errSep, [])
  else tempLoop mode (fun i => code (tempName tmpdir dir pat (rands i))) faults fs 1000 0

def safePattern : Str := ['s', 'a', 'f', 'e']

inductive CreateRes
  | ok (f : File)
  | invalid                 -- os.ErrInvalid, before any system call
  | temp (e : TempRes)      -- the error of CreateTemp
deriving DecidableEq, Repr

/-- `safe.CreateWithMode(filename, mode)` -/
def createWithMode (code : Str → Path) (tmpdir filename : Str) (mode : Nat) (rands : Nat → Nat)
    (faults : Nat → Option OpenFault) (fs : FS) : CreateRes × List Act2 :=
  match validName filename with
  | none => (.invalid, [])
  | some c =>
    match createTemp code tmpdir (dirOf c) safePattern mode rands faults fs with
    | (.ok p, acts) => (.ok { tmp := p, dst := code c }, acts)
    | (e, acts) => (.temp e, acts)

/-- the `os.Remove(name)` of the cleanup paths -/
def rmAct (p : Path) (unlinkFails : Bool) : Act2 := if unlinkFails then .unlinkFail p else .base (.unlink p)

/-- `Commit` with a `Remove` that can fail: `defer func() { if err != nil { _ = os.Remove(name) } }()` — its error is
    dropped, the close / rename error is what comes back -/
def File.commitU (f : File) (closeFails renameFails unlinkFails : Bool) : File × Res × List Act2 :=
  if f.committed then (f, .ok, [])
  else if f.closed then (f, .invalid, [])
  else
    let f' := { f with committed := true, closed := true, fdOpen := false }
    if !f.fdOpen then (f', .closed, [rmAct f.tmp unlinkFails])
    else if closeFails then (f', .errno, [.base (.closeFail f.tmp), rmAct f.tmp unlinkFails])
    else if renameFails then
      (f', .errno, [.base (.close f.tmp), .base (.renameFail f.tmp f.dst), rmAct f.tmp unlinkFails])
    else (f', .ok, [.base (.close f.tmp), .base (.rename f.tmp f.dst)])

/-- `Close` with a `Remove` that can fail: `err := f.File.Close(); if removeErr := os.Remove(…); removeErr != nil &&
    err == nil { err = removeErr }` — the unlink error is reported only when the close succeeded -/
def File.closeU (f : File) (closeFails unlinkFails : Bool) : File × Res × List Act2 :=
  if f.committed then (f, .ok, [])
  else if f.closed then (f, .invalid, [])
  else
    let f' := { f with closed := true, fdOpen := false }
    if !f.fdOpen then (f', .closed, [rmAct f.tmp unlinkFails])
    else if closeFails then (f', .errno, [.base (.closeFail f.tmp), rmAct f.tmp unlinkFails])
    else (f', (if unlinkFails then .errno else .ok), [.base (.close f.tmp), rmAct f.tmp unlinkFails])

/-- results of the complete calls -/
inductive Res2
  | res (r : Res)
  | invalid        -- os.ErrInvalid from the name check
  | sep            -- pattern contains a separator
  | exist          -- os.ErrExist after 1000 attempts
  | openErr        -- another error creating the temporary file
deriving DecidableEq, Repr

def CreateRes.err : CreateRes → Res2
  | .ok _ => .res .ok
  | .invalid => .invalid
  | .temp .errSep => .sep
  | .temp .errExist => .exist
  | .temp _ => .openErr

/-- `WriteFileWithMode(filename, writer, mode)` from the name check to the deferred `Close`, with every fault:
    `ofaults` on the `openat`s of `CreateTemp`, `fault` as in `writeFile`, `unlinkFails` on the `Remove` of the cleanup -/
def writeFileFull (code : Str → Path) (tmpdir filename : Str) (N mode : Nat) (pieces : List Bytes) (cb : CbMode)
    (fault : Fault) (rands : Nat → Nat) (ofaults : Nat → Option OpenFault) (unlinkFails : Bool) (fs : FS) :
    Res2 × List Act2 :=
  match createWithMode code tmpdir filename mode rands ofaults fs with
  | (.ok f, acts) =>
    let w : BW := { failIn := fault.writeAt }
    let c := callback N f cb fault.stopRes w fault.cbAt pieces
    if c.2.1 ≠ .ok then
      let cl := f.closeU false unlinkFails
      (.res c.2.1, acts ++ c.2.2.map .base ++ cl.2.2)
    else
      let fl := c.1.flush f
      if fl.1.err = true then
        let cl := f.closeU false unlinkFails
        (.res .errno, acts ++ c.2.2.map .base ++ fl.2.map .base ++ cl.2.2)
      else
        let m := f.commitU (fault = .close) (fault = .rename) unlinkFails
        let cl := m.1.closeU false unlinkFails
        (.res (if m.2.1 ≠ .ok then m.2.1 else cl.2.1),
          acts ++ c.2.2.map .base ++ fl.2.map .base ++ m.2.2 ++ cl.2.2)
  | (e, acts) => (e.err, acts)

/-- the `safe.File` API used directly, from the name check on: `CreateWithMode`, one `Write` per piece, then
    `Commit` + `Close` or `Close` alone -/
def fileRunFull (code : Str → Path) (tmpdir filename : Str) (mode : Nat) (pieces : List Bytes) (doCommit : Bool)
    (fault : Fault) (rands : Nat → Nat) (ofaults : Nat → Option OpenFault) (unlinkFails : Bool) (fs : FS) :
    Res2 × List Act2 :=
  match createWithMode code tmpdir filename mode rands ofaults fs with
  | (.ok f, acts) =>
    let w := writeAll f pieces fault.writeAt
    if w.1 ≠ .ok then
      let c := f.closeU false unlinkFails
      (.res w.1, acts ++ w.2.map .base ++ c.2.2)
    else if doCommit then
      let m := f.commitU (fault = .close) (fault = .rename) unlinkFails
      let c := m.1.closeU false unlinkFails
      (.res (if m.2.1 ≠ .ok then m.2.1 else c.2.1), acts ++ w.2.map .base ++ m.2.2 ++ c.2.2)
    else
      let c := f.closeU (fault = .close) unlinkFails
      (.res c.2.1, acts ++ w.2.map .base ++ c.2.2)
  | (e, acts) => (e.err, acts)

/-- an injective naming of paths (any injective `code` will do for the theorems; this is the one the driver runs) -/
def codeStr : Str → Nat
  | [] => 0
  | c :: s => (c.toNat + 1) + 1114113 * codeStr s

end Safe
