import Model.QuadTree
/-! C07: the quadtree model at Go's machine `int` — core Lean's `Int64` (two's complement: `+`, `-` wrap, `/` truncates
    toward zero, comparisons are signed, `min`/`max` by `≤`), i.e. the very operations `geom.Rect[int]` and
    `quadtree.QuadTree[int, N]` are compiled to on the 64-bit platforms the library is run on.  Nothing is re-modelled: the
    instance is `QT.geomOps` (the same transcription of `geom` that is run at `Int` and `Rat`) at another coordinate
    type.  Near the ends of the range `X+Width` wraps exactly as in Go, so this instance follows the code also where the
    unbounded-integer instance (`QT.instInt`, about which the property theorems speak) cannot; `Lemmas/QuadTreeWrap.lean`
    proves that inside a box of ±2^60 the two instances answer alike (`C07.int64_*`).  Core-only. -/
namespace QT

/-- Go's `/ 2` on `int` -/
def halfI64 (a : Int64) : Int64 := a / 2

instance instI64 : RectOps (Geom.Rect Int64) (Geom.Point Int64) := geomOps halfI64

/-! The same for Go's `float64`: core Lean's `Float` is the IEEE-754 binary64 of the platform (`+`, `-`, `/` round to
    nearest-even exactly as the Go compiler's do; `min`/`max` are `if a ≤ b …`, which differs from Go's builtins only in
    the sign of a zero result and for NaN, neither of which a comparison can see).  `Float` is opaque to the logic — no
    theorem speaks about this instance; it exists so that the driver can run histories over NON-dyadic floats, where
    unions, halvings and sums round, through the same transcription and the check can compare the code with a model
    there too (area `quadfloat`), instead of only with a linear scan inside the harness (area `floatscan`). -/

/-- Go's `/ 2` on `float64` -/
def halfF64 (a : Float) : Float := a / 2

instance instF64 : RectOps (Geom.Rect Float) (Geom.Point Float) := geomOps halfF64

end QT
