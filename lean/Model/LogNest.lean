import Model.LogFanout
/-! C13: NESTED fan-out handlers — `multilog.New(multilog.New(a, b), c, …)` — as trees (core only).

A node is a tracelog handler or a fan-out handler over nodes.  `Node.handle` runs `multilog.Handle` as the code does:
at every level the loop asks each child for `Enabled` (a tracelog child: its level threshold; a fan-out child: "some
child of mine is enabled") and calls `Handle` of the enabled ones; the `Handle` of a fan-out child is the same loop one
level down; what it hands back (nil or one aggregate of its children's errors and recovered panics) is flattened, in
order, by the `errs.Append` of the level above — here: the per-leaf outcomes are appended in order.
`Lemmas/LogNest.lean` proves that all of this is the flat loop `ML.handleTL` over the leaves. -/
namespace ML

inductive Node where
  | leaf (h : TL.Handler)
  | fan (kids : List Node)

mutual
/-- the tracelog handlers of a tree, left to right -/
def Node.leaves : Node → List TL.Handler
  | .leaf h => [h]
  | .fan ks => leavesL ks
def leavesL : List Node → List TL.Handler
  | [] => []
  | k :: ks => k.leaves ++ leavesL ks
end

mutual
/-- `Enabled` -/
def Node.enabled (level : Int) : Node → Bool
  | .leaf h => TL.enabled h level
  | .fan ks => anyEnabled level ks
def anyEnabled (level : Int) : List Node → Bool
  | [] => false
  | k :: ks => k.enabled level || anyEnabled level ks
end

/-- `Handle` of a tracelog child (it does not look at the level itself): render, deliver to its sink -/
def deliverLeaf (σ : TL.Store) (r : TL.Record) (acc : Fan) (c : TL.Handler) : Fan :=
  let d := TL.deliver (getSink acc.sinks c.sink) c.sink (TL.render σ c r)
  { sinks := setSink acc.sinks c.sink d.1,
    writes := acc.writes ++ d.2.1.map (fun w => (c.sink, w)),
    rets := acc.rets ++ [(c.sink, d.2.2)] }

mutual
/-- `Handle` of a node -/
def Node.handle (σ : TL.Store) (r : TL.Record) (acc : Fan) : Node → Fan
  | .leaf h => deliverLeaf σ r acc h
  | .fan ks => handleKids σ r acc ks
/-- the loop `for _, one := range h.handlers { if one.Enabled(ctx, r.Level) { … one.Handle … } }` -/
def handleKids (σ : TL.Store) (r : TL.Record) (acc : Fan) : List Node → Fan
  | [] => acc
  | k :: ks => handleKids σ r (if k.enabled r.level then k.handle σ r acc else acc) ks
end

mutual
/-- `WithGroup(name)` (non-empty name) / `WithAttrs(attrs)` of a node: every child is derived, left to right, the
    fan-out children recursively -/
def Node.derive (f : TL.Store → TL.Handler → TL.Store × TL.Handler × Bool) (σ : TL.Store) : Node → TL.Store × Node
  | .leaf h => ((f σ h).1, .leaf (f σ h).2.1)
  | .fan ks => ((deriveL f σ ks).1, .fan (deriveL f σ ks).2)
def deriveL (f : TL.Store → TL.Handler → TL.Store × TL.Handler × Bool) (σ : TL.Store) :
    List Node → TL.Store × List Node
  | [] => (σ, [])
  | k :: ks => ((deriveL f (k.derive f σ).1 ks).1, (k.derive f σ).2 :: (deriveL f (k.derive f σ).1 ks).2)
end

mutual
/-- apply `g` to every leaf (the driver's `setlevel`: a shared `LevelVar` changes the threshold of a whole family) -/
def Node.mapLeaves (g : TL.Handler → TL.Handler) : Node → Node
  | .leaf h => .leaf (g h)
  | .fan ks => .fan (mapLeavesL g ks)
def mapLeavesL (g : TL.Handler → TL.Handler) : List Node → List Node
  | [] => []
  | k :: ks => k.mapLeaves g :: mapLeavesL g ks
end

/-- `WithGroup` of a fan-out node: the receiver itself for an empty name -/
def Node.withGroup (σ : TL.Store) (n : Node) (name : TL.Bytes) : TL.Store × Node :=
  if name = [] then (σ, n) else n.derive (fun s c => TL.withGroup s c name) σ

/-- `WithAttrs` of a fan-out node: always a new handler over the derived children -/
def Node.withAttrs (σ : TL.Store) (n : Node) (as : List TL.Attr) : TL.Store × Node :=
  n.derive (fun s c => TL.withAttrs s c as) σ

end ML
