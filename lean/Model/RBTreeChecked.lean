import Model.RBTree
/-! C06: the fix-ups of `Model/RBTree.lean` once more, **partial exactly where the Go code dereferences a pointer**.

`Model/RBTree.lean` is total: where the Go code would dereference `nil` (or, for a missing sibling in `recolor`, spin
for ever) it has a fall-through branch.  Here every such access goes through an `Option`-valued accessor and the
operation yields `none` as soon as one of them hits `nil`:

* `Insert` loop (`tree.go:117-167`): `grandParent.left/right`, `parent.black = …`, `uncle.black = …`,
  `rotateLeft(n)` (`n.right`, `right.left`), `rotateRight(grandParent)` (`n.left`, `left.right`);
* `recolor` (`tree.go:278-339`): `parent.left/right`, the **sibling** (`if sibling != nil` has no else: the loop makes
  no progress, counted as `none` too), after the red-sibling rotation the **new sibling** `parent.right` and its
  children `sibling.left/right`, `sibling.left.black = true`, `sibling.right.black = true`, the rotations;
* `Remove` (`tree.go:214-276`): the successor walk `n.right … .left`.

The driver executes these versions (`Tree.insertC`, `Tree.removeC`) and would print the token `nil-deref` on `none`.
`C06.fixups_never_dereference_nil` proves that on every tree satisfying the red-black invariants — hence after every
history, for every compare function — they are `some` of the total versions, to which all other theorems refer. -/
namespace RB
namespace T
variable {K V : Type}

/-- `x.black = true`: dereferences `x` -/
def setBlackC : T K V → Option (T K V)
  | node _ l k v r => some (node .black l k v r)
  | nil => none

/-- `rotateLeft(n)`: dereferences `n` and `right := n.right` -/
def rotLC : T K V → Option (T K V)
  | node c l k v (node rc rl rk rv rr) => some (node rc (node c l k v rl) rk rv rr)
  | _ => none

/-- `rotateRight(n)`: dereferences `n` and `left := n.left` -/
def rotRC : T K V → Option (T K V)
  | node c (node lc ll lk lv lr) k v r => some (node lc ll lk lv (node c lr k v r))
  | _ => none

/-- one round of the `Insert` loop at grandparent `x`; parent = child on side `s`, `n` = its child on side `s'` -/
def fixViolC (x : T K V) (s s' : Side) : Option (T K V × St) :=
  match x with
  | nil => none                                   -- grandParent.left / .right
  | node _ l k v r =>
    match s with
    | .L =>
      if r.isRed then do                          -- uncle.isRed() is nil-safe
        let l' ← setBlackC l                      -- parent.black = true
        let r' ← setBlackC r                      -- uncle.black = true
        some (node .red l' k v r', .fresh)
      else do
        let l ← if s' = .R then rotLC l else some l   -- rotateLeft(parent): parent.right must exist
        let l' ← setBlackC l                      -- parent.black = true
        let t ← rotRC (node .red l' k v r)        -- rotateRight(grandParent)
        some (t, .ok)
    | .R =>
      if l.isRed then do
        let l' ← setBlackC l
        let r' ← setBlackC r
        some (node .red l' k v r', .fresh)
      else do
        let r ← if s' = .L then rotRC r else some r
        let r' ← setBlackC r
        let t ← rotLC (node .red l k v r')
        some (t, .ok)

def afterChildC (c : Color) (l : T K V) (k : K) (v : V) (r : T K V) (s : Side) (st : St) : Option (T K V × St) :=
  match st with
  | .ok => some (node c l k v r, .ok)
  | .fresh => if c = .red then some (node c l k v r, .viol s) else some (node c l k v r, .ok)
  | .viol s' => fixViolC (node c l k v r) s s'

def insC (cmp : K → K → Ordering) (t : T K V) (key : K) (val : V) : Option (T K V × St) :=
  match t with
  | nil => some (node .red nil key val nil, .fresh)
  | node c l k v r =>
    if cmp key k = .lt then
      match insC cmp l key val with
      | none => none
      | some (l', st) => afterChildC c l' k v r .L st
    else
      match insC cmp r key val with
      | none => none
      | some (r', st) => afterChildC c l k v r' .R st

/-- `Insert`; the final `t.root.black = true` dereferences the root, which exists after an insertion -/
def insertC (cmp : K → K → Ordering) (t : T K V) (key : K) (val : V) : Option (T K V) :=
  match insC cmp t key val with
  | none => none
  | some (t', _) => setBlackC t'

/-- `recolor` with a black sibling.  `none` = parent or sibling is `nil`, or a nephew that is written to is `nil`. -/
def fixDefBlackSibC (x : T K V) (s : Side) : Option (T K V × Bool) :=
  match x, s with
  | node c l k v (node sc sl sk sv sr), .L =>
    if sl.isBlack && sr.isBlack then                 -- sibling.left / sibling.right: sibling exists here
      let x' := node c l k v (node .red sl sk sv sr)
      if c = .red then some (x'.setBlack, false) else some (x', true)
    else do
      let sib ← if sr.isBlack then do
                  let sl' ← setBlackC sl             -- sibling.left.black = true
                  rotRC (node .red sl' sk sv sr)     -- rotateRight(sibling)
                else some (node sc sl sk sv sr)
      match sib with                                 -- sibling = parent.right
      | node _ sl2 sk2 sv2 sr2 => do
        let sr2' ← setBlackC sr2                     -- sibling.right.black = true
        let t ← rotLC (node .black l k v (node c sl2 sk2 sv2 sr2'))   -- rotateLeft(parent)
        some (t, false)
      | nil => none
  | node c (node sc sl sk sv sr) k v r, .R =>
    if sr.isBlack && sl.isBlack then
      let x' := node c (node .red sl sk sv sr) k v r
      if c = .red then some (x'.setBlack, false) else some (x', true)
    else do
      let sib ← if sl.isBlack then do
                  let sr' ← setBlackC sr
                  rotLC (node .red sl sk sv sr')
                else some (node sc sl sk sv sr)
      match sib with
      | node _ sl2 sk2 sv2 sr2 => do
        let sl2' ← setBlackC sl2
        let t ← rotRC (node .black (node c sl2' sk2 sv2 sr2) k v r)
        some (t, false)
      | nil => none
  | _, _ => none          -- sibling == nil: the Go loop makes no progress (or, after a rotation, dereferences nil)

/-- one round of `recolor` at parent `x` whose child on side `s` is one black short -/
def fixDefC (x : T K V) (s : Side) : Option (T K V × Bool) :=
  match x, s with
  | node c l k v r, .L =>
    if r.isRed then do
      let r' ← setBlackC r                           -- sibling.black = true
      match ← rotLC (node .red l k v r') with        -- rotateLeft(parent)
      | node tc tl tk tv tr => do
        let (tl', _) ← fixDefBlackSibC tl .L         -- sibling = parent.right: the NEW sibling must exist
        some (node tc tl' tk tv tr, false)
      | nil => none
    else fixDefBlackSibC (node c l k v r) .L
  | node c l k v r, .R =>
    if l.isRed then do
      let l' ← setBlackC l
      match ← rotRC (node .red l' k v r) with
      | node tc tl tk tv tr => do
        let (tr', _) ← fixDefBlackSibC tr .R
        some (node tc tl tk tv tr', false)
      | nil => none
    else fixDefBlackSibC (node c l k v r) .R
  | nil, _ => none                                   -- parent.left / parent.right

/-- successor splice; `none` = empty subtree (the walk `splice = n.right; for splice.left != nil` dereferences it)
    or a failed fix-up -/
def delMinC : T K V → Option (K × V × T K V × Bool)
  | nil => none
  | node c nil k v r => let (t, d) := spliceOut c r; some (k, v, t, d)
  | node c l k v r =>
    match delMinC l with
    | none => none
    | some (mk, mv, l', d) =>
      if d then
        match fixDefC (node c l' k v r) .L with
        | none => none
        | some (t, d') => some (mk, mv, t, d')
      else some (mk, mv, node c l' k v r, false)

def delC (cmp : K → K → Ordering) (t : T K V) (key : K) : Option (T K V × Bool) :=
  match t with
  | nil => some (nil, false)
  | node c l k v r =>
    if cmp key k = .lt ∨ (cmp key k = .eq ∧ (find cmp l key).isSome) then
      match delC cmp l key with
      | none => none
      | some (l', d) => if d then fixDefC (node c l' k v r) .L else some (node c l' k v r, false)
    else if cmp key k = .gt then
      match delC cmp r key with
      | none => none
      | some (r', d) => if d then fixDefC (node c l k v r') .R else some (node c l k v r', false)
    else
      match l, r with
      | nil, _ => some (spliceOut c r)
      | _, nil => some (spliceOut c l)
      | _, _ =>
        match delMinC r with
        | none => none
        | some (mk, mv, r', d) =>
          if d then fixDefC (node c l mk mv r') .R else some (node c l mk mv r', false)

/-- `Remove` of a key that `find` has found (`if t.root != nil { t.root.black = true }` is nil-safe) -/
def removeC (cmp : K → K → Ordering) (t : T K V) (key : K) : Option (T K V) :=
  match delC cmp t key with
  | none => none
  | some (t', _) => some t'.setBlack

end T

namespace Tree
variable {K V : Type}

/-- `Insert`, partial version; `none` = the real code would dereference `nil` -/
def insertC (cmp : K → K → Ordering) (t : Tree K V) (k : K) (v : V) : Option (Tree K V × Nat) :=
  match T.insertC cmp t.root k v with
  | none => none
  | some r => some (⟨r, t.count + 1⟩, T.insertCmps cmp t.root k)

/-- `Remove`, partial version; `none` = the real code would dereference `nil` or spin in `recolor` -/
def removeC (cmp : K → K → Ordering) (t : Tree K V) (k : K) : Option (Tree K V × Nat) :=
  match T.find cmp t.root k with
  | none => some (t, T.findCmps cmp t.root k)
  | some _ =>
    match T.removeC cmp t.root k with
    | none => none
    | some r => some (⟨r, t.count - 1⟩, T.findCmps cmp t.root k)

def applyC (cmp : K → K → Ordering) (t : Tree K V) : Op K V → Option (Tree K V)
  | .ins k v => (t.insertC cmp k v).map (·.1)
  | .rem k => (t.removeC cmp k).map (·.1)

/-- a whole history with the partial operations: `none` as soon as one operation would dereference `nil` -/
def runC (cmp : K → K → Ordering) (ops : List (Op K V)) : Option (Tree K V) :=
  ops.foldlM (applyC cmp) empty

end Tree
end RB
