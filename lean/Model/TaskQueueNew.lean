import Model.TaskQueue
/-! C15: `taskqueue.New(options...)` and the option constructors `Workers`, `Depth`, `RecoveryHandler` — what configuration
    the queue of the protocol model runs with.  Written like the Go source:

        q := &Queue{in: make(chan Task, numCPU*2), done: make(chan bool), depth: -1}
        for _, option := range options { option(q) }
        if q.workers < 1 { q.workers = 1 + numCPU }

    Core-only; run by the driver (area `cfg`) against the fields of the queue that the real `New` returns. -/
namespace TQNew
open TQ

/-- an option value, as passed to `New` -/
inductive Opt where
  | workers (n : Int)        -- `Workers(n)`
  | depth (n : Int)          -- `Depth(n)`
  | handler (nonNil : Bool)  -- `RecoveryHandler(h)`, `nonNil` = `h != nil`
deriving DecidableEq, Repr

/-- the fields of `Queue` that the options write -/
structure Fields where
  workers : Int := 0
  depth : Int := -1
  handler : Bool := false
deriving DecidableEq, Repr

def apply (q : Fields) : Opt → Fields
  | .workers n => { q with workers := n }
  | .depth n => { q with depth := n }
  | .handler b => { q with handler := b }

/-- the fields after the option loop -/
def fields (opts : List Opt) : Fields := opts.foldl apply {}

/-- `New(opts...)` on a machine with `ncpu` CPUs -/
def newCfg (ncpu : Nat) (opts : List Opt) : Cfg :=
  let q := fields opts
  { workers := if q.workers < 1 then 1 + ncpu else q.workers.toNat, depth := q.depth, inCap := ncpu * 2, handler := q.handler }

end TQNew
