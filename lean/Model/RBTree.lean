/-! C06: functional model of `collection/redblack` (tree.go, node.go).  Core-only.

The Go tree is a pointer structure with parent links; the model is the functional tree `nil | node colour l k v r`.
Insertion and removal perform *the same rotations and recolourings in the same cases* as the Go loops:
* `Insert`'s bottom-up loop (`tree.go:117-167`) is the recursion `ins` returning a status `ok | fresh | viol side`
  (`fresh` = "this subtree root has just become red", `viol s` = "this red root has a red child on side `s`"),
  the three `switch` cases of either side are `fixViol`;
* `Remove` (`tree.go:214-276`): `find` locates the first equal node in traversal order, a node with two children
  trades key/value with its in-order successor (`delMin` of the right subtree), the spliced node's black-height
  deficit is repaired by `fixDef` (`recolor`, `tree.go:278-339`: sibling red / both nephews black / near nephew red /
  far nephew red), the Boolean result of `del` is "the deficit is still present one level up".
The compare function is a parameter returning `Ordering` (the Go code only looks at the sign of the `int`).
Every lookup/insert/remove has a companion `…Cmps` giving the number of calls the Go code makes to `compare`;
the `Tree` wrappers return the pair.  Results, shape and colours are compared with the real tree by the correspondence
run of `./check C06`; the real comparison counts are judged against the property's bound (which the model's counts meet
by `C06.compares_run`), exact equality of the counts is recorded for information only. -/
namespace RB

inductive Color | red | black deriving DecidableEq, Repr

inductive T (K V : Type) where
  | nil
  | node (c : Color) (l : T K V) (k : K) (v : V) (r : T K V)

inductive Side | L | R deriving DecidableEq
inductive St | ok | fresh | viol (s : Side)

namespace T
variable {K V σ : Type}

def isRed : T K V → Bool | node .red .. => true | _ => false
def isBlack (t : T K V) : Bool := !t.isRed
def setBlack : T K V → T K V | node _ l k v r => node .black l k v r | nil => nil

/-- `rotateLeft(n)` on the subtree rooted at `n` (returns the new subtree root; parent links are not modelled) -/
def rotL : T K V → T K V
  | node c l k v (node rc rl rk rv rr) => node rc (node c l k v rl) rk rv rr
  | t => t
def rotR : T K V → T K V
  | node c (node lc ll lk lv lr) k v r => node lc ll lk lv (node c lr k v r)
  | t => t

/-! ### Insert -/

/-- one round of the `Insert` loop at grandparent `x` whose child on side `s` is red and has a red child on side `s'` -/
def fixViol (x : T K V) (s s' : Side) : T K V × St :=
  match x with
  | nil => (nil, .ok)
  | node _ l k v r =>
    match s with
    | .L =>
      if r.isRed then (node .red l.setBlack k v r.setBlack, .fresh)        -- case uncle.isRed()
      else
        let l := if s' = .R then rotL l else l                             -- case n == parent.right
        (rotR (node .red l.setBlack k v r), .ok)                           -- default: recolour, rotateRight(gp)
    | .R =>
      if l.isRed then (node .red l.setBlack k v r.setBlack, .fresh)
      else
        let r := if s' = .L then rotR r else r
        (rotL (node .red l k v r.setBlack), .ok)

def afterChild (c : Color) (l : T K V) (k : K) (v : V) (r : T K V) (s : Side) (st : St) : T K V × St :=
  match st with
  | .ok => (node c l k v r, .ok)
  | .fresh => if c = .red then (node c l k v r, .viol s) else (node c l k v r, .ok)
  | .viol s' => fixViol (node c l k v r) s s'

/-- descent `compare(key, cur.key) < 0 → left, else right` (equal keys go right), then the fix-up on the way back -/
def ins (cmp : K → K → Ordering) (t : T K V) (key : K) (val : V) : T K V × St :=
  match t with
  | nil => (node .red nil key val nil, .fresh)
  | node c l k v r =>
    if cmp key k = .lt then
      let (l', st) := ins cmp l key val
      afterChild c l' k v r .L st
    else
      let (r', st) := ins cmp r key val
      afterChild c l k v r' .R st

/-- `Insert` on the node structure (`t.root.black = true` at the end) -/
def insert (cmp : K → K → Ordering) (t : T K V) (key : K) (val : V) : T K V := (ins cmp t key val).1.setBlack

/-- number of nodes on the descent path of `Insert` = iterations of the `for cur != nil` loop -/
def insPath (cmp : K → K → Ordering) : T K V → K → Nat
  | nil, _ => 0
  | node _ l k _ r, key => (if cmp key k = .lt then insPath cmp l key else insPath cmp r key) + 1

/-- calls of `compare` made by `Insert`: one per loop iteration plus the one that picks the side of the parent -/
def insertCmps (cmp : K → K → Ordering) (t : T K V) (key : K) : Nat :=
  match t with
  | nil => 0
  | t => insPath cmp t key + 1

/-! ### find (node.go:34-51, repaired version: first match in traversal order) -/

def find (cmp : K → K → Ordering) : T K V → K → Option (K × V)
  | nil, _ => none
  | node _ l k v r, key =>
    match cmp key k with
    | .lt => find cmp l key
    | .gt => find cmp r key
    | .eq =>
      match find cmp l key with
      | some e => some e
      | none => some (k, v)

/-- one call of `compare` per visited node; the visited nodes form one downward path -/
def findCmps (cmp : K → K → Ordering) : T K V → K → Nat
  | nil, _ => 0
  | node _ l k _ r, key =>
    (match cmp key k with
     | .lt => findCmps cmp l key
     | .gt => findCmps cmp r key
     | .eq => findCmps cmp l key) + 1

/-! ### Remove -/

/-- `recolor` when the sibling is black: both nephews black → recolour and move up (deficit stays unless the parent
    was red); otherwise near-nephew rotation (if the far nephew is black) and the final rotation. -/
def fixDefBlackSib (x : T K V) (s : Side) : T K V × Bool :=
  match x, s with
  | node c l k v (node sc sl sk sv sr), .L =>
    if sl.isBlack && sr.isBlack then
      let x' := node c l k v (node .red sl sk sv sr)
      if c = .red then (x'.setBlack, false) else (x', true)
    else
      let sib := if sr.isBlack then rotR (node .red sl.setBlack sk sv sr) else node sc sl sk sv sr
      match sib with
      | node _ sl2 sk2 sv2 sr2 =>
        (rotL (node .black l k v (node c sl2 sk2 sv2 sr2.setBlack)), false)
      | nil => (x, false)
  | node c (node sc sl sk sv sr) k v r, .R =>
    if sr.isBlack && sl.isBlack then
      let x' := node c (node .red sl sk sv sr) k v r
      if c = .red then (x'.setBlack, false) else (x', true)
    else
      let sib := if sl.isBlack then rotL (node .red sl sk sv sr.setBlack) else node sc sl sk sv sr
      match sib with
      | node _ sl2 sk2 sv2 sr2 =>
        (rotR (node .black (node c sl2.setBlack sk2 sv2 sr2) k v r), false)
      | nil => (x, false)
  | x, _ => (x, false)   -- sibling nil: the Go loop would not terminate; unreachable under the invariant

/-- one round of `recolor` at parent `x` whose child on side `s` is one black short -/
def fixDef (x : T K V) (s : Side) : T K V × Bool :=
  match x, s with
  | node c l k v r, .L =>
    if r.isRed then
      -- sibling red: sibling.black = true; parent.black = false; rotateLeft(parent); then the black-sibling case
      match rotL (node .red l k v r.setBlack) with
      | node tc tl tk tv tr =>
        let (tl', _) := fixDefBlackSib tl .L
        (node tc tl' tk tv tr, false)
      | nil => (x, false)
    else fixDefBlackSib (node c l k v r) .L
  | node c l k v r, .R =>
    if l.isRed then
      match rotR (node .red l.setBlack k v r) with
      | node tc tl tk tv tr =>
        let (tr', _) := fixDefBlackSib tr .R
        (node tc tl tk tv tr', false)
      | nil => (x, false)
    else fixDefBlackSib (node c l k v r) .R
  | nil, _ => (nil, false)

/-- unlink a node of colour `c` that has at most one child (`child`); returns (replacement, deficit) -/
def spliceOut (c : Color) (child : T K V) : T K V × Bool :=
  if c = .red then (child, false)
  else if child.isRed then (child.setBlack, false)   -- recolor(child) with a red child: it just becomes black
  else (child, true)                                  -- a black node without red child is gone: deficit

/-- splice out the leftmost node (the in-order successor of the node being removed) -/
def delMin : T K V → Option (K × V × T K V × Bool)
  | nil => none
  | node c nil k v r => let (t, d) := spliceOut c r; some (k, v, t, d)
  | node c l k v r =>
    match delMin l with
    | none => none
    | some (mk, mv, l', d) =>
      if d then let (t, d') := fixDef (node c l' k v r) .L; some (mk, mv, t, d')
      else some (mk, mv, node c l' k v r, false)

/-- removal of the node `find` returns: the path follows `find` (on an equal key the left subtree is tried first) -/
def del (cmp : K → K → Ordering) (t : T K V) (key : K) : T K V × Bool :=
  match t with
  | nil => (nil, false)
  | node c l k v r =>
    if cmp key k = .lt ∨ (cmp key k = .eq ∧ (find cmp l key).isSome) then
      let (l', d) := del cmp l key
      if d then fixDef (node c l' k v r) .L else (node c l' k v r, false)
    else if cmp key k = .gt then
      let (r', d) := del cmp r key
      if d then fixDef (node c l k v r') .R else (node c l k v r', false)
    else
      match l, r with
      | nil, _ => spliceOut c r
      | _, nil => spliceOut c l
      | _, _ =>
        match delMin r with
        | none => (t, false)
        | some (mk, mv, r', d) =>
          if d then fixDef (node c l mk mv r') .R else (node c l mk mv r', false)

def remove (cmp : K → K → Ordering) (t : T K V) (key : K) : T K V := (del cmp t key).1.setBlack

/-! ### First / Last / traversals.  A visitor is a state-passing function (Go visitors are closures). -/

def first : T K V → Option (K × V)
  | nil => none
  | node _ nil k v _ => some (k, v)
  | node _ l _ _ _ => first l

def last : T K V → Option (K × V)
  | nil => none
  | node _ _ k v nil => some (k, v)
  | node _ _ _ _ r => last r

/-- `node.traverse`; the Boolean is the Go return value ("continue") -/
def traverse (f : σ → K → V → σ × Bool) : T K V → σ → σ × Bool
  | nil, s => (s, true)
  | node _ l k v r, s =>
    match traverse f l s with
    | (s1, false) => (s1, false)
    | (s1, true) =>
      match f s1 k v with
      | (s2, false) => (s2, false)
      | (s2, true) => traverse f r s2

def reverseTraverse (f : σ → K → V → σ × Bool) : T K V → σ → σ × Bool
  | nil, s => (s, true)
  | node _ l k v r, s =>
    match reverseTraverse f r s with
    | (s1, false) => (s1, false)
    | (s1, true) =>
      match f s1 k v with
      | (s2, false) => (s2, false)
      | (s2, true) => reverseTraverse f l s2

/-- `node.traverseEqualOrGreater`; the `Nat` threads the number of `compare` calls -/
def traverseGE (cmp : K → K → Ordering) (key : K) (f : σ → K → V → σ × Bool) : T K V → σ → Nat → σ × Bool × Nat
  | nil, s, n => (s, true, n)
  | node _ l k v r, s, n =>
    if cmp key k ≠ .gt then
      match traverseGE cmp key f l s (n + 1) with
      | (s1, false, n1) => (s1, false, n1)
      | (s1, true, n1) =>
        match f s1 k v with
        | (s2, false) => (s2, false, n1)
        | (s2, true) => traverseGE cmp key f r s2 n1
    else traverseGE cmp key f r s (n + 1)

/-- `node.traverseEqualOrLess` -/
def traverseLE (cmp : K → K → Ordering) (key : K) (f : σ → K → V → σ × Bool) : T K V → σ → Nat → σ × Bool × Nat
  | nil, s, n => (s, true, n)
  | node _ l k v r, s, n =>
    if cmp key k ≠ .lt then
      match traverseLE cmp key f r s (n + 1) with
      | (s1, false, n1) => (s1, false, n1)
      | (s1, true, n1) =>
        match f s1 k v with
        | (s2, false) => (s2, false, n1)
        | (s2, true) => traverseLE cmp key f l s2 n1
    else traverseLE cmp key f l s (n + 1)

/-! ### observation functions used by the theorems and the dump -/

def inorder : T K V → List (K × V)
  | nil => []
  | node _ l k v r => inorder l ++ (k, v) :: inorder r

def size : T K V → Nat
  | nil => 0
  | node _ l _ _ r => size l + 1 + size r

def height : T K V → Nat
  | nil => 0
  | node _ l _ _ r => max (height l) (height r) + 1

end T

/-! ### the `Tree` object: root + count; every operation also returns its number of `compare` calls -/

structure Tree (K V : Type) where
  root : T K V
  count : Nat

namespace Tree
variable {K V σ : Type}

def empty : Tree K V := ⟨.nil, 0⟩

def insert (cmp : K → K → Ordering) (t : Tree K V) (k : K) (v : V) : Tree K V × Nat :=
  (⟨T.insert cmp t.root k v, t.count + 1⟩, T.insertCmps cmp t.root k)

/-- `Remove`: nothing happens (no decrement either) when `find` fails -/
def remove (cmp : K → K → Ordering) (t : Tree K V) (k : K) : Tree K V × Nat :=
  (match T.find cmp t.root k with
   | none => t
   | some _ => ⟨T.remove cmp t.root k, t.count - 1⟩,
   T.findCmps cmp t.root k)

def get (cmp : K → K → Ordering) (t : Tree K V) (k : K) : Option V × Nat :=
  ((T.find cmp t.root k).map (·.2), T.findCmps cmp t.root k)

def isEmpty (t : Tree K V) : Bool := t.count == 0
def first (t : Tree K V) : Option V := (T.first t.root).map (·.2)
def last (t : Tree K V) : Option V := (T.last t.root).map (·.2)
def traverse (t : Tree K V) (f : σ → K → V → σ × Bool) (s : σ) : σ := (T.traverse f t.root s).1
def reverseTraverse (t : Tree K V) (f : σ → K → V → σ × Bool) (s : σ) : σ := (T.reverseTraverse f t.root s).1
def traverseStartingAt (cmp : K → K → Ordering) (t : Tree K V) (key : K) (f : σ → K → V → σ × Bool) (s : σ) : σ × Nat :=
  let r := T.traverseGE cmp key f t.root s 0
  (r.1, r.2.2)
def reverseTraverseStartingAt (cmp : K → K → Ordering) (t : Tree K V) (key : K) (f : σ → K → V → σ × Bool) (s : σ) :
    σ × Nat :=
  let r := T.traverseLE cmp key f t.root s 0
  (r.1, r.2.2)

end Tree

/-- the two compare functions used by the correspondence run: `plain` = integer order, `div10` = order of `k / 10`
    (Go's truncating division), under which ten distinguishable keys compare equal -/
def cmpOf (div10 : Bool) (a b : Int) : Ordering :=
  if div10 then compare (a.tdiv 10) (b.tdiv 10) else compare a b

/-! ### histories and the specification (a list sorted by key, equal keys in insertion order) -/

inductive Op (K V : Type) where
  | ins (k : K) (v : V)
  | rem (k : K)

namespace Tree
variable {K V : Type}
def apply (cmp : K → K → Ordering) (t : Tree K V) : Op K V → Tree K V
  | .ins k v => (t.insert cmp k v).1
  | .rem k => (t.remove cmp k).1
def run (cmp : K → K → Ordering) (ops : List (Op K V)) : Tree K V := ops.foldl (apply cmp) empty
end Tree

namespace Spec
variable {K V σ : Type}

/-- stable insertion: after every entry whose key is ≤ the new key -/
def insert (cmp : K → K → Ordering) (l : List (K × V)) (k : K) (v : V) : List (K × V) :=
  l.takeWhile (fun e => cmp k e.1 != .lt) ++ (k, v) :: l.dropWhile (fun e => cmp k e.1 != .lt)

/-- erase the first entry whose key compares equal -/
def remove (cmp : K → K → Ordering) (l : List (K × V)) (k : K) : List (K × V) :=
  l.eraseP (fun e => cmp k e.1 == .eq)

def apply (cmp : K → K → Ordering) (l : List (K × V)) : Op K V → List (K × V)
  | .ins k v => insert cmp l k v
  | .rem k => remove cmp l k

def run (cmp : K → K → Ordering) (ops : List (Op K V)) : List (K × V) := ops.foldl (apply cmp) []

/-- visit the entries of a list in order until the visitor returns false -/
def visit (f : σ → K → V → σ × Bool) : List (K × V) → σ → σ × Bool
  | [], s => (s, true)
  | (k, v) :: t, s =>
    match f s k v with
    | (s1, false) => (s1, false)
    | (s1, true) => visit f t s1

end Spec

end RB
