import Model.Geom
import Generated.Facts
/-! C07: transcription of `collection/quadtree` (`quadtree.go`, `node.go`), generic over the rectangle operations of
    `geom` and instantiated with C18's `Geom.Rect Int` (Go `int`, truncating `/2`) and `Geom.Rect Rat` (exact dyadic
    `float64`).  A stored node is an `Item` (identity = `id`, Go's comparable pointer; `rect` = what `Bounds()` returns),
    so contents are multisets of items.  The recursion `insert → splitIfNeeded → insert` is fuelled.  Core-only. -/
namespace QT

/-- the operations of `geom` the quadtree uses -/
class RectOps (R : Type) (P : outParam Type) where
  empty : R → Bool
  contains : R → R → Bool
  intersects : R → R → Bool
  inPt : P → R → Bool
  union : R → R → R
  zero : R
  /-- the four child rectangles of `splitIfNeeded` -/
  quadrants : R → R × R × R × R
  /-- `!(hw <= 0 && hh <= 0)` -/
  canSplit : R → Bool

structure Item (R : Type) where
  id : Nat
  rect : R

inductive Node (R : Type) where
  | leaf (rect : R) (contents : List (Item R))
  | split (rect : R) (contents : List (Item R)) (c0 c1 c2 c3 : Node R)

namespace Node
variable {R P : Type} [L : RectOps R P]

def rect : Node R → R
  | leaf r _ => r
  | split r _ _ _ _ _ => r

/-- `node.all`: own contents, then the children in order -/
def all : Node R → List (Item R)
  | leaf _ cs => cs
  | split _ cs c0 c1 c2 c3 => cs ++ (all c0 ++ (all c1 ++ (all c2 ++ all c3)))

def depth : Node R → Nat
  | leaf _ _ => 0
  | split _ _ c0 c1 c2 c3 => 1 + max (max (depth c0) (depth c1)) (max (depth c2) (depth c3))

/-- the shape shared by the eight `find…` functions of `node.go`: test the node's rectangle with `pr`, then collect
    the contents that satisfy `f`, then the children in order -/
def find (pr : R → Bool) (f : Item R → Bool) : Node R → List (Item R)
  | leaf r cs => if pr r then cs.filter f else []
  | split r cs c0 c1 c2 c3 =>
    if pr r then cs.filter f ++ (find pr f c0 ++ (find pr f c1 ++ (find pr f c2 ++ find pr f c3))) else []

/-- the shape shared by the eight boolean functions of `node.go` (early returns = short-circuit `||`) -/
def any (pr : R → Bool) (f : Item R → Bool) : Node R → Bool
  | leaf r cs => pr r && cs.any f
  | split r cs c0 c1 c2 c3 => pr r && (cs.any f || (any pr f c0 || (any pr f c1 || (any pr f c2 || any pr f c3))))

/-! insertion with fuel (the Go recursion `insert → splitIfNeeded → insert`) -/
def addHere : Node R → Item R → Node R
  | leaf r cs, it => leaf r (cs ++ [it])
  | split r cs c0 c1 c2 c3, it => split r (cs ++ [it]) c0 c1 c2 c3

/-- the part of `node.insert` after `splitIfNeeded`: first child whose rectangle contains the item, else own contents -/
def route (ins : Node R → Item R → Node R) (n : Node R) (it : Item R) : Node R :=
  match n with
  | leaf r cs => leaf r (cs ++ [it])
  | split r cs c0 c1 c2 c3 =>
    if L.contains c0.rect it.rect then split r cs (ins c0 it) c1 c2 c3
    else if L.contains c1.rect it.rect then split r cs c0 (ins c1 it) c2 c3
    else if L.contains c2.rect it.rect then split r cs c0 c1 (ins c2 it) c3
    else if L.contains c3.rect it.rect then split r cs c0 c1 c2 (ins c3 it)
    else split r (cs ++ [it]) c0 c1 c2 c3

/-- `node.insert` (with `splitIfNeeded` inlined: a leaf holding at least `threshold` items whose half-width or
    half-height is positive is split and its contents re-inserted) -/
def insert (threshold : Nat) : Nat → Node R → Item R → Node R
  | 0, n, it => addHere n it
  | fuel + 1, n, it =>
    let ins := insert threshold fuel
    let n' := match n with
      | leaf r cs =>
        if cs.length ≥ threshold ∧ L.canSplit r = true then
          let (q0, q1, q2, q3) := L.quadrants r
          cs.foldl (fun acc one => route ins acc one) (split r [] (leaf q0 []) (leaf q1 []) (leaf q2 []) (leaf q3 []))
        else n
      | n => n
    route ins n' it

/-- the swap-remove of the source: the first entry with that id is overwritten by the last entry, which is dropped -/
def swapRemove : List (Item R) → Nat → Option (List (Item R))
  | [], _ => none
  | c :: cs, id =>
    if c.id = id then some (match cs.getLast? with | none => [] | some l => l :: cs.dropLast)
    else (swapRemove cs id).map (c :: ·)

/-- `node.remove`: contents first, then (if the node's rectangle contains the object's bounds) the children in order -/
def remove (id : Nat) (b : R) : Node R → Option (Node R)
  | leaf r cs => (swapRemove cs id).map (leaf r)
  | split r cs c0 c1 c2 c3 =>
    match swapRemove cs id with
    | some cs' => some (split r cs' c0 c1 c2 c3)
    | none =>
      if L.contains r b then
        match remove id b c0 with
        | some c0' => some (split r cs c0' c1 c2 c3)
        | none =>
        match remove id b c1 with
        | some c1' => some (split r cs c0 c1' c2 c3)
        | none =>
        match remove id b c2 with
        | some c2' => some (split r cs c0 c1 c2' c3)
        | none =>
        match remove id b c3 with
        | some c3' => some (split r cs c0 c1 c2 c3')
        | none => none
      else none
end Node

/-- `QuadTree`: `nodeThr` is the threshold copied into the nodes by the last `Reorganize` -/
structure Tree (R : Type) where
  root : Option (Node R)
  outside : List (Item R)
  threshold : Int
  nodeThr : Nat
  count : Int

namespace Tree
variable {R P : Type} [L : RectOps R P]

def empty (threshold : Int) : Tree R := ⟨none, [], threshold, 0, 0⟩

/-- `QuadTree.threshold()`.  The two constants `MinQuadTreeThreshold` (4) and `DefaultQuadTreeThreshold` (64) are not
    copied: they are read from `quadtree.go` on every run (`Generated/Facts.lean`, written by `go/cmd/factgen`), so the
    model follows the repository; every theorem holds whatever their values are. -/
def thr (t : Tree R) : Nat :=
  if t.threshold < Facts.quadtree_MinQuadTreeThreshold then Facts.quadtree_DefaultQuadTreeThreshold.toNat
  else t.threshold.toNat

/-- `QuadTree.Size` -/
def size (t : Tree R) : Int := t.count

/-- `QuadTree.All`: the outside list, then the tree -/
def all (t : Tree R) : List (Item R) :=
  t.outside ++ (match t.root with | some r => r.all | none => [])

/-- one step of the re-insertion loop of `Reorganize`: a node the new root rectangle contains goes into the tree, any
    other node (only possible when the union was rounded) goes to the outside list -/
def reorgStep (rect : R) (threshold fuel : Nat) (s : Node R × List (Item R)) (one : Item R) : Node R × List (Item R) :=
  if L.contains rect one.rect then (Node.insert threshold fuel s.1 one, s.2) else (s.1, s.2 ++ [one])

/-- `QuadTree.Reorganize` -/
def reorganize (fuel : Nat) (t : Tree R) : Tree R :=
  let all := t.all
  let rect := all.foldl (fun r one => L.union r one.rect) L.zero
  if all.isEmpty then { t with root := none, outside := [] }
  else
    let st := all.foldl (reorgStep rect t.thr fuel) (Node.leaf rect [], [])
    { t with root := some st.1, outside := st.2, nodeThr := t.thr }

/-- `QuadTree.Insert` -/
def insert (fuel : Nat) (t : Tree R) (it : Item R) : Tree R :=
  if L.empty it.rect then t
  else
    let t := { t with count := t.count + 1 }
    let toOutside : Tree R :=
      let t' := { t with outside := t.outside ++ [it] }
      if t'.outside.length > t'.thr then t'.reorganize fuel else t'
    match t.root with
    | some r => if L.contains r.rect it.rect then { t with root := some (Node.insert t.nodeThr fuel r it) } else toOutside
    | none => toOutside

/-- `QuadTree.Remove` (`b` = what the removed object's `Bounds()` returns) -/
def remove (t : Tree R) (id : Nat) (b : R) : Tree R :=
  match Node.swapRemove t.outside id with
  | some o' => { t with outside := o', count := t.count - 1 }
  | none =>
    match t.root with
    | some r =>
      match Node.remove id b r with
      | some r' => { t with root := some r', count := t.count - 1 }
      | none => t
    | none => t

/-- `QuadTree.Clear` -/
def clear (t : Tree R) : Tree R := { t with count := 0, root := none, outside := [] }

/-- the shape of the eight `Find…` methods: the tree, then the outside list -/
def find (pr : R → Bool) (f : Item R → Bool) (t : Tree R) : List (Item R) :=
  (match t.root with | some r => r.find pr f | none => []) ++ t.outside.filter f

/-- the shape of the eight boolean methods -/
def any (pr : R → Bool) (f : Item R → Bool) (t : Tree R) : Bool :=
  (match t.root with | some r => r.any pr f | none => false) || t.outside.any f

/-! the sixteen query methods; `m` is the matcher -/
def findContainsPoint (t : Tree R) (p : P) := t.find (L.inPt p) (fun it => L.inPt p it.rect)
def containsPoint (t : Tree R) (p : P) := t.any (L.inPt p) (fun it => L.inPt p it.rect)
def findMatchedContainsPoint (t : Tree R) (m : Item R → Bool) (p : P) := t.find (L.inPt p) (fun it => L.inPt p it.rect && m it)
def matchedContainsPoint (t : Tree R) (m : Item R → Bool) (p : P) := t.any (L.inPt p) (fun it => L.inPt p it.rect && m it)
def findIntersects (t : Tree R) (q : R) := t.find (L.intersects · q) (fun it => L.intersects it.rect q)
def intersects (t : Tree R) (q : R) := t.any (L.intersects · q) (fun it => L.intersects it.rect q)
def findMatchedIntersects (t : Tree R) (m : Item R → Bool) (q : R) := t.find (L.intersects · q) (fun it => L.intersects it.rect q && m it)
def matchedIntersects (t : Tree R) (m : Item R → Bool) (q : R) := t.any (L.intersects · q) (fun it => L.intersects it.rect q && m it)
def findContainsRect (t : Tree R) (q : R) := t.find (L.intersects · q) (fun it => L.contains it.rect q)
def containsRect (t : Tree R) (q : R) := t.any (L.intersects · q) (fun it => L.contains it.rect q)
def findMatchedContainsRect (t : Tree R) (m : Item R → Bool) (q : R) := t.find (L.intersects · q) (fun it => L.contains it.rect q && m it)
def matchedContainsRect (t : Tree R) (m : Item R → Bool) (q : R) := t.any (L.intersects · q) (fun it => L.contains it.rect q && m it)
def findContainedByRect (t : Tree R) (q : R) := t.find (L.intersects · q) (fun it => L.contains q it.rect)
def containedByRect (t : Tree R) (q : R) := t.any (L.intersects · q) (fun it => L.contains q it.rect)
def findMatchedContainedByRect (t : Tree R) (m : Item R → Bool) (q : R) := t.find (L.intersects · q) (fun it => L.contains q it.rect && m it)
def matchedContainedByRect (t : Tree R) (m : Item R → Bool) (q : R) := t.any (L.intersects · q) (fun it => L.contains q it.rect && m it)

/-- fuel was sufficient iff no node sits at depth `fuel` (fuel `0` is only ever reached on such a node) -/
def fuelOK (fuel : Nat) (t : Tree R) : Bool := match t.root with | some r => r.depth < fuel | none => true

end Tree

/-! ### histories -/
inductive Op (R : Type) where
  | insert (it : Item R)
  | remove (id : Nat) (b : R)
  | reorganize
  | clear
  | setThreshold (k : Int)

def Tree.apply {R P : Type} [RectOps R P] (fuel : Nat) (t : Tree R) : Op R → Tree R
  | .insert it => t.insert fuel it
  | .remove id b => t.remove id b
  | .reorganize => t.reorganize fuel
  | .clear => t.clear
  | .setThreshold k => { t with threshold := k }

def Tree.run {R P : Type} [RectOps R P] (fuel : Nat) (threshold : Int) (ops : List (Op R)) : Tree R :=
  ops.foldl (Tree.apply fuel) (Tree.empty threshold)

/-! ### the two instances that are run -/
section Inst
open Geom
variable {α : Type} [Add α] [Sub α] [LE α] [LT α] [Max α] [Min α] [OfNat α 0] [DecidableLE α] [DecidableLT α]

/-- the child rectangles exactly as `splitIfNeeded` builds them (child 0 is `hw × hw`, as in the source) -/
def quadrants (half : α → α) (r : Rect α) : Rect α × Rect α × Rect α × Rect α :=
  let hw := half r.w
  let hh := half r.h
  (⟨r.x, r.y, hw, hw⟩, ⟨r.x + hw, r.y, r.w - hw, hh⟩, ⟨r.x, r.y + hh, hw, r.h - hh⟩, ⟨r.x + hw, r.y + hh, r.w - hw, r.h - hh⟩)

def canSplit (half : α → α) (r : Rect α) : Bool := !(decide (half r.w ≤ 0) && decide (half r.h ≤ 0))

/-- the `geom` operations at a coordinate type with halving `half` -/
@[reducible] def geomOps (half : α → α) : RectOps (Rect α) (Point α) where
  empty := Rect.empty
  contains := Rect.contains
  intersects := Rect.intersects
  inPt := Point.inRect
  union := Rect.union
  zero := Rect.zero
  quadrants := quadrants half
  canSplit := canSplit half
end Inst

instance instInt : RectOps (Geom.Rect Int) (Geom.Point Int) := geomOps Geom.halfInt
instance instRat : RectOps (Geom.Rect Rat) (Geom.Point Rat) := geomOps Geom.halfRat

end QT
