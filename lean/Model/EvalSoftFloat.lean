/-! C09: IEEE-754 binary floating point (Go's `float64` and `float32`) on BIT PATTERNS, by exact rational arithmetic.
    Core-only, kernel-reducible (no `Float`).

    A finite bit pattern denotes `(-1)^s · m · 2^e` (`decode`); the basic operations `+ - * /` are the correctly rounded
    (round to nearest, ties to even) images of the exact rational results (`ofRat`), which is what IEEE-754 — and
    therefore the Go specification for `float64`/`float32` arithmetic — prescribes; `math.Mod`, `math.Ceil`, `math.Floor`,
    `math.Round`, `math.Abs`, the built-in `max`/`min` and the comparisons are exact.  `strconv.ParseFloat` is modelled
    for decimal literals (`[+-]digits[.digits][(e|E)[+-]digits]`, `inf`, `infinity`, `nan`), correctly rounded to the
    format, overflow = error (`ErrRange`); hexadecimal literals and literals with `_` are `outside`.  All NaNs are one
    value (`nanBits`). -/
namespace SoftFloat

abbrev Bytes := List Nat

/-- a binary interchange format: number of stored mantissa bits and of exponent bits -/
structure Fmt where
  mb : Nat
  eb : Nat
deriving DecidableEq, Repr

def f64 : Fmt := ⟨52, 11⟩
def f32 : Fmt := ⟨23, 8⟩

namespace Fmt
def bias (f : Fmt) : Nat := 2 ^ (f.eb - 1) - 1
/-- the all-ones exponent field (Inf / NaN) -/
def emaxField (f : Fmt) : Nat := 2 ^ f.eb - 1
/-- exponent of the unit in the last place of the subnormals (and of the first binade) -/
def emin (f : Fmt) : Int := 1 - (f.bias : Int) - (f.mb : Int)
def signBit (f : Fmt) : Nat := 2 ^ (f.mb + f.eb)
def infBits (f : Fmt) : Nat := f.emaxField * 2 ^ f.mb
def nanBits (f : Fmt) : Nat := f.infBits + 2 ^ (f.mb - 1)
/-- 1.0 -/
def oneBits (f : Fmt) : Nat := f.bias * 2 ^ f.mb
/-- the largest finite value (`math.MaxFloat64` / `math.MaxFloat32`) -/
def maxBits (f : Fmt) : Nat := f.infBits - 1
end Fmt

/-- a decoded value: `fin neg m e` is `(-1)^neg · m · 2^e` (`m = 0`: a signed zero) -/
inductive V where
  | nan
  | inf (neg : Bool)
  | fin (neg : Bool) (m : Nat) (e : Int)
deriving DecidableEq, Repr

def isNeg (f : Fmt) (b : Nat) : Bool := b / f.signBit % 2 == 1
/-- the bits without the sign -/
def mag (f : Fmt) (b : Nat) : Nat := b % f.signBit
def withSign (f : Fmt) (neg : Bool) (m : Nat) : Nat := if neg then m + f.signBit else m

def decode (f : Fmt) (b : Nat) : V :=
  let ef := b / 2 ^ f.mb % 2 ^ f.eb
  let mf := b % 2 ^ f.mb
  if ef = f.emaxField then (if mf = 0 then .inf (isNeg f b) else .nan)
  else if ef = 0 then .fin (isNeg f b) mf f.emin
  else .fin (isNeg f b) (mf + 2 ^ f.mb) ((ef : Int) - 1 + f.emin)

def isNaN (f : Fmt) (b : Nat) : Bool := mag f b > f.infBits
def isZero (f : Fmt) (b : Nat) : Bool := mag f b == 0

/-- `n / (d · 2^e)` as a fraction of naturals -/
def scaled (n d : Nat) (e : Int) : Nat × Nat :=
  if 0 ≤ e then (n, d * 2 ^ e.toNat) else (n * 2 ^ (-e).toNat, d)

/-- the magnitude bits of the nearest (ties to even) value of the format to `n / d` (`d > 0`); a result
    `≥ infBits` means overflow.  Encoding: with `e` the exponent of the last place, `(e - emin) · 2^mb + q` is the
    bit pattern of `q · 2^e` for subnormals (`e = emin`, `q < 2^mb`) and normals (`2^mb ≤ q < 2^(mb+1)`) alike, and a
    carry out of the rounding lands in the next binade. -/
def roundMag (f : Fmt) (n d : Nat) : Nat :=
  if n = 0 then 0
  else
    let e1 : Int := (n.log2 : Int) - (d.log2 : Int) - (f.mb : Int)
    let e2 : Int := if (scaled n d e1).1 / (scaled n d e1).2 ≥ 2 ^ f.mb then e1 else e1 - 1
    let e : Int := if e2 < f.emin then f.emin else e2
    let num := (scaled n d e).1
    let den := (scaled n d e).2
    let q := num / den
    let r := num % den
    let q' := if 2 * r > den ∨ (2 * r = den ∧ q % 2 = 1) then q + 1 else q
    (e - f.emin).toNat * 2 ^ f.mb + q'

/-- the correctly rounded value of `± n / d`; overflow yields the infinity -/
def ofRat (f : Fmt) (neg : Bool) (n d : Nat) : Nat := withSign f neg (min (roundMag f n d) f.infBits)

/-- the correctly rounded value of `± n · 2^x` -/
def ofScaled (f : Fmt) (neg : Bool) (n : Nat) (x : Int) : Nat :=
  if 0 ≤ x then ofRat f neg (n * 2 ^ x.toNat) 1 else ofRat f neg n (2 ^ (-x).toNat)

def sgn (neg : Bool) (n : Nat) : Int := if neg then -(n : Int) else (n : Int)

/-- `a + b` -/
def add (f : Fmt) (a b : Nat) : Nat :=
  match decode f a, decode f b with
  | .nan, _ => f.nanBits
  | _, .nan => f.nanBits
  | .inf s, .inf t => if s == t then a else f.nanBits
  | .inf _, .fin _ _ _ => a
  | .fin _ _ _, .inf _ => b
  | .fin s m e, .fin t k g =>
    let x := if e ≤ g then e else g
    let S : Int := sgn s (m * 2 ^ (e - x).toNat) + sgn t (k * 2 ^ (g - x).toNat)
    if S = 0 then withSign f (s && t) 0 else ofScaled f (decide (S < 0)) S.natAbs x

def neg (f : Fmt) (b : Nat) : Nat := if isNeg f b then b - f.signBit else b + f.signBit
def abs (f : Fmt) (b : Nat) : Nat := mag f b
/-- `a - b` -/
def sub (f : Fmt) (a b : Nat) : Nat := if isNaN f b then f.nanBits else add f a (neg f b)

/-- `a * b` -/
def mul (f : Fmt) (a b : Nat) : Nat :=
  match decode f a, decode f b with
  | .nan, _ => f.nanBits
  | _, .nan => f.nanBits
  | .inf s, .inf t => withSign f (s != t) f.infBits
  | .inf s, .fin t k _ => if k = 0 then f.nanBits else withSign f (s != t) f.infBits
  | .fin s m _, .inf t => if m = 0 then f.nanBits else withSign f (s != t) f.infBits
  | .fin s m e, .fin t k g => if m * k = 0 then withSign f (s != t) 0 else ofScaled f (s != t) (m * k) (e + g)

/-- `a / b` -/
def div (f : Fmt) (a b : Nat) : Nat :=
  match decode f a, decode f b with
  | .nan, _ => f.nanBits
  | _, .nan => f.nanBits
  | .inf _, .inf _ => f.nanBits
  | .inf s, .fin t _ _ => withSign f (s != t) f.infBits
  | .fin s _ _, .inf t => withSign f (s != t) 0
  | .fin s m e, .fin t k g =>
    if k = 0 then (if m = 0 then f.nanBits else withSign f (s != t) f.infBits)
    else if m = 0 then withSign f (s != t) 0
    else if g ≤ e then ofRat f (s != t) (m * 2 ^ (e - g).toNat) k else ofRat f (s != t) m (k * 2 ^ (g - e).toNat)

/-- `math.Mod(a, b)`: the exact remainder of the truncated division, with the sign of `a`; NaN for `b = 0`, an infinite
    or NaN `a`, a NaN `b`; `a` itself for an infinite `b` -/
def fmod (f : Fmt) (a b : Nat) : Nat :=
  match decode f a, decode f b with
  | .nan, _ => f.nanBits
  | _, .nan => f.nanBits
  | .inf _, _ => f.nanBits
  | .fin _ _ _, .inf _ => a
  | .fin s m e, .fin _ k g =>
    if k = 0 then f.nanBits
    else
      let x := if e ≤ g then e else g
      let R := (m * 2 ^ (e - x).toNat) % (k * 2 ^ (g - x).toNat)
      if R = 0 then withSign f s 0 else ofScaled f s R x

/-- the order key of a non-NaN value: the magnitude bits are monotone in the magnitude -/
def key (f : Fmt) (b : Nat) : Int := sgn (isNeg f b) (mag f b)

def lt (f : Fmt) (a b : Nat) : Bool := !isNaN f a && !isNaN f b && decide (key f a < key f b)
def le (f : Fmt) (a b : Nat) : Bool := !isNaN f a && !isNaN f b && decide (key f a ≤ key f b)
def eq (f : Fmt) (a b : Nat) : Bool := !isNaN f a && !isNaN f b && decide (key f a = key f b)

/-- rounding to an integral value: `pick q r d` is the integral magnitude chosen for `q + r/d` (`0 ≤ r < d`) -/
def toIntegral (f : Fmt) (pick : Bool → Nat → Nat → Nat → Nat) (b : Nat) : Nat :=
  match decode f b with
  | .nan => f.nanBits
  | .inf _ => b
  | .fin s m e =>
    if 0 ≤ e ∨ m = 0 then b
    else
      let d := 2 ^ (-e).toNat
      let N := pick s (m / d) (m % d) d
      if N = 0 then withSign f s 0 else ofRat f s N 1

/-- `math.Floor` -/
def floor (f : Fmt) := toIntegral f (fun s q r _ => if s && r != 0 then q + 1 else q)
/-- `math.Ceil` -/
def ceil (f : Fmt) := toIntegral f (fun s q r _ => if !s && r != 0 then q + 1 else q)
/-- `math.Round` (halves away from zero) -/
def round (f : Fmt) := toIntegral f (fun _ q r d => if 2 * r ≥ d then q + 1 else q)

/-- the built-in `max(a, b)` on floats: NaN if either is NaN, `+0` above `-0` -/
def fmax (f : Fmt) (a b : Nat) : Nat :=
  if isNaN f a || isNaN f b then f.nanBits
  else if lt f a b then b else if lt f b a then a else if isNeg f a then b else a

/-- the built-in `min(a, b)` -/
def fmin (f : Fmt) (a b : Nat) : Nat :=
  if isNaN f a || isNaN f b then f.nanBits
  else if lt f a b then a else if lt f b a then b else if isNeg f a then a else b

/-! ### strconv.ParseFloat(s, bits) on decimal literals -/

inductive PR where
  | ok (bits : Nat)
  | err
  | outside
deriving DecidableEq, Repr

def isDigit (c : Nat) : Bool := 48 ≤ c && c ≤ 57

def takeDigits : Bytes → Bytes × Bytes
  | [] => ([], [])
  | c :: t => if isDigit c then (c :: (takeDigits t).1, (takeDigits t).2) else ([], c :: t)

def natOfDigits (ds : Bytes) : Nat := ds.foldl (fun a c => a * 10 + (c - 48)) 0

def lower (c : Nat) : Nat := if 65 ≤ c && c ≤ 90 then c + 32 else c

/-- `± m · 10^E`, correctly rounded; overflow is `ErrRange` (an error), underflow is zero.  The two guards keep the
    powers of ten small: `m ≥ 1`, so `E > 400` overflows; `m < 2^(log2 m + 1) ≤ 10^(log2 m / 3 + 1)`, so below
    `-(log2 m / 3 + 401)` the value is under `10^-400` and rounds to zero in both formats. -/
def ofDecimal (f : Fmt) (neg : Bool) (m : Nat) (E : Int) : PR :=
  if m = 0 then .ok (withSign f neg 0)
  else if E > 400 then .err
  else if E < -((m.log2 / 3 + 401 : Nat) : Int) then .ok (withSign f neg 0)
  else
    let r := if 0 ≤ E then roundMag f (m * 10 ^ E.toNat) 1 else roundMag f m (10 ^ (-E).toNat)
    if r ≥ f.infBits then .err else .ok (withSign f neg r)

/-- `strconv.ParseFloat(s, bits)` -/
def parse (f : Fmt) (s : Bytes) : PR :=
  let neg := s.head? == some 45
  let signed := s.head? == some 45 || s.head? == some 43
  let r0 := if signed then s.tail else s
  if s.contains 95 then .outside                                  -- digit separators `_`
  else if r0.map lower == [105, 110, 102] || r0.map lower == [105, 110, 102, 105, 110, 105, 116, 121] then
    .ok (withSign f neg f.infBits)                                -- inf, infinity (any case, signed)
  else if s.map lower == [110, 97, 110] then .ok f.nanBits        -- nan (unsigned)
  else if (r0.take 2).map lower == [48, 120] then .outside        -- hexadecimal mantissa
  else
    let ip := (takeDigits r0).1
    let r1 := (takeDigits r0).2
    let fp := match r1 with | 46 :: t => (takeDigits t).1 | _ => []
    let r2 := match r1 with | 46 :: t => (takeDigits t).2 | _ => r1
    if ip = [] ∧ fp = [] then .err
    else
      let m := natOfDigits (ip ++ fp)
      match r2 with
      | [] => ofDecimal f neg m (-(fp.length : Int))
      | c :: t =>
        if c == 101 || c == 69 then
          let eneg := t.head? == some 45
          let r3 := if t.head? == some 45 || t.head? == some 43 then t.tail else t
          let ed := (takeDigits r3).1
          if ed = [] ∨ (takeDigits r3).2 ≠ [] then .err
          else ofDecimal f neg m ((if eneg then -(natOfDigits ed : Int) else (natOfDigits ed : Int)) - (fp.length : Int))
        else .err


/-! ### fmt.Sprintf("%v", x) for a float: strconv's shortest `%g` (`FormatFloat(x, 'g', -1, bits)`) -/

/-- the decimal digits of `n` as bytes, most significant first -/
def digitsOf (n : Nat) : Bytes := (Nat.toDigits 10 n).map (·.toNat)

/-- is `t · 10^k` an admissible shortest representation of the float whose neighbours' midpoints are `L·2^g` and
    `U·2^g` (`incl`: the midpoints themselves are admissible — even mantissa)?  With `A = 2^g⁺·10^(-k)⁺` and
    `B = 2^(-g)⁺·10^k⁺`: `v·2^g ≥ t·10^k ⇔ v·A ≥ t·B`.  Returns the admissible `t` closest to `C·2^g`, `none` when
    there is none; `(t, true)` flags an exact tie between two admissible candidates. -/
def candidate (L C U : Nat) (g k : Int) (incl : Bool) : Option (Nat × Bool) :=
  let A := 2 ^ g.toNat * 10 ^ (-k).toNat
  let B := 2 ^ (-g).toNat * 10 ^ k.toNat
  let hi := if (U * A) % B = 0 ∧ !incl then (U * A) / B - 1 else (U * A) / B
  let exactU0 := (U * A) % B = 0 ∧ !incl ∧ (U * A) / B = 0
  let lo := if (L * A) % B = 0 then (if incl then (L * A) / B else (L * A) / B + 1) else (L * A) / B + 1
  if exactU0 ∨ hi < lo ∨ hi = 0 then none
  else
    let q := (C * A) / B
    let r := (C * A) % B
    let tie := 2 * r = B
    let c := if 2 * r > B ∨ (tie ∧ q % 2 = 1) then q + 1 else q
    let t := if c < lo then lo else if c > hi then hi else c
    some (t, tie && decide (lo ≤ q) && decide (q + 1 ≤ hi))

/-- the largest decimal exponent `k` (searched downward from `k`) with an admissible `t · 10^k` -/
def shortestFrom (L C U : Nat) (g : Int) (incl : Bool) : Nat → Int → Option (Nat × Int × Bool)
  | 0, _ => none
  | fuel + 1, k =>
    match candidate L C U g k incl with
    | some (t, tie) => some (t, k, tie)
    | none => shortestFrom L C U g incl fuel (k - 1)

/-- `%e` exponent: sign and at least two digits -/
def expText (x : Int) : Bytes :=
  (if x < 0 then 45 else 43) :: (if x.natAbs < 10 then 48 :: digitsOf x.natAbs else digitsOf x.natAbs)

/-- `%v` of a finite non-zero magnitude given its shortest digits `ds` and decimal point position `dp` (value
    `0.ds · 10^dp`): `%e` when the exponent `dp - 1` is below -4 or at least 21 … for the shortest format the
    threshold is 6 (`eprec = 6`), else `%f` -/
def layoutG (ds : Bytes) (dp : Int) : Bytes :=
  let nd : Int := ds.length
  let x := dp - 1
  if x < -4 ∨ x ≥ 6 then
    (match ds with
     | [] => [48]
     | d :: rest => if rest = [] then [d] else d :: 46 :: rest) ++ 101 :: expText x
  else if dp ≤ 0 then
    48 :: 46 :: (List.replicate (-dp).toNat 48 ++ ds)
  else if nd ≤ dp then ds ++ List.replicate (dp - nd).toNat 48
  else ds.take dp.toNat ++ 46 :: ds.drop dp.toNat

/-- `fmt.Sprintf("%v", x)` for the float with these bits; `none` on an exact tie between two shortest candidates
    (left to the implementation) -/
def fmtG (f : Fmt) (b : Nat) : Option Bytes :=
  match decode f b with
  | .nan => some [78, 97, 78]                                         -- NaN
  | .inf s => some ((if s then 45 else 43) :: [73, 110, 102])         -- +Inf / -Inf
  | .fin s m e =>
    let sign : Bytes := if s then [45] else []
    if m = 0 then some (sign ++ [48])
    else
      -- the midpoints to the neighbours, in units of 2^(e-2): the lower one is closer at a binade border
      let border := m = 2 ^ f.mb ∧ f.emin < e
      let L := if border then 4 * m - 1 else 4 * m - 2
      let g := e - 2
      -- start above the decimal magnitude of the upper midpoint: 10^k0 > U·2^g
      let k0 : Int := (((4 * m + 2).log2 : Int) + g + 1) * 30103 / 100000 + 2
      match shortestFrom L (4 * m) (4 * m + 2) g (m % 2 == 0) 60 k0 with
      | none => none
      | some (_, _, true) => none
      | some (t, k, false) => some (sign ++ layoutG (digitsOf t) ((digitsOf t).length + k))

end SoftFloat
