import Generated.Facts
/-! C12: log rotation (`log/rotation/rotator.go`, `options.go`) as a sequential state machine over an abstract
    directory.  Core-only.  The directory is `Nat → Option Bytes` (0 = the log file `path`, i = the backup `path-i`);
    `Write` is a step function (`done | again`, the `goto retry`), `rotate` is the literal descending loop of
    `os.Rename` calls (a missing source is ignored, like the `!os.IsNotExist(err)` guards), `Close` drops the handle,
    re-opening takes the size from `Stat`.  The mutex makes every method atomic, so the model is sequential. -/
namespace Rot

abbrev Bytes := List Nat
abbrev Files := Nat → Option Bytes      -- 0 = current log, i = backup "-i"

/-- the fields of `Rotator` that `Write`/`rotate` read (`path` only names the directory, `mask` only file modes) -/
structure Cfg where
  maxSize : Nat
  maxBackups : Nat
deriving Repr, DecidableEq

/-- `file != nil`, `size`, and the directory -/
structure St where
  files : Files
  isOpen : Bool
  size : Nat

/-! ### `New` and the options of options.go -/

/-- the option functions; `path ""` is the only one that can fail -/
inductive Opt where
  | path (p : String)
  | maxSize (n : Nat)
  | maxBackups (n : Nat)
  | mask (m : Nat)          -- `WithMask`: only file modes, which the directory model does not carry
deriving Repr

/-- the part of a `Rotator` that `New` fills in (`pathSet = false`: still `DefaultPath()`) -/
structure Built where
  cfg : Cfg
  pathSet : Bool
deriving Repr

def defaults : Built :=
  { cfg := { maxSize := Facts.rotation_DefaultMaxSize.toNat, maxBackups := Facts.rotation_DefaultMaxBackups.toNat },
    pathSet := false }

/-- one option applied to the rotator under construction; `none` = the option returned an error -/
def applyOpt (r : Built) : Opt → Option Built
  | .path p => if p = "" then none else some { r with pathSet := true }
  | .maxSize n => some { r with cfg := { r.cfg with maxSize := n } }
  | .maxBackups n => some { r with cfg := { r.cfg with maxBackups := n } }
  | .mask _ => some r

/-- `MaxSize(int64)` / `MaxBackups(int)` accept negative numbers; in both tests that read them (`size+n > maxSize` with
    `size > 0`, `maxBackups < 1`) a negative limit acts like 0 (`Props.C12.negative_limits_act_as_zero`), so the
    natural-number configuration of a signed argument is its clamp -/
def clampLimit (i : Int) : Nat := i.toNat

/-- `New(options...)`: the loop over the options, first error wins -/
def new (opts : List Opt) : Option Built :=
  opts.foldl (fun acc o => match acc with | none => none | some r => applyOpt r o) (some defaults)

/-- the state of a freshly constructed rotator on a directory: no handle yet -/
def fresh (f : Files) : St := { files := f, isOpen := false, size := 0 }

/-! ### the file system operations -/

def Files.set (f : Files) (i : Nat) (v : Option Bytes) : Files := fun j => if j = i then v else f j
/-- os.Rename(old, new), error ignored when `old` does not exist -/
def mv (f : Files) (old new : Nat) : Files :=
  match f old with
  | none => f
  | some c => (f.set new (some c)).set old none

/-- the loop `for i := maxBackups; i > 0; i-- { rename(i-1, i) }` -/
def renameChain (f : Files) : Nat → Files
  | 0 => f
  | i+1 => renameChain (mv f i (i+1)) i

/-- the directory effect of `rotate()`: remove `path` (no backups), or remove the oldest and run the chain -/
def rotateFiles (cfg : Cfg) (f : Files) : Files :=
  if cfg.maxBackups < 1 then f.set 0 none
  else renameChain (f.set cfg.maxBackups none) cfg.maxBackups

/-- the shift that the rename chain implements -/
def shift (cfg : Cfg) (f : Files) : Files := fun j =>
  if j = 0 then none else if j ≤ cfg.maxBackups then f (j - 1) else f j

theorem renameChain_spec (f : Files) (m : Nat) (hm : f m = none ∨ m = 0) :
    ∀ j, renameChain f m j = if j = 0 then (if m = 0 then f 0 else none) else if j ≤ m then f (j - 1) else f j := by
  induction m generalizing f with
  | zero => intro j; simp only [renameChain]; by_cases h : j = 0 <;> simp [h]
  | succ k ih =>
    intro j
    have hfk : f (k+1) = none := by rcases hm with h | h; exact h; omega
    simp only [renameChain]
    -- after mv k (k+1): index k is empty, k+1 holds old k
    have hmv : ∀ x, mv f k (k+1) x = if x = k+1 then f k else if x = k then none else f x := by
      intro x; unfold mv
      cases hk : f k with
      | none =>
        by_cases h1 : x = k+1
        · simp [h1, hfk]
        · by_cases h2 : x = k <;> simp [h1, h2, hk]
      | some c =>
        simp only [Files.set]
        by_cases h1 : x = k+1
        · subst h1; simp
        · by_cases h2 : x = k <;> simp [h1, h2]
    have hk0 : mv f k (k+1) k = none ∨ k = 0 := Or.inl (by rw [hmv]; simp)
    rw [ih (mv f k (k+1)) hk0 j]
    by_cases j0 : j = 0
    · subst j0
      by_cases k0 : k = 0
      · subst k0; simp [hmv]
      · simp [k0]
    · simp only [j0, if_false]
      by_cases jk : j ≤ k
      · have : j - 1 ≠ k + 1 := by omega
        have : j - 1 ≠ k := by omega
        have : j ≤ k + 1 := by omega
        simp [*]
      · by_cases jk1 : j = k + 1
        · subst jk1; simp [hmv]; intro h; omega
        · have : ¬ j ≤ k + 1 := by omega
          have : j ≠ k := by omega
          simp [*]

theorem rotateFiles_eq_shift (cfg : Cfg) (f : Files) : rotateFiles cfg f = shift cfg f := by
  funext j
  unfold rotateFiles shift
  by_cases h : cfg.maxBackups < 1
  · have : cfg.maxBackups = 0 := by omega
    simp [this, Files.set]
    by_cases j0 : j = 0 <;> simp [j0]
  · simp only [h, if_false]
    rw [renameChain_spec _ _ (Or.inl (by simp [Files.set]))]
    by_cases j0 : j = 0
    · have : cfg.maxBackups ≠ 0 := by omega
      simp [j0, this]
    · simp only [j0, if_false]
      by_cases jm : j ≤ cfg.maxBackups
      · have : j - 1 ≠ cfg.maxBackups := by omega
        simp [jm, Files.set, this]
      · have : j ≠ cfg.maxBackups := by omega
        simp [jm, Files.set, this]

/-- compiled code uses the shift instead of the chain of `mv` closures (whose evaluation cost doubles with every link:
    MaxBackups 25 would need 2^25 steps per lookup); the replacement is the theorem above, checked by the kernel -/
@[csimp] theorem rotateFiles_eq_shift_compiled : @rotateFiles = @shift := by
  funext cfg f; exact rotateFiles_eq_shift cfg f

def rotate (cfg : Cfg) (s : St) : St := { files := rotateFiles cfg s.files, isOpen := false, size := 0 }

/-- the `if r.file == nil { … }` block: size from `Stat` (0 if absent), `O_CREATE|O_APPEND` -/
def openIfNeeded (s : St) : St :=
  if s.isOpen then s
  else match s.files 0 with
    | some c => { s with isOpen := true, size := c.length }
    | none => { files := s.files.set 0 (some []), isOpen := true, size := 0 }

inductive Step | done (s : St) | again (s : St)

def Step.st : Step → St | .done s => s | .again s => s
def Step.isDone : Step → Bool | .done _ => true | .again _ => false

/-- one pass from the label `retry:` to either `goto retry` (`again`) or `return` (`done`) -/
def writeStep (cfg : Cfg) (s : St) (b : Bytes) : Step :=
  let s := openIfNeeded s
  if s.size > 0 ∧ s.size + b.length > cfg.maxSize then .again (rotate cfg s)
  else .done { s with files := s.files.set 0 (some ((s.files 0).getD [] ++ b)), size := s.size + b.length }

/-- the `retry` loop with a bound on the number of passes (what the driver runs, with a generous bound) -/
def iterate (cfg : Cfg) : Nat → St → Bytes → Step
  | 0, s, _ => .again s
  | n+1, s, b =>
    match writeStep cfg s b with
    | .done s' => .done s'
    | .again s1 => iterate cfg n s1 b

/-- `Write` with the loop unrolled twice (`Lemmas.Rotation.iterate_eq_write`: more passes are never taken) -/
def write (cfg : Cfg) (s : St) (b : Bytes) : St :=
  match writeStep cfg s b with
  | .done s' => s'
  | .again s1 =>
    match writeStep cfg s1 b with
    | .done s' => s'
    | .again s2 => s2      -- unreachable, see write_terminates

/-- did this `Write` rotate? -/
def rotates (cfg : Cfg) (s : St) (b : Bytes) : Bool := !(writeStep cfg s b).isDone

/-- `Close()` -/
def close (s : St) : St := { s with isOpen := false }

/-- a new `Rotator` on the same directory (process restart); the old handle is closed first -/
def reopen (s : St) : St := fresh (close s).files

/-! ### histories -/

inductive Op where
  | write (b : Bytes)
  | close
  | reopen
  | sync
deriving Repr

def apply (cfg : Cfg) (s : St) : Op → St
  | .write b => write cfg s b
  | .close => close s
  | .reopen => reopen s
  | .sync => s

def run (cfg : Cfg) (s : St) : List Op → St
  | [] => s
  | o :: os => run cfg (apply cfg s o) os

/-- the byte strings written by a history, in order -/
def writesOf : List Op → List Bytes
  | [] => []
  | .write b :: os => b :: writesOf os
  | _ :: os => writesOf os

/-- number of rotations performed by a history -/
def rotations (cfg : Cfg) (s : St) : List Op → Nat
  | [] => 0
  | .write b :: os => (if rotates cfg s b then 1 else 0) + rotations cfg (write cfg s b) os
  | o :: os => rotations cfg (apply cfg s o) os

/-! ### observation -/

def content (f : Files) (i : Nat) : Bytes := (f i).getD []
/-- backups from the oldest (index m) down to the current file (index 0) -/
def retainedUpTo (f : Files) : Nat → Bytes
  | 0 => content f 0
  | m+1 => content f (m+1) ++ retainedUpTo f m
def retained (cfg : Cfg) (f : Files) : Bytes := retainedUpTo f cfg.maxBackups

/-- run-length encoding, used to print a file (accumulator version: files of 10 MiB occur with the default MaxSize) -/
def rleAux : Bytes → List (Nat × Nat) → List (Nat × Nat)
  | [], acc => acc.reverse
  | x :: t, [] => rleAux t [(x, 1)]
  | x :: t, (y, n) :: r => if x = y then rleAux t ((y, n + 1) :: r) else rleAux t ((x, 1) :: (y, n) :: r)
def rle (b : Bytes) : List (Nat × Nat) := rleAux b []

/-- a record whose bytes depend on their position: byte `i` is `(base + i) mod 251` (the harness writes such records, so
    that a permutation inside one record is visible) -/
def recBytes (base n : Nat) : Bytes := (List.range n).map fun i => (base + i) % 251

/-- lossless encoding of a file as maximal runs `(start, length)` in which every byte is its predecessor plus one
    modulo 251 — one run per record written by the harness; used to print a file -/
def progAux : Bytes → List (Nat × Nat × Nat) → List (Nat × Nat)
  | [], acc => (acc.map fun e => (e.1, e.2.1)).reverse
  | x :: t, [] => progAux t [(x, 1, x)]
  | x :: t, (s, n, l) :: r =>
    if x = (l + 1) % 251 then progAux t ((s, n + 1, x) :: r) else progAux t ((x, 1, x) :: (s, n, l) :: r)
def prog (b : Bytes) : List (Nat × Nat) := progAux b []

/-! ### restarts with other limits -/

/-- a history in segments: every segment is a new `Rotator` (`New` with its own limits on the same path, after the
    previous one was closed) and the operations called on it -/
def runSegs (s : St) : List (Cfg × List Op) → St
  | [] => s
  | (cfg, ops) :: rest => runSegs (run cfg (reopen s) ops) rest

/-- all byte strings written in a segmented history, in order -/
def writesOfSegs : List (Cfg × List Op) → List Bytes
  | [] => []
  | (_, ops) :: rest => writesOf ops ++ writesOfSegs rest

/-- representation change for the interpreter (a closure chain would be re-evaluated on every lookup): the directory
    on indexes `< n` as an array, and back (`Lemmas.Rotation.ofArray_toArray`) -/
def toArray (f : Files) (n : Nat) : Array (Option Bytes) := ((List.range n).map f).toArray
def ofArray (a : Array (Option Bytes)) : Files := fun j => a.getD j none

end Rot
