import Model.NotifierConc
/-! C17: the acceptance test the linearizability judge (`drv_c17 lin`, Driver/C17.lean) applies to what a `Notify` call
    observed.  Core Lean only.  It lives here, outside the driver, so that `C17.judge_accepts_only_allowed_deliveries` can
    say what it accepts. -/
namespace NtJ
open Nt

/-- `hs` = the `HandleNotification` calls a `Notify` made, in order: (target, name it was called with).  Every target must
    be in the table `tb` the ancestor walk collected, carry the normalised name, occur once, and the priorities the table
    gives must not increase along the sequence (`last` = priority of the previous call, `seen` = targets so far) -/
def handlesOk (tb : List (Nat × Int)) (name : List Nat) : List (Nat × List Nat) → Option Int → List Nat → Bool
  | [], _, _ => true
  | (t, nm) :: rest, last, seen =>
    match assocGet tb t with
    | none => false
    | some p =>
      nm == name && !seen.contains t && (match last with | none => true | some q => decide (q ≥ p)) &&
        handlesOk tb name rest (some p) (t :: seen)

/-- the two brackets of `Notify(raw)` returned `en` (the `Enabled()` check) and `tb` (the walk); the call observed `hs`
    (and `bad`: data or producer not passed through) -/
def notifyObsOk (en : Bool) (tb : List (Nat × Int)) (raw : List Nat) (bad : Bool) (hs : List (Nat × List Nat)) : Bool :=
  let tb := if en then tb else []
  !bad && hs.length == tb.length && handlesOk tb (joinDots (normalize raw)) hs none []

end NtJ
