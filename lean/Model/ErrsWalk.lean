import Model.Errs
import Model.ErrsFmt
/-! C11: `errors.Is` / `errors.As` over the `Unwrap` chain, `errs.Recovery` (errs/recovery.go) and the record that the
`errs.Log*` functions hand to the slog handler (errs/log.go), on the heap of `Model/Errs.lean`.  The token-carrying variants
compute the heap with the plain functions and the recorded stacks beside them, as in `Model/ErrsFmt.lean`.  Core-only. -/
namespace Errs

/-- outcome of `errors.Is` -/
inductive Walk where
  | found
  | notFound
  | panics   -- `(*errs.Error)(nil).Unwrap()` dereferences the nil receiver
deriving DecidableEq, Repr, Inhabited

/-- the loop of `errors.Is(err, target)` (package errors, `is`): compare when the target's type is comparable, else follow
    `Unwrap() error`.  `cmp` says whether the dynamic type of a value is comparable (error types that are slices, maps or
    funcs are not; the driver knows the kind of every foreign error it made).  A nil `*Error` in the chain is reached by
    `Unwrap` of a foreign wrapper only (`NewWithCause` drops typed nils); its own `Unwrap` method then dereferences nil. -/
def isWalk (h : Heap) (cmp : Val → Bool) (t : Val) : Nat → Val → Walk
  | 0, _ => .notFound
  | fuel+1, v =>
    if v == .nilIface then .notFound
    else if cmp t && v == t then .found
    else match v with
      | .typedNil => .panics
      | .ref id => isWalk h cmp t fuel (unwrap h (.ref id))
      | .fwrap _ _ inner => isWalk h cmp t fuel inner
      | _ => .notFound

def valDepth : Val → Nat
  | .fwrap _ _ inner => valDepth inner + 1
  | _ => 1

/-- what the walk can spend below cell `k`: one step per cell and one per foreign wrapper inside its cause -/
def costBelow (h : Heap) : Nat → Nat
  | 0 => 0
  | k+1 => costBelow h k + valDepth (unwrap h (.ref k)) + 1

/-- fuel for the `errors.Is` walk from `v`; enough in every heap the API builds (`walkFuel_enough`, `Lemmas/ErrsFuel.lean`) -/
def walkFuel (h : Heap) (v : Val) : Nat := valDepth v + costBelow h h.size + 1

/-- `errors.Is(err, target)`: `err == nil || target == nil` is answered by `err == target` -/
def errorsIs (h : Heap) (cmp : Val → Bool) (v t : Val) : Walk :=
  if v == .nilIface || t == .nilIface then (if v == t then .found else .notFound)
  else isWalk h cmp t (walkFuel h v) v

/-- `errors.As(err, &errorPtr)` with `errorPtr : *errs.Error`: the first value of the chain that is assignable to
    `*errs.Error` (a nil `*Error` is) — the value stored in `errorPtr`, as an `error`; the nil interface when there is none
    (`asError` of `Model/Errs.lean` is "there is one": `asTarget_isSome`) -/
def asTarget : Val → Val
  | .typedNil => .typedNil
  | .ref id => .ref id
  | .fwrap _ _ inner => asTarget inner
  | _ => .nilIface

/-! ### `errors.As` with a target of ANY error type -/

/-- outcome of `errors.As(err, &target)` -/
inductive AsOut where
  | found (v : Val)   -- the value stored in `target`
  | none
  | panics            -- `(*errs.Error)(nil).Unwrap()` dereferences the nil receiver
deriving DecidableEq, Repr, Inhabited

/-- the loop of `errors.As(err, target)` (package errors, `as`) for a target of dynamic type `k`: the first value of the
    `Unwrap` chain whose type is `k` — through `*errs.Error` cells (their cause; of an aggregate: the cause of its first error),
    through foreign wrappers.  `ty` gives the dynamic type of a value as a tag (the driver knows the Go type of every foreign
    error it made; `*errs.Error` is one tag for cells and the nil pointer).  None of the types has an `As` method. -/
def asWalk (h : Heap) (ty : Val → Nat) (k : Nat) : Nat → Val → AsOut
  | 0, _ => .none
  | fuel+1, v =>
    if v == .nilIface then .none
    else if ty v == k then .found v
    else match v with
      | .typedNil => .panics
      | .ref id => asWalk h ty k fuel (unwrap h (.ref id))
      | .fwrap _ _ inner => asWalk h ty k fuel inner
      | _ => .none

/-- `errors.As(v, &target)` with `target` of type `k` -/
def errorsAs (h : Heap) (ty : Val → Nat) (k : Nat) (v : Val) : AsOut := asWalk h ty k (walkFuel h v) v

/-- does the `Unwrap` chain of `v` end in a typed nil of a foreign type?  (The model has one notion for those, without a
    type: the driver and the harness both leave such walks out of the `asf` comparison.) -/
def endsForeignNil (h : Heap) : Nat → Val → Bool
  | 0, _ => false
  | fuel+1, v =>
    match v with
    | .foreignNil => true
    | .ref id => endsForeignNil h fuel (unwrap h (.ref id))
    | .fwrap _ _ inner => endsForeignNil h fuel inner
    | _ => false

/-! ### errs/recovery.go -/

/-- what `recover()` returned inside `Recovery` -/
inductive PanicVal where
  | none                 -- no panic in flight
  | err (v : Val)        -- `panic(v)` with an `error` value (not the nil interface)
  | str (m : String)     -- `panic(m)` with a string: `err = Newf("%+v", recovered)`
deriving Repr, Inhabited

/-- `Recovery(handler)`: the error handed to the handler (`none`: the handler is not called — no panic, or no handler).
    `recovered.(error)` succeeds for a typed nil too; `NewWithCause` then drops it.  `recoveryMsg` is the fixed message of
    the new error; it is not copied from the source: the harness reads it off one real `Recovery` on every run and writes it
    into every `recover` line, so the model states "always this one message, whatever the panic". -/
def recovery (h : Heap) (recoveryMsg : String) (p : PanicVal) (handler : Bool) : Heap × Option Val :=
  match p, handler with
  | .none, _ => (h, none)
  | _, false => (h, none)
  | .err v, true => ((newWithCause h recoveryMsg v).1, some (newWithCause h recoveryMsg v).2)
  | .str m, true =>
    let r := new h m
    ((newWithCause r.1 recoveryMsg r.2).1, some (newWithCause r.1 recoveryMsg r.2).2)

/-- the same with the recorded stacks: both errors are created inside `Recovery`, on the stack of the panicking function `f` -/
def recoveryF (s : FHeap) (f : Nat) (recoveryMsg : String) (p : PanicVal) (handler : Bool) : FHeap × Option Val :=
  match p, handler with
  | .none, _ => (s, none)
  | _, false => (s, none)
  | .err v, true => let r := newWithCauseF s f recoveryMsg v; (r.1, some r.2)
  | .str m, true =>
    let r := newF s f m
    let r2 := newWithCauseF r.1 f recoveryMsg r.2
    (r2.1, some r2.2)

/-! ### errs/log.go -/

/-- `Log…(err, …)` → `log(ctx, level, logger, WrapTyped(err), …)` → `createRecord(level, err)`: the message of the record and
    the error behind its `stack_trace` attribute (`none`: no attribute — `err` was nil) -/
def logRecord (h : Heap) (v : Val) : Heap × String × Option Val :=
  match (wrapTyped h v).2 with
  | .ref id => ((wrapTyped h v).1, message (wrapTyped h v).1 id, some (.ref id))
  | _ => ((wrapTyped h v).1, "", none)

def logRecordF (s : FHeap) (f : Nat) (v : Val) : FHeap × String × Option Val :=
  let r := wrapTypedF s f v
  match r.2 with
  | .ref id => (r.1, message r.1.h id, some (.ref id))
  | _ => (r.1, "", none)

end Errs
