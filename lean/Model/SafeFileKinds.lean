import Model.SafeFileHist
/-! C14, extension: a file system with NODE KINDS (regular file, directory, symbolic link) and the kernel's rules about them
    INSIDE the model — until now the driver supplied "the destination is a directory / a link / a dangling link" as flag
    bits and "rename onto a directory fails" as an injected fault.  The `safe.File` API (`File.stepU`, unchanged) runs
    against this kernel: whether the rename of `Commit` fails is decided by the STATE of the model (`kernelize`), and the
    effect of every system call on the nodes is the kernel's (`applyActK`): `rename` replaces whatever NAME the destination
    is — a symbolic link itself, never its target —, refuses a directory, `O_EXCL` refuses every existing name (a dangling
    link too), `unlink` refuses a directory.  Core-only. -/
namespace Safe

inductive Node
  | file (d : FileData)
  | dir                       -- a directory: rename(file, dir) fails (EISDIR / ENOTEMPTY / EEXIST) and changes nothing
  | link (target : Path)      -- a symbolic link; `target` need not exist (dangling)
deriving DecidableEq, Repr

abbrev KFS := Path → Option Node

def KFS.set (fs : KFS) (p : Path) (v : Option Node) : KFS := fun q => if q = p then v else fs q

/-- what a READER of the path finds (`open` follows the link) -/
def KFS.read (fs : KFS) (p : Path) : Option Node :=
  match fs p with
  | some (.link t) => fs t
  | x => x

/-- the kernel's effect of one system call of the model's alphabet on the nodes.  A call the kernel must refuse in this
    state changes nothing even if the action claims success — so a model of the API that mis-predicts the kernel shows up
    as a wrong final state in the theorems. -/
def applyActK (umask : Nat) (fs : KFS) : Act2 → KFS
  | .base (.createExcl p m) => if (fs p).isSome then fs else fs.set p (some (.file ⟨[], lessUmask m umask⟩))
  | .base (.write p c) => match fs p with
      | some (.file d) => fs.set p (some (.file ⟨d.content ++ c, d.mode⟩))
      | _ => fs
  | .base (.rename s d) => match fs s with
      | none => fs
      | some n => if fs d = some .dir then fs else (fs.set s none).set d (some n)
  | .base (.unlink p) => if fs p = some .dir then fs else fs.set p none
  | _ => fs

def runK (umask : Nat) (fs : KFS) : List Act2 → KFS
  | [] => fs
  | a :: as => runK umask (applyActK umask fs a) as

/-- the kernel decides: the rename of `Commit` fails when the destination is a directory (on top of any injected fault) -/
def kernelize (fs : KFS) (f : File) : OpU → OpU
  | .commit a b c => .commit a (b || decide (fs f.dst = some .dir)) c
  | o => o

/-- a history of the File API against the kernel: results of all calls, all system calls -/
def File.stepsK (umask : Nat) : KFS → File → List OpU → File × List Res × List Act2
  | _, f, [] => (f, [], [])
  | fs, f, o :: os =>
    let r := f.stepU (kernelize fs f o)
    let r2 := File.stepsK umask (runK umask fs r.2.2) r.1 os
    (r2.1, r.2.1 :: r2.2.1, r.2.2 ++ r2.2.2)

/-- the abstract specification over node kinds: as `Abs`, and a `Commit` onto a directory fails -/
structure AbsK where
  phase : Phase
  pending : Bytes
  dest : Option Node
deriving DecidableEq, Repr

def AbsK.step (m : Nat) (s : AbsK) : OpU → AbsK × Res
  | .write c fails =>
    match s.phase with
    | .writing true => if fails then (s, .errno) else ({ s with pending := s.pending ++ c }, .ok)
    | _ => (s, .closed)
  | .commit a b _ =>
    match s.phase with
    | .committed => (s, .ok)
    | .aborted => (s, .invalid)
    | .writing false => ({ s with phase := .committed }, .closed)
    | .writing true =>
      if a ∨ b ∨ s.dest = some .dir then ({ s with phase := .committed }, .errno)
      else ({ s with phase := .committed, dest := some (.file ⟨s.pending, m⟩) }, .ok)
  | .close a c =>
    match s.phase with
    | .committed => (s, .ok)
    | .aborted => (s, .invalid)
    | .writing false => ({ s with phase := .aborted }, .closed)
    | .writing true => ({ s with phase := .aborted }, if a ∨ c then .errno else .ok)
  | .closeFd a =>
    match s.phase with
    | .writing true => ({ s with phase := .writing false }, if a then .errno else .ok)
    | _ => (s, .closed)

def AbsK.steps (m : Nat) (s : AbsK) : List OpU → AbsK × List Res
  | [] => (s, [])
  | o :: os =>
    let r := s.step m o
    let r2 := r.1.steps m os
    (r2.1, r.2 :: r2.2)

/-- what strace SHOWS of a sequence of calls: Go's `os.Rename` looks at the new name first (`Lstat`) and, finding a
    directory there while the old name is a file, returns EEXIST WITHOUT issuing rename(2) — so a failing rename onto a
    directory never reaches the kernel (which would refuse it too, EISDIR) and no injected fault can land on it -/
def osRenameView (umask : Nat) : KFS → List Act2 → List Act2
  | _, [] => []
  | fs, a :: as =>
    let rest := osRenameView umask (applyActK umask fs a) as
    match a with
    | .base (.renameFail _ d) => if fs d = some .dir then rest else a :: rest
    | _ => a :: rest

/-- `WriteFileWithMode` against the kernel: a run that would otherwise commit fails in its rename when the destination
    is a directory -/
def writeFileK (fs : KFS) (tmp dst : Path) (N mode : Nat) (pieces : List Bytes) (cb : CbMode) (fault : Fault) :
    Res × List Act :=
  writeFile tmp dst N mode pieces cb
    (if fs dst = some .dir ∧ (writeFile tmp dst N mode pieces cb fault).1 = .ok then .rename else fault)

/-- `CreateWithMode` against the kernel: `O_EXCL` on the candidate name; `par` is the directory the destination and the
    temporary file live in: unless it IS a directory the open fails (ENOENT / ENOTDIR) -/
def createK (tmp dst par : Path) (mode : Nat) (fs : KFS) : Option File × List Act2 :=
  if fs par ≠ some .dir then (none, [.openFail tmp mode false])
  else if (fs tmp).isSome then (none, [.openFail tmp mode true])
  else (some { tmp := tmp, dst := dst }, [.base (.createExcl tmp mode)])

end Safe
