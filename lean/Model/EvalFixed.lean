import Model.Eval
import Model.Fixed
import Model.FixedText
import Model.EvalSoftFloat
import Model.FixedTextExp
/-! C09, values of the FIXED-POINT evaluator: `eval/fixed_operators.go` and the integer-only part of
    `eval/fixed_function.go`, transcribed branch for branch on top of the parser model `Model/Eval.lean`, with the
    arithmetic of `Model/Fixed.lean` (C03: `F64.add/sub/mul/div/mod/abs/trunc/ceil/round/min/max`, raw `int64`
    wrap-around) and the text forms of `Model/FixedText.lean` (C04: `FromString`, `String`).  Core-only.

    Dynamic values (`any`) are `Val`: a fixed-point number (its raw `int64`), a Go bool, or a string (operand text).
    Literals written with an exponent (`FromString`'s `strconv.ParseFloat` branch, then `From[T](float64)`) are
    computed with the IEEE-754 model `Model/EvalSoftFloat.lean`.  OUTSIDE the model (`VR.outside`, the check takes
    those values from the implementation): the operator `^` (`math.Pow`), the functions sqrt, cbrt, exp, exp2, log,
    log10, log1p, and exponent literals whose scaled value leaves `int64`.  Everything else — operand conversion
    `FixedFrom`, `|| && == != < <= > >= + - * / %` incl. their string fall-backs and the configured division by
    zero, the signs `! + -`, the functions abs, ceil, floor, round, max, min, if — is computed here. -/
namespace EvalFixed
open Eval

/-- a value of type `any` as the fixed evaluator produces it -/
inductive Val where
  | num (raw : Int)          -- f64.Int[T]
  | bool (b : Bool)
  | str (s : Bytes)
deriving DecidableEq, Repr

/-- value, error, Go panic (from the parser model), or a value that depends on float64 arithmetic (outside the model) -/
inductive VR (α : Type) where
  | ok (a : α)
  | err
  | panic
  | outside
deriving DecidableEq, Repr

/-- `fixed.Dk` and the `divideByZeroReturnsZero` argument of `NewFixedEvaluator` -/
structure Cfg where
  places : Nat
  mult : Int
  zero : Bool
deriving DecidableEq, Repr

/-- the configuration `Dk` from the regenerated table -/
def cfg? (k : Nat) (zero : Bool) : Option Cfg :=
  match Fixed.places? k, Fixed.mult? k with
  | some p, some m => some ⟨p, m, zero⟩
  | _, _ => none

def TRUE : Bytes := [116, 114, 117, 101]
def FALSE : Bytes := [102, 97, 108, 115, 101]

/-- `fmt.Sprintf("%v", v)`: a string as it is, a bool as true/false, a number through `Int[T].String()` -/
def fmtV (c : Cfg) : Val → Bytes
  | .str s => s
  | .bool b => if b then TRUE else FALSE
  | .num raw => FixedText.toStr c.mult raw

/-- Go's `<` on strings: byte-wise lexicographic -/
def strLt : Bytes → Bytes → Bool
  | [], [] => false
  | [], _ :: _ => true
  | _ :: _, [] => false
  | a :: s, b :: t => if a < b then true else if b < a then false else strLt s t

/-- a byte that can occur in a text `strconv.ParseFloat` accepts once the text contains `e`/`E` (decimal or
    hexadecimal mantissa, exponent, sign, underscore; "inf"/"nan" have no `e`) -/
def floatByte (ch : Nat) : Bool :=
  (48 ≤ ch && ch ≤ 57) || (97 ≤ ch && ch ≤ 102) || (65 ≤ ch && ch ≤ 70) || ch == 120 || ch == 88 || ch == 112 || ch == 80 ||
    ch == 46 || ch == 95 || ch == 43 || ch == 45

/-- `FixedFrom[T](arg)`: `f64.From[T, int](1)` / 0 for a bool, the value itself, `f64.FromString[T]` for a string —
    every branch of `FromString`, through the C04 model `FixedText.fromStrX64` (`Model/FixedTextExp.lean`): a text with
    `e`/`E` goes to `strconv.ParseFloat(str, 64)` (decimal, `_`-separated and hexadecimal grammars) and
    `From[T](float64)`; only a scaled value beyond `int64` (implementation-defined conversion) is `outside` -/
def fixedFrom (c : Cfg) : Val → VR Int
  | .bool b => .ok (if b then Fixed.F64.fromInt c.mult 1 else 0)
  | .num raw => .ok raw
  | .str s =>
    match FixedText.fromStrX64 c.places c.mult s with
    | .ok raw => .ok raw
    | .err => .err
    | .implDefined => .outside
    | .panic => .outside

/-! ### operators (`fixed_operators.go`) -/

/-- `fixedNot` -/
def opNot (c : Cfg) : Val → VR Val
  | .bool b => .ok (.bool (!b))
  | v =>
    match fixedFrom c v with
    | .ok x => .ok (.bool (x == 0))
    | .err => .err
    | .panic => .panic
    | .outside => .outside

/-- `fixedLogicalOr` -/
def opOr (c : Cfg) (l r : Val) : VR Val :=
  match fixedFrom c l with
  | .err => .err
  | .panic => .panic
  | .outside => .outside
  | .ok x =>
    if x ≠ 0 then .ok (.bool true)
    else
      match fixedFrom c r with
      | .err => .err
      | .panic => .panic
      | .outside => .outside
      | .ok y => .ok (.bool (y != 0))

/-- `fixedLogicalAnd` -/
def opAnd (c : Cfg) (l r : Val) : VR Val :=
  match fixedFrom c l with
  | .err => .err
  | .panic => .panic
  | .outside => .outside
  | .ok x =>
    if x = 0 then .ok (.bool false)
    else
      match fixedFrom c r with
      | .err => .err
      | .panic => .panic
      | .outside => .outside
      | .ok y => .ok (.bool (y != 0))

/-- the shape shared by `== != > >= < <= +`: `l, err := From(left); if err == nil { r, err = From(right) }; if err !=
    nil { return <on the %v texts> }; return <on the numbers>` -/
def withFallback (c : Cfg) (num : Int → Int → Val) (txt : Bytes → Bytes → Val) (l r : Val) : VR Val :=
  match fixedFrom c l with
  | .panic => .panic
  | .outside => .outside
  | .err => .ok (txt (fmtV c l) (fmtV c r))
  | .ok x =>
    match fixedFrom c r with
    | .panic => .panic
    | .outside => .outside
    | .err => .ok (txt (fmtV c l) (fmtV c r))
    | .ok y => .ok (num x y)

def opEq (c : Cfg) := withFallback c (fun x y => .bool (x == y)) (fun a b => .bool (a == b))
def opNe (c : Cfg) := withFallback c (fun x y => .bool (x != y)) (fun a b => .bool (a != b))
def opGt (c : Cfg) := withFallback c (fun x y => .bool (decide (x > y))) (fun a b => .bool (strLt b a))
def opGe (c : Cfg) := withFallback c (fun x y => .bool (decide (x ≥ y))) (fun a b => .bool (!strLt a b))
def opLt (c : Cfg) := withFallback c (fun x y => .bool (decide (x < y))) (fun a b => .bool (strLt a b))
def opLe (c : Cfg) := withFallback c (fun x y => .bool (decide (x ≤ y))) (fun a b => .bool (!strLt b a))
/-- `fixedAdd`: `l + r`, or the two texts concatenated -/
def opAdd (c : Cfg) := withFallback c (fun x y => .num (Fixed.F64.add x y)) (fun a b => .str (a ++ b))

/-- the shape of `- * / % ^`: both operands must be numbers -/
def bothNum (c : Cfg) (f : Int → Int → VR Val) (l r : Val) : VR Val :=
  match fixedFrom c l with
  | .err => .err
  | .panic => .panic
  | .outside => .outside
  | .ok x =>
    match fixedFrom c r with
    | .err => .err
    | .panic => .panic
    | .outside => .outside
    | .ok y => f x y

def opSub (c : Cfg) := bothNum c (fun x y => .ok (.num (Fixed.F64.sub x y)))
def opMul (c : Cfg) := bothNum c (fun x y => .ok (.num (Fixed.F64.mul c.mult x y)))

/-- `fixedDivide` / `fixedDivideAllowDivideByZero`: `if r == 0 { return r, nil }` resp. "divide by zero" -/
def opDiv (c : Cfg) := bothNum c (fun x y =>
  if y = 0 then (if c.zero then .ok (.num y) else .err)
  else match Fixed.F64.div c.mult x y with
    | some q => .ok (.num q)
    | none => .panic)

/-- `fixedModulo` / `fixedModuloAllowDivideByZero` -/
def opMod (c : Cfg) := bothNum c (fun x y =>
  if y = 0 then (if c.zero then .ok (.num y) else .err)
  else match Fixed.F64.mod c.mult x y with
    | some q => .ok (.num q)
    | none => .panic)

/-- `fixedPower`: `f64.From[T](math.Pow(…))` — float64 arithmetic, outside the model once both operands are numbers -/
def opPow (c : Cfg) := bothNum c (fun _ _ => .outside)

/-- `fixedAddUnary` -/
def opPlus (c : Cfg) (v : Val) : VR Val :=
  match fixedFrom c v with
  | .ok x => .ok (.num x)
  | .err => .err
  | .panic => .panic
  | .outside => .outside

/-- `fixedSubtractUnary`: `-v` on `int64` -/
def opNeg (c : Cfg) (v : Val) : VR Val :=
  match fixedFrom c v with
  | .ok x => .ok (.num (Fixed.F64.negI x))
  | .err => .err
  | .panic => .panic
  | .outside => .outside

/-- `op.Evaluate(left, right)` of the table entry with this symbol (the order of `FixedOperators`) -/
def binary (c : Cfg) (sym : Bytes) (l r : Val) : VR Val :=
  if sym = symBytes "||" then opOr c l r
  else if sym = symBytes "&&" then opAnd c l r
  else if sym = symBytes "!=" then opNe c l r
  else if sym = symBytes "==" then opEq c l r
  else if sym = symBytes ">=" then opGe c l r
  else if sym = symBytes ">" then opGt c l r
  else if sym = symBytes "<=" then opLe c l r
  else if sym = symBytes "<" then opLt c l r
  else if sym = symBytes "+" then opAdd c l r
  else if sym = symBytes "-" then opSub c l r
  else if sym = symBytes "*" then opMul c l r
  else if sym = symBytes "/" then opDiv c l r
  else if sym = symBytes "%" then opMod c l r
  else if sym = symBytes "^" then opPow c l r
  else .outside                               -- an operator this model does not know

/-- `op.EvaluateUnary(v)` -/
def unary (c : Cfg) (sym : Bytes) (v : Val) : VR Val :=
  if sym = symBytes "!" then opNot c v
  else if sym = symBytes "+" then opPlus c v
  else if sym = symBytes "-" then opNeg c v
  else .outside

/-- `if op.unaryOp != nil && op.unaryOp.EvaluateUnary != nil { return EvaluateUnary(v) }; return v` -/
def applyUn (c : Cfg) : Option Op → Val → VR Val
  | some u, v => if u.un then unary c u.sym v else .ok v
  | none, v => .ok v

/-! ### functions (`fixed_function.go`) -/

/-- `strings.EqualFold(s, "false")`: ASCII case, and U+017F (long s, bytes C5 BF) folds to `s` -/
def equalFoldFalse : Bytes → Bool
  | [f, a, l, s, e] => (f == 102 || f == 70) && (a == 97 || a == 65) && (l == 108 || l == 76) && (s == 115 || s == 83) &&
      (e == 101 || e == 69)
  | [f, a, l, s1, s2, e] => (f == 102 || f == 70) && (a == 97 || a == 65) && (l == 108 || l == 76) && s1 == 0xC5 &&
      s2 == 0xBF && (e == 101 || e == 69)
  | _ => false

/-- `evalToFixed`: `EvaluateNew(arg)` then `FixedFrom` -/
def evalToFixed (c : Cfg) (ev : Bytes → VR Val) (arg : Bytes) : VR Int :=
  match ev arg with
  | .ok v => fixedFrom c v
  | .err => .err
  | .panic => .panic
  | .outside => .outside

/-- the functions of one argument: `evalToFixed(e, arguments)` (the WHOLE argument text), then the f64 method -/
def fn1 (c : Cfg) (ev : Bytes → VR Val) (f : Int → VR Val) (args : Bytes) : VR Val :=
  match evalToFixed c ev args with
  | .ok x => f x
  | .err => .err
  | .panic => .panic
  | .outside => .outside

/-- `fixedFloor`: `floor := value.Trunc(); if floor > value { floor -= f64.From[T, int](1) }` -/
def floorV (c : Cfg) (x : Int) : Int :=
  let fl := Fixed.F64.trunc c.mult x
  if fl > x then Fixed.F64.sub fl (Fixed.F64.fromInt c.mult 1) else fl

/-- `fixedMaximum` / `fixedMinimum`: `for arguments != "" { arg, arguments = NextArg(arguments); … }` -/
def foldArgs (c : Cfg) (ev : Bytes → VR Val) (step : Int → Int → Int) : Nat → Int → Bytes → VR Val
  | 0, _, _ => .panic
  | fuel + 1, acc, args =>
    if args = [] then .ok (.num acc)
    else
      match evalToFixed c ev (nextArg args).1 with
      | .err => .err
      | .panic => .panic
      | .outside => .outside
      | .ok x => foldArgs c ev step fuel (step acc x) (nextArg args).2

/-- `fixedIf` -/
def fnIf (c : Cfg) (ev : Bytes → VR Val) (args : Bytes) : VR Val :=
  match ev (nextArg args).1 with
  | .err => .err
  | .panic => .panic
  | .outside => .outside
  | .ok evaluated =>
    let rest := (nextArg args).2
    let pick (value : Int) : VR Val :=
      let rest := if value = 0 then (nextArg rest).2 else rest
      ev (nextArg rest).1
    match fixedFrom c evaluated with
    | .ok value => pick value
    | .panic => .panic
    | .outside => .outside
    | .err =>
      match evaluated with
      | .str s => pick (if s ≠ [] ∧ equalFoldFalse s = false then Fixed.F64.inc c.mult 0 else 0)
      | _ => .err

/-- a function of the table applied to its (variable-substituted) argument text -/
def call (c : Cfg) (ev : Bytes → VR Val) (name args : Bytes) : VR Val :=
  if name = symBytes "abs" then fn1 c ev (fun x => .ok (.num (Fixed.F64.abs x))) args
  else if name = symBytes "ceil" then fn1 c ev (fun x => .ok (.num (Fixed.F64.ceil c.mult x))) args
  else if name = symBytes "floor" then fn1 c ev (fun x => .ok (.num (floorV c x))) args
  else if name = symBytes "round" then fn1 c ev (fun x => .ok (.num (Fixed.F64.round c.mult x))) args
  else if name = symBytes "max" then foldArgs c ev (fun acc x => Fixed.F64.max acc x) (args.length + 1) Fixed.F64.minRaw args
  else if name = symBytes "min" then foldArgs c ev (fun acc x => Fixed.F64.min acc x) (args.length + 1) Fixed.F64.maxRaw args
  else if name = symBytes "if" then fnIf c ev args
  else if name = symBytes "sqrt" ∨ name = symBytes "cbrt" ∨ name = symBytes "exp" ∨ name = symBytes "exp2" ∨
          name = symBytes "log" ∨ name = symBytes "log10" ∨ name = symBytes "log1p" then
    fn1 c ev (fun _ => .outside) args           -- float64 mathematics: outside the model
  else .outside

/-! ### evaluateOperand / Evaluate with these values -/

def liftR {α : Type} : R α → VR α
  | .ok a => .ok a
  | .err => .err
  | .panic => .panic

/-- `evaluateOperand`; `none` = Go's `nil, nil` -/
def evalNode (c : Cfg) (ev : Bytes → VR Val) (rv : Bytes → R Bytes) : Node → VR (Option Val)
  | .nil => .ok none
  | .operand un v =>
    match rv v with
    | .err => .err
    | .panic => .panic
    | .ok x =>
      match applyUn c un (.str x) with
      | .ok r => .ok (some r)
      | .err => .err
      | .panic => .panic
      | .outside => .outside
  | .func un name args =>
    match rv args with
    | .err => .err
    | .panic => .panic
    | .ok s =>
      match call c ev name s with
      | .err => .err
      | .panic => .panic
      | .outside => .outside
      | .ok v =>
        match applyUn c un v with
        | .ok r => .ok (some r)
        | .err => .err
        | .panic => .panic
        | .outside => .outside
  | .tree l r op un =>
    match evalNode c ev rv l with
    | .err => .err
    | .panic => .panic
    | .outside => .outside
    | .ok lv =>
      match evalNode c ev rv r with
      | .err => .err
      | .panic => .panic
      | .outside => .outside
      | .ok rv' =>
        if !l.isNil && !r.isNil then
          match op with
          | none => .panic
          | some o =>
            if !o.bin then .err
            else
              match lv, rv' with
              | some a, some b =>
                match binary c o.sym a b with
                | .err => .err
                | .panic => .panic
                | .outside => .outside
                | .ok v =>
                  match applyUn c un v with
                  | .ok r => .ok (some r)
                  | .err => .err
                  | .panic => .panic
                  | .outside => .outside
              | _, _ => .err
        else
          match (if r.isNil then lv else rv') with
          | none => .err
          | some x =>
            match un.filter (·.un) with
            | some u =>
              (match unary c u.sym x with
               | .ok r => .ok (some r) | .err => .err | .panic => .panic | .outside => .outside)
            | none =>
              match op.filter (·.un) with
              | some o =>
                (match unary c o.sym x with
                 | .ok r => .ok (some r) | .err => .err | .panic => .panic | .outside => .outside)
              | none => .ok (some x)

/-- `Evaluate` of the fixed evaluator; `depth` bounds the nesting of `EvaluateNew` through function arguments -/
def evaluate (c : Cfg) (ops : List Op) (fns : List Bytes) (resolve : Option (Bytes → Bytes)) : Nat → Bytes → VR Val
  | 0, _ => .panic
  | depth + 1, s =>
    match parseTop ops fns s with
    | .err => .err
    | .panic => .panic
    | .ok none => .ok (.str [])
    | .ok (some top) =>
      match evalNode c (evaluate c ops fns resolve depth) (replaceVariables resolve) top with
      | .err => .err
      | .panic => .panic
      | .outside => .outside
      | .ok none => .err
      | .ok (some v) => .ok v

end EvalFixed
