import Model.FixedText
import Model.FixedFloat
/-! C04: the float branch of `As` / `CheckedAs` at a concrete instance that the driver RUNS.

    `F := GoSem.F64` (binary64 as data; a float32 is carried as the binary64 datum of the same value, as in the C03
    model).  The three stdlib parameters of `checkedAsFloat64` / `checkedAsFloat128` are instantiated by executable
    definitions that state the documented contracts:

    * `parseFloatGo bits t` — `strconv.ParseFloat(t, bits)` on a decimal text `[+-]?digits[.digits]`: the float of the
      target width nearest to the rational the text denotes (ties to even): `GoSem.F64.ofRat` / `Fixed.round32` of
      `N / 10^k`.  A text that is not such a decimal gives +0 (the code ignores ParseFloat's error and keeps its 0).
    * `formatFloatGo bits x` — `strconv.FormatFloat(x, 'f', -1, bits)`: the shortest decimal text that parses back to `x`
      (`parseFloatGo bits text = x` is checked on the very text returned), found by trying 1, 2, … significant digits
      and, per length, the two decimals of that length that enclose `x`, the nearer one first (tie: even last digit).
    * `quoGo bits raw mult` — the 128-bit `big.Float` quotient converted to the target: `Fixed.F128.asFloat` /
      `asFloat32` of the C03 model.

    Both stdlib definitions are compared with the real strconv functions on every run (ops `pf`, `ff`), the instantiated
    `CheckedAs` with the real `As` / `CheckedAs` (op `cfm`).  Core-only. -/
namespace FixedText
open GoSem (F64)

abbrev Flt := GoSem.F64

/-! ### reading a decimal text -/

/-- what follows the sign: all digits as one number, number of fraction digits; `none` unless
    `digit* ('.' digit*)?` with at least one digit -/
def parseDecBody (neg : Bool) (body : Str) : Option (Bool × Nat × Nat) :=
  let ds := (splitDot body).1 ++ ((splitDot body).2.getD [])
  if ds = [] ∨ ds.all isDigit = false then none
  else some (neg, parseDigits ds, ((splitDot body).2.getD []).length)

/-- sign, digits, scale of `[+-]? digit* ('.' digit*)?` -/
def parseDec? (t : Str) : Option (Bool × Nat × Nat) :=
  match t with
  | 45 :: r => parseDecBody true r
  | 43 :: r => parseDecBody false r
  | _ => parseDecBody false t

/-- the float of the target width nearest to ±N/10^k -/
def nearestDec (bits : Nat) (neg : Bool) (N k : Nat) : Flt :=
  if bits = 32 then Fixed.round32 neg N (10^k)
  else if N = 0 then .fin neg 0 (-1074) else GoSem.F64.ofRat neg N (10^k)

/-- `strconv.ParseFloat(t, bits)` on decimal texts (value only; the error is ignored by the caller) -/
def parseFloatGo (bits : Nat) (t : Str) : Flt :=
  match parseDec? t with
  | some (neg, N, k) => nearestDec bits neg N k
  | none => GoSem.F64.zero

/-! ### shortest round-trip text -/

/-- is `A/B < 10^s` ? -/
def ltPow10 (A B : Nat) (s : Int) : Bool :=
  if s ≥ 0 then decide (A < B * 10^s.toNat) else decide (A * 10^(-s).toNat < B)

def searchUp : Nat → Nat → Nat → Int → Int
  | 0, _, _, s => s
  | fuel+1, A, B, s => if ltPow10 A B s then s else searchUp fuel A B (s + 1)
def searchDown : Nat → Nat → Nat → Int → Int
  | 0, _, _, s => s
  | fuel+1, A, B, s => if ltPow10 A B (s - 1) then searchDown fuel A B (s - 1) else s

/-- number of digits in front of the decimal point of `A/B` (≤ 0 for values below 1): the least `s` with `A/B < 10^s` -/
def decPos (A B : Nat) : Int :=
  let est : Int := (((A.log2 : Int) - (B.log2 : Int)) * 30103) / 100000
  searchDown 700 A B (searchUp 700 A B (est - 1))

/-- `q / 10^k` (`k` may be negative) in the `'f'` layout: no exponent, no trailing fraction zeros -/
def renderDec (neg : Bool) (q : Nat) (k : Int) : Str :=
  let sign : Str := if neg then [45] else []
  if k ≤ 0 then sign ++ natStr (q * 10^(-k).toNat)
  else
    let ip := q / 10^k.toNat
    let fr := q % 10^k.toNat
    if fr = 0 then sign ++ natStr ip
    else sign ++ natStr ip ++ [46] ++ stripZeros (digitsPadM k.toNat fr)
where
  /-- `fr` written with exactly `p` digits -/
  digitsPadM : Nat → Nat → Str
    | 0, _ => []
    | p+1, f => digitsPadM p (f / 10) ++ [48 + f % 10]

/-- the candidates with `nd` significant digits for the magnitude `A/B`: the two decimals of that length enclosing it,
    the nearer one first, on a tie the one with the even last digit (strconv rounds half to even) -/
def candidates (neg : Bool) (A B : Nat) (nd : Nat) : List Str :=
  let k : Int := (nd : Int) - decPos A B            -- scale by 10^k: nd digits in front of the point
  let num := if k ≥ 0 then A * 10^k.toNat else A
  let den := if k ≥ 0 then B else B * 10^(-k).toNat
  let q := num / den
  let r := num % den
  if r = 0 then [renderDec neg q k]
  else if 2 * r < den ∨ (2 * r = den ∧ q % 2 = 0) then [renderDec neg q k, renderDec neg (q + 1) k]
  else [renderDec neg (q + 1) k, renderDec neg q k]

/-- the first candidate accepted by `ok`, trying `cand nd`, `cand (nd+1)`, … (`fuel` lengths) -/
def firstAccepted (cand : Nat → List Str) (ok : Str → Bool) : Nat → Nat → Str
  | 0, _ => []
  | fuel+1, nd =>
    match (cand nd).find? ok with
    | some t => t
    | none => firstAccepted cand ok fuel (nd + 1)

/-- the first text with 1, 2, … significant digits that parses back to `x` -/
def shortestSearch (bits : Nat) (x : Flt) (neg : Bool) (A B : Nat) (fuel nd : Nat) : Str :=
  firstAccepted (candidates neg A B) (fun t => parseFloatGo bits t == x) fuel nd

/-- `strconv.FormatFloat(x, 'f', -1, bits)` -/
def formatFloatGo (bits : Nat) : Flt → Str
  | .nan => [78, 97, 78]                         -- "NaN"
  | .inf neg => (if neg then [45] else [43]) ++ [73, 110, 102]   -- "+Inf" / "-Inf"
  | .fin neg m e =>
    if m = 0 then (if e = -1074 then (if neg then [45, 48] else [48]) else [])   -- ±0 (canonical datum only)
    else shortestSearch bits (.fin neg m e) neg (GoSem.F64.num m e) (GoSem.F64.den e) 17 1

/-! ### the instance -/

/-- the 128-bit quotient converted to the target type -/
def quoGo (bits : Nat) (raw mult : Int) : Flt :=
  if bits = 32 then Fixed.F128.asFloat32 mult raw else Fixed.F128.asFloat mult raw

/-- `f64.As[T, float32|float64]` -/
def asF64 (bits : Nat) (mult raw : Int) : Flt := asFloat64 (parseFloatGo bits) mult raw
/-- `f64.CheckedAs[T, float32|float64]` -/
def checkedAsF64 (bits : Nat) (mult raw : Int) : Option Flt :=
  checkedAsFloat64 (parseFloatGo bits) (formatFloatGo bits) mult raw
/-- `f128.As[T, float32|float64]` -/
def asF128 (bits : Nat) (mult raw : Int) : Flt := asFloat128 (quoGo bits) mult raw
/-- `f128.CheckedAs[T, float32|float64]` -/
def checkedAsF128 (bits : Nat) (mult raw : Int) : Option Flt :=
  checkedAsFloat128 (quoGo bits) (formatFloatGo bits) mult raw

end FixedText
