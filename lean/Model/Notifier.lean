/-! C17: model of `notifier.Notifier` (notifier/notifier.go).  Core Lean only.

The three Go maps are association lists (`assocGet` = first match, `assocSet` = replace the first match or append,
`assocDel` = drop every match); targets are natural numbers (the identity of the Go pointer), a notifier state is
`NSt`, the family of notifiers is `World = Nat → NSt` (needed for `RegisterFromNotifier`).  Names are byte strings;
a normalised name is the list of its non-empty dot-separated segments (`Name`).  Whether a target implements
`BatchTarget` is a property of its Go type: the fixed predicate `batchCapable`.  Whether a target panics is an
*outcome* the environment chooses: every function that delivers takes it as the parameter `pan`. -/
namespace Nt

abbrev Seg := List Nat
abbrev Name := List Seg

/-- `strings.Split(s, ".")` on bytes (46 = '.') -/
def splitDots : List Nat → List (List Nat)
  | [] => [[]]
  | c :: cs =>
    if c = 46 then [] :: splitDots cs
    else match splitDots cs with
      | [] => [[c]]
      | s :: ss => (c :: s) :: ss

/-- `normalizeName`: the non-empty segments (the Go function joins them again with single dots: `joinDots`) -/
def normalize (raw : List Nat) : Name := (splitDots raw).filter (fun s => s ≠ [])

def joinDots : Name → List Nat
  | [] => []
  | [s] => s
  | s :: ss => s ++ 46 :: joinDots ss

section assoc
variable {α β : Type} [DecidableEq α]

def assocGet : List (α × β) → α → Option β
  | [], _ => none
  | (k', v) :: l, k => if k' = k then some v else assocGet l k
def assocSet : List (α × β) → α → β → List (α × β)
  | [], k, v => [(k, v)]
  | (k', v') :: l, k, v => if k' = k then (k, v) :: l else (k', v') :: assocSet l k v
def assocDel (l : List (α × β)) (k : α) : List (α × β) := l.filter (fun p => p.1 ≠ k)
def keys (l : List (α × β)) : List α := l.map (·.1)
def setIns (l : List α) (x : α) : List α := if x ∈ l then l else l ++ [x]
end assoc

/-- name ↦ (target ↦ priority): `productionMap` -/
abbrev PMap := List (Name × List (Nat × Int))
/-- target ↦ set of names: `nameMap` -/
abbrev NMap := List (Nat × List Name)

structure NSt where
  prod : PMap := []
  names : NMap := []
  batch : List Nat := []        -- `batchTargets`
  current : List Nat := []      -- `currentBatch`
  level : Nat := 0
  enabled : Bool := true

/-- the Go type of target `t` implements `BatchTarget` (fixed per target; the harness uses the same table) -/
def batchCapable (t : Nat) : Bool := t == 1 || t == 3 || t == 4 || (decide (5 ≤ t) && t % 3 == 1)

/-! ### Register -/
def registerOne (prod : PMap) (n : Name) (t : Nat) (prio : Int) : PMap :=
  assocSet prod n (assocSet ((assocGet prod n).getD []) t prio)
def addName (names : NMap) (t : Nat) (n : Name) : NMap :=
  assocSet names t (setIns ((assocGet names t).getD []) n)

/-- body of the loop over the normalised names -/
def regStep (t : Nat) (prio : Int) (s : NSt) (n : Name) : NSt :=
  { s with prod := registerOne s.prod n t prio, names := addName s.names t n }

def normNames (raws : List (List Nat)) : List Name := (raws.map normalize).filter (fun n => n ≠ [])

def register (s : NSt) (t : Nat) (prio : Int) (raws : List (List Nat)) : NSt :=
  let ns := normNames raws
  if ns = [] then s else
  let s := if batchCapable t then { s with batch := setIns s.batch t } else s
  ns.foldl (regStep t prio) s

/-! ### Unregister -/
def unregStep (t : Nat) (prod : PMap) (n : Name) : PMap :=
  match assocGet prod n with
  | none => prod
  | some set =>
    let set' := assocDel set t
    if set' = [] then assocDel prod n else assocSet prod n set'

def unregister (s : NSt) (t : Nat) : NSt :=
  match assocGet s.names t with
  | none => s
  | some ns =>
    { s with batch := if batchCapable t then s.batch.filter (fun x => x ≠ t) else s.batch,
             prod := ns.foldl (unregStep t) s.prod,
             names := assocDel s.names t }

/-! ### RegisterFromNotifier (the loops iterate the *other* notifier's copies) -/
/-- overwrite `acc` with every entry of `set` -/
def overlay (acc set : List (Nat × Int)) : List (Nat × Int) :=
  set.foldl (fun acc (tp : Nat × Int) => assocSet acc tp.1 tp.2) acc

def stepMerge (prod : PMap) (e : Name × List (Nat × Int)) : PMap :=
  match assocGet prod e.1 with
  | some mine => assocSet prod e.1 (overlay mine e.2)
  | none => assocSet prod e.1 e.2
def mergeProd (mine other : PMap) : PMap := other.foldl stepMerge mine

def stepMergeNames (names : NMap) (e : Nat × List Name) : NMap :=
  match assocGet names e.1 with
  | some mine => assocSet names e.1 (e.2.foldl setIns mine)
  | none => assocSet names e.1 e.2
def mergeNames (mine other : NMap) : NMap := other.foldl stepMergeNames mine

def mergeFrom (s other : NSt) : NSt :=
  { s with batch := other.batch.foldl setIns s.batch,
           prod := mergeProd s.prod other.prod,
           names := mergeNames s.names other.names }

/-! ### Notify -/
/-- the ancestor walk: `a`, `a.b`, `a.b.c`, … (least specific first) -/
def prefixes (n : Name) : List Name := (List.range n.length).map (fun i => n.take (i + 1))

/-- the table `targets` built during the walk: later (more specific) names overwrite earlier ones -/
def gatherStep (prod : PMap) (acc : List (Nat × Int)) (pre : Name) : List (Nat × Int) :=
  match assocGet prod pre with
  | none => acc
  | some set => overlay acc set
def gather (prod : PMap) (pres : List Name) : List (Nat × Int) := pres.foldl (gatherStep prod) []

def byPriority (a b : Int × Nat) : Bool := decide (a.1 ≥ b.1)

/-- (priority, target) in delivery order: `sort.Slice` with `targets[i] > targets[j]` -/
def delivery (prod : PMap) (n : Name) : List (Int × Nat) :=
  ((gather prod (prefixes n)).map (fun tp => (tp.2, tp.1))).mergeSort byPriority

/-- `NotifyWithData`: the deliveries made for the raw name -/
def notify (s : NSt) (raw : List Nat) : List (Int × Nat) :=
  if !s.enabled then [] else
  let n := normalize raw
  if n = [] then [] else delivery s.prod n

/-! ### batches, enable, reset -/
def startBatch (s : NSt) : NSt × List Nat :=
  if !s.enabled then (s, []) else
  let s := { s with level := s.level + 1 }
  if s.level = 1 ∧ s.batch ≠ [] then ({ s with current := s.batch }, s.batch) else (s, [])

def endBatch (s : NSt) : NSt × List Nat :=
  if s.enabled ∧ s.level > 0 then
    let s := { s with level := s.level - 1 }
    if s.level = 0 then ({ s with current := [] }, s.current) else (s, [])
  else (s, [])

def setEnabled (s : NSt) (b : Bool) : NSt := { s with enabled := b }

def reset (s : NSt) : NSt := { s with batch := [], prod := [], names := [], current := [], level := 0 }

/-! ### the family of notifiers and histories -/
abbrev World := Nat → NSt

def World.init : World := fun _ => {}
def World.set (w : World) (n : Nat) (s : NSt) : World := fun i => if i = n then s else w i

inductive Op where
  | register (n t : Nat) (prio : Int) (raws : List (List Nat))
  | unregister (n t : Nat)
  | merge (n m : Nat)              -- notifier n .RegisterFromNotifier(notifier m)
  | setEnabled (n : Nat) (b : Bool)
  | reset (n : Nat)
  | startBatch (n : Nat)
  | endBatch (n : Nat)
  | notify (n : Nat) (raw : List Nat)

/-- what targets and the recovery handler observe -/
inductive Event where
  | handle (n t : Nat) (name : Name) (prio : Int)   -- HandleNotification(join name) on target t (prio: model annotation)
  | batchMode (n t : Nat) (start : Bool)
  | recovered (n t : Nat)                           -- the recovery handler of notifier n got the panic of target t
deriving DecidableEq

/-! ### delivery with Go's panic semantics

`notifyTarget` / `notifyBatchTarget` are Go functions with `defer errs.Recovery(n.recoveryHandler)`; the loops
`for _, target := range list { n.notifyTarget(…) }` are ordinary sequencing: a panic that leaves a frame unrecovered
skips the rest of the caller's statements.  `Run` is a piece of Go code executed: what it made observable and whether it
returned or is still panicking. -/

/-- the recovery handler a notifier was created with (`New(handler)`) -/
inductive Handler where
  | absent    -- `New(nil)`: panics are swallowed silently
  | good      -- records the report and returns
  | bad       -- records the report and then panics itself
deriving DecidableEq

/-- the harness' table: notifier 1 has a handler that panics, notifier 2 has none (fixed per notifier, like
    `batchCapable` per target; no theorem depends on the table) -/
def handlerKind (n : Nat) : Handler := if n = 1 then .bad else if n = 2 then .absent else .good

structure Run where
  /-- the calls made, oldest first -/
  trace : List Event
  /-- `none`: returned normally; `some v`: a panic with value `v` is propagating out of this code -/
  out : Option Nat
deriving DecidableEq

def Run.skip : Run := ⟨[], none⟩

/-- `a; b`: if `a` panics, `b` is not executed -/
def Run.seq (a b : Run) : Run :=
  match a.out with
  | none => ⟨a.trace ++ b.trace, b.out⟩
  | some _ => a

/-- a function frame with one deferred call.  The body runs; then the deferred function runs, ALWAYS, and is given the
    pending panic of the body (what `recover()` would return); the frame ends the way the deferred function says:
    `none` if nothing is panicking any more, `some v` if a panic (the old one, not recovered, or a new one) goes on to the
    caller. -/
def frame (body : Run) (deferred : Option Nat → Run) : Run :=
  ⟨body.trace ++ (deferred body.out).trace, (deferred body.out).out⟩

/-- calling a method of a target: the call is observed, then the target returns or panics (value: its id) -/
def callTarget (pan : Nat → Bool) (e : Event) (t : Nat) : Run := ⟨[e], if pan t then some t else none⟩

/-- calling the recovery handler with the error made from the panic of target `t` -/
def callHandler (h : Handler) (n t : Nat) : Run :=
  match h with
  | .good => ⟨[Event.recovered n t], none⟩
  | .bad => ⟨[Event.recovered n t], some 0⟩
  | .absent => Run.skip

/-- `errs.Recovery(nil)` as a deferred call: `recover()` stops whatever is panicking, nothing else happens -/
def recoveryNil (_ : Option Nat) : Run := Run.skip

/-- `errs.Recovery(handler)` as a deferred call (`p` = the pending panic): `recover()` is called unconditionally, so the
    panic stops here; if there was one and a handler exists, the handler is called inside a frame that has
    `defer Recovery(nil)` ("guard against a bad handler implementation") -/
def recovery (h : Handler) (n t : Nat) (p : Option Nat) : Run :=
  match p with
  | none => Run.skip
  | some _ => if h = .absent then Run.skip else frame (callHandler h n t) recoveryNil

/-- `func (n *Notifier) notifyTarget(…) { defer errs.Recovery(n.recoveryHandler); target.HandleNotification(…) }` -/
def notifyTargetX (pan : Nat → Bool) (n : Nat) (name : Name) (d : Int × Nat) : Run :=
  frame (callTarget pan (Event.handle n d.2 name d.1) d.2) (recovery (handlerKind n) n d.2)

/-- `func (n *Notifier) notifyBatchTarget(…) { defer errs.Recovery(n.recoveryHandler); target.BatchMode(start) }` -/
def notifyBatchTargetX (pan : Nat → Bool) (n : Nat) (start : Bool) (t : Nat) : Run :=
  frame (callTarget pan (Event.batchMode n t start) t) (recovery (handlerKind n) n t)

/-- `for _, x := range xs { f(x) }` -/
def loopX {α : Type} (f : α → Run) : List α → Run
  | [] => Run.skip
  | x :: xs => (f x).seq (loopX f xs)

def deliverX (pan : Nat → Bool) (n : Nat) (name : Name) (ds : List (Int × Nat)) : Run :=
  loopX (notifyTargetX pan n name) ds

def batchX (pan : Nat → Bool) (n : Nat) (start : Bool) (ts : List Nat) : Run :=
  loopX (notifyBatchTargetX pan n start) ts

/-! the same traces in closed form (what `deliverX` / `batchX` make observable when no frame lets a panic out — which
    is always: `Nt.deliverX_spec`) -/

/-- does the recovery handler of notifier `n` see reports -/
def reports? (n : Nat) : Bool := handlerKind n != .absent

def notifyTarget (pan : Nat → Bool) (n : Nat) (name : Name) (d : Int × Nat) : List Event :=
  if pan d.2 && reports? n then [Event.handle n d.2 name d.1, Event.recovered n d.2] else [Event.handle n d.2 name d.1]

def notifyBatchTarget (pan : Nat → Bool) (n : Nat) (start : Bool) (t : Nat) : List Event :=
  if pan t && reports? n then [Event.batchMode n t start, Event.recovered n t] else [Event.batchMode n t start]

def deliverAll (pan : Nat → Bool) (n : Nat) (name : Name) (ds : List (Int × Nat)) : List Event :=
  ds.flatMap (notifyTarget pan n name)

def batchAll (pan : Nat → Bool) (n : Nat) (start : Bool) (ts : List Nat) : List Event :=
  ts.flatMap (notifyBatchTarget pan n start)

/-- one exported call; the events are the trace of the delivery loops executed with the panic semantics above -/
def step (pan : Nat → Bool) (w : World) : Op → World × List Event
  | .register n t p raws => (w.set n (register (w n) t p raws), [])
  | .unregister n t => (w.set n (unregister (w n) t), [])
  | .merge n m => if n = m then (w, []) else (w.set n (mergeFrom (w n) (w m)), [])
  | .setEnabled n b => (w.set n (setEnabled (w n) b), [])
  | .reset n => (w.set n (reset (w n)), [])
  | .startBatch n => (w.set n (startBatch (w n)).1, (batchX pan n true (startBatch (w n)).2).trace)
  | .endBatch n => (w.set n (endBatch (w n)).1, (batchX pan n false (endBatch (w n)).2).trace)
  | .notify n raw => (w, (deliverX pan n (normalize raw) (notify (w n) raw)).trace)

/-- run a history from the initial world; all events in order -/
def runFrom (pan : Nat → Bool) (w : World) : List Op → World × List Event
  | [] => (w, [])
  | op :: ops =>
    let r := step pan w op
    let r' := runFrom pan r.1 ops
    (r'.1, r.2 ++ r'.2)

def run (pan : Nat → Bool) (ops : List Op) : World × List Event := runFrom pan World.init ops

end Nt
