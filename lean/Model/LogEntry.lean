import Model.LogHandlers
/-! C13: executable models of the two `errs` files the property is anchored in besides the handlers.

* namespace `ELog` — `errs/log.go`: the record `createRecord` builds for an error (message, the `stack_trace` attribute
  carrying the error as a `stackValue`), what that attribute resolves to when it is NOT picked up as the record's stack
  (`stackValue.LogValue`: the stack text split at line feeds, every line trimmed, printed by tracelog's default case as
  `[l1 l2 …]`), and the body shared by the ten `Log*` entry points (`log` / `logAttrs`: enabled? build, add the caller's
  attributes, `Handle`, drop the result).
* namespace `Rec` — `errs/recovery.go`: `Recovery(handler)` as the deferred call of a function that unwinds (or not), with
  the control flow of a panic explicit, and `multilog.runHandler`, which is built on it.

Core-only.  Byte strings are `List Nat` as in `Model/LogHandlers.lean`; `*errs.Error` values live on the heap of
`Model/Errs.lean`. -/

namespace ELog
open TL

/-! ### `strings.Split(s, "\n")`, `strings.TrimSpace`, `fmt.Sprint([]string)` on bytes -/

/-- `strings.Split(s, "\n")`: never empty; `n` line feeds give `n+1` pieces -/
def splitLF : Bytes → List Bytes
  | [] => [[]]
  | b :: rest =>
    if b = 10 then [] :: splitLF rest
    else match splitLF rest with
      | l :: ls => (b :: l) :: ls
      | [] => [[b]]

/-- the UTF-8 encodings of the code points `unicode.IsSpace` accepts: `\t \n \v \f \r`, space, U+0085, U+00A0, U+1680,
    U+2000 … U+200A, U+2028, U+2029, U+202F, U+205F, U+3000 -/
def spaceSeqs : List Bytes :=
  [[9], [10], [11], [12], [13], [32], [0xC2, 0x85], [0xC2, 0xA0], [0xE1, 0x9A, 0x80]] ++
  (List.range 11).map (fun i => [0xE2, 0x80, 0x80 + i]) ++
  [[0xE2, 0x80, 0xA8], [0xE2, 0x80, 0xA9], [0xE2, 0x80, 0xAF], [0xE2, 0x81, 0x9F], [0xE3, 0x80, 0x80]]

/-- one white-space rune off the front, if there is one -/
def stripOne (seqs : List Bytes) (l : Bytes) : Option Bytes :=
  seqs.findSome? fun q => if q.isPrefixOf l then some (l.drop q.length) else none

/-- `strings.TrimLeftFunc(s, unicode.IsSpace)` (fuel: the length of the string) -/
def trimLeftWith (seqs : List Bytes) : Nat → Bytes → Bytes
  | 0, l => l
  | n + 1, l => match stripOne seqs l with
    | some r => trimLeftWith seqs n r
    | none => l

/-- `strings.TrimSpace`: leading, then trailing white space (a rune is recognised from the end by its reversed
    encoding: exactly what `utf8.DecodeLastRuneInString` accepts, only shortest forms being valid) -/
def trimSpace (l : Bytes) : Bytes :=
  let a := trimLeftWith spaceSeqs l.length l
  (trimLeftWith (spaceSeqs.map List.reverse) a.length a.reverse).reverse

/-- `fmt.Sprint` of the elements of a `[]string`: joined by one space -/
def joinSp : List Bytes → Bytes
  | [] => []
  | [l] => l
  | l :: ls => l ++ [32] ++ joinSp ls

/-- `stackValue.LogValue()` — `strings.Split(v.err.StackTrace(true), "\n")`, every element `TrimSpace`d,
    `slog.AnyValue(stack)` — as tracelog's default case prints it (`Value.String()` of a `[]string`: `[l1 l2 …]`) -/
def logValueText (trace : Bytes) : Bytes := [91] ++ joinSp ((splitLF trace).map trimSpace) ++ [93]

/-! ### `createRecord`, `log` / `logAttrs` -/

/-- the `*Error` that `WrapTyped(err)` hands to `log`, as far as `createRecord` and `stackValue` read it -/
structure EErr where
  msg : Bytes      -- `err.Message()`
  trace : Bytes    -- `err.StackTrace(true)`

/-- `slog.Any(StackTraceKey, &stackValue{err: err})`: offers `StackError()` (tracelog takes the stack text from it when
    no group is in force) and is a `LogValuer` resolving to the trimmed lines (what every other position prints) -/
def stackAttr (e : EErr) : Attr := .stack stackKey e.trace (.leaf stackKey (logValueText e.trace))

/-- the same value under ANY key (`slog.Any(key, &stackValue{err: se})` for a `StackError` whose `StackTrace(true)` is
    `trace`): what the driver builds for the attribute word `s <key> <trace>` — the harness hands tracelog a real
    `*stackValue` over a scripted stack text, so `stackValue.LogValue` is compared with `logValueText` byte for byte -/
def stackAttrAt (key trace : Bytes) : Attr := .stack key trace (.leaf key (logValueText trace))

theorem stackAttr_eq_at (e : EErr) : stackAttr e = stackAttrAt stackKey e.trace := rfl

/-- `createRecord(level, err)` followed by `r.Add(args...)` / `r.AddAttrs(attrs...)`: for a nil error an empty message
    and no stack attribute; otherwise the error's message and the stack attribute FIRST, then the caller's attributes -/
def createRecord (level : Int) (now : Bytes) (err : Option EErr) (attrs : List Attr) : Record :=
  match err with
  | none => { level := level, ts := now, msg := [], attrs := attrs }
  | some e => { level := level, ts := now, msg := e.msg, attrs := stackAttr e :: attrs }

/-- `log` / `logAttrs` up to the call of `Handle`: nothing when the logger is not enabled for the level -/
def logRecord (isEnabled : Bool) (level : Int) (now : Bytes) (err : Option EErr) (attrs : List Attr) : Option Record :=
  if isEnabled then some (createRecord level now err attrs) else none

/-- `errs.LogTo(slog.New(h), err, attrs...)` (and the nine other entry points) over a tracelog handler: the new state
    of the sink, the `Write` calls, and the sink whose panic reaches the caller (`_ = Handle(...)`: an error is dropped,
    a panic is not stopped) -/
def logToTL (σ : Store) (h : TL.Handler) (sk : SinkSt) (level : Int) (now : Bytes) (err : Option EErr)
    (attrs : List Attr) : SinkSt × List Bytes × Option Nat :=
  match logRecord (TL.enabled h level) level now err attrs with
  | none => (sk, [], none)
  | some r =>
    let d := TL.deliver sk h.sink (TL.render σ h r)
    (d.1, d.2.1, match d.2.2 with | .panic k => some k | _ => none)

end ELog

namespace Rec

/-- the value a panic carries, as far as `Recovery` distinguishes it -/
inductive PVal where
  /-- a value implementing `error` (a plain error, a `runtime.Error`, an `*errs.Error`, a typed nil …): it becomes the
      cause as it is -/
  | err (v : Errs.Val)
  /-- anything else: the cause is `Newf("%+v", recovered)`; `text` is that rendering (a token) -/
  | other (text : String)
deriving DecidableEq

/-- the handler passed to `Recovery` -/
inductive HKind where
  | nil                   -- no handler: the panic is swallowed
  | returns               -- the handler returns
  | panics (q : PVal)     -- a bad handler: it panics itself
deriving DecidableEq

/-- what an observer of `defer Recovery(handler)` can see -/
structure Out where
  escaped : Option PVal := none    -- the panic that leaves the protected function, if any
  calls : List Errs.Val := []      -- the arguments the handler was called with, in order
deriving DecidableEq

/-- `Recovery(nil)` as a deferred call: `recover()` is evaluated first whatever the handler is, so the panic in flight
    stops; with a nil handler nothing else happens -/
def recoveryNil (_ : Option PVal) : Option PVal := none

/-- `Recovery(handler)` as the deferred call of a function that unwinds with `p?` (`none`: it returns normally, then
    `recover()` is nil).  `guarded = true` is the code: `defer Recovery(nil)` before the handler is called, so that a
    panicking handler is contained too; `guarded = false` is the CONTRAST variant without that line. -/
def recovery (guarded : Bool) (eh : Errs.Heap) (h : HKind) (p? : Option PVal) : Errs.Heap × Out :=
  match p?, h with
  | none, _ => (eh, {})
  | some _, .nil => (eh, {})
  | some p, hk =>
    -- `err, ok := recovered.(error); if !ok { err = Newf("%+v", recovered) }`
    let c : Errs.Heap × Errs.Val := match p with
      | .err v => (eh, v)
      | .other t => Errs.new eh t
    let a := Errs.newWithCause c.1 "recovered from panic" c.2
    match hk with
    | .panics q => (a.1, { escaped := if guarded then recoveryNil (some q) else some q, calls := [a.2] })
    | _ => (a.1, { calls := [a.2] })

/-- how a child's `Handle` ends -/
inductive Flow where
  | ret (v : Errs.Val)
  | panic (p : PVal)
deriving DecidableEq

/-- `multilog.runHandler`: `defer errs.Recovery(func(rerr error) { err = rerr })`, `err = h.Handle(ctx, r.Clone())`,
    `return err` — the named result is what `Handle` returned, or what the recovery handler stored in it -/
def runHandler (eh : Errs.Heap) (child : Flow) : Errs.Heap × Errs.Val :=
  match child with
  | .ret v => (eh, v)
  | .panic p =>
    let o := recovery true eh .returns (some p)
    (o.1, o.2.calls.head?.getD .nilIface)

/-- the loop of `multilog.Handle` over the enabled children: every `runHandler` in turn (the heap is threaded), the
    values they came back with -/
def runAll (eh : Errs.Heap) : List Flow → Errs.Heap × List Errs.Val
  | [] => (eh, [])
  | f :: fs =>
    let a := runHandler eh f
    let b := runAll a.1 fs
    (b.1, a.2 :: b.2)

end Rec
