import Model.LogHandlers
/-! C13: `multilog.Handle` over tracelog children, down to the `Write` calls the sinks receive (core only).

`ML.handle` (Model/LogHandlers.lean) is the loop over abstract children (level threshold + outcome).  Here the children are
the tracelog handlers themselves: every enabled child formats ITS rendering of the record (its own groups and attributes)
and delivers it to ITS sink (`TL.render`, `TL.deliver`), in order; the states of the sinks are threaded through, because two
children may share a sink (handlers derived from one root). -/
namespace ML

/-- the state of every sink (lock, delivery channel, behaviour of `Write`) by sink id -/
abbrev Sinks := List (Nat × TL.SinkSt)

def getSink (ss : Sinks) (i : Nat) : TL.SinkSt := (ss.lookup i).getD {}

def setSink (ss : Sinks) (i : Nat) (k : TL.SinkSt) : Sinks := (i, k) :: ss.filter (·.1 != i)

/-- what one pass of the loop has produced so far -/
structure Fan where
  sinks : Sinks
  writes : List (Nat × TL.Bytes) := []      -- (sink, bytes of one `Write`), in the order they happened
  rets : List (Nat × TL.Ret) := []          -- per delivery: the child's sink and how its `Handle` ended

/-- one iteration of `for _, one := range h.handlers { if one.Enabled(ctx, r.Level) { … runHandler(ctx, &r, one) } }` -/
def stepTL (σ : TL.Store) (r : TL.Record) (acc : Fan) (c : TL.Handler) : Fan :=
  if TL.enabled c r.level then
    let d := TL.deliver (getSink acc.sinks c.sink) c.sink (TL.render σ c r)
    { sinks := setSink acc.sinks c.sink d.1,
      writes := acc.writes ++ d.2.1.map (fun w => (c.sink, w)),
      rets := acc.rets ++ [(c.sink, d.2.2)] }
  else acc

/-- `Handle` of a fan-out handler whose children are tracelog handlers -/
def handleTL (σ : TL.Store) (ss : Sinks) (m : Handler) (r : TL.Record) : Fan :=
  m.children.foldl (stepTL σ r) { sinks := ss }

end ML
