import Model.NatSort
/-! C20: index-level transcription of `txt.NaturalCmp` (txt/natural_sort.go:38-127), statement for statement: the two scan
indices `i1`, `i2`, the three zero-skipping loops (the one for `s1` occurs twice in the source, and twice here), the two
digit-eating loops, the indices `nz1`, `nz2` after the zeros, the comparison of `len1`/`len2`, of the substrings
`s1[nz1:i1]`/`s2[nz2:i2]` and of the INDICES `nz1`/`nz2` (the source compares the positions, not the zero counts), the
tail `switch` with the recursive case-sensitive call.  A string is given by its length `n` and its byte accessor
`g : Nat → Nat` (only `g i` for `i < n` is ever read), so the same definition runs on arrays in the driver and is reasoned
about on lists (`Lemmas/NatSortGo.lean` proves it equal to the chunk-level model `NatSort.naturalCmp` the order theorems
are about).  Core-only. -/
namespace NatSortGo
open NatSort

/-- `for i < len(s) && s[i] == '0' { i++ }` (lines 72-80) -/
def skipZeros (n : Nat) (g : Nat → Nat) (i : Nat) : Nat :=
  if h : i < n ∧ g i = 48 then skipZeros n g (i + 1) else i
termination_by n - i
decreasing_by omega

/-- `for i < len(s) && s[i] >= '0' && s[i] <= '9' { i++ }` (lines 83-88) -/
def skipDigits (n : Nat) (g : Nat → Nat) (i : Nat) : Nat :=
  if h : i < n ∧ 48 ≤ g i ∧ g i ≤ 57 then skipDigits n g (i + 1) else i
termination_by n - i
decreasing_by omega

/-- the substring `s[lo:hi]` as a byte list -/
def slice (g : Nat → Nat) (lo hi : Nat) : List Nat := (List.range (hi - lo)).map (fun k => g (lo + k))

theorem skipZeros_ge (n : Nat) (g : Nat → Nat) (i : Nat) : i ≤ skipZeros n g i := by
  fun_induction skipZeros n g i with
  | case1 i h ih => omega
  | case2 i h => omega

theorem skipZeros_le (n : Nat) (g : Nat → Nat) (i : Nat) (hi : i ≤ n) : skipZeros n g i ≤ n := by
  fun_induction skipZeros n g i with
  | case1 i h ih => exact ih (by omega)
  | case2 i h => exact hi

theorem skipDigits_ge (n : Nat) (g : Nat → Nat) (i : Nat) : i ≤ skipDigits n g i := by
  fun_induction skipDigits n g i with
  | case1 i h ih => omega
  | case2 i h => omega

theorem skipDigits_le (n : Nat) (g : Nat → Nat) (i : Nat) (hi : i ≤ n) : skipDigits n g i ≤ n := by
  fun_induction skipDigits n g i with
  | case1 i h ih => exact ih (by omega)
  | case2 i h => exact hi

/-- the digit branch consumes at least one byte of `s1` -/
theorem digit_progress (n : Nat) (g : Nat → Nat) (i : Nat) (hi : i < n) (hd : isDigit (g i) = true) :
    i < skipDigits n g (skipZeros n g (skipZeros n g i)) := by
  by_cases hz : g i = 48
  · have h1 : skipZeros n g i = skipZeros n g (i + 1) := by
      rw [skipZeros]; simp [hi, hz]
    have h2 := skipZeros_ge n g (i + 1)
    have h3 := skipZeros_ge n g (skipZeros n g i)
    have h4 := skipDigits_ge n g (skipZeros n g (skipZeros n g i))
    omega
  · have h1 : skipZeros n g i = i := by
      rw [skipZeros]; simp [hz]
    rw [h1, h1]
    have hd' : 48 ≤ g i ∧ g i ≤ 57 := by simpa [isDigit] using hd
    have h2 : skipDigits n g i = skipDigits n g (i + 1) := by
      rw [skipDigits]; simp [hi, hd']
    have h3 := skipDigits_ge n g (i + 1)
    omega

/-- the loop of `NaturalCmp` (lines 41-113); `some r` = `return r` inside the loop, `none` = the loop condition failed -/
def goLoop (ci : Bool) (n1 n2 : Nat) (g1 g2 : Nat → Nat) (i1 i2 : Nat) : Option Int :=
  if h : i1 < n1 ∧ i2 < n2 then
    let c1 := g1 i1
    let c2 := g2 i2
    let d1 := isDigit c1
    let d2 := isDigit c2
    if d1 != d2 then                                   -- case d1 != d2
      some (if d1 then -1 else 1)
    else if hd : d1 = false then                       -- case !d1
      let f1 := if ci then (if 97 ≤ c1 ∧ c1 ≤ 122 then c1 - 32 else c1) else c1
      let f2 := if ci then (if 97 ≤ c2 ∧ c2 ≤ 122 then c2 - 32 else c2) else c2
      if f1 != f2 then some (if f1 < f2 then -1 else 1)
      else goLoop ci n1 n2 g1 g2 (i1 + 1) (i2 + 1)
    else                                               -- default: digits
      let nz1 := skipZeros n1 g1 (skipZeros n1 g1 i1)  -- the loop for s1 is written twice in the source
      let nz2 := skipZeros n2 g2 i2
      let e1 := skipDigits n1 g1 nz1
      let e2 := skipDigits n2 g2 nz2
      if e1 - nz1 != e2 - nz2 then some (if e1 - nz1 < e2 - nz2 then -1 else 1)
      else if slice g1 nz1 e1 != slice g2 nz2 e2 then some (if slice g1 nz1 e1 < slice g2 nz2 e2 then -1 else 1)
      else if nz1 != nz2 then some (if nz1 < nz2 then -1 else 1)
      else goLoop ci n1 n2 g1 g2 e1 e2
  else none
termination_by (n1 - i1) + (n2 - i2)
decreasing_by
  · omega
  · have hd1 : isDigit (g1 i1) = true := by simpa using hd
    have p := digit_progress n1 g1 i1 h.1 hd1
    have a1 := skipZeros_le n1 g1 i1 (by omega)
    have a2 := skipZeros_le n1 g1 _ a1
    have a3 := skipDigits_le n1 g1 _ a2
    have b1 := skipZeros_ge n2 g2 i2
    have b2 := skipZeros_le n2 g2 i2 (by omega)
    have b3 := skipDigits_ge n2 g2 (skipZeros n2 g2 i2)
    have b4 := skipDigits_le n2 g2 _ b2
    omega

/-- `NaturalCmp(s1, s2, caseInsensitive)`: the loop, then the tail `switch` (lines 116-126); the recursive call
    `NaturalCmp(s1, s2, false)` ends in the `return 0` arm of its own tail when its loop runs out -/
def goCmp (ci : Bool) (n1 n2 : Nat) (g1 g2 : Nat → Nat) : Int :=
  match goLoop ci n1 n2 g1 g2 0 0 with
  | some r => r
  | none =>
    if n1 = n2 then
      if ci then
        match goLoop false n1 n2 g1 g2 0 0 with
        | some r => r
        | none => 0
      else 0
    else if n1 < n2 then -1
    else 1

/-- the entry points as the driver runs them (byte arrays, O(1) indexing) -/
def naturalCmpA (a b : Array Nat) (ci : Bool) : Int := goCmp ci a.size b.size (fun i => a.getD i 0) (fun i => b.getD i 0)
def naturalLessA (a b : Array Nat) (ci : Bool) : Bool := naturalCmpA a b ci < 0


/-- CONTRAST, not the code: the folded scan alone, WITHOUT the case-sensitive second pass of the tail (what the sort
    helpers would compare with if they called the scan directly).  `C20.scan_only_not_deterministic` shows that the
    clauses "0 only for identical strings" and "sorting is deterministic" need the second pass. -/
def scanOnlyCmp (a b : List Nat) : Int :=
  ordInt (match ncmpLoop true a b with | some r => r | none => cmpNat a.length b.length)

/-- CONTRAST, not the code: digit strings compared through a 64-bit accumulator (value modulo 2^64) -/
def wordVal (l : List Nat) : Nat := l.foldl (fun v c => (v * 10 + (c - 48)) % 18446744073709551616) 0

end NatSortGo
