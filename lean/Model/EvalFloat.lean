import Model.Eval
import Model.EvalSoftFloat
/-! C09, values of the FLOATING-POINT evaluators (`NewFloatEvaluator[float64]`, `NewFloatEvaluator[float32]`):
    `eval/float_operators.go` and `eval/float_function.go`, transcribed branch for branch on top of the parser model
    `Model/Eval.lean`, with the IEEE-754 arithmetic of `Model/EvalSoftFloat.lean` (bit patterns; `+ - * /` the
    correctly rounded images of the exact results, `math.Mod/Ceil/Floor/Round/Abs`, the built-in `max`/`min` and the
    comparisons exact, `strconv.ParseFloat` on decimal literals).  Core-only.

    Dynamic values (`any`) are `Val`: a number (its bit pattern in the evaluator's format), a Go bool, or a string.
    OUTSIDE the model (`VR.outside`, the check takes those values from the implementation): the operator `^`
    (`math.Pow`), the functions sqrt cbrt exp exp2 log log10 log1p, hexadecimal / `_`-separated literals.  The `%v`
    text of a NUMBER (needed when a number meets a non-number in `== != < <= > >= +`) is `SoftFloat.fmtG`. -/
namespace EvalFloat
open Eval SoftFloat

/-- a value of type `any` as the float evaluator produces it -/
inductive Val where
  | num (bits : Nat)         -- T (float64 / float32), as its bit pattern
  | bool (b : Bool)
  | str (s : Eval.Bytes)
deriving DecidableEq, Repr

/-- value, error, Go panic (from the parser model), or a value outside the model -/
inductive VR (α : Type) where
  | ok (a : α)
  | err
  | panic
  | outside
deriving DecidableEq, Repr

/-- the type parameter `T` (its format) and the `divideByZeroReturnsZero` argument of `NewFloatEvaluator` -/
structure Cfg where
  fmt : Fmt
  zero : Bool
deriving DecidableEq, Repr

def TRUE : Eval.Bytes := [116, 114, 117, 101]
def FALSE : Eval.Bytes := [102, 97, 108, 115, 101]

/-- `fmt.Sprintf("%v", v)`: a string as it is, a bool as true/false, a number as its shortest `%g` text
    (`SoftFloat.fmtG`; `none` = outside the model: an exact tie between two shortest candidates) -/
def fmtV (c : Cfg) : Val → Option Eval.Bytes
  | .str s => some s
  | .bool b => some (if b then TRUE else FALSE)
  | .num x => fmtG c.fmt x

/-- Go's `<` on strings: byte-wise lexicographic -/
def strLt : Eval.Bytes → Eval.Bytes → Bool
  | [], [] => false
  | [], _ :: _ => true
  | _ :: _, [] => false
  | a :: s, b :: t => if a < b then true else if b < a then false else strLt s t

/-- `floatFrom[T](arg)`: 1 / 0 for a bool, the value itself, `strconv.ParseFloat(a, bits)` for a string -/
def floatFrom (c : Cfg) : Val → VR Nat
  | .bool b => .ok (if b then c.fmt.oneBits else 0)
  | .num x => .ok x
  | .str s =>
    match parse c.fmt s with
    | .ok x => .ok x
    | .err => .err
    | .outside => .outside

/-- `v != 0` on floats (true for NaN) -/
def nonZero (c : Cfg) (x : Nat) : Bool := !isZero c.fmt x

/-! ### operators (`float_operators.go`) -/

/-- `floatNot` -/
def opNot (c : Cfg) : Val → VR Val
  | .bool b => .ok (.bool (!b))
  | v =>
    match floatFrom c v with
    | .ok x => .ok (.bool (isZero c.fmt x))
    | .err => .err
    | .panic => .panic
    | .outside => .outside

/-- `floatLogicalOr` -/
def opOr (c : Cfg) (l r : Val) : VR Val :=
  match floatFrom c l with
  | .err => .err
  | .panic => .panic
  | .outside => .outside
  | .ok x =>
    if nonZero c x then .ok (.bool true)
    else
      match floatFrom c r with
      | .err => .err
      | .panic => .panic
      | .outside => .outside
      | .ok y => .ok (.bool (nonZero c y))

/-- `floatLogicalAnd` -/
def opAnd (c : Cfg) (l r : Val) : VR Val :=
  match floatFrom c l with
  | .err => .err
  | .panic => .panic
  | .outside => .outside
  | .ok x =>
    if isZero c.fmt x then .ok (.bool false)
    else
      match floatFrom c r with
      | .err => .err
      | .panic => .panic
      | .outside => .outside
      | .ok y => .ok (.bool (nonZero c y))

/-- the comparison / concatenation of the `%v` texts of both operands -/
def onTexts (c : Cfg) (txt : Eval.Bytes → Eval.Bytes → Val) (l r : Val) : VR Val :=
  match fmtV c l, fmtV c r with
  | some a, some b => .ok (txt a b)
  | _, _ => .outside

/-- the shape shared by `== != > >= < <= +`: `l, err := From(left); if err == nil { r, err = From(right) }; if err !=
    nil { return <on the %v texts> }; return <on the numbers>` -/
def withFallback (c : Cfg) (num : Nat → Nat → Val) (txt : Eval.Bytes → Eval.Bytes → Val) (l r : Val) : VR Val :=
  match floatFrom c l with
  | .panic => .panic
  | .outside => .outside
  | .err => onTexts c txt l r
  | .ok x =>
    match floatFrom c r with
    | .panic => .panic
    | .outside => .outside
    | .err => onTexts c txt l r
    | .ok y => .ok (num x y)

def opEq (c : Cfg) := withFallback c (fun x y => .bool (eq c.fmt x y)) (fun a b => .bool (a == b))
def opNe (c : Cfg) := withFallback c (fun x y => .bool (!eq c.fmt x y)) (fun a b => .bool (a != b))
def opGt (c : Cfg) := withFallback c (fun x y => .bool (lt c.fmt y x)) (fun a b => .bool (strLt b a))
def opGe (c : Cfg) := withFallback c (fun x y => .bool (le c.fmt y x)) (fun a b => .bool (!strLt a b))
def opLt (c : Cfg) := withFallback c (fun x y => .bool (lt c.fmt x y)) (fun a b => .bool (strLt a b))
def opLe (c : Cfg) := withFallback c (fun x y => .bool (le c.fmt x y)) (fun a b => .bool (!strLt b a))
/-- `floatAdd`: `l + r`, or the two texts concatenated -/
def opAdd (c : Cfg) := withFallback c (fun x y => .num (add c.fmt x y)) (fun a b => .str (a ++ b))

/-- the shape of `- * / % ^`: both operands must be numbers -/
def bothNum (c : Cfg) (f : Nat → Nat → VR Val) (l r : Val) : VR Val :=
  match floatFrom c l with
  | .err => .err
  | .panic => .panic
  | .outside => .outside
  | .ok x =>
    match floatFrom c r with
    | .err => .err
    | .panic => .panic
    | .outside => .outside
    | .ok y => f x y

def opSub (c : Cfg) := bothNum c (fun x y => .ok (.num (sub c.fmt x y)))
def opMul (c : Cfg) := bothNum c (fun x y => .ok (.num (mul c.fmt x y)))

/-- `floatDivide` / `floatDivideAllowDivideByZero`: `if r == 0 { return r, nil }` resp. "divide by zero" -/
def opDiv (c : Cfg) := bothNum c (fun x y =>
  if isZero c.fmt y then (if c.zero then .ok (.num y) else .err) else .ok (.num (div c.fmt x y)))

/-- `floatModulo` / `floatModuloAllowDivideByZero`: `xmath.Mod(l, r)` = `T(math.Mod(float64(l), float64(r)))` -/
def opMod (c : Cfg) := bothNum c (fun x y =>
  if isZero c.fmt y then (if c.zero then .ok (.num y) else .err) else .ok (.num (fmod c.fmt x y)))

/-- `floatPower`: `xmath.Pow` — outside the model once both operands are numbers -/
def opPow (c : Cfg) := bothNum c (fun _ _ => .outside)

/-- `floatAddUnary` -/
def opPlus (c : Cfg) (v : Val) : VR Val :=
  match floatFrom c v with
  | .ok x => .ok (.num x)
  | .err => .err
  | .panic => .panic
  | .outside => .outside

/-- `floatSubtractUnary`: `-v` -/
def opNeg (c : Cfg) (v : Val) : VR Val :=
  match floatFrom c v with
  | .ok x => .ok (.num (neg c.fmt x))
  | .err => .err
  | .panic => .panic
  | .outside => .outside

/-- `op.Evaluate(left, right)` of the table entry with this symbol (the order of `FloatOperators`) -/
def binary (c : Cfg) (sym : Eval.Bytes) (l r : Val) : VR Val :=
  if sym = symBytes "||" then opOr c l r
  else if sym = symBytes "&&" then opAnd c l r
  else if sym = symBytes "!=" then opNe c l r
  else if sym = symBytes "==" then opEq c l r
  else if sym = symBytes ">=" then opGe c l r
  else if sym = symBytes ">" then opGt c l r
  else if sym = symBytes "<=" then opLe c l r
  else if sym = symBytes "<" then opLt c l r
  else if sym = symBytes "+" then opAdd c l r
  else if sym = symBytes "-" then opSub c l r
  else if sym = symBytes "*" then opMul c l r
  else if sym = symBytes "/" then opDiv c l r
  else if sym = symBytes "%" then opMod c l r
  else if sym = symBytes "^" then opPow c l r
  else .outside                               -- an operator this model does not know

/-- `op.EvaluateUnary(v)` -/
def unary (c : Cfg) (sym : Eval.Bytes) (v : Val) : VR Val :=
  if sym = symBytes "!" then opNot c v
  else if sym = symBytes "+" then opPlus c v
  else if sym = symBytes "-" then opNeg c v
  else .outside

/-- `if op.unaryOp != nil && op.unaryOp.EvaluateUnary != nil { return EvaluateUnary(v) }; return v` -/
def applyUn (c : Cfg) : Option Op → Val → VR Val
  | some u, v => if u.un then unary c u.sym v else .ok v
  | none, v => .ok v

/-! ### functions (`float_function.go`) -/

/-- `strings.EqualFold(s, "false")`: ASCII case, and U+017F (long s, bytes C5 BF) folds to `s` -/
def equalFoldFalse : Eval.Bytes → Bool
  | [f, a, l, s, e] => (f == 102 || f == 70) && (a == 97 || a == 65) && (l == 108 || l == 76) && (s == 115 || s == 83) &&
      (e == 101 || e == 69)
  | [f, a, l, s1, s2, e] => (f == 102 || f == 70) && (a == 97 || a == 65) && (l == 108 || l == 76) && s1 == 0xC5 &&
      s2 == 0xBF && (e == 101 || e == 69)
  | _ => false

/-- `evalToFloat`: `EvaluateNew(arg)` then `floatFrom` -/
def evalToFloat (c : Cfg) (ev : Eval.Bytes → VR Val) (arg : Eval.Bytes) : VR Nat :=
  match ev arg with
  | .ok v => floatFrom c v
  | .err => .err
  | .panic => .panic
  | .outside => .outside

/-- `floatSingleNumberFunc`: `evalToFloat(e, arguments)` (the WHOLE argument text), then the function -/
def fn1 (c : Cfg) (ev : Eval.Bytes → VR Val) (f : Nat → VR Val) (args : Eval.Bytes) : VR Val :=
  match evalToFloat c ev args with
  | .ok x => f x
  | .err => .err
  | .panic => .panic
  | .outside => .outside

/-- `floatMaximum` / `floatMinimum`: `for arguments != "" { arg, arguments = NextArg(arguments); … }`; the step is
    `max(value, maxValue)` resp. `min(value, minValue)` -/
def foldArgs (c : Cfg) (ev : Eval.Bytes → VR Val) (step : Nat → Nat → Nat) : Nat → Nat → Eval.Bytes → VR Val
  | 0, _, _ => .panic
  | fuel + 1, acc, args =>
    if args = [] then .ok (.num acc)
    else
      match evalToFloat c ev (nextArg args).1 with
      | .err => .err
      | .panic => .panic
      | .outside => .outside
      | .ok x => foldArgs c ev step fuel (step acc x) (nextArg args).2

/-- `floatIf` -/
def fnIf (c : Cfg) (ev : Eval.Bytes → VR Val) (args : Eval.Bytes) : VR Val :=
  match ev (nextArg args).1 with
  | .err => .err
  | .panic => .panic
  | .outside => .outside
  | .ok evaluated =>
    let rest := (nextArg args).2
    let pick (value : Nat) : VR Val :=
      let rest := if isZero c.fmt value then (nextArg rest).2 else rest
      ev (nextArg rest).1
    match floatFrom c evaluated with
    | .ok value => pick value
    | .panic => .panic
    | .outside => .outside
    | .err =>
      match evaluated with
      | .str s => pick (if s ≠ [] ∧ equalFoldFalse s = false then c.fmt.oneBits else 0)
      | _ => .err

/-- a function of the table applied to its (variable-substituted) argument text -/
def call (c : Cfg) (ev : Eval.Bytes → VR Val) (name args : Eval.Bytes) : VR Val :=
  if name = symBytes "abs" then fn1 c ev (fun x => .ok (.num (abs c.fmt x))) args
  else if name = symBytes "ceil" then fn1 c ev (fun x => .ok (.num (ceil c.fmt x))) args
  else if name = symBytes "floor" then fn1 c ev (fun x => .ok (.num (floor c.fmt x))) args
  else if name = symBytes "round" then fn1 c ev (fun x => .ok (.num (round c.fmt x))) args
  else if name = symBytes "max" then
    foldArgs c ev (fun acc x => fmax c.fmt x acc) (args.length + 1) (withSign c.fmt true c.fmt.maxBits) args
  else if name = symBytes "min" then
    foldArgs c ev (fun acc x => fmin c.fmt x acc) (args.length + 1) c.fmt.maxBits args
  else if name = symBytes "if" then fnIf c ev args
  else if name = symBytes "sqrt" ∨ name = symBytes "cbrt" ∨ name = symBytes "exp" ∨ name = symBytes "exp2" ∨
          name = symBytes "log" ∨ name = symBytes "log10" ∨ name = symBytes "log1p" then
    fn1 c ev (fun _ => .outside) args           -- transcendental / root functions: outside the model
  else .outside

/-! ### evaluateOperand / Evaluate with these values -/

/-- `evaluateOperand`; `none` = Go's `nil, nil` -/
def evalNode (c : Cfg) (ev : Eval.Bytes → VR Val) (rv : Eval.Bytes → R Eval.Bytes) : Node → VR (Option Val)
  | .nil => .ok none
  | .operand un v =>
    match rv v with
    | .err => .err
    | .panic => .panic
    | .ok x =>
      match applyUn c un (.str x) with
      | .ok r => .ok (some r)
      | .err => .err
      | .panic => .panic
      | .outside => .outside
  | .func un name args =>
    match rv args with
    | .err => .err
    | .panic => .panic
    | .ok s =>
      match call c ev name s with
      | .err => .err
      | .panic => .panic
      | .outside => .outside
      | .ok v =>
        match applyUn c un v with
        | .ok r => .ok (some r)
        | .err => .err
        | .panic => .panic
        | .outside => .outside
  | .tree l r op un =>
    match evalNode c ev rv l with
    | .err => .err
    | .panic => .panic
    | .outside => .outside
    | .ok lv =>
      match evalNode c ev rv r with
      | .err => .err
      | .panic => .panic
      | .outside => .outside
      | .ok rv' =>
        if !l.isNil && !r.isNil then
          match op with
          | none => .panic
          | some o =>
            if !o.bin then .err
            else
              match lv, rv' with
              | some a, some b =>
                match binary c o.sym a b with
                | .err => .err
                | .panic => .panic
                | .outside => .outside
                | .ok v =>
                  match applyUn c un v with
                  | .ok r => .ok (some r)
                  | .err => .err
                  | .panic => .panic
                  | .outside => .outside
              | _, _ => .err
        else
          match (if r.isNil then lv else rv') with
          | none => .err
          | some x =>
            match un.filter (·.un) with
            | some u =>
              (match unary c u.sym x with
               | .ok r => .ok (some r) | .err => .err | .panic => .panic | .outside => .outside)
            | none =>
              match op.filter (·.un) with
              | some o =>
                (match unary c o.sym x with
                 | .ok r => .ok (some r) | .err => .err | .panic => .panic | .outside => .outside)
              | none => .ok (some x)

/-- `Evaluate` of a float evaluator; `depth` bounds the nesting of `EvaluateNew` through function arguments -/
def evaluate (c : Cfg) (ops : List Op) (fns : List Eval.Bytes) (resolve : Option (Eval.Bytes → Eval.Bytes)) :
    Nat → Eval.Bytes → VR Val
  | 0, _ => .panic
  | depth + 1, s =>
    match parseTop ops fns s with
    | .err => .err
    | .panic => .panic
    | .ok none => .ok (.str [])
    | .ok (some top) =>
      match evalNode c (evaluate c ops fns resolve depth) (replaceVariables resolve) top with
      | .err => .err
      | .panic => .panic
      | .outside => .outside
      | .ok none => .err
      | .ok (some v) => .ok v

end EvalFloat
