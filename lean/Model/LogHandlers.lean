import Model.Errs
/-! C13: executable models of `log/tracelog` (namespace `TL`) and `log/multilog` (namespace `ML`). Core-only.

Byte strings are `List Nat`.  Leaf rendering (`%q`, RFC3339, `Value.String`, `LogValuer` resolution) and the timestamp
arrive as already rendered tokens; the model assembles them exactly as `tracelog.go` does, with the same three pieces of
walk state (`group`, `needBar`, `stackErr`). -/

namespace TL

abbrev Bytes := List Nat

/-- an attribute as `state.appendAttr` sees it after `attr.Value.Resolve()` -/
inductive Attr where
  /-- any non-group kind: key and the rendered value token -/
  | leaf (key tok : Bytes)
  /-- `slog.KindGroup` -/
  | group (key : Bytes) (kids : List Attr)
  /-- `slog.Attr{}` (empty key, nil `any`): skipped -/
  | empty
  /-- a value implementing `StackError()`: `trace` is `StackTrace(true)`; `fallback` is the attribute it resolves to
      when it is not picked up as the record's stack (a group is in force or the key is not `stack_trace`) -/
  | stack (key trace : Bytes) (fallback : Attr)

/-- `type entry struct { group string; attrs []slog.Attr }` -/
inductive Entry where
  | grp (name : Bytes)
  | attrs (as : List Attr)

/-- `errs.StackTraceKey` = "stack_trace" -/
def stackKey : Bytes := [115, 116, 97, 99, 107, 95, 116, 114, 97, 99, 101]

/-- `type state struct` of tracelog.go (the buffer is the accumulated output) -/
structure FSt where
  buf : Bytes
  group : Bytes := []
  needBar : Bool := true
  stackErr : Option Bytes := none

/-- `addBarIfNeeded` -/
def addBar (s : FSt) : FSt := if s.needBar then { s with buf := s.buf ++ [32, 124], needBar := false } else s

/-- `addGroup`: `group += "."`, appended to the prefix in force -/
def addGroup (s : FSt) (g : Bytes) : FSt := { s with group := s.group ++ (g ++ [46]) }

/-- `writeGroupAndKey` followed by the rendered value -/
def writeKV (s : FSt) (key tok : Bytes) : FSt := { s with buf := s.buf ++ ([32] ++ s.group ++ key ++ [61] ++ tok) }

mutual
/-- `state.appendAttr` -/
def appendAttr (s : FSt) : Attr → FSt
  | .stack key trace fb =>
    if s.group = [] ∧ key = stackKey then { s with stackErr := some trace } else appendAttr s fb
  | .empty => s
  | .leaf key tok => writeKV (addBar s) key tok
  | .group key kids =>
    if kids.isEmpty then s else
    let s1 := addBar s
    let s2 := appendAttrs (addGroup s1 key) kids
    { s2 with group := s1.group }
/-- the loops `for _, attr := range attrs { s.appendAttr(attr) }` -/
def appendAttrs (s : FSt) : List Attr → FSt
  | [] => s
  | a :: as => appendAttrs (appendAttr s a) as
end

/-- `state.append(ga entry)` -/
def appendEntry (s : FSt) : Entry → FSt
  | .grp name => if name ≠ [] then addGroup s name else s
  | .attrs as => appendAttrs s as

/-- a `slog.Record` as far as the handler reads it: level, the rendered time stamp token, message, attributes -/
structure Record where
  level : Int
  ts : Bytes
  msg : Bytes
  attrs : List Attr

def ascii (s : String) : Bytes := s.toList.map Char.toNat

/-- `fmt.Fprintf(&buffer, "%3d", level)` -/
def pad3 (i : Int) : Bytes :=
  let d := ascii (toString i)
  List.replicate (3 - d.length) 32 ++ d

/-- the level tag: the configured name if there is one, else DBG/INF/WRN/ERR, else the number -/
def levelTag (names : List (Int × Bytes)) (level : Int) : Bytes :=
  match names.lookup level with
  | some n => n
  | none =>
    if level = -4 then [68, 66, 71]
    else if level = 0 then [73, 78, 70]
    else if level = 4 then [87, 82, 78]
    else if level = 8 then [69, 82, 82]
    else pad3 level

def header (names : List (Int × Bytes)) (r : Record) : Bytes := levelTag names r.level ++ r.ts ++ r.msg

/-- the walk of `Handle`: header, handler entries, record attributes -/
def walk (names : List (Int × Bytes)) (entries : List Entry) (r : Record) : FSt :=
  appendAttrs (entries.foldl appendEntry { buf := header names r }) r.attrs

/-- the bytes `Handle` hands to the sink in ONE `Write`: the line, then the stack trace when one was picked up -/
def format (names : List (Int × Bytes)) (entries : List Entry) (r : Record) : Bytes :=
  let s := walk names entries r
  match s.stackErr with
  | some tr => s.buf ++ [10] ++ tr ++ [10]
  | none => s.buf ++ [10]

/-! ### handlers and derivation: `h.list` is a Go slice (backing array + length); arrays live in a store -/

structure Slice where
  arr : Nat
  len : Nat

structure Store where
  arrays : List (List Entry) := []

/-- what a handler sees through its slice header -/
def Store.view (σ : Store) (s : Slice) : List Entry := ((σ.arrays[s.arr]?).getD []).take s.len

/-- `make([]entry, len(h.list)+1); copy(other.list, h.list); other.list[len-1] = ga`: a fresh array -/
def Store.derive (σ : Store) (s : Slice) (e : Entry) : Store × Slice :=
  let a := σ.view s ++ [e]
  ({ arrays := σ.arrays ++ [a] }, { arr := σ.arrays.length, len := a.length })

/-- CONTRAST (not the code): the derivation written with Go's `append(h.list, ga)`.  When the backing array has a free
    slot behind the slice (`len < cap`) the new entry is written IN PLACE — into an array that the parent and every
    other handler derived from it can see; only when the array is full is a new one allocated (with Go's doubling, so
    that free slots exist from then on; `.attrs []` stands for an unused slot).  `tracelog.go` does not do this: it
    allocates `len+1` and copies (`Store.derive`).  The two differ exactly in the aliasing this variant creates. -/
def Store.deriveAppend (σ : Store) (s : Slice) (e : Entry) : Store × Slice :=
  let arr := (σ.arrays[s.arr]?).getD []
  if s.len < arr.length then
    ({ arrays := σ.arrays.set s.arr (arr.set s.len e) }, { arr := s.arr, len := s.len + 1 })
  else
    let a := σ.view s ++ [e] ++ List.replicate (s.len + 1) (.attrs [])
    ({ arrays := σ.arrays ++ [a] }, { arr := σ.arrays.length, len := s.len + 1 })

/-- `type Handler struct`: `sink` names the shared (lock, sink, delivery channel) of the root handler -/
structure Handler where
  level : Int
  names : List (Int × Bytes)
  sink : Nat
  list : Slice

/-- `Config.Normalize` as far as it is data: no (or a nil) `Leveler` means `slog.LevelInfo` = 0, a negative
    `BufferDepth` means 0 -/
def normalize (level : Option Int) (depth : Int) : Int × Nat := (level.getD 0, depth.toNat)

/-- `Enabled` -/
def enabled (h : Handler) (level : Int) : Bool := decide (level ≥ h.level)

/-- `WithGroup`; the flag tells whether the receiver itself was returned -/
def withGroup (σ : Store) (h : Handler) (name : Bytes) : Store × Handler × Bool :=
  if name = [] then (σ, h, true)
  else let (σ', sl) := σ.derive h.list (.grp name); (σ', { h with list := sl }, false)

/-- `WithAttrs` -/
def withAttrs (σ : Store) (h : Handler) (as : List Attr) : Store × Handler × Bool :=
  if as.isEmpty then (σ, h, true)
  else let (σ', sl) := σ.derive h.list (.attrs as); (σ', { h with list := sl }, false)

/-- the line a handler produces for a record -/
def render (σ : Store) (h : Handler) (r : Record) : Bytes := format h.names (σ.view h.list) r

/-! ### delivery -/

/-- what kind of error value a failing sink hands back (tracelog returns it unchanged) -/
inductive ErrKind where
  | plain      -- a fresh `errors.New(..)`
  | fresh      -- a fresh `*errs.Error`
  | sentinel   -- one long-lived `*errs.Error` per sink: the same pointer on every call
  | aggregate  -- one long-lived `*errs.Error` chain of two errors per sink
  | typedNil   -- a nil `*errs.Error` inside a non-nil `error` interface
  | foreignNil -- a nil pointer of a foreign error type inside a non-nil `error` interface
deriving DecidableEq

/-- behaviour of the sink's `Write` -/
inductive Mode where
  | ok
  | fail (k : ErrKind)
  | panic
deriving DecidableEq

/-- what `Handle` does from the caller's point of view -/
inductive Ret where
  | nil
  | err (sink : Nat) (k : ErrKind)
  | panic (sink : Nat)
deriving DecidableEq

/-- synchronous mode: exactly one `Write` of the whole record under the lock; the sink's error is returned -/
def handleSync (mode : Mode) (sink : Nat) (line : Bytes) : List Bytes × Ret :=
  ([line], match mode with | .ok => .nil | .fail k => .err sink k | .panic => .panic sink)

/-- buffered mode: `delivery chan []byte` of capacity `cap`, plus the item the delivery goroutine holds while it is
    inside `sink.Write` -/
structure Buf where
  cap : Nat
  inflight : Option Bytes := none
  queue : List Bytes := []

/-- `select { case h.delivery <- data: default: }`: never waits; the flag tells whether the record was accepted -/
def Buf.send (b : Buf) (x : Bytes) : Buf × Bool :=
  if b.queue.length < b.cap then ({ b with queue := b.queue ++ [x] }, true) else (b, false)

/-- the delivery goroutine receives the oldest item when it is idle -/
def Buf.take (b : Buf) : Buf :=
  match b.inflight, b.queue with
  | none, x :: q => { b with inflight := some x, queue := q }
  | _, _ => b

/-- `sink.Write(data)` returns: the item has been written -/
def Buf.finish (b : Buf) : Buf × List Bytes :=
  match b.inflight with
  | some x => ({ b with inflight := none }, [x])
  | none => (b, [])

/-- the sink is not stalled: the goroutine writes everything that is pending, oldest first -/
def Buf.drain (b : Buf) : Buf × List Bytes :=
  ({ b with inflight := none, queue := [] }, b.inflight.toList ++ b.queue)

/-- the resources shared by a root handler and everything derived from it -/
structure SinkSt where
  mode : Mode := .ok
  buf : Option Buf := none      -- `none`: BufferDepth 0
  held : Bool := false          -- the test sink's `Write` is stalled

/-- `Handle` after formatting: the new sink state, the `Write` calls that happen now, and the return value -/
def deliver (sk : SinkSt) (sink : Nat) (line : Bytes) : SinkSt × List Bytes × Ret :=
  match sk.buf with
  | none => let (ws, r) := handleSync sk.mode sink line; (sk, ws, r)
  | some b =>
    let b1 := (b.send line).1.take
    if sk.held then ({ sk with buf := some b1 }, [], .nil)
    else let (b2, ws) := b1.drain; ({ sk with buf := some b2 }, ws, .nil)

end TL

namespace ML

/-- how a child's `Handle` ends -/
inductive Outcome where
  | ok
  | err (msg : String)
  | panic (msg : String)

/-- a child handler as far as `multilog` interacts with it -/
structure Child where
  id : Nat
  minLevel : Int
  outcome : Outcome

def Child.enabled (c : Child) (level : Int) : Bool := decide (level ≥ c.minLevel)

/-- an element of the accumulated `*errs.Error` chain -/
inductive ErrItem where
  | plain (msg : String)        -- an error returned by a child (wrapped by `errs.Append`)
  | recovered (msg : String)    -- `errs.NewWithCause("recovered from panic", cause)`
deriving DecidableEq

structure Result where
  deliveries : List Nat := []        -- ids of the children whose `Handle` was called, in order
  errors : List ErrItem := []        -- `errs.Append` of the returned errors and the recovered panics

/-- `runHandler`: the child is called once; a panic is recovered and becomes an error -/
def runChild (c : Child) : Option ErrItem :=
  match c.outcome with
  | .ok => none
  | .err m => some (.plain m)
  | .panic m => some (.recovered m)

def addErr (errors : List ErrItem) : Option ErrItem → List ErrItem
  | some e => errors ++ [e]
  | none => errors

def stepR (level : Int) (r : Result) (c : Child) : Result :=
  if c.enabled level then { deliveries := r.deliveries ++ [c.id], errors := addErr r.errors (runChild c) } else r

/-- `Handle` -/
def handle (cs : List Child) (level : Int) : Result := cs.foldl (stepR level) {}

/-! ### the same loop with the control flow of a panic made explicit

A child's `Handle` either returns (a value) or panics; a panic unwinds the stack until a frame with a deferred
`recover` catches it.  `multilog.go` puts that frame around EACH child call (`runHandler` with
`defer errs.Recovery(...)`): the panic ends that call only, becomes an error, and the loop goes on.  The contrast
variant has one frame around the whole loop (`perChild = false`): the first panic ends the loop — the children after
it never see the record. -/

/-- the loop state: the result so far, and whether a panic has unwound the loop -/
structure LoopSt where
  res : Result := {}
  unwound : Bool := false

def stepExc (perChild : Bool) (level : Int) (st : LoopSt) (c : Child) : LoopSt :=
  if st.unwound then st                       -- the loop is gone: nothing more is delivered
  else if c.enabled level then
    match c.outcome with
    | .panic m =>
      if perChild then                        -- caught by the frame of `runHandler`: an error like any other
        { st with res := { deliveries := st.res.deliveries ++ [c.id], errors := st.res.errors ++ [.recovered m] } }
      else                                    -- caught only outside the loop
        { res := { deliveries := st.res.deliveries ++ [c.id], errors := st.res.errors ++ [.recovered m] },
          unwound := true }
    | _ => { st with res := { deliveries := st.res.deliveries ++ [c.id], errors := addErr st.res.errors (runChild c) } }
  else st

/-- `Handle` with explicit unwinding; `perChild = true` is the code -/
def handleExc (perChild : Bool) (cs : List Child) (level : Int) : Result := (cs.foldl (stepExc perChild level) {}).res

/-- `result.ErrorOrNil()`: nil exactly when nothing was accumulated -/
def Result.isNil (r : Result) : Bool := r.errors.isEmpty

/-- `Enabled`: some child is enabled -/
def enabled (cs : List Child) (level : Int) : Bool := cs.any (·.enabled level)

/-! ### the same accumulation on the heap of `*errs.Error` cells (`Model/Errs.lean`, the model of C11), where sharing
    and in-place modification of a child's error value are expressible -/

/-- the loop of `Handle` as far as errors go: `var result *errs.Error`, then `result = errs.Append(result, err)` with
    the value each delivery returned (`nilIface` for a success), in order -/
def accumulate (h : Errs.Heap) (rets : List Errs.Val) : Errs.Heap × Errs.Val :=
  rets.foldl (fun acc v => ((Errs.append acc.1 acc.2 [v]).1, Errs.ptrVal (Errs.append acc.1 acc.2 [v]).2.1))
    (h, .typedNil)

/-- `return result.ErrorOrNil()` -/
def returned (h : Errs.Heap) (rets : List Errs.Val) : Errs.Val :=
  Errs.errorOrNil (accumulate h rets).1 (accumulate h rets).2

/-- `type Handler struct { handlers []slog.Handler }` with tracelog children -/
structure Handler where
  children : List TL.Handler

/-- the loop of `WithGroup` / `WithAttrs`: derive every child, left to right -/
def mapDerive (f : TL.Store → TL.Handler → TL.Store × TL.Handler × Bool) (σ : TL.Store) :
    List TL.Handler → TL.Store × List TL.Handler
  | [] => (σ, [])
  | c :: cs =>
    let (σ1, c', _) := f σ c
    let (σ2, cs') := mapDerive f σ1 cs
    (σ2, c' :: cs')

/-- `WithGroup`: the receiver itself for an empty name, else a new handler over the derived children -/
def withGroup (σ : TL.Store) (m : Handler) (name : TL.Bytes) : TL.Store × Handler × Bool :=
  if name = [] then (σ, m, true)
  else let (σ', cs) := mapDerive (fun s c => TL.withGroup s c name) σ m.children; (σ', { children := cs }, false)

/-- `WithAttrs`: always a new handler over the derived children -/
def withAttrs (σ : TL.Store) (m : Handler) (as : List TL.Attr) : TL.Store × Handler × Bool :=
  let (σ', cs) := mapDerive (fun s c => TL.withAttrs s c as) σ m.children; (σ', { children := cs }, false)

end ML
