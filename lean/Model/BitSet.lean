import Generated.Facts
/-! C08: total transcription of `xmath.BitSet` (xmath/bitset.go).  Core-only.

Words are `BitVec 64`, the storage is a `List` of words, the cached cardinality `set` is an `Int` (Go `int`), indexes
are `Nat` (negative indexes terminate the process in Go and are outside the domain).  Every Go loop is restated as a
structural recursion with an explicit iteration count; each definition names the Go statement it transcribes.
The constants `addressBitsPerWord`, `dataBitsPerWord`, `bitIndexMask` are read from the source on every run
(`Facts.bitset_*`).  Indexes are unbounded here; Go's 64-bit `int` is made explicit in `Model/BitSetMachine.lean`, which
the driver executes next to this model (`C08.no_int_overflow*`: the two agree on every storage below 2^57 words). -/
namespace BS

abbrev W := BitVec 64

/-- `addressBitsPerWord` -/
def abpw : Nat := Facts.bitset_addressBitsPerWord.toNat
/-- `dataBitsPerWord` -/
def dbpw : Nat := Facts.bitset_dataBitsPerWord.toNat
/-- `bitIndexMask` -/
def bim : Nat := Facts.bitset_bitIndexMask.toNat

structure T where
  data : List W := []
  set : Int := 0
deriving Repr, DecidableEq

/-- `b.data[i]`; every access of the source is in bounds (absent words read as zero to keep the function total) -/
def getW (d : List W) (i : Nat) : W := d.getD i 0#64

/-- `index >> addressBitsPerWord` -/
def wordIdx (index : Nat) : Nat := index >>> abpw
/-- `index & bitIndexMask` -/
def bitIdx (index : Nat) : Nat := index &&& bim
/-- `wordMask`: `uint64(1) << uint(index&bitIndexMask)` -/
def wordMask (index : Nat) : W := 1#64 <<< bitIdx index

/-- the loop of `bitIndexForMask` (`i` counts up, the last argument is the number of iterations left); running out of
    candidates is the `atexit.Exit(1)` branch, unreachable for masks made by `wordMask` (`bitIndexForMask_wordMask`) -/
def bitIndexLoop (mask : W) (i : Nat) : Nat → Nat
  | 0 => 0
  | n + 1 => if mask == wordMask i then i else bitIndexLoop mask (i + 1) n
def bitIndexForMask (mask : W) : Nat := bitIndexLoop mask 0 dbpw

/-- the repository's own SWAR population count, statement by statement -/
def countSetBits (x : W) : Int :=
  let x := x - ((x >>> 1) &&& 0x5555555555555555#64)
  let x := ((x >>> 2) &&& 0x3333333333333333#64) + (x &&& 0x3333333333333333#64)
  let x := x + (x >>> 4)
  let x := x &&& 0x0f0f0f0f0f0f0f0f#64
  let x := x * 0x0101010101010101#64
  Int.ofNat (x >>> 56).toNat

def clone (b : T) : T := { data := b.data, set := b.set }
/-- `b.Copy(other)` -/
def copy (_b other : T) : T := { data := other.data, set := other.set }

/-- `for i := range shorter { if shorter[i] != longer[i] { return false } }` -/
def prefixEq : List W → List W → Bool
  | [], _ => true
  | _ :: _, [] => true
  | x :: s, y :: l => if x != y then false else prefixEq s l
/-- `for _, word := range longer[len(shorter):] { if word != 0 { return false } }` -/
def allZero : List W → Bool
  | [] => true
  | w :: ws => if w != 0#64 then false else allZero ws

def equal (b other : T) : Bool :=
  if b.set != other.set then false
  else
    let sl := if b.data.length > other.data.length then (other.data, b.data) else (b.data, other.data)
    if !prefixEq sl.1 sl.2 then false
    else allZero (sl.2.drop sl.1.length)

def count (b : T) : Int := b.set

def state (b : T) (index : Nat) : Bool :=
  let i := wordIdx index
  if i ≥ b.data.length then false
  else
    let mask := wordMask index
    (getW b.data i &&& mask) == mask

def ensureCapacity (b : T) (words : Nat) : T :=
  let size := b.data.length
  if words > size then
    let size2 := size * 2
    let size3 := if size2 < words then words else size2
    { b with data := b.data ++ List.replicate (size3 - size) 0#64 }
  else b

def setBit (b : T) (index : Nat) : T :=
  let i := wordIdx index
  let b := ensureCapacity b (i + 1)
  let mask := wordMask index
  if (getW b.data i &&& mask) == 0#64 then
    { data := b.data.set i (getW b.data i ||| mask), set := b.set + 1 }
  else b

def clearBit (b : T) (index : Nat) : T :=
  let i := wordIdx index
  if i < b.data.length then
    let mask := wordMask index
    if (getW b.data i &&& mask) == mask then
      { data := b.data.set i (getW b.data i &&& ~~~mask), set := b.set - 1 }
    else b
  else b

def flipBit (b : T) (index : Nat) : T :=
  let i := wordIdx index
  let b := ensureCapacity b (i + 1)
  let mask := wordMask index
  let w := getW b.data i ^^^ mask
  { data := b.data.set i w, set := if (w &&& mask) == mask then b.set + 1 else b.set - 1 }

/-! ### the three range operations: one loop skeleton, a whole-word action and a per-bit action -/

/-- per-bit bodies of the inner loops -/
def bitSet (w : W) (set : Int) (j : Nat) : W × Int :=
  let mask := wordMask j
  if (w &&& mask) == 0#64 then (w ||| mask, set + 1) else (w, set)
def bitClear (w : W) (set : Int) (j : Nat) : W × Int :=
  let mask := wordMask j
  if (w &&& mask) == mask then (w &&& ~~~mask, set - 1) else (w, set)
def bitFlip (w : W) (set : Int) (j : Nat) : W × Int :=
  let mask := wordMask j
  let w := w ^^^ mask
  if (w &&& mask) == mask then (w, set + 1) else (w, set - 1)

/-- whole-word fast paths -/
def wholeSet (w : W) (set : Int) : W × Int := (BitVec.allOnes 64, set + ((dbpw : Int) - countSetBits w))
def wholeClear (w : W) (set : Int) : W × Int := (0#64, set - countSetBits w)
def wholeFlip (w : W) (set : Int) : W × Int := (w ^^^ BitVec.allOnes 64, set + ((dbpw : Int) - 2 * countSetBits w))

/-- `for j < last { bit; j++ }` on the word `w`; the last argument is `last - j` -/
def bitLoop (bit : W → Int → Nat → W × Int) (w : W) (set : Int) (j : Nat) : Nat → W × Int
  | 0 => (w, set)
  | n + 1 => bitLoop bit (bit w set j).1 (bit w set j).2 (j + 1) n

/-- `for i := i1; i <= i2; i++ { … }`; the last argument is `i2 + 1 - i`; `lastBit = bitIndexForMask(wordMask(end))` -/
def rangeLoop (whole : W → Int → W × Int) (bit : W → Int → Nat → W × Int) (i1 i2 lastBit : Nat)
    (d : List W) (set : Int) (i j : Nat) : Nat → List W × Int
  | 0 => (d, set)
  | n + 1 =>
    if i != i1 && i != i2 then
      let r := whole (getW d i) set
      rangeLoop whole bit i1 i2 lastBit (d.set i r.1) r.2 (i + 1) j n
    else
      let last := if i == i2 then lastBit + 1 else dbpw
      let r := bitLoop bit (getW d i) set j (last - j)
      rangeLoop whole bit i1 i2 lastBit (d.set i r.1) r.2 (i + 1) 0 n

def runRange (whole : W → Int → W × Int) (bit : W → Int → Nat → W × Int) (b : T) (start end_ i1 i2 : Nat) : T :=
  let j := bitIndexForMask (wordMask start)
  let r := rangeLoop whole bit i1 i2 (bitIndexForMask (wordMask end_)) b.data b.set i1 j (i2 + 1 - i1)
  { data := r.1, set := r.2 }

def setRange (b : T) (start end_ : Nat) : T :=
  let se := if start > end_ then (end_, start) else (start, end_)
  let i1 := wordIdx se.1
  let i2 := wordIdx se.2
  let b := ensureCapacity b (i2 + 1)
  runRange wholeSet bitSet b se.1 se.2 i1 i2

def clearRange (b : T) (start end_ : Nat) : T :=
  let se := if start > end_ then (end_, start) else (start, end_)
  -- `maximum := len(b.data) - 1`; comparisons `x > maximum` are written `x + 1 > len`
  let len := b.data.length
  let i1 := wordIdx se.1
  if i1 + 1 > len then b
  else
    let i2 := wordIdx se.2
    let ie := if i2 + 1 > len then (len - 1, (len <<< abpw) - 1) else (i2, se.2)
    runRange wholeClear bitClear b se.1 ie.2 i1 ie.1

def flipRange (b : T) (start end_ : Nat) : T :=
  let se := if start > end_ then (end_, start) else (start, end_)
  let i1 := wordIdx se.1
  let i2 := wordIdx se.2
  let b := ensureCapacity b (i2 + 1)
  runRange wholeFlip bitFlip b se.1 se.2 i1 i2

/-! ### searches -/

def testSet (word mask : W) : Bool := (word &&& mask) == mask
def testClear (word mask : W) : Bool := (word &&& mask) == 0#64

/-- `for j := firstBit; j < dataBitsPerWord; j++ { if test { return j } }`; last argument `dataBitsPerWord - j` -/
def scanUp (test : W → W → Bool) (word : W) (j : Nat) : Nat → Option Nat
  | 0 => none
  | n + 1 => if test word (wordMask j) then some j else scanUp test word (j + 1) n

/-- `for j := firstBit; j >= 0; j-- { if test { return j } }`; the argument is `j + 1` -/
def scanDown (test : W → W → Bool) (word : W) : Nat → Option Nat
  | 0 => none
  | j + 1 => if test word (wordMask j) then some j else scanDown test word j

/-- `for i < maximum { word := b.data[i]; if word != skip { scan }; firstBit = 0; i++ }`; last argument `maximum - i` -/
def nextLoop (skip : W) (test : W → W → Bool) (d : List W) (i firstBit : Nat) : Nat → Option Nat
  | 0 => none
  | n + 1 =>
    let word := getW d i
    match (if word != skip then scanUp test word firstBit (dbpw - firstBit) else none) with
    | some j => some (i <<< abpw + j)
    | none => nextLoop skip test d (i + 1) 0 n

/-- `for i >= 0 { word := b.data[i]; if word != skip { scan down }; firstBit = 63; i-- }`; the argument is `i + 1` -/
def prevLoop (skip : W) (test : W → W → Bool) (d : List W) (firstBit : Nat) : Nat → Option Nat
  | 0 => none
  | i + 1 =>
    let word := getW d i
    match (if word != skip then scanDown test word (firstBit + 1) else none) with
    | some j => some (i <<< abpw + j)
    | none => prevLoop skip test d 63 i

def nextSet (b : T) (start : Nat) : Int :=
  let i := wordIdx start
  let firstBit := bitIndexForMask (wordMask start)
  let maximum := b.data.length
  match nextLoop 0#64 testSet b.data i firstBit (maximum - i) with
  | some r => Int.ofNat r
  | none => -1

def previousSet (b : T) (start : Nat) : Int :=
  let i := wordIdx start
  -- `if maximum := len(b.data) - 1; i > maximum { i = maximum; firstBit = 63 }` (the pair is `(i + 1, firstBit)`)
  let p := if i + 1 > b.data.length then (b.data.length, 63) else (i + 1, bitIndexForMask (wordMask start))
  match prevLoop 0#64 testSet b.data p.2 p.1 with
  | some r => Int.ofNat r
  | none => -1

def firstSet (b : T) : Int := nextSet b 0
def lastSet (b : T) : Int := previousSet b (b.data.length <<< abpw)

def previousClear (b : T) (start : Nat) : Int :=
  let i := wordIdx start
  if i + 1 > b.data.length then Int.ofNat start
  else
    let firstBit := bitIndexForMask (wordMask start)
    match prevLoop (BitVec.allOnes 64) testClear b.data firstBit (i + 1) with
    | some r => Int.ofNat r
    | none => -1

def nextClear (b : T) (start : Nat) : Int :=
  let i := wordIdx start
  let firstBit := bitIndexForMask (wordMask start)
  let maximum := b.data.length
  match nextLoop (BitVec.allOnes 64) testClear b.data i firstBit (maximum - i) with
  | some r => Int.ofNat r
  | none => Int.ofNat (max (maximum * dbpw) start)

/-! ### storage -/

/-- `for i := size - 1; i >= 0; i-- { if b.data[i] != 0 { i++; … return } }`; the argument is `i + 1`, the result the
    incremented `i` -/
def trimLoop (d : List W) : Nat → Option Nat
  | 0 => none
  | i + 1 => if getW d i != 0#64 then some (i + 1) else trimLoop d i

def trim (b : T) : T :=
  let size := b.data.length
  match trimLoop b.data size with
  | some i => if i != size then { b with data := b.data.take i } else b
  | none => { b with data := [] }

/-- `Data` trims the receiver and returns a copy of the storage -/
def data (b : T) : T × List W :=
  let b := trim b
  (b, b.data)

/-- `for j := 0; j < dataBitsPerWord; j++ { if word&mask == mask { b.set++ } }` -/
def loadBits (word : W) (set : Int) (j : Nat) : Nat → Int
  | 0 => set
  | n + 1 => loadBits word (if (word &&& wordMask j) == wordMask j then set + 1 else set) (j + 1) n

/-- `for i := len(b.data) - 1; i >= 0; i-- { word := data[i]; if word != 0 { … } }`; the argument is `i + 1` -/
def loadLoop (data : List W) (set : Int) : Nat → Int
  | 0 => set
  | i + 1 =>
    let word := getW data i
    loadLoop data (if word != 0#64 then loadBits word set 0 dbpw else set) i

def load (b : T) (data : List W) : T :=
  let b := trim { b with data := data }
  { data := b.data, set := loadLoop data 0 b.data.length }

def reset (_b : T) : T := { data := [], set := 0 }

/-! ### histories: the mutating calls of the API on two bit sets `A`, `B` (what the driver executes) -/

inductive Reg where
  | A | B
deriving DecidableEq, Repr

inductive Op where
  | set (r : Reg) (i : Nat)
  | clear (r : Reg) (i : Nat)
  | flip (r : Reg) (i : Nat)
  | setRange (r : Reg) (s e : Nat)
  | clearRange (r : Reg) (s e : Nat)
  | flipRange (r : Reg) (s e : Nat)
  | load (r : Reg) (ws : List W)
  /-- `r.Copy(q)` -/
  | copy (r q : Reg)
  /-- `r = q.Clone()` -/
  | clone (r q : Reg)
  | trim (r : Reg)
  | ensure (r : Reg) (n : Nat)
  | reset (r : Reg)
  /-- `r.Data()` (trims `r`) -/
  | data (r : Reg)
  /-- `r.Load(q.Data())` -/
  | loadData (r q : Reg)

structure Pair where
  a : T := {}
  b : T := {}

def Pair.get (p : Pair) : Reg → T
  | .A => p.a
  | .B => p.b
def Pair.put (p : Pair) (r : Reg) (v : T) : Pair :=
  match r with
  | .A => { p with a := v }
  | .B => { p with b := v }

def applyOp (p : Pair) : Op → Pair
  | .set r i => p.put r (setBit (p.get r) i)
  | .clear r i => p.put r (clearBit (p.get r) i)
  | .flip r i => p.put r (flipBit (p.get r) i)
  | .setRange r s e => p.put r (setRange (p.get r) s e)
  | .clearRange r s e => p.put r (clearRange (p.get r) s e)
  | .flipRange r s e => p.put r (flipRange (p.get r) s e)
  | .load r ws => p.put r (load (p.get r) ws)
  | .copy r q => p.put r (copy (p.get r) (p.get q))
  | .clone r q => p.put r (clone (p.get q))
  | .trim r => p.put r (trim (p.get r))
  | .ensure r n => p.put r (ensureCapacity (p.get r) n)
  | .reset r => p.put r (reset (p.get r))
  | .data r => p.put r (data (p.get r)).1
  | .loadData r q =>
    let d := data (p.get q)
    let p := p.put q d.1
    p.put r (load (p.get r) d.2)

/-- `EnsureCapacity(words)` with the Go `int` argument as it is: zero and negative requests fall through the single
    comparison `words > size` (extension for the hardening pass; `C08.ensureCapacity_int` relates it to `ensureCapacity`) -/
def ensureCapacityInt (b : T) (words : Int) : T :=
  let size : Int := Int.ofNat b.data.length
  if words > size then ensureCapacity b words.toNat else b

/-- the state after a history, starting from two zero-value bit sets -/
def run (ops : List Op) : Pair := ops.foldl applyOp {}

end BS
