import Model.I128
/-! C01, the panic clause made falsifiable: "division or remainder by zero panics and no other operation ever does".

    `Model/U128.lean` uses the total `BitVec` division (`x / 0 = 0`), so in that model a machine division by zero is
    invisible.  Here every machine division `x / y`, `x % y` of the twelve division entry points and of the two Knuth
    kernels is transcribed as a *partial* operation (`hwDiv`, `hwMod`): the Go runtime raises its own
    "integer divide by zero" panic when `y = 0`.  The outcome type `Out` keeps the library's explicit
    `panic(divByZero)` (`divzero`) and the runtime's panic (`hwdiv`) apart.  These are the functions the driver runs for
    `div/mod/divmod(64)`; `Lemmas/U128Hw.lean` proves that they never return `hwdiv` and agree with the total model
    (the divisors `n.lo`, `n` and `vn1` are non-zero behind the zero test resp. the normalisation), and that the
    kernel called WITHOUT the normalisation count does raise it.  Core Lean only. -/
namespace U128

/-- outcome of a Go call: a value, the library's explicit `panic(divByZero)`, or the runtime's integer-divide panic -/
inductive Out (α : Type) where
  | ok (v : α)
  | divzero
  | hwdiv
deriving DecidableEq, Repr

def Out.bind {α β : Type} (x : Out α) (f : α → Out β) : Out β :=
  match x with
  | .ok v => f v
  | .divzero => .divzero
  | .hwdiv => .hwdiv

def Out.map {α β : Type} (f : α → β) (x : Out α) : Out β := x.bind (fun v => .ok (f v))

/-- the total model's result read as an outcome (`Res.panic` is the explicit panic) -/
def Out.ofRes {α : Type} : Res α → Out α
  | .ok v => .ok v
  | .panic => .divzero

/-- machine division `x / y` on `uint64`: the runtime panics for `y = 0` -/
def hwDiv (x y : W) : Out W := if y = 0#64 then .hwdiv else .ok (x / y)
/-- machine remainder `x % y` on `uint64` -/
def hwMod (x y : W) : Out W := if y = 0#64 then .hwdiv else .ok (x % y)

/-- the exported limit `num.MaxUint128` (`num.MaxInt128`, `num.MinInt128` are `I128.maxI128`, `I128.minI128`); the driver
    prints the three for the `limit` lines, the harness prints the exported variables -/
def maxU128 : U128 := ⟨0xffffffffffffffff#64, 0xffffffffffffffff#64⟩

/-! ## kernels -/

/-- `divmod128by64` with its four machine divisions by `vn1` (`u.hi / vn1`, `u.hi % vn1`, `un21 / vn1`, `un21 % vn1`) -/
def divmod128by64C (u : U128) (n : W) (nLeading0 : Nat) : Out (W × W) :=
  let n := n <<< nLeading0
  let vn1 := n >>> 32
  let vn0 := n &&& mask32
  let u : U128 := if nLeading0 > 0 then ⟨u.hi <<< nLeading0 ||| u.lo >>> (64 - nLeading0), u.lo <<< nLeading0⟩ else u
  let un1 := u.lo >>> 32
  let un0 := u.lo &&& mask32
  (hwDiv u.hi vn1).bind fun q1 =>
  (hwMod u.hi vn1).bind fun rhat =>
  let left := q1 * vn0
  let right := rhat <<< 32 + un1
  let q1 := corrLoop vn1 vn0 un1 4 q1 rhat left right
  let un21 := u.hi <<< 32 + (un1 - q1 * n)
  (hwDiv un21 vn1).bind fun q0 =>
  (hwMod un21 vn1).bind fun rhat =>
  let left := q0 * vn0
  let right := rhat <<< 32 ||| un0
  let q0 := corrLoop vn1 vn0 un0 4 q0 rhat left right
  .ok (q1 <<< 32 ||| q0, (un21 <<< 32 + (un0 - q0 * n)) >>> nLeading0)

/-- `divmod128by128` with its machine divisions `u.hi / n.lo`, `u.hi %= n.lo` and those of the 128/64 kernel -/
def divmod128by128C (u n : U128) (nHiLeading0 nLoLeading0 : Nat) : Out (U128 × U128) :=
  if n.hi = 0#64 then
    if u.hi.toNat < n.lo.toNat then
      (divmod128by64C u n.lo nLoLeading0).bind fun qr => .ok (⟨0#64, qr.1⟩, ⟨0#64, qr.2⟩)
    else
      (hwDiv u.hi n.lo).bind fun qh =>
      (hwMod u.hi n.lo).bind fun uh =>
      (divmod128by64C ⟨uh, u.lo⟩ n.lo nLoLeading0).bind fun qr => .ok (⟨qh, qr.1⟩, ⟨0#64, qr.2⟩)
  else
    (divmod128by64C (rightShift u 1) (leftShift n nHiLeading0).hi nLoLeading0).bind fun qr =>
    let q0 := qr.1 >>> (63 - nHiLeading0)
    let q0 := if q0 ≠ 0#64 then q0 - 1#64 else q0
    let q : U128 := ⟨0#64, q0⟩
    let r := sub u (mul q n)
    if cmp r n ≥ 0 then .ok (inc q, sub r n) else .ok (q, r)

/-! ## the six unsigned entry points.  Each is `explicit zero test; rest`: the part after the test is a definition of
    its own (`…Rest`), so that what the code would do WITHOUT the test can be stated. -/

def divModRest (u n : U128) : Out (U128 × U128) :=
  if n.hi = 0#64 ∧ n.lo = 1#64 then .ok (u, zero)
  else if n.hi = 0#64 ∧ u.hi = 0#64 then
    (hwDiv u.lo n.lo).bind fun q => (hwMod u.lo n.lo).bind fun r => .ok (⟨0#64, q⟩, ⟨0#64, r⟩)
  else
    let nLoLeading0 := if n.hi = 0#64 then clz n.lo else 0
    let nHiLeading0 := if n.hi = 0#64 then 64 else clz n.hi
    let nLeading0 := if n.hi = 0#64 then clz n.lo + 64 else clz n.hi
    let nTrailing0 := trailingZeros n
    if nLeading0 + nTrailing0 = 127 then .ok (rightShift u nTrailing0, and (dec n) u)
    else if cmp u n < 0 then .ok (zero, u)
    else if cmp u n = 0 then .ok (one, zero)
    else
      let uLeading0 := leadingZeros u
      if nLeading0 - uLeading0 > threshold then divmod128by128C u n nHiLeading0 nLoLeading0
      else .ok (divmod128bin u n uLeading0 nLeading0)
def divModC (u n : U128) : Out (U128 × U128) :=
  if n.hi = 0#64 ∧ n.lo = 0#64 then .divzero else divModRest u n

def divRest (u n : U128) : Out U128 :=
  if n.hi = 0#64 ∧ n.lo = 1#64 then .ok u
  else if n.hi = 0#64 ∧ u.hi = 0#64 then (hwDiv u.lo n.lo).bind fun q => .ok ⟨u.hi, q⟩
  else
    let nLoLeading0 := if n.hi = 0#64 then clz n.lo else 0
    let nHiLeading0 := if n.hi = 0#64 then 64 else clz n.hi
    let nLeading0 := if n.hi = 0#64 then clz n.lo + 64 else clz n.hi
    let nTrailing0 := trailingZeros n
    if nLeading0 + nTrailing0 = 127 then .ok (rightShift u nTrailing0)
    else if cmp u n < 0 then .ok zero
    else if cmp u n = 0 then .ok one
    else
      let uLeading0 := leadingZeros u
      if nLeading0 - uLeading0 > threshold then (divmod128by128C u n nHiLeading0 nLoLeading0).map Prod.fst
      else .ok (divmod128bin u n uLeading0 nLeading0).1
def divC (u n : U128) : Out U128 :=
  if n.hi = 0#64 ∧ n.lo = 0#64 then .divzero else divRest u n

def modRest (u n : U128) : Out U128 :=
  if n.hi = 0#64 ∧ n.lo = 1#64 then .ok zero
  else if n.hi = 0#64 ∧ u.hi = 0#64 then (hwMod u.lo n.lo).bind fun r => .ok ⟨u.hi, r⟩
  else
    let nLoLeading0 := if n.hi = 0#64 then clz n.lo else 0
    let nHiLeading0 := if n.hi = 0#64 then 64 else clz n.hi
    let nLeading0 := if n.hi = 0#64 then clz n.lo + 64 else clz n.hi
    let nTrailing0 := trailingZeros n
    if nLeading0 + nTrailing0 = 127 then .ok (and (dec n) u)
    else if cmp u n < 0 then .ok u
    else if cmp u n = 0 then .ok zero
    else
      let uLeading0 := leadingZeros u
      if nLeading0 - uLeading0 > threshold then (divmod128by128C u n nHiLeading0 nLoLeading0).map Prod.snd
      else .ok (divmod128bin u n uLeading0 nLeading0).2
def modC (u n : U128) : Out U128 :=
  if n.hi = 0#64 ∧ n.lo = 0#64 then .divzero else modRest u n

def divModWRest (u : U128) (n : W) : Out (U128 × U128) :=
  if n = 1#64 then .ok (u, zero)
  else if u.hi = 0#64 then
    (hwDiv u.lo n).bind fun q => (hwMod u.lo n).bind fun r => .ok (⟨0#64, q⟩, ⟨0#64, r⟩)
  else
    let nLoLeading0 := clz n
    let nLeading0 := nLoLeading0 + 64
    let nTrailing0 := ctz n
    if nLeading0 + nTrailing0 = 127 then .ok (rightShift u nTrailing0, andW u (n - 1#64))
    else if cmpW u n < 0 then .ok (zero, u)
    else if cmpW u n = 0 then .ok (one, zero)
    else
      let uLeading0 := leadingZeros u
      if nLeading0 - uLeading0 > threshold then
        if u.hi.toNat < n.toNat then
          (divmod128by64C u n nLoLeading0).bind fun qr => .ok (⟨0#64, qr.1⟩, ⟨0#64, qr.2⟩)
        else
          (hwDiv u.hi n).bind fun qh =>
          (hwMod u.hi n).bind fun uh =>
          (divmod128by64C ⟨uh, u.lo⟩ n nLoLeading0).bind fun qr => .ok (⟨qh, qr.1⟩, ⟨0#64, qr.2⟩)
      else .ok (divmod128bin u ⟨0#64, n⟩ uLeading0 nLeading0)
def divModWC (u : U128) (n : W) : Out (U128 × U128) :=
  if n = 0#64 then .divzero else divModWRest u n

def divWRest (u : U128) (n : W) : Out U128 :=
  if n = 1#64 then .ok u
  else if u.hi = 0#64 then (hwDiv u.lo n).bind fun q => .ok ⟨u.hi, q⟩
  else
    let nLoLeading0 := clz n
    let nLeading0 := nLoLeading0 + 64
    let nTrailing0 := ctz n
    if nLeading0 + nTrailing0 = 127 then .ok (rightShift u nTrailing0)
    else if cmpW u n < 0 then .ok zero
    else if cmpW u n = 0 then .ok one
    else
      let uLeading0 := leadingZeros u
      if nLeading0 - uLeading0 > threshold then
        if u.hi.toNat < n.toNat then
          (divmod128by64C u n nLoLeading0).bind fun qr => .ok ⟨0#64, qr.1⟩
        else
          (hwDiv u.hi n).bind fun qh =>
          (hwMod u.hi n).bind fun uh =>
          (divmod128by64C ⟨uh, u.lo⟩ n nLoLeading0).bind fun qr => .ok ⟨qh, qr.1⟩
      else .ok (divmod128bin u ⟨0#64, n⟩ uLeading0 nLeading0).1
def divWC (u : U128) (n : W) : Out U128 :=
  if n = 0#64 then .divzero else divWRest u n

def modWRest (u : U128) (n : W) : Out U128 :=
  if n = 1#64 then .ok zero
  else if u.hi = 0#64 then (hwMod u.lo n).bind fun r => .ok ⟨u.hi, r⟩
  else
    let nLoLeading0 := clz n
    let nLeading0 := nLoLeading0 + 64
    let nTrailing0 := ctz n
    if nLeading0 + nTrailing0 = 127 then .ok (andW u (n - 1#64))
    else if cmpW u n < 0 then .ok u
    else if cmpW u n = 0 then .ok zero
    else
      let uLeading0 := leadingZeros u
      if nLeading0 - uLeading0 > threshold then
        if u.hi.toNat ≥ n.toNat then
          (hwMod u.hi n).bind fun uh =>
          (divmod128by64C ⟨uh, u.lo⟩ n nLoLeading0).bind fun qr => .ok ⟨0#64, qr.2⟩
        else (divmod128by64C u n nLoLeading0).bind fun qr => .ok ⟨0#64, qr.2⟩
      else .ok (divmod128bin u ⟨0#64, n⟩ uLeading0 nLeading0).2
def modWC (u : U128) (n : W) : Out U128 :=
  if n = 0#64 then .divzero else modWRest u n

end U128

/-! ## the six signed entry points: magnitudes through the unsigned routines (no machine division of their own) -/
namespace I128
open U128 (W Out)

def divC (i n : I128) : Out I128 :=
  let iNeg := lessThan i zero
  let i := if iNeg then neg i else i
  let nNeg := lessThan n zero
  let n := if nNeg then neg n else n
  (i.toU.divC n.toU).bind fun q => .ok (if iNeg != nNeg then neg (ofU q) else ofU q)

def divWC (i : I128) (n : W) : Out I128 :=
  let iNeg := lessThan i zero
  let i := if iNeg then neg i else i
  let nNeg := neg64 n
  let n := if nNeg then -n else n
  (i.toU.divWC n).bind fun q => .ok (if iNeg != nNeg then neg (ofU q) else ofU q)

def divModC (i n : I128) : Out (I128 × I128) :=
  let iNeg := lessThan i zero
  let i := if iNeg then neg i else i
  let nNeg := lessThan n zero
  let n := if nNeg then neg n else n
  (i.toU.divModC n.toU).bind fun qr =>
    .ok (if iNeg != nNeg then neg (ofU qr.1) else ofU qr.1, if iNeg then neg (ofU qr.2) else ofU qr.2)

def divModWC (i : I128) (n : W) : Out (I128 × I128) := divModC i ⟨ext64 n, n⟩
def modC (i n : I128) : Out I128 := (divModC i n).bind fun qr => .ok qr.2
def modWC (i : I128) (n : W) : Out I128 := (divModWC i n).bind fun qr => .ok qr.2

end I128
