import Model.U128
/-! C01: transcription of `xmath/num/int128.go` (every exported arithmetic / ordering method of `num.Int128`).
    Core Lean only.  A Go `int64` argument is its two's-complement bit pattern (`BitVec 64`); `n < 0` is "top bit set"
    (`neg64`), `uint64(n)` is the identity on patterns, `-n` is `BitVec` negation (wraps at MinInt64 like Go). -/

structure I128 where
  hi : BitVec 64
  lo : BitVec 64
deriving DecidableEq, Repr

namespace I128
open U128 (W Res signBit add64 sub64 mul64)

/-- the conversions `Uint128(i)` / `Int128(u)` -/
def toU (i : I128) : U128 := ⟨i.hi, i.lo⟩
def ofU (u : U128) : I128 := ⟨u.hi, u.lo⟩

/-- two's-complement value -/
def toInt (i : I128) : Int :=
  if i.hi.toNat ≥ 2^63 then (i.toU.toNat : Int) - 2^128 else (i.toU.toNat : Int)

def maxU64 : W := 0xffffffffffffffff#64
def maxI64 : W := 0x7fffffffffffffff#64
def minI128 : I128 := ⟨signBit, 0#64⟩
def maxI128 : I128 := ⟨maxI64, maxU64⟩
def zero : I128 := ⟨0#64, 0#64⟩

/-- `n < 0` for an `int64` given by its bit pattern -/
def neg64 (n : W) : Bool := n.toNat ≥ 2^63
/-- value of an `int64` bit pattern -/
def int64Val (n : W) : Int := if n.toNat ≥ 2^63 then (n.toNat : Int) - 2^64 else (n.toNat : Int)
/-- the sign-extension word used by every `…64` method: `nhi = MaxUint64 if n < 0 else 0` -/
def ext64 (n : W) : W := if neg64 n then maxU64 else 0#64

def from64 (v : W) : I128 := ⟨ext64 v, v⟩
def fromUint64 (v : W) : I128 := ⟨0#64, v⟩

def isZero (i : I128) : Bool := i.hi ||| i.lo = 0#64
def isUint128 (i : I128) : Bool := i.hi &&& signBit = 0#64
def isInt64 (i : I128) : Bool :=
  if i.hi &&& signBit ≠ 0#64 then i.hi = maxU64 && i.lo.toNat ≥ signBit.toNat
  else i.hi = 0#64 && i.lo.toNat ≤ maxI64.toNat
/-- `AsInt64` (result as an `int64` bit pattern) -/
def asInt64 (i : I128) : W := if i.hi &&& signBit ≠ 0#64 then -(~~~(i.lo - 1#64)) else i.lo
def isUint64 (i : I128) : Bool := i.hi = 0#64
def asUint64 (i : I128) : W := i.lo

def add (i n : I128) : I128 :=
  let (lo, c) := add64 i.lo n.lo 0#64
  let (hi, _) := add64 i.hi n.hi c
  ⟨hi, lo⟩
def addW (i : I128) (n : W) : I128 :=
  let (lo, c) := add64 i.lo n 0#64
  let c := if neg64 n then c + maxU64 else c
  ⟨i.hi + c, lo⟩
def sub (i n : I128) : I128 :=
  let (lo, b) := sub64 i.lo n.lo 0#64
  let (hi, _) := sub64 i.hi n.hi b
  ⟨hi, lo⟩
def subW (i : I128) (n : W) : I128 :=
  let (lo, b) := sub64 i.lo n 0#64
  let hi := i.hi - b
  ⟨if neg64 n then hi - maxU64 else hi, lo⟩
def inc (i : I128) : I128 := ofU i.toU.inc
def dec (i : I128) : I128 := ofU i.toU.dec

def sign (i : I128) : Int :=
  if i.hi ||| i.lo = 0#64 then 0 else if i.hi &&& signBit = 0#64 then 1 else -1

def neg (i : I128) : I128 :=
  if i.hi ||| i.lo = 0#64 ∨ i = minI128 then i
  else if i.hi &&& signBit ≠ 0#64 then
    let lo := ~~~(i.lo - 1#64)
    ⟨if lo = 0#64 then ~~~i.hi + 1#64 else ~~~i.hi, lo⟩
  else
    let lo := ~~~i.lo + 1#64
    ⟨if lo = 0#64 then ~~~i.hi + 1#64 else ~~~i.hi, lo⟩

def abs (i : I128) : I128 :=
  if i.hi &&& signBit ≠ 0#64 then
    let lo := ~~~(i.lo - 1#64)
    ⟨if lo = 0#64 then ~~~i.hi + 1#64 else ~~~i.hi, lo⟩
  else i

def absUint128 (i : I128) : U128 :=
  if i = minI128 then i.toU
  else if i.hi &&& signBit ≠ 0#64 then
    let lo := ~~~(i.lo - 1#64)
    ⟨if lo = 0#64 then ~~~i.hi + 1#64 else ~~~i.hi, lo⟩
  else i.toU

/-! comparisons: the `…64` forms build `(nhi, nlo)` and repeat the same switch, so they are the 128-bit form applied to
    the sign-extended operand *textually* in the source as well -/

def cmpHL (i : I128) (nhi nlo : W) : Int :=
  if i.hi = nhi ∧ i.lo = nlo then 0
  else if i.hi &&& signBit = nhi &&& signBit then
    (if i.hi.toNat > nhi.toNat ∨ (i.hi = nhi ∧ i.lo.toNat > nlo.toNat) then 1 else -1)
  else if i.hi &&& signBit = 0#64 then 1
  else -1
def cmp (i n : I128) : Int := cmpHL i n.hi n.lo
def cmpW (i : I128) (n : W) : Int := cmpHL i (ext64 n) n

def gtHL (i : I128) (nhi nlo : W) : Bool :=
  if i.hi &&& signBit = nhi &&& signBit then i.hi.toNat > nhi.toNat || (i.hi = nhi && i.lo.toNat > nlo.toNat)
  else if i.hi &&& signBit = 0#64 then true
  else false
def greaterThan (i n : I128) : Bool := gtHL i n.hi n.lo
def greaterThanW (i : I128) (n : W) : Bool := gtHL i (ext64 n) n

def geHL (i : I128) (nhi nlo : W) : Bool :=
  if i.hi = nhi ∧ i.lo = nlo then true
  else if i.hi &&& signBit = nhi &&& signBit then i.hi.toNat > nhi.toNat || (i.hi = nhi && i.lo.toNat > nlo.toNat)
  else if i.hi &&& signBit = 0#64 then true
  else false
def greaterThanOrEqual (i n : I128) : Bool := geHL i n.hi n.lo
def greaterThanOrEqualW (i : I128) (n : W) : Bool := geHL i (ext64 n) n

def equal (i n : I128) : Bool := i.hi = n.hi && i.lo = n.lo
def equalW (i : I128) (n : W) : Bool := i.hi = ext64 n && i.lo = n

def ltHL (i : I128) (nhi nlo : W) : Bool :=
  if i.hi &&& signBit = nhi &&& signBit then i.hi.toNat < nhi.toNat || (i.hi = nhi && i.lo.toNat < nlo.toNat)
  else if i.hi &&& signBit ≠ 0#64 then true
  else false
def lessThan (i n : I128) : Bool := ltHL i n.hi n.lo
def lessThanW (i : I128) (n : W) : Bool := ltHL i (ext64 n) n

def leHL (i : I128) (nhi nlo : W) : Bool :=
  if i.hi = nhi ∧ i.lo = nlo then true
  else if i.hi &&& signBit = nhi &&& signBit then i.hi.toNat < nhi.toNat || (i.hi = nhi && i.lo.toNat < nlo.toNat)
  else if i.hi &&& signBit ≠ 0#64 then true
  else false
def lessThanOrEqual (i n : I128) : Bool := leHL i n.hi n.lo
def lessThanOrEqualW (i : I128) (n : W) : Bool := leHL i (ext64 n) n

def mul (i n : I128) : I128 :=
  let (hi, lo) := mul64 i.lo n.lo
  ⟨hi + i.hi * n.lo + i.lo * n.hi, lo⟩
def mulW (i : I128) (n : W) : I128 := mul i (from64 n)

/-! division: magnitudes through the unsigned routines, then the sign fix-up -/

def div (i n : I128) : Res I128 :=
  let iNeg := lessThan i zero
  let i := if iNeg then neg i else i
  let nNeg := lessThan n zero
  let n := if nNeg then neg n else n
  match i.toU.div n.toU with
  | .panic => .panic
  | .ok q => .ok (if iNeg != nNeg then neg (ofU q) else ofU q)

def divW (i : I128) (n : W) : Res I128 :=
  let iNeg := lessThan i zero
  let i := if iNeg then neg i else i
  let nNeg := neg64 n
  let n := if nNeg then -n else n
  match i.toU.divW n with
  | .panic => .panic
  | .ok q => .ok (if iNeg != nNeg then neg (ofU q) else ofU q)

def divMod (i n : I128) : Res (I128 × I128) :=
  let iNeg := lessThan i zero
  let i := if iNeg then neg i else i
  let nNeg := lessThan n zero
  let n := if nNeg then neg n else n
  match i.toU.divMod n.toU with
  | .panic => .panic
  | .ok (q, r) => .ok (if iNeg != nNeg then neg (ofU q) else ofU q, if iNeg then neg (ofU r) else ofU r)

def divModW (i : I128) (n : W) : Res (I128 × I128) := divMod i ⟨ext64 n, n⟩

def mod (i n : I128) : Res I128 :=
  match divMod i n with
  | .panic => .panic
  | .ok (_, r) => .ok r

def modW (i : I128) (n : W) : Res I128 :=
  match divModW i n with
  | .panic => .panic
  | .ok (_, r) => .ok r

end I128
