import Model.Conv128
/-! # C02 — the remaining entry points of the conversion surface (core Lean only, executable)

* `UnmarshalYAML(unmarshal func(any) error)`: the callback either fails (the error is returned, the receiver is not
  touched) or stores a string, which then goes through `FromString`;
* `Scan(state fmt.ScanState, verb)`: `state.Token(true, nil)` either fails or delivers the token;
* `Float64()` of the `json.Number` interface: always the error `errNoFloat64`;
* `AsBigFloat()`: `new(big.Float).SetInt(x.AsBigInt())` — a `big.Float` of precision 0 takes the larger of `x.BitLen()` and
  64 as its precision and then rounds `x` to that precision (`math/big/float.go`, `SetInt`). -/
namespace Conv

/-- `UnmarshalYAML`: `cb = none` — the callback returned an error; `some s` — it stored the string `s` -/
def U128.unmarshalYAML (recv : U128) (cb : Option (List Char)) : U128 × Bool :=
  match cb with
  | none => (recv, false)
  | some s => U128.unmarshal recv s
def I128.unmarshalYAML (recv : I128) (cb : Option (List Char)) : I128 × Bool :=
  match cb with
  | none => (recv, false)
  | some s => I128.unmarshal recv s

/-- `Scan` as a method on a receiver: `tok = none` — `Token` returned an error -/
def U128.scanInto (recv : U128) (tok : Option (List Char)) (verb : Char) : U128 × Bool :=
  match tok with
  | none => (recv, false)
  | some t => match U128.scan t verb with
    | some v => (v, true)
    | none => (recv, false)
def I128.scanInto (recv : I128) (tok : Option (List Char)) (verb : Char) : I128 × Bool :=
  match tok with
  | none => (recv, false)
  | some t => match I128.scan t verb with
    | some v => (v, true)
    | none => (recv, false)

/-- `Float64()`: `none` = `errNoFloat64`, for every value -/
def U128.float64Method (_ : U128) : Option GoSem.F64 := none
def I128.float64Method (_ : I128) : Option GoSem.F64 := none

/-- `nat.bitLen` -/
def bitLen (n : Nat) : Nat := if n = 0 then 0 else n.log2 + 1

/-- rounding an integer to `prec` significant bits, to nearest even (`big.Float.round` on an integer mantissa) -/
def roundToPrec (prec : Nat) (z : Int) : Int :=
  let n := z.natAbs
  if bitLen n ≤ prec then z
  else
    let sh := bitLen n - prec
    let q := n / 2^sh
    let r := n % 2^sh
    let half := 2^(sh - 1)
    let q' := if r > half ∨ (r = half ∧ q % 2 = 1) then q + 1 else q
    if z < 0 then -((q' * 2^sh : Nat) : Int) else ((q' * 2^sh : Nat) : Int)

/-- `new(big.Float).SetInt(x)`: (precision, value) -/
def bigFloatSetInt (x : Int) : Nat × Int :=
  let prec := max (bitLen x.natAbs) 64
  (prec, roundToPrec prec x)

def U128.asBigFloat (u : U128) : Nat × Int := bigFloatSetInt u.asBigInt
def I128.asBigFloat (i : I128) : Nat × Int := bigFloatSetInt i.asBigInt

end Conv
