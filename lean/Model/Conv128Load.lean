import Model.Conv128
/-! # C02 — the remaining entry points of the conversion surface (core Lean only, executable)

* `UnmarshalYAML(unmarshal func(any) error)`: the callback either fails (the error is returned, the receiver is not
  touched) or stores a string, which then goes through `FromString`;
* `Scan(state fmt.ScanState, verb)`: `state.Token(true, nil)` either fails or delivers the token;
* `Float64()` of the `json.Number` interface: always the error `errNoFloat64`;
* `AsBigFloat()`: `new(big.Float).SetInt(x.AsBigInt())` — a `big.Float` of precision 0 takes the larger of `x.BitLen()` and
  64 as its precision and then rounds `x` to that precision (`math/big/float.go`, `SetInt`). -/
namespace Conv

/-- `UnmarshalYAML`: `cb = none` — the callback returned an error (returned before anything else happens);
    `some s` — it stored the string `s`, which is then loaded (`order`: see `LoadOrder`; the code is `checkThenStore`) -/
def U128.unmarshalYAMLGen (order : LoadOrder) (recv : U128) (cb : Option (List Char)) : U128 × Bool :=
  match cb with
  | none => (recv, false)
  | some s => U128.loadGen order recv s
def I128.unmarshalYAMLGen (order : LoadOrder) (recv : I128) (cb : Option (List Char)) : I128 × Bool :=
  match cb with
  | none => (recv, false)
  | some s => I128.loadGen order recv s
def U128.unmarshalYAML (recv : U128) (cb : Option (List Char)) : U128 × Bool := U128.unmarshalYAMLGen .checkThenStore recv cb
def I128.unmarshalYAML (recv : I128) (cb : Option (List Char)) : I128 × Bool := I128.unmarshalYAMLGen .checkThenStore recv cb

/-- `Scan` as a method on a receiver: `tok = none` — `Token` returned an error; otherwise `scanText token verb` is loaded -/
def U128.scanIntoGen (order : LoadOrder) (recv : U128) (tok : Option (List Char)) (verb : Char) : U128 × Bool :=
  match tok with
  | none => (recv, false)
  | some t => U128.loadGen order recv (scanText t verb)
def I128.scanIntoGen (order : LoadOrder) (recv : I128) (tok : Option (List Char)) (verb : Char) : I128 × Bool :=
  match tok with
  | none => (recv, false)
  | some t => I128.loadGen order recv (scanText t verb)
def U128.scanInto (recv : U128) (tok : Option (List Char)) (verb : Char) : U128 × Bool :=
  U128.scanIntoGen .checkThenStore recv tok verb
def I128.scanInto (recv : I128) (tok : Option (List Char)) (verb : Char) : I128 × Bool :=
  I128.scanIntoGen .checkThenStore recv tok verb

/-- `Float64()`: `none` = `errNoFloat64`, for every value -/
def U128.float64Method (_ : U128) : Option GoSem.F64 := none
def I128.float64Method (_ : I128) : Option GoSem.F64 := none

/-- `nat.bitLen` -/
def bitLen (n : Nat) : Nat := if n = 0 then 0 else n.log2 + 1

/-- rounding an integer to `prec` significant bits, to nearest even (`big.Float.round` on an integer mantissa) -/
def roundToPrec (prec : Nat) (z : Int) : Int :=
  let n := z.natAbs
  if bitLen n ≤ prec then z
  else
    let sh := bitLen n - prec
    let q := n / 2^sh
    let r := n % 2^sh
    let half := 2^(sh - 1)
    let q' := if r > half ∨ (r = half ∧ q % 2 = 1) then q + 1 else q
    if z < 0 then -((q' * 2^sh : Nat) : Int) else ((q' * 2^sh : Nat) : Int)

/-- `SetInt(x)` on a `big.Float` whose precision was determined by `precOf` from the bit length of `x`:
    (precision, value after rounding to it) -/
def bigFloatSetIntGen (precOf : Nat → Nat) (x : Int) : Nat × Int :=
  let prec := precOf (bitLen x.natAbs)
  (prec, roundToPrec prec x)

/-- the code, `new(big.Float).SetInt(x)`: a fresh `big.Float` has precision 0, so `SetInt` chooses the larger of the bit
    length and 64 — THE mechanism that makes `AsBigFloat` exact -/
def bigFloatSetInt (x : Int) : Nat × Int := bigFloatSetIntGen (fun bits => max bits 64) x

/-- the variant with the precision fixed beforehand, `new(big.Float).SetPrec(64).SetInt(x)` (driver line `bigfloat64`,
    compared with math/big: it exercises the rounding branch of `roundToPrec`) -/
def bigFloatSetInt64 (x : Int) : Nat × Int := bigFloatSetIntGen (fun _ => 64) x

def U128.asBigFloat (u : U128) : Nat × Int := bigFloatSetInt u.asBigInt
def I128.asBigFloat (i : I128) : Nat × Int := bigFloatSetInt i.asBigInt

end Conv
