import Model.RateLimiter
/-! C16: the arithmetic of `rate/limiter.go` in Go's machine `int` (64-bit two's complement, wrap-around), transcribed
    expression by expression: `available := l.capacity - l.used`, the minimum with `p.capacity - p.used` along the
    parents, the test `available >= amount`, the charge `p.used += amount`, the ticker's guard
    `c.root.capacity-c.root.used > 0`.  `Model/RateLimiter.lean` decides the same questions on unbounded naturals
    (`fits`, `charge`); `Lemmas/RateLimiterInt.lean` proves that the two agree on every state the limiter can reach, and
    that the SUM form of the test (`p.used+amount > p.capacity`, round 6) does not.  Core-only. -/
namespace RL

/-- Go `int` arithmetic: the mathematical result reduced to `[-2^63, 2^63)` -/
def wrap64 (z : Int) : Int := (z + 9223372036854775808) % 18446744073709551616 - 9223372036854775808

/-- `pa := p.capacity - p.used` -/
def leftGo (cap used : Nat → Nat) (p : Nat) : Int := wrap64 ((cap p : Int) - (used p : Int))

/-- limiter.go:190-198 (and 74-82 in the ticker): `available := l.capacity - l.used; for p := l.parent; p != nil; … {
    pa := p.capacity - p.used; if pa < available { available = pa } }` — the chain is the limiter followed by its
    ancestors -/
def availGo (cap used : Nat → Nat) : List Nat → Int
  | [] => 0
  | l :: ps => ps.foldl (fun av p => if leftGo cap used p < av then leftGo cap used p else av) (leftGo cap used l)

/-- `if available >= amount` -/
def fitsGo (cap used : Nat → Nat) (ch : List Nat) (amt : Nat) : Bool := decide (availGo cap used ch ≥ (amt : Int))

/-- `l.used += amount` and the same for every ancestor, in machine ints -/
def chargeGo (used : Nat → Nat) (ch : List Nat) (amt : Nat) : Nat → Int :=
  fun x => if x ∈ ch then wrap64 ((used x : Int) + (amt : Int)) else (used x : Int)

/-- the ticker's guard `c.root.capacity-c.root.used > 0` -/
def rootGuardGo (cap used : Nat → Nat) : Bool := decide (leftGo cap used 0 > 0)

/-- the variant of the test written as a SUM (`seeded/ind6-c16-a`): `for p := l; p != nil; p = p.parent { if
    p.used+amount > p.capacity { return false } }`, in machine ints -/
def fitsSumGo (cap used : Nat → Nat) (ch : List Nat) (amt : Nat) : Bool :=
  ch.all (fun p => !decide (wrap64 ((used p : Int) + (amt : Int)) > (cap p : Int)))

/-! ### the DECISIONS of `Use` and of one iteration of the tick's service loop, on machine ints

A second transcription, independent of `fits` / `effCap` / `RL.micro`: the state is given as Go `int`s (`capI usedI : Nat →
Int`, every value in `[-2^63, 2^63)`), the amount is the Go `int` the caller passed, and every intermediate the code
computes is computed here — the running minimum of `effectiveCap()` (comparisons), `capacity - used` with wrap-around
(`wrap64` is Go's int64 arithmetic: the mathematical result reduced to `[-2^63, 2^63)`), its running minimum
`available`, the comparison with the amount, the charge `used += amount` with wrap-around — in the ORDER of limiter.go:170-209
and 65-94.  The driver runs `useDecI` next to the model's own decision on every `use` line. -/

/-- what `Use` / the service loop decides for one request -/
inductive UseDec | refuseNeg | refuseClosed | grantZero | refuseCap | grant | queue
deriving DecidableEq, Repr

/-- `effectiveCap()` (limiter.go:146-154): comparisons only -/
def effCapI (capI : Nat → Int) : List Nat → Int
  | [] => 0
  | l :: ps => ps.foldl (fun c p => if capI p < c then capI p else c) (capI l)

/-- limiter.go:190-198 / 74-82: `available := l.capacity - l.used; for p … { pa := p.capacity - p.used; if pa < available … }` -/
def availI (capI usedI : Nat → Int) : List Nat → Int
  | [] => 0
  | l :: ps => ps.foldl (fun av p => if wrap64 (capI p - usedI p) < av then wrap64 (capI p - usedI p) else av)
                (wrap64 (capI l - usedI l))

/-- `Use(amount)` (limiter.go:168-217), `ch` = the limiter followed by its ancestors -/
def useDecI (capI usedI : Nat → Int) (closed : Nat → Bool) (ch : List Nat) (l : Nat) (amt : Int) : UseDec :=
  if amt < 0 then .refuseNeg
  else if closed l then .refuseClosed
  else if amt = 0 then .grantZero
  else if amt > effCapI capI ch then .refuseCap
  else if availI capI usedI ch ≥ amt then .grant
  else .queue

/-- one iteration of the ticker's loop (limiter.go:65-94) for the request `(l, amt)` -/
def tickDecI (capI usedI : Nat → Int) (closed : Nat → Bool) (ch : List Nat) (l : Nat) (amt : Int) : UseDec :=
  if closed l then .refuseClosed
  else if amt > effCapI capI ch then .refuseCap
  else if wrap64 (capI 0 - usedI 0) > 0 ∧ availI capI usedI ch ≥ amt then .grant
  else .queue

/-- `l.used += amount` and the same for every ancestor (limiter.go:200-205 / 84-89) -/
def chargeI (usedI : Nat → Int) (ch : List Nat) (amt : Int) : Nat → Int :=
  fun x => if x ∈ ch then wrap64 (usedI x + amt) else usedI x

/-- the variant that ADDS before it compares (`p.used+amount > p.capacity`, the shape of `seeded/ind6-c16-a`) -/
def useDecSumI (capI usedI : Nat → Int) (closed : Nat → Bool) (ch : List Nat) (l : Nat) (amt : Int) : UseDec :=
  if amt < 0 then .refuseNeg
  else if closed l then .refuseClosed
  else if amt = 0 then .grantZero
  else if amt > effCapI capI ch then .refuseCap
  else if ch.all (fun p => !decide (wrap64 (usedI p + amt) > capI p)) then .grant
  else .queue

/-! the MODEL's decisions, read off `RL.micro` / `RL.plan` and `RL.service` (theorems `useDecN_is_exec`,
    `tickDecN_is_service` in `Lemmas/RateLimiterDec.lean` show that `RL.exec` and `RL.service` act on exactly these) -/

def useDecN (s : S) (l : Nat) (amt : Int) : UseDec :=
  if amt < 0 then .refuseNeg
  else if s.closed l then .refuseClosed
  else if amt.toNat = 0 then .grantZero
  else if amt.toNat > effCap s.cap (s.chain l) (s.cap l) then .refuseCap
  else if fits s.cap s.used (s.chain l) amt.toNat then .grant
  else .queue

def tickDecN (cap : Nat → Nat) (chain : Nat → List Nat) (closed : Nat → Bool) (used : Nat → Nat) (r : Req) : UseDec :=
  if closed r.lim then .refuseClosed
  else if r.amt > effCap cap (chain r.lim) (cap r.lim) then .refuseCap
  else if used 0 < cap 0 ∧ fits cap used (chain r.lim) r.amt = true then .grant
  else .queue

/-- what `exec` does with a decision -/
def applyUseDec (s : S) (l : Nat) (amt : Int) : UseDec → S
  | .refuseNeg => answer s .errNeg
  | .refuseClosed => answer s .errClosed
  | .grantZero => doUseZero s l
  | .refuseCap => answer s .errCap
  | .grant => doUseGrant s l amt.toNat
  | .queue => doUseWait s l amt.toNat

end RL
