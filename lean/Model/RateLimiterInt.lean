import Model.RateLimiter
/-! C16: the arithmetic of `rate/limiter.go` in Go's machine `int` (64-bit two's complement, wrap-around), transcribed
    expression by expression: `available := l.capacity - l.used`, the minimum with `p.capacity - p.used` along the
    parents, the test `available >= amount`, the charge `p.used += amount`, the ticker's guard
    `c.root.capacity-c.root.used > 0`.  `Model/RateLimiter.lean` decides the same questions on unbounded naturals
    (`fits`, `charge`); `Lemmas/RateLimiterInt.lean` proves that the two agree on every state the limiter can reach, and
    that the SUM form of the test (`p.used+amount > p.capacity`, round 6) does not.  Core-only. -/
namespace RL

/-- Go `int` arithmetic: the mathematical result reduced to `[-2^63, 2^63)` -/
def wrap64 (z : Int) : Int := (z + 9223372036854775808) % 18446744073709551616 - 9223372036854775808

/-- `pa := p.capacity - p.used` -/
def leftGo (cap used : Nat → Nat) (p : Nat) : Int := wrap64 ((cap p : Int) - (used p : Int))

/-- limiter.go:190-198 (and 74-82 in the ticker): `available := l.capacity - l.used; for p := l.parent; p != nil; … {
    pa := p.capacity - p.used; if pa < available { available = pa } }` — the chain is the limiter followed by its
    ancestors -/
def availGo (cap used : Nat → Nat) : List Nat → Int
  | [] => 0
  | l :: ps => ps.foldl (fun av p => if leftGo cap used p < av then leftGo cap used p else av) (leftGo cap used l)

/-- `if available >= amount` -/
def fitsGo (cap used : Nat → Nat) (ch : List Nat) (amt : Nat) : Bool := decide (availGo cap used ch ≥ (amt : Int))

/-- `l.used += amount` and the same for every ancestor, in machine ints -/
def chargeGo (used : Nat → Nat) (ch : List Nat) (amt : Nat) : Nat → Int :=
  fun x => if x ∈ ch then wrap64 ((used x : Int) + (amt : Int)) else (used x : Int)

/-- the ticker's guard `c.root.capacity-c.root.used > 0` -/
def rootGuardGo (cap used : Nat → Nat) : Bool := decide (leftGo cap used 0 > 0)

/-- the variant of the test written as a SUM (`seeded/ind6-c16-a`): `for p := l; p != nil; p = p.parent { if
    p.used+amount > p.capacity { return false } }`, in machine ints -/
def fitsSumGo (cap used : Nat → Nat) (ch : List Nat) (amt : Nat) : Bool :=
  ch.all (fun p => !decide (wrap64 ((used p : Int) + (amt : Int)) > (cap p : Int)))

end RL
