import Model.Mutex
/-! # Operations bracketed by a readers-writer lock (`sync.RWMutex`).  Core-only.

The machine of `Model/Mutex.lean` with the lock word split in two: an operation classified as a *read*
(`isRead op = true`: it is executed as `RLock(); … ; RUnlock()`) may enter its bracket while other readers are inside
theirs and is kept out only by a writer; every other operation (`Lock(); … ; Unlock()`) enters only when nobody is
inside.  Micro-steps of several readers interleave arbitrarily; the scheduler picks ANY enabled thread.  (Go's RWMutex
additionally keeps new readers out while a writer waits; that only removes schedules.)

`Lemmas/RWMutexLin.lean` proves: if the micro-steps of every operation compute a sequential reference function `run`
and the micro-steps of READ operations never change the shared state, then under every schedule the results every
goroutine obtained and the shared state are those of executing the brackets one at a time in the order in which they
ACQUIRED the lock — also while readers are still inside their brackets. -/
namespace RW
open Mutex (Sys Thread upd)

/-- `readers`: the threads inside a read bracket; `writer`: the thread inside a write bracket; `acq` is a ghost field
    (the acquisitions so far, oldest first) -/
structure Config (σ Op κ ρ : Type) where
  shared : σ
  writer : Option Nat
  readers : List Nat
  threads : Nat → Thread Op κ ρ
  acq : List (Nat × Op)

variable {σ Op κ ρ : Type}

def init (s₀ : σ) (progs : Nat → List Op) : Config σ Op κ ρ :=
  { shared := s₀, writer := none, readers := [],
    threads := fun t => { todo := progs t, cur := none, res := [] }, acq := [] }

/-- may thread `t` enter the bracket of `op` now -/
def admits (isRead : Op → Bool) (c : Config σ Op κ ρ) (op : Op) : Bool :=
  if isRead op then c.writer.isNone else c.writer.isNone && c.readers.isEmpty

/-- thread `t` takes one step; `none` = `t` is not enabled (finished, or kept out by the lock) -/
def step (S : Sys σ Op κ ρ) (isRead : Op → Bool) (c : Config σ Op κ ρ) (t : Nat) : Option (Config σ Op κ ρ) :=
  match (c.threads t).cur with
  | none =>
    match (c.threads t).todo with
    | [] => none
    | op :: rest =>
      if admits isRead c op then
        some { c with
          writer := if isRead op then c.writer else some t,
          readers := if isRead op then t :: c.readers else c.readers,
          threads := upd c.threads t { c.threads t with todo := rest, cur := some (op, S.start op) },
          acq := c.acq ++ [(t, op)] }
      else none
  | some (op, k) =>
    match S.done k with
    | some r => some { c with
        writer := if isRead op then c.writer else none,
        readers := if isRead op then c.readers.filter (fun u => u != t) else c.readers,
        threads := upd c.threads t { c.threads t with cur := none, res := (c.threads t).res ++ [r] } }
    | none => some { c with
        shared := (S.micro k c.shared).2,
        threads := upd c.threads t { c.threads t with cur := some (op, (S.micro k c.shared).1) } }

def exec (S : Sys σ Op κ ρ) (isRead : Op → Bool) : Config σ Op κ ρ → List Nat → Option (Config σ Op κ ρ)
  | c, [] => some c
  | c, t :: ts =>
    match step S isRead c t with
    | none => none
    | some c' => exec S isRead c' ts

end RW
