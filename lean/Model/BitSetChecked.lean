import Model.BitSet
/-! C08: the same transcription with CHECKED word accesses.

`Model/BitSet.lean` keeps its functions total by reading absent words as zero (`getW`) and by letting `List.set` ignore
an index past the end; Go would panic there ("index out of range").  Here every `b.data[i]` read is `getW?` and every
`b.data[i] = w` write is `setW?`; both are `none` exactly when `i` is not below the length of the slice, and a slice
expression `s[n:]` is `none` when `n > len(s)`.  So `none` = the real code panics, and the theorems of
`Lemmas/BitSetBounds.lean` (`C08.all_accesses_in_bounds`) say that this never happens: every checked operation
returns `some` of what the total model computes, on every state.  Core-only; the driver executes these. -/
namespace BS

/-- `d[i]` as Go executes it -/
def getW? (d : List W) (i : Nat) : Option W := d[i]?
/-- `d[i] = w` as Go executes it -/
def setW? (d : List W) (i : Nat) (w : W) : Option (List W) := if i < d.length then some (d.set i w) else none

def stateC (b : T) (index : Nat) : Option Bool :=
  let i := wordIdx index
  if i ≥ b.data.length then some false
  else do
    let w ← getW? b.data i
    let mask := wordMask index
    some ((w &&& mask) == mask)

def setBitC (b : T) (index : Nat) : Option T := do
  let i := wordIdx index
  let b := ensureCapacity b (i + 1)
  let mask := wordMask index
  let w ← getW? b.data i
  if (w &&& mask) == 0#64 then do
    let d ← setW? b.data i (w ||| mask)
    some { data := d, set := b.set + 1 }
  else some b

/-- CONTRAST (not the code): `Set` with the call of `EnsureCapacity` dropped -/
def setBitNoEnsureC (b : T) (index : Nat) : Option T := do
  let i := wordIdx index
  let mask := wordMask index
  let w ← getW? b.data i
  if (w &&& mask) == 0#64 then do
    let d ← setW? b.data i (w ||| mask)
    some { data := d, set := b.set + 1 }
  else some b

def clearBitC (b : T) (index : Nat) : Option T :=
  let i := wordIdx index
  if i < b.data.length then do
    let mask := wordMask index
    let w ← getW? b.data i
    if (w &&& mask) == mask then do
      let d ← setW? b.data i (w &&& ~~~mask)
      some { data := d, set := b.set - 1 }
    else some b
  else some b

def flipBitC (b : T) (index : Nat) : Option T := do
  let i := wordIdx index
  let b := ensureCapacity b (i + 1)
  let mask := wordMask index
  let w0 ← getW? b.data i
  let w := w0 ^^^ mask
  let d ← setW? b.data i w
  some { data := d, set := if (w &&& mask) == mask then b.set + 1 else b.set - 1 }

/-- the word loop of the range operations; every iteration reads and writes `b.data[i]` -/
def rangeLoopC (whole : W → Int → W × Int) (bit : W → Int → Nat → W × Int) (i1 i2 lastBit : Nat)
    (d : List W) (set : Int) (i j : Nat) : Nat → Option (List W × Int)
  | 0 => some (d, set)
  | n + 1 => do
    let w ← getW? d i
    if i != i1 && i != i2 then
      let r := whole w set
      let d' ← setW? d i r.1
      rangeLoopC whole bit i1 i2 lastBit d' r.2 (i + 1) j n
    else
      let last := if i == i2 then lastBit + 1 else dbpw
      let r := bitLoop bit w set j (last - j)
      let d' ← setW? d i r.1
      rangeLoopC whole bit i1 i2 lastBit d' r.2 (i + 1) 0 n

def runRangeC (whole : W → Int → W × Int) (bit : W → Int → Nat → W × Int) (b : T) (start end_ i1 i2 : Nat) : Option T := do
  let j := bitIndexForMask (wordMask start)
  let r ← rangeLoopC whole bit i1 i2 (bitIndexForMask (wordMask end_)) b.data b.set i1 j (i2 + 1 - i1)
  some { data := r.1, set := r.2 }

def setRangeC (b : T) (start end_ : Nat) : Option T :=
  let se := if start > end_ then (end_, start) else (start, end_)
  let i1 := wordIdx se.1
  let i2 := wordIdx se.2
  let b := ensureCapacity b (i2 + 1)
  runRangeC wholeSet bitSet b se.1 se.2 i1 i2

def clearRangeC (b : T) (start end_ : Nat) : Option T :=
  let se := if start > end_ then (end_, start) else (start, end_)
  let len := b.data.length
  let i1 := wordIdx se.1
  if i1 + 1 > len then some b
  else
    let i2 := wordIdx se.2
    let ie := if i2 + 1 > len then (len - 1, (len <<< abpw) - 1) else (i2, se.2)
    runRangeC wholeClear bitClear b se.1 ie.2 i1 ie.1

def flipRangeC (b : T) (start end_ : Nat) : Option T :=
  let se := if start > end_ then (end_, start) else (start, end_)
  let i1 := wordIdx se.1
  let i2 := wordIdx se.2
  let b := ensureCapacity b (i2 + 1)
  runRangeC wholeFlip bitFlip b se.1 se.2 i1 i2

/-- CONTRAST (not the code): `ClearRange` without the clamp of `i2` to the last word -/
def clearRangeNoClampC (b : T) (start end_ : Nat) : Option T :=
  let se := if start > end_ then (end_, start) else (start, end_)
  let i1 := wordIdx se.1
  if i1 + 1 > b.data.length then some b
  else runRangeC wholeClear bitClear b se.1 se.2 i1 (wordIdx se.2)

def nextLoopC (skip : W) (test : W → W → Bool) (d : List W) (i firstBit : Nat) : Nat → Option (Option Nat)
  | 0 => some none
  | n + 1 => do
    let word ← getW? d i
    match (if word != skip then scanUp test word firstBit (dbpw - firstBit) else none) with
    | some j => some (some (i <<< abpw + j))
    | none => nextLoopC skip test d (i + 1) 0 n

def prevLoopC (skip : W) (test : W → W → Bool) (d : List W) (firstBit : Nat) : Nat → Option (Option Nat)
  | 0 => some none
  | i + 1 => do
    let word ← getW? d i
    match (if word != skip then scanDown test word (firstBit + 1) else none) with
    | some j => some (some (i <<< abpw + j))
    | none => prevLoopC skip test d 63 i

def nextSetC (b : T) (start : Nat) : Option Int := do
  let i := wordIdx start
  let firstBit := bitIndexForMask (wordMask start)
  let maximum := b.data.length
  match ← nextLoopC 0#64 testSet b.data i firstBit (maximum - i) with
  | some r => some (Int.ofNat r)
  | none => some (-1)

def previousSetC (b : T) (start : Nat) : Option Int := do
  let i := wordIdx start
  let p := if i + 1 > b.data.length then (b.data.length, 63) else (i + 1, bitIndexForMask (wordMask start))
  match ← prevLoopC 0#64 testSet b.data p.2 p.1 with
  | some r => some (Int.ofNat r)
  | none => some (-1)

def firstSetC (b : T) : Option Int := nextSetC b 0
def lastSetC (b : T) : Option Int := previousSetC b (b.data.length <<< abpw)

def previousClearC (b : T) (start : Nat) : Option Int :=
  let i := wordIdx start
  if i + 1 > b.data.length then some (Int.ofNat start)
  else do
    let firstBit := bitIndexForMask (wordMask start)
    match ← prevLoopC (BitVec.allOnes 64) testClear b.data firstBit (i + 1) with
    | some r => some (Int.ofNat r)
    | none => some (-1)

def nextClearC (b : T) (start : Nat) : Option Int := do
  let i := wordIdx start
  let firstBit := bitIndexForMask (wordMask start)
  let maximum := b.data.length
  match ← nextLoopC (BitVec.allOnes 64) testClear b.data i firstBit (maximum - i) with
  | some r => some (Int.ofNat r)
  | none => some (Int.ofNat (max (maximum * dbpw) start))

/-- CONTRAST (not the code): `PreviousSet` without the clamp of `i` to the last word -/
def previousSetNoClampC (b : T) (start : Nat) : Option Int := do
  match ← prevLoopC 0#64 testSet b.data (bitIndexForMask (wordMask start)) (wordIdx start + 1) with
  | some r => some (Int.ofNat r)
  | none => some (-1)

def trimLoopC (d : List W) : Nat → Option (Option Nat)
  | 0 => some none
  | i + 1 => do
    let w ← getW? d i
    if w != 0#64 then some (some (i + 1)) else trimLoopC d i

def trimC (b : T) : Option T := do
  let size := b.data.length
  match ← trimLoopC b.data size with
  | some i => some (if i != size then { b with data := b.data.take i } else b)
  | none => some { b with data := [] }

def dataC (b : T) : Option (T × List W) := do
  let b ← trimC b
  some (b, b.data)

/-- the counting loop of `Load` indexes the ARGUMENT (`word := data[i]`) with `i` below the trimmed length -/
def loadLoopC (data : List W) (set : Int) : Nat → Option Int
  | 0 => some set
  | i + 1 => do
    let word ← getW? data i
    loadLoopC data (if word != 0#64 then loadBits word set 0 dbpw else set) i

def loadC (b : T) (data : List W) : Option T := do
  let b ← trimC { b with data := data }
  let s ← loadLoopC data 0 b.data.length
  some { data := b.data, set := s }

/-- `for i := range shorter { if shorter[i] != longer[i] { return false } }`; the last argument is `len(shorter) - i` -/
def prefixEqC (s l : List W) (i : Nat) : Nat → Option Bool
  | 0 => some true
  | n + 1 => do
    let x ← getW? s i
    let y ← getW? l i
    if x != y then some false else prefixEqC s l (i + 1) n

/-- `for _, word := range longer[len(shorter):]` — the slice expression panics when `len(shorter) > len(longer)` -/
def tailZeroC (l : List W) (from_ : Nat) : Option Bool :=
  if from_ ≤ l.length then some (allZero (l.drop from_)) else none

def equalC (b other : T) : Option Bool :=
  if b.set != other.set then some false
  else do
    let sl := if b.data.length > other.data.length then (other.data, b.data) else (b.data, other.data)
    let p ← prefixEqC sl.1 sl.2 0 sl.1.length
    if !p then some false else tailZeroC sl.2 sl.1.length

/-- CONTRAST (not the code): `Equal` without the swap to (shorter, longer) -/
def equalNoSwapC (b other : T) : Option Bool :=
  if b.set != other.set then some false
  else do
    let p ← prefixEqC b.data other.data 0 b.data.length
    if !p then some false else tailZeroC other.data b.data.length

/-- one call of a history, checked -/
def applyOpC (p : Pair) : Op → Option Pair
  | .set r i => do some (p.put r (← setBitC (p.get r) i))
  | .clear r i => do some (p.put r (← clearBitC (p.get r) i))
  | .flip r i => do some (p.put r (← flipBitC (p.get r) i))
  | .setRange r s e => do some (p.put r (← setRangeC (p.get r) s e))
  | .clearRange r s e => do some (p.put r (← clearRangeC (p.get r) s e))
  | .flipRange r s e => do some (p.put r (← flipRangeC (p.get r) s e))
  | .load r ws => do some (p.put r (← loadC (p.get r) ws))
  | .copy r q => some (p.put r (copy (p.get r) (p.get q)))
  | .clone r q => some (p.put r (clone (p.get q)))
  | .trim r => do some (p.put r (← trimC (p.get r)))
  | .ensure r n => some (p.put r (ensureCapacity (p.get r) n))
  | .reset r => some (p.put r (reset (p.get r)))
  | .data r => do some (p.put r (← dataC (p.get r)).1)
  | .loadData r q => do
    let d ← dataC (p.get q)
    let p := p.put q d.1
    some (p.put r (← loadC (p.get r) d.2))

/-- a whole history, checked: `none` as soon as one word access is out of range -/
def runC (ops : List Op) : Option Pair := ops.foldlM applyOpC {}

end BS
