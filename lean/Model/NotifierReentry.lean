import Model.Notifier
/-! C17: targets that call back into a notifier from inside `HandleNotification` / `BatchMode`.  Core Lean only.

`Nt.step` (Model/Notifier.lean) treats a callback as an opaque event.  Here a callback may itself perform an exported
call: the harness has two such targets (6: from `HandleNotification`; 10: from `HandleNotification` and from
`BatchMode`), which execute an *armed* operation — any of Register / Unregister / RegisterFromNotifier / SetEnabled /
Reset / StartBatch / EndBatch / Notify on any notifier — at their next callback.

The delivery loops are re-executed with the world THREADED THROUGH them, statement for statement as in the Go source:

    n.lock.Lock(); …registry work…; targets = <snapshot>; n.lock.Unlock()
    for _, target := range targets { n.notifyTarget(target, …) }        // the loop ranges over the local snapshot

`notifyTarget` is a frame with `defer errs.Recovery(handler)`; its body calls the target; the target's method records the
call, performs the armed operation as a complete exported call on the world as it is AT THAT MOMENT (`Nt.step`; what it
delivers is observed before the outer callback returns), and then returns or panics.  Whatever the nested call does to
the registry, the outer loop goes on with the snapshot it took (`stepRe`).  `stepLive` is the variant WITHOUT the
snapshot (each iteration asks the registry whether the target is still wanted): not the code, used for the contrast. -/
namespace Nt

/-- the harness' table of re-entrant callbacks: target 6 calls back from `HandleNotification`, target 10 from
    `HandleNotification` and from `BatchMode` (fixed per target, like `batchCapable`; no theorem depends on the table) -/
def reentersOn : Event → Bool
  | .handle _ t _ _ => t == 6 || t == 10
  | .batchMode _ t _ => t == 10
  | .recovered .. => false

/-- the worlds of all notifiers and the operation the re-entrant targets will perform at their next callback -/
abbrev ReSt := World × Option Op

/-- what the target does inside the callback observed as `e`: the armed operation, if any and if this is a re-entrant
    callback, as a complete exported call on the current world; the arm is consumed (it fires once) -/
def fire (pan : Nat → Bool) (e : Event) (st : ReSt) : ReSt × List Event :=
  match st.2 with
  | some op => if reentersOn e then (((step pan st.1 op).1, none), (step pan st.1 op).2) else (st, [])
  | none => (st, [])

/-- the body of a target's method: the call is observed, the target does `inner` (calls back), then returns or panics -/
def callTargetWith (pan : Nat → Bool) (e : Event) (t : Nat) (inner : List Event) : Run :=
  ⟨e :: inner, if pan t then some t else none⟩

/-- `notifyTarget` / `notifyBatchTarget` of notifier `n` on a target that may call back: a frame with the deferred
    `errs.Recovery(handler)` around the target's method -/
def cbRe (pan : Nat → Bool) (n : Nat) (c : Event × Nat) (st : ReSt) : ReSt × Run :=
  ((fire pan c.1 st).1, frame (callTargetWith pan c.1 c.2 (fire pan c.1 st).2) (recovery (handlerKind n) n c.2))

/-- `for _, x := range snapshot { f(x) }` with the world threaded through; a panic that leaves `f` ends the loop -/
def loopRe (f : Event × Nat → ReSt → ReSt × Run) : List (Event × Nat) → ReSt → ReSt × Run
  | [], st => (st, Run.skip)
  | c :: cs, st =>
    match (f c st).2.out with
    | none => ((loopRe f cs (f c st).1).1, ⟨(f c st).2.trace ++ (loopRe f cs (f c st).1).2.trace, (loopRe f cs (f c st).1).2.out⟩)
    | some _ => f c st

/-- the snapshot of `NotifyWithData` as callbacks -/
def handleCbs (n : Nat) (name : Name) (ds : List (Int × Nat)) : List (Event × Nat) :=
  ds.map (fun d => (Event.handle n d.2 name d.1, d.2))

/-- the snapshot of `StartBatch` / `EndBatch` as callbacks -/
def batchCbs (n : Nat) (start : Bool) (ts : List Nat) : List (Event × Nat) :=
  ts.map (fun t => (Event.batchMode n t start, t))

/-- one exported call made from the outside while `st.2` is armed: the registry work of the call (under the lock), then
    the loop over the snapshot with the lock free -/
def stepRe (pan : Nat → Bool) (st : ReSt) : Op → ReSt × List Event
  | .notify n raw =>
    let r := loopRe (cbRe pan n) (handleCbs n (normalize raw) (notify (st.1 n) raw)) st
    (r.1, r.2.trace)
  | .startBatch n =>
    let r := loopRe (cbRe pan n) (batchCbs n true (startBatch (st.1 n)).2) (st.1.set n (startBatch (st.1 n)).1, st.2)
    (r.1, r.2.trace)
  | .endBatch n =>
    let r := loopRe (cbRe pan n) (batchCbs n false (endBatch (st.1 n)).2) (st.1.set n (endBatch (st.1 n)).1, st.2)
    (r.1, r.2.trace)
  | op => (((step pan st.1 op).1, st.2), (step pan st.1 op).2)

/-! ### the variant without a snapshot (NOT the code): before each callback the registry is asked again -/

/-- is target `t` still to be notified by `n` for `raw` in world `w` -/
def stillWanted (w : World) (n : Nat) (raw : List Nat) (t : Nat) : Bool :=
  (w n).enabled && (assocGet (gather (w n).prod (prefixes (normalize raw))) t).isSome

/-- `Notify` that re-validates each target against the live registry before calling it -/
def notifyLive (pan : Nat → Bool) (n : Nat) (raw : List Nat) : List (Int × Nat) → ReSt → ReSt × List Event
  | [], st => (st, [])
  | d :: ds, st =>
    if stillWanted st.1 n raw d.2 then
      let r := cbRe pan n (Event.handle n d.2 (normalize raw) d.1, d.2) st
      let r' := notifyLive pan n raw ds r.1
      (r'.1, r.2.trace ++ r'.2)
    else notifyLive pan n raw ds st

end Nt
