/-! C19: a file-system model (directories with modes, regular files as inodes with content and mode, symbolic links,
    hard links = shared inodes) and the tar / zip extractors of `xio/fs/tar/untar.go`, `xio/fs/zip/unzip.go` and the
    guard `xio/fs/internal/symlinks.go`, written branch for branch.  Core Lean only.

    Strings are byte lists (`List Nat`), paths are lists of components counted from `/`.
    This model is *lexical*: a system call on a path looks the path up as written, a symbolic link is an opaque leaf.
    It is NOT what the driver executes and it cannot, by itself, say anything about writing through links; it is the
    proof device of `Props/C19.lean`.  The executed model is `Model/ExtractR.lean` (the kernel's link-following
    resolution); `C19.resolving_is_lexical` (Lemmas/ExtractREq.lean) PROVES that the two coincide when the extractors
    call `EnsureNoSymlinks` and the destination is not below (or itself) a link, and `C19.guardless_escapes` that they
    do not without the guard. -/
namespace Ex

abbrev Comp := List Nat
abbrev P := List Comp

inductive Nd
  | dir (mode : Nat)
  | file (ino : Nat)
  | symlink (target : List Nat)
deriving Repr, BEq, DecidableEq

structure Inode where
  data : List Nat
  mode : Nat
deriving Repr, BEq, DecidableEq

structure FS where
  nodes : List (P × Nd) := []
  inodes : Array Inode := #[]     -- hard links share an inode (content and mode)

def FS.get (fs : FS) (p : P) : Option Nd := (fs.nodes.find? (·.1 == p)).map (·.2)
def FS.put (fs : FS) (p : P) (n : Nd) : FS := { fs with nodes := fs.nodes.filter (·.1 != p) ++ [(p, n)] }

/-! ### path arithmetic: strings.Split, filepath.Join/Clean, the textual prefix test -/

/-- `strings.Split(s, "/")` -/
def splitSlash : List Nat → List (List Nat)
  | [] => [[]]
  | c :: t =>
    if c = 47 then [] :: splitSlash t
    else match splitSlash t with
      | h :: r => (c :: h) :: r
      | [] => [[c]]

/-- one step of `filepath.Clean` on a rooted path -/
def cleanStep (acc : P) (seg : List Nat) : P :=
  if seg = [] ∨ seg = [46] then acc
  else if seg = [46, 46] then acc.dropLast      -- ".." ; at "/" it stays at "/"
  else acc ++ [seg]

/-- `filepath.Join(root, name)` for a clean absolute `root` -/
def cleanJoin (root : P) (name : List Nat) : P := (splitSlash name).foldl cleanStep root

/-- `filepath.Abs(dst)`, the first statement of both `ExtractWithMask`: an absolute `dst` is cleaned, a relative one
    (the empty string included) is joined to the working directory and cleaned.  `cwd` is what `os.Getwd` returns, a
    clean absolute path.  (A failing `Getwd` — the working directory was removed: `absPath?` below.) -/
def absPath (cwd : P) (dst : List Nat) : P :=
  if dst.head? = some 47 then cleanJoin [] dst else cleanJoin cwd dst

/-- `filepath.Abs(dst)` with a working directory that may be gone (`cwd = none`: `os.Getwd` fails, the directory the
    process stands in was removed): a relative spelling then is an error (`none`), an absolute one never asks for the
    working directory -/
def absPath? (cwd : Option P) (dst : List Nat) : Option P :=
  if dst.head? = some 47 then some (cleanJoin [] dst) else cwd.map (fun c => cleanJoin c dst)

/-- the text of an absolute path: "/a/b" (the file-system root itself is never a destination) -/
def render (p : P) : List Nat := p.flatMap (fun c => 47 :: c)

/-- `strings.HasPrefix(path, root + "/") || (path == root && isDir)` -/
def lexOK (root path : P) (isDir : Bool) : Bool :=
  (render root ++ [47]).isPrefixOf (render path) || (render path == render root && isDir)

/-! ### the guard `internal.EnsureNoSymlinks` -/

/-- the `Lstat` walk from component `i` on; a regular file in the middle makes the next `Lstat` fail with `ENOTDIR`,
    which is not `IsNotExist` and therefore an error -/
def noSymFrom (fs : FS) (p : P) : Nat → Nat → Bool
  | 0, _ => true
  | fuel+1, i =>
    if i > p.length then true else
    match fs.get (p.take i) with
    | none => true
    | some (.symlink _) => false
    | some (.file _) => decide (i = p.length)
    | some (.dir _) => noSymFrom fs p fuel (i + 1)

def ensureNoSymlinks (fs : FS) (root p : P) : Bool :=
  if p = root then                       -- Rel = ".": one Lstat of the root itself
    match fs.get root with
    | some (.symlink _) => false
    | _ => true
  else
    match fs.get root with
    | some (.file _) => false            -- Lstat(root/x) = ENOTDIR
    | _ => noSymFrom fs p (p.length + 1) (root.length + 1)

/-! ### system calls -/

/-- `os.MkdirAll(p, mode)` as a recursion over the prefix length; `none` = error -/
def mkdirFrom (p : P) (mode : Nat) : Nat → Nat → FS → Option FS
  | 0, _, fs => some fs
  | fuel+1, i, fs =>
    if i > p.length then some fs else
    match fs.get (p.take i) with
    | none => mkdirFrom p mode fuel (i + 1) (fs.put (p.take i) (.dir mode))
    | some (.dir _) => mkdirFrom p mode fuel (i + 1) fs
    | some _ => none
def mkdirAll (fs : FS) (p : P) (mode : Nat) : Option FS := mkdirFrom p mode (p.length + 1) 1 fs

/-- the directory that has to exist for a node to be created at `p` -/
def parentIsDir (fs : FS) (p : P) : Bool :=
  if p.length < 2 then true else
  match fs.get p.dropLast with
  | some (.dir _) => true
  | _ => false

def setData (a : Array Inode) (ino : Nat) (data : List Nat) : Array Inode :=
  match a[ino]? with
  | some n => a.setIfInBounds ino { n with data := data }
  | none => a

/-- `os.OpenFile(p, O_CREATE|O_WRONLY|O_TRUNC, mode)`, write `data`, close.  An existing file keeps its mode and its
    inode (so every hard link of it sees the new content) -/
def writeFile (fs : FS) (p : P) (mode : Nat) (data : List Nat) : Option FS :=
  match fs.get p with
  | some (.dir _) => none                  -- EISDIR
  | some (.symlink _) => none              -- not reached after the guard
  | some (.file ino) => some { fs with inodes := setData fs.inodes ino data }
  | none =>
    if parentIsDir fs p then
      some (({ fs with inodes := fs.inodes.push { data := data, mode := mode } }).put p (.file fs.inodes.size))
    else none

/-- `os.Symlink(target, p)` -/
def symlinkAt (fs : FS) (target : List Nat) (p : P) : Option FS :=
  if target = [] then none                 -- ENOENT
  else match fs.get p with
    | some _ => none                       -- EEXIST
    | none => if parentIsDir fs p then some (fs.put p (.symlink target)) else none

/-- `os.Link(target, p)` -/
def linkAt (fs : FS) (target p : P) : Option FS :=
  match fs.get target with
  | some (.file ino) =>
    (match fs.get p with
     | some _ => none                      -- EEXIST
     | none => if parentIsDir fs p then some (fs.put p (.file ino)) else none)
  | _ => none                              -- ENOENT, or EPERM for a directory

/-! ### the extractors -/

inductive Kind | reg | dir | symlink | link | other | corrupt
deriving BEq, DecidableEq, Repr

/-- an archive entry as the reader yields it.  `data` are the payload bytes that can be read, `short` says that the
    reader reports an error after them (tar: fewer bytes present than the header declares; zip: checksum mismatch).
    `link` is the link name (tar) or the payload of a symlink entry (zip).  `Kind.corrupt` is a tar header the reader
    rejects, or a zip file / symbolic-link entry whose `Open()` fails (unsupported compression method, bad local
    header) — both extractors return the error before anything is created for that entry. -/
structure Entry where
  kind : Kind
  name : List Nat
  mode : Nat := 0o644
  data : List Nat := []
  short : Bool := false
  link : List Nat := []

/-- `FileMode.Perm()` -/
def perm (m : Nat) : Nat := m % 512

/-- one iteration of the loop of tar `ExtractWithMask`; the Bool is "no error"; effects before an error stay -/
def tarOne (fs : FS) (root : P) (mask : Nat) (e : Entry) : FS × Bool :=
  if e.kind = .corrupt then (fs, false) else          -- tr.Next() fails
  let path := cleanJoin root e.name
  if !lexOK root path (e.kind == .dir) then (fs, false)
  else if !ensureNoSymlinks fs root path then (fs, false)
  else match e.kind with
    | .reg =>
      match mkdirAll fs path.dropLast (0o755 &&& mask) with
      | none => (fs, false)
      | some fs1 =>
        match writeFile fs1 path (perm e.mode &&& mask) e.data with
        | none => (fs1, false)
        | some fs2 => (fs2, !e.short)              -- the error of io.Copy is returned
    | .link =>
      match mkdirAll fs path.dropLast (0o755 &&& mask) with
      | none => (fs, false)
      | some fs1 =>
        let target := cleanJoin root e.link
        if !lexOK root target false then (fs1, false)
        else if !ensureNoSymlinks fs1 root target then (fs1, false)
        else match linkAt fs1 target path with
          | none => (fs1, false)
          | some fs2 => (fs2, true)
    | .symlink =>
      match mkdirAll fs path.dropLast (0o755 &&& mask) with
      | none => (fs, false)
      | some fs1 =>
        match symlinkAt fs1 e.link path with
        | none => (fs1, false)
        | some fs2 => (fs2, true)
    | .dir =>
      match mkdirAll fs path (perm e.mode &&& mask) with
      | none => (fs, false)
      | some fs1 => (fs1, true)
    | _ => (fs, true)                              -- other type flags are skipped

/-- how zip `ExtractWithMask` classifies an entry: symlink bit first, then `IsDir` (mode bit or trailing slash) -/
def zipKind (symBit dirBit : Bool) (name : List Nat) : Kind :=
  if symBit then .symlink
  else if dirBit || name.getLast? == some 47 then .dir
  else .reg

/-- one iteration of the loop of zip `ExtractWithMask` -/
def zipOne (fs : FS) (root : P) (mask : Nat) (e : Entry) : FS × Bool :=
  let path := cleanJoin root e.name
  if !lexOK root path (e.kind == .dir) then (fs, false)
  else if !ensureNoSymlinks fs root path then (fs, false)
  else match e.kind with
    | .symlink =>
      if e.short then (fs, false) else             -- io.ReadAll fails before anything is created
      match mkdirAll fs path.dropLast (0o755 &&& mask) with
      | none => (fs, false)
      | some fs1 =>
        match symlinkAt fs1 e.link path with
        | none => (fs1, false)
        | some fs2 => (fs2, true)
    | .dir =>
      match mkdirAll fs path (perm e.mode &&& mask) with
      | none => (fs, false)
      | some fs1 => (fs1, true)
    | .corrupt => (fs, false)                      -- f.Open() fails (unsupported method, bad local header): nothing is created
    | _ =>
      match mkdirAll fs path.dropLast (0o755 &&& mask) with
      | none => (fs, false)
      | some fs1 =>
        match writeFile fs1 path (perm e.mode &&& mask) e.data with
        | none => (fs1, false)
        | some fs2 => (fs2, !e.short)

/-- the loop: the first failing entry stops the extraction -/
def extractWith (one : FS → Entry → FS × Bool) (fs : FS) : List Entry → FS × Bool
  | [] => (fs, true)
  | e :: es =>
    match one fs e with
    | (fs', false) => (fs', false)
    | (fs', true) => extractWith one fs' es

def tarExtract (fs : FS) (root : P) (mask : Nat) (es : List Entry) : FS × Bool :=
  extractWith (fun fs e => tarOne fs root mask e) fs es
def zipExtract (fs : FS) (root : P) (mask : Nat) (es : List Entry) : FS × Bool :=
  extractWith (fun fs e => zipOne fs root mask e) fs es

/-! ### the exported wrappers -/

/-- the mask `Extract` and `ExtractArchive` pass on (both packages): `ExtractWithMask(…, dst, 0o777)` -/
def defaultMask : Nat := 0o777

/-- tar / zip `Extract(r, dst)` -/
def tarExtractDefault (fs : FS) (root : P) (es : List Entry) : FS × Bool := tarExtract fs root defaultMask es
def zipExtractDefault (fs : FS) (root : P) (es : List Entry) : FS × Bool := zipExtract fs root defaultMask es

/-- tar / zip `ExtractArchiveWithMask(src, dst, mask)`: `opened = false` when `os.Open` / `zip.OpenReader` fails (no
    such file; for zip also a file without a central directory) — an error, nothing else happens; otherwise the
    reader form runs on the file's entries and the file is closed -/
def tarExtractArchiveWithMask (opened : Bool) (fs : FS) (root : P) (mask : Nat) (es : List Entry) : FS × Bool :=
  if opened then tarExtract fs root mask es else (fs, false)
def zipExtractArchiveWithMask (opened : Bool) (fs : FS) (root : P) (mask : Nat) (es : List Entry) : FS × Bool :=
  if opened then zipExtract fs root mask es else (fs, false)

/-- tar / zip `ExtractArchive(src, dst)` -/
def tarExtractArchive (opened : Bool) (fs : FS) (root : P) (es : List Entry) : FS × Bool :=
  tarExtractArchiveWithMask opened fs root defaultMask es
def zipExtractArchive (opened : Bool) (fs : FS) (root : P) (es : List Entry) : FS × Bool :=
  zipExtractArchiveWithMask opened fs root defaultMask es

end Ex
