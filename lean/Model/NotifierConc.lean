import Model.Notifier
import Model.Mutex
import Model.RWMutex
/-! C17, concurrent use: one notifier, its mutex, several goroutines.  Core Lean only.

Every exported method of `notifier.Notifier` is a sequence of *lock brackets* on the notifier's `sync.RWMutex`
(`ROp`, executed by the generic machine of `Model/Mutex.lean` with the micro-steps `sys`: the loops of `Register`,
`Unregister` and of the ancestor walk are one micro-step per iteration, so intermediate states exist in the model)
followed by an *unlocked phase* that works on goroutine-local data only (`Local`): sorting the collected table
(`sort.Slice` runs after `RUnlock`) and calling `HandleNotification` / `BatchMode` on the local snapshot, one callback per
step.  `cstep` interleaves both kinds of steps of all goroutines under an arbitrary scheduler.

    Register            = [register]            Unregister = [unregister]     SetEnabled = [setEnabled]   Reset = [reset]
    Enabled             = [enabledQ]            BatchLevel = [levelQ]
    StartBatch          = [startSnap] ; BatchMode(true)  on the returned slice (unlocked)
    EndBatch            = [endSnap]   ; BatchMode(false) on the returned slice (unlocked)
    Notify/NotifyWithData = [enabledQ] ; [collect] ; sort (unlocked, local) ; HandleNotification on the list (unlocked)
    RegisterFromNotifier  = [copyOut] on the source notifier ; [mergeIn copy] on the destination (two mutexes, the copy
                            travels in goroutine-local variables; this file models ONE notifier, so the two halves
                            appear as separate operations and the copy as an argument)

What is abstracted: read brackets (`RLock`) are treated as exclusive (they do not write, `rrun_read_pure`, so any overlap
of readers is equivalent to a serial order of them); Go slices/maps handed out of a bracket are immutable values here
(that nobody writes the backing array of a snapshot after it left the bracket is exactly what `go test -race` watches);
the callbacks themselves are opaque events (a target that calls back into the notifier is exercised by the
deterministic stream, not by this model); memory-model details below "every access to the maps is inside a bracket". -/
namespace NtC
open Nt

/-- what runs inside ONE lock bracket -/
inductive ROp where
  | register (t : Nat) (prio : Int) (raws : List (List Nat))
  | unregister (t : Nat)
  | setEnabled (b : Bool)
  | reset
  | enabledQ
  | levelQ
  | startSnap
  | endSnap
  | collect (raw : List Nat)
  | copyOut
  | mergeIn (prod : PMap) (names : NMap) (batch : List Nat)
deriving DecidableEq

/-- what a bracket hands to the goroutine-local code after `Unlock` -/
inductive RRes where
  | unit
  | bool (b : Bool)
  | nat (n : Nat)
  | targets (ts : List Nat)
  | table (tb : List (Nat × Int))
  | maps (prod : PMap) (names : NMap) (batch : List Nat)
deriving DecidableEq

/-- the local map `targets` of `NotifyWithData` after the second bracket -/
def collectTbl (s : NSt) (raw : List Nat) : List (Nat × Int) :=
  if s.enabled then gather s.prod (prefixes (normalize raw)) else []

/-- the other notifier as seen through its copied maps -/
def ofMaps (prod : PMap) (names : NMap) (batch : List Nat) : NSt := { prod := prod, names := names, batch := batch }

/-- **sequential reference** of a bracket, in terms of the sequential model `Model/Notifier.lean` -/
def rrun : ROp → NSt → RRes × NSt
  | .register t p raws, s => (.unit, register s t p raws)
  | .unregister t, s => (.unit, unregister s t)
  | .setEnabled b, s => (.unit, setEnabled s b)
  | .reset, s => (.unit, reset s)
  | .enabledQ, s => (.bool s.enabled, s)
  | .levelQ, s => (.nat s.level, s)
  | .startSnap, s => (.targets (startBatch s).2, (startBatch s).1)
  | .endSnap, s => (.targets (endBatch s).2, (endBatch s).1)
  | .collect raw, s => (.table (collectTbl s raw), s)
  | .copyOut, s => (.maps s.prod s.names s.batch, s)
  | .mergeIn p nm b, s => (.unit, mergeFrom s (ofMaps p nm b))

/-- control state of a goroutine inside a bracket -/
inductive PC where
  | start (op : ROp)
  | regLoop (t : Nat) (prio : Int) (rest : List Name)
  | unregLoop (t : Nat) (rest : List Name)
  | collectLoop (rest : List Name) (acc : List (Nat × Int))
  | ret (r : RRes)

/-- one atomic action inside the bracket -/
def micro : PC → NSt → PC × NSt
  | .start (.register t p raws), s =>
    if normNames raws = [] then (.ret .unit, s)
    else (.regLoop t p (normNames raws), if batchCapable t then { s with batch := setIns s.batch t } else s)
  | .regLoop t p (n :: rest), s => (.regLoop t p rest, regStep t p s n)
  | .regLoop _ _ [], s => (.ret .unit, s)
  | .start (.unregister t), s =>
    match assocGet s.names t with
    | none => (.ret .unit, s)
    | some ns => (.unregLoop t ns, { s with batch := if batchCapable t then s.batch.filter (fun x => x ≠ t) else s.batch })
  | .unregLoop t (n :: rest), s => (.unregLoop t rest, { s with prod := unregStep t s.prod n })
  | .unregLoop t [], s => (.ret .unit, { s with names := assocDel s.names t })
  | .start (.collect raw), s =>
    if s.enabled then (.collectLoop (prefixes (normalize raw)) [], s) else (.ret (.table []), s)
  | .collectLoop (pre :: rest) acc, s => (.collectLoop rest (gatherStep s.prod acc pre), s)
  | .collectLoop [] acc, s => (.ret (.table acc), s)
  | .start op, s => (.ret (rrun op s).1, (rrun op s).2)
  | .ret r, s => (.ret r, s)

def sys : Mutex.Sys NSt ROp PC RRes where
  start := PC.start
  micro := micro
  done := fun k => match k with
    | .ret r => some r
    | _ => none

/-- the brackets the Go code executes under the READ half of its `sync.RWMutex` (`RLock` / `RUnlock`): `Enabled()`,
    `BatchLevel()` and the ancestor walk of `NotifyWithData`; every other bracket takes the mutex (`Lock`), also the
    copy-out half of `RegisterFromNotifier`.  On the machine `RW.exec sys isRead` (Model/RWMutex.lean) the micro-steps of
    several read brackets interleave; `Mutex.exec sys true` is the coarser machine that treats them as exclusive. -/
def isRead : ROp → Bool
  | .enabledQ => true
  | .levelQ => true
  | .collect _ => true
  | _ => false

/-! ### the unlocked phase -/

/-- `sort.Slice(list, …)` on the goroutine-local list -/
def sortTbl (tb : List (Nat × Int)) : List (Int × Nat) := (tb.map (fun tp => (tp.2, tp.1))).mergeSort byPriority

/-- goroutine-local data -/
structure Local where
  /-- what the `Enabled()` bracket of the running `NotifyWithData` returned -/
  en : Bool := true
  /-- the callbacks of the local snapshot still to be made (the slice being ranged over) -/
  pending : List Event := []
  /-- ghost: the callbacks this goroutine has made, oldest first -/
  made : List Event := []

/-- the local code that runs right after a bracket returned `r` (no shared access) -/
def onReturn (pan : Nat → Bool) (nid : Nat) (l : Local) : ROp → RRes → Local
  | .enabledQ, .bool b => { l with en := b }
  | .collect raw, .table tb =>
    { l with pending := if l.en then deliverAll pan nid (normalize raw) (sortTbl tb) else [] }
  | .startSnap, .targets ts => { l with pending := batchAll pan nid true ts }
  | .endSnap, .targets ts => { l with pending := batchAll pan nid false ts }
  | _, _ => l

/-- the exported methods as sequences of brackets -/
inductive Call where
  | register (t : Nat) (prio : Int) (raws : List (List Nat))
  | unregister (t : Nat)
  | setEnabled (b : Bool)
  | reset
  | enabled
  | batchLevel
  | startBatch
  | endBatch
  | notify (raw : List Nat)
  | copyOut
  | mergeIn (prod : PMap) (names : NMap) (batch : List Nat)

def Call.ops : Call → List ROp
  | .register t p raws => [.register t p raws]
  | .unregister t => [.unregister t]
  | .setEnabled b => [.setEnabled b]
  | .reset => [.reset]
  | .enabled => [.enabledQ]
  | .batchLevel => [.levelQ]
  | .startBatch => [.startSnap]
  | .endBatch => [.endSnap]
  | .notify raw => [.enabledQ, .collect raw]
  | .copyOut => [.copyOut]
  | .mergeIn p nm b => [.mergeIn p nm b]

def compile (calls : Nat → List Call) : Nat → List ROp := fun t => (calls t).flatMap Call.ops

/-- configuration: the bracket machine plus the goroutine-local data -/
structure Conf where
  m : Mutex.Config NSt ROp PC RRes
  loc : Nat → Local

def cinit (s₀ : NSt) (progs : Nat → List ROp) : Conf := { m := Mutex.init s₀ progs, loc := fun _ => {} }

/-- the bracket that goroutine `t` is about to leave, with its result -/
def returning (m : Mutex.Config NSt ROp PC RRes) (t : Nat) : Option (ROp × RRes) :=
  match (m.threads t).cur with
  | some (op, .ret r) => some (op, r)
  | _ => none

/-- goroutine `t` takes one step.  While its local snapshot has callbacks left, the step is the next callback: it
    reads and writes `loc t` only.  Otherwise it is a step of the bracket machine (`lock = false`: without the mutex). -/
def cstep (pan : Nat → Bool) (nid : Nat) (lock : Bool) (C : Conf) (t : Nat) : Option Conf :=
  match (C.loc t).pending with
  | e :: rest =>
    some { C with loc := Mutex.upd C.loc t { (C.loc t) with pending := rest, made := (C.loc t).made ++ [e] } }
  | [] =>
    match Mutex.step sys lock C.m t with
    | none => none
    | some m' =>
      match returning C.m t with
      | some (op, r) => some { m := m', loc := Mutex.upd C.loc t (onReturn pan nid (C.loc t) op r) }
      | none => some { C with m := m' }

def cexec (pan : Nat → Bool) (nid : Nat) (lock : Bool) : Conf → List Nat → Option Conf
  | C, [] => some C
  | C, t :: ts =>
    match cstep pan nid lock C t with
    | none => none
    | some C' => cexec pan nid lock C' ts

/-! ### the one-at-a-time reference for the callbacks -/

/-- callbacks not yet made count as made (the reference does not interleave) -/
def flush (l : Local) : Local := { l with pending := [], made := l.made ++ l.pending }

/-- execute the brackets one at a time in the given order; every goroutine runs its local code after each of its
    brackets -/
def seqLocal (pan : Nat → Bool) (nid : Nat) : (Nat → Local) → NSt → List (Nat × ROp) → (Nat → Local)
  | L, _, [] => L
  | L, s, (t, op) :: l =>
    seqLocal pan nid (Mutex.upd L t (onReturn pan nid (flush (L t)) op (rrun op s).1)) (rrun op s).2 l

/-- all callbacks of a goroutine, made and still to be made -/
def Local.all (l : Local) : List Event := l.made ++ l.pending

end NtC
