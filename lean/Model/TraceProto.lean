import Model.Mutex
/-! C13, schedules: a small-step protocol model of `log/tracelog` in BUFFERED mode (`BufferDepth > 0`), written after
`tracelog.go` as it is:

```go
func (h *Handler) Handle(_ context.Context, r slog.Record) error {
    var buffer bytes.Buffer            // a fresh buffer per call
    ... format the record into it ...  // no shared state is read or written      => one atomic step `fmt`
    if h.delivery != nil {
        select {
        case h.delivery <- buffer.Bytes():                                          // => one atomic step `send`:
        default:                                                                   //    accepted iff the channel has room
        }
        return nil
    }
    ...
}
func (h *Handler) backgroundDelivery() {
    for data := range h.delivery {     // => `recv`
        _, _ = h.sink.Write(data)      // => `finish o`, any number of scheduler steps later; the error is ignored
    }
}
```

`N` producer goroutines (any handlers derived from one root: they share the channel) each handle their own list of
records; ONE delivery goroutine exists (started by `New`).  A schedule is any list of actions; an action that is not
enabled leaves the state alone (so every list is a schedule).  `Config.line p i` is the byte string `Handle` formats
for the `i`-th record of producer `p` (`none`: the producer has no such record) — the driver instantiates it with the
sequential formatter `TL.format`.

The state carries two ghost components that the code does not have: `events` (every completed `select`, with the
channel length it saw and whether it was accepted) and `writes` (the `sink.Write` calls made, in order).

A panic of the sink inside the delivery goroutine is not recovered by the code: the goroutine — in Go, the process —
dies.  It is modelled as the consumer state `dead` (nothing is received any more); the safety theorems hold up to
that point and producers still never wait.  Core-only. -/
namespace TraceProto

abbrev Bytes := List Nat

/-- a formatted record on its way to the sink, tagged (ghost) with its producer and its index in that producer's
    program order -/
structure Item where
  pid : Nat
  idx : Nat
  line : Bytes
deriving BEq, DecidableEq, Repr

structure Config where
  /-- `BufferDepth` -/
  cap : Nat
  /-- what `Handle` formats for producer `p`'s `i`-th record -/
  line : Nat → Nat → Option Bytes

/-- how a `sink.Write` ends -/
inductive Outcome where
  | ok | fail | panic
deriving BEq, DecidableEq, Repr

/-- the delivery goroutine -/
inductive Cons where
  | idle                 -- blocked in (or about to reach) `<-h.delivery`
  | writing (x : Item)   -- inside `h.sink.Write(data)`
  | dead                 -- the sink panicked
deriving BEq, DecidableEq, Repr

/-- a producer goroutine: `next` records have been formatted so far; `pending` is the formatted buffer between the
    end of formatting and the `select` -/
structure Prod where
  next : Nat := 0
  pending : Option Item := none
deriving BEq, DecidableEq, Repr

/-- ghost: one completed `select` -/
structure Ev where
  item : Item
  lenAtSend : Nat
  accepted : Bool
deriving BEq, DecidableEq, Repr

structure State where
  prods : List Prod
  chan : List Item := []       -- `h.delivery`, oldest first
  cons : Cons := .idle
  writes : List Item := []     -- ghost: completed `sink.Write` calls, in order
  events : List Ev := []       -- ghost
deriving BEq, DecidableEq, Repr

inductive Act where
  | fmt (p : Nat)          -- producer `p`: format the next record into a fresh buffer
  | send (p : Nat)         -- producer `p`: the non-blocking `select`, then `return nil`
  | recv                   -- delivery goroutine: `data := <-h.delivery`
  | finish (o : Outcome)   -- delivery goroutine: `sink.Write(data)` returns
deriving BEq, DecidableEq, Repr

def Cons.items : Cons → List Item
  | .writing x => [x]
  | _ => []

/-- one step of the system; a disabled action is a no-op -/
def step (cfg : Config) (s : State) : Act → State
  | .fmt p =>
    match s.prods[p]? with
    | some pr =>
      match pr.pending, cfg.line p pr.next with
      | none, some l => { s with prods := s.prods.set p { next := pr.next + 1, pending := some ⟨p, pr.next, l⟩ } }
      | _, _ => s
    | none => s
  | .send p =>
    match s.prods[p]? with
    | some pr =>
      match pr.pending with
      | some it =>
        if s.chan.length < cfg.cap then
          { s with prods := s.prods.set p { pr with pending := none }, chan := s.chan ++ [it],
                   events := s.events ++ [⟨it, s.chan.length, true⟩] }
        else
          { s with prods := s.prods.set p { pr with pending := none },
                   events := s.events ++ [⟨it, s.chan.length, false⟩] }
      | none => s
    | none => s
  | .recv =>
    match s.cons, s.chan with
    | .idle, x :: rest => { s with cons := .writing x, chan := rest }
    | _, _ => s
  | .finish o =>
    match s.cons with
    | .writing x => { s with cons := (if o = .panic then .dead else .idle), writes := s.writes ++ [x] }
    | _ => s

/-- run a schedule -/
def run (cfg : Config) (s : State) (sched : List Act) : State := sched.foldl (step cfg) s

/-- `n` producers that have not started, an empty channel, an idle delivery goroutine -/
def init (n : Nat) : State := { prods := List.replicate n {} }

/-- the actions of producer `p` -/
def Act.ofProd (p : Nat) : Act → Bool
  | .fmt q => q == p
  | .send q => q == p
  | _ => false

/-- ghost projections -/
def accepted (s : State) : List Item := (s.events.filter (·.accepted)).map (·.item)
def dropped (s : State) : List Item := (s.events.filter (fun e => !e.accepted)).map (·.item)

/-! ### the payload as a REFERENCE into a byte buffer

What travels through the channel is `buffer.Bytes()`: a slice that aliases the buffer `Handle` formatted into, read by
the sink only when the delivery goroutine gets to it — after `Handle` has long returned.  The record is whole at the
sink only if nobody writes to that buffer in between.  `BState` adds the buffers to the protocol: `fmt` writes the
line into a buffer, the item refers to the buffer by key, and `finish` hands the sink what the buffer holds AT THAT
MOMENT (`sunk`).  Under the policy of the code (`fresh`: `var buffer bytes.Buffer`, one per call, never written again)
the bytes the sink gets are the formatted line; under the contrast policies (`pooled`: one buffer per goroutine, reset
and reused by the next call; `shared`: one pooled buffer for all goroutines, released when `Handle` returns) a queued
record is overwritten by the next one. -/

inductive Policy where
  | fresh | pooled
  /-- CONTRAST: one buffer in a `sync.Pool` shared by all goroutines, taken at the start of `Handle` and put back by a
      `defer` when `Handle` returns — while the record may still be queued.  (Exact for schedules in which the calls do
      not overlap, i.e. every `fmt p` is directly followed by `send p`: then the pool always hands out this one buffer.) -/
  | shared
deriving BEq, DecidableEq, Repr

def bufKey (pol : Policy) (x : Item) : Nat × Nat :=
  match pol with
  | .fresh => (x.pid, x.idx)
  | .pooled => (x.pid, 0)
  | .shared => (0, 0)

structure BState where
  s : State
  bufs : List ((Nat × Nat) × Bytes) := []    -- buffer key ↦ current content
  sunk : List Bytes := []                     -- what the sink's `Write` calls actually received

def stepB (cfg : Config) (pol : Policy) (b : BState) (a : Act) : BState :=
  match a with
  | .fmt p =>
    match (b.s.prods[p]?).bind (·.pending), ((step cfg b.s a).prods[p]?).bind (·.pending) with
    | none, some x => -- a record was formatted: its bytes now sit in the buffer
      { b with s := step cfg b.s a, bufs := (bufKey pol x, x.line) :: b.bufs.filter (·.1 != bufKey pol x) }
    | _, _ => { b with s := step cfg b.s a }
  | .finish _ =>
    match b.s.cons with
    | .writing x => { b with s := step cfg b.s a, sunk := b.sunk ++ [(b.bufs.lookup (bufKey pol x)).getD []] }
    | _ => { b with s := step cfg b.s a }
  | _ => { b with s := step cfg b.s a }

def runB (cfg : Config) (pol : Policy) (b : BState) (sched : List Act) : BState := sched.foldl (stepB cfg pol) b

/-! ### exploring a SCRIPTED schedule: what the forced-schedule test of the check controls and what it does not

The test scripts the producers (`handle p`: producer `p` makes one whole `Handle` call; `par p q`: two producers make
one call each at the same time) and the sink (`permits k`: `k` more `Write` calls may return; without a permit a
`Write` stalls).  It does NOT control when the delivery goroutine receives, nor when a permitted `Write` returns.
`outcomes` follows `step` through every choice the script leaves open and collects the possible final contents of the
sink once the script is over, the sink is released and the channel has been drained. -/

inductive Tok where
  | handle (p : Nat)
  | par (p q : Nat)
  | permits (k : Nat)
  | sync                  -- the harness pauses; no constraint
deriving BEq, Repr

structure XState where
  s : State
  permits : Nat := 0
deriving BEq, Repr

/-- the exploration does not need the event log (the outcome is read off `writes`, the consumer and the channel) -/
def strip (s : State) : State := { s with events := [] }

def insertNew (x : XState) (xs : List XState) : List XState := if xs.contains x then xs else x :: xs

/-- the uncontrolled steps possible in `x`: a receive, a permitted return of `Write` (an error return is the same
    step for the protocol) -/
def tau (cfg : Config) (x : XState) : List XState :=
  (match x.s.cons, x.s.chan with
   | .idle, _ :: _ => [{ x with s := strip (step cfg x.s .recv) }]
   | _, _ => []) ++
  (match x.s.cons with
   | .writing _ => if x.permits > 0 then [{ s := strip (step cfg x.s (.finish .ok)), permits := x.permits - 1 }] else []
   | _ => [])

/-- MARKER of an exploration that ran out of fuel with work left: a state whose delivery goroutine is dead (never reached
    otherwise: the exploration only takes `finish .ok`).  It has no successors, no controlled action changes its `cons`,
    so it survives to the end of the script, where `inconclusive` finds it and `outcomes` leaves it out. -/
def exhaustMark : XState := { s := { prods := [], cons := .dead }, permits := 0 }

def XState.isMark (x : XState) : Bool := x.s.cons == .dead

/-- everything reachable by uncontrolled steps (each strictly consumes a pending item or a permit: `fuel` is meant to
    bound it; NO theorem says `fuelFor` suffices — if it does not, the result carries `exhaustMark` and the verdict of the
    judge is "inconclusive", never "ok") -/
def closure (cfg : Config) : Nat → List XState → List XState → List XState
  | 0, [], acc => acc
  | 0, _ :: _, acc => exhaustMark :: acc
  | _ + 1, [], acc => acc
  | fuel + 1, x :: todo, acc =>
    if acc.contains x then closure cfg fuel todo acc
    else closure cfg fuel (tau cfg x ++ todo) (x :: acc)

def fuelFor (xs : List XState) : Nat :=
  xs.foldl (fun n x => n + 4 * (x.s.chan.length + x.permits + 2)) 8 * (xs.length + 1)

def close (cfg : Config) (xs : List XState) : List XState := closure cfg (fuelFor xs) xs []

/-- apply one controlled action in every state, then close under the uncontrolled ones -/
def ctl (cfg : Config) (a : Act) (xs : List XState) : List XState :=
  close cfg (xs.map fun x => { x with s := strip (step cfg x.s a) })

/-- all interleavings of two action sequences -/
def interleave : List Act → List Act → List (List Act)
  | [], bs => [bs]
  | as, [] => [as]
  | a :: as, b :: bs => (interleave as (b :: bs)).map (a :: ·) ++ (interleave (a :: as) bs).map (b :: ·)
termination_by as bs => as.length + bs.length

def applyTok (cfg : Config) (xs : List XState) : Tok → List XState
  | .handle p => ctl cfg (.send p) (ctl cfg (.fmt p) xs)
  | .par p q =>
    let orders := interleave [.fmt p, .send p] [.fmt q, .send q]
    (orders.flatMap fun o => o.foldl (fun ys a => ctl cfg a ys) xs).foldl (fun acc x => insertNew x acc) []
  | .permits k => close cfg (xs.map fun x => { x with permits := x.permits + k })
  | .sync => xs

/-- the sink's final content in a state once everything pending has been written -/
def finalWrites (s : State) : List Item := s.writes ++ s.cons.items ++ s.chan

def dedup {α : Type} [BEq α] : List α → List α
  | [] => []
  | a :: as => if as.contains a then dedup as else a :: dedup as

/-- the states the script can end in -/
def finalStates (cfg : Config) (x0 : XState) (script : List Tok) : List XState :=
  script.foldl (applyTok cfg) (close cfg [x0])

/-- the exploration was cut short somewhere: the set of outcomes may be incomplete -/
def inconclusiveIn (xs : List XState) : Bool := xs.any (·.isMark)

def outcomesIn (xs : List XState) : List (List (Nat × Nat)) :=
  dedup ((xs.filter (!·.isMark)).map fun x => (finalWrites x.s).map fun it => (it.pid, it.idx))

/-- the possible final sink contents (as producer/index pairs, in order) of a scripted run started in `x0` -/
def outcomes (cfg : Config) (x0 : XState) (script : List Tok) : List (List (Nat × Nat)) :=
  outcomesIn (finalStates cfg x0 script)

def inconclusive (cfg : Config) (x0 : XState) (script : List Tok) : Bool := inconclusiveIn (finalStates cfg x0 script)

end TraceProto

/-! ## Synchronous mode (`BufferDepth = 0`) as an instance of the generic mutex-bracket machine (`Model/Mutex.lean`)

```go
    ... format the record into a fresh local buffer ...     // before the lock; reads and writes nothing shared
    h.lock.Lock()
    defer h.lock.Unlock()
    _, err := h.sink.Write(buffer.Bytes())
    return err
```

An operation is the bracketed part of one `Handle` call: "write this line" (the line is a function of the record and
the handler alone, so it is fixed before the lock is taken).  The sink is NOT assumed atomic: `Write` puts the bytes
into the sink's stream ONE BYTE PER MICRO-STEP, then returns the error the sink has scripted for this call (`errAt k`
for the `k`-th `Write` the sink completes).  The root handler and everything derived from it share `h.lock`, so all
goroutines logging through one family are threads of one machine. -/
namespace TraceSync

abbrev Bytes := List Nat

/-- the sink: the byte stream it has received and the number of `Write` calls it has completed -/
structure Sink where
  out : Bytes := []
  calls : Nat := 0
deriving BEq, DecidableEq, Repr

/-- inside `Write`: the bytes not yet handed over; `result` is set when the call returns (`true` = an error) -/
structure K where
  rest : Bytes
  result : Option Bool := none
deriving BEq, DecidableEq, Repr

def sys (errAt : Nat → Bool) : Mutex.Sys Sink Bytes K Bool where
  start := fun line => { rest := line }
  micro := fun k s =>
    match k.rest with
    | b :: bs => ({ rest := bs }, { s with out := s.out ++ [b] })
    | [] => ({ rest := [], result := some (errAt s.calls) }, { s with calls := s.calls + 1 })
  done := fun k => k.result

/-- sequential reference: the whole line at once, then the scripted error of this call -/
def write (errAt : Nat → Bool) (line : Bytes) (s : Sink) : Bool × Sink :=
  (errAt s.calls, { out := s.out ++ line, calls := s.calls + 1 })

end TraceSync
