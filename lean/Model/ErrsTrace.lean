import Model.Errs
import Model.ErrsFmt
/-! C11, the text of a stack trace: `(*Error).StackTrace` (errs/errors.go:267-333) over REAL frames.

A recorded stack is what `runtime.CallersFrames(e.stack)` yields: a list of frames (function, file, line).  This file
transcribes, branch for branch, what the library does with them: `callStack` (its fixed-size buffer), the frame loop with its
buffer, the filter (`trimRuntime`, `RuntimePrefixesToFilter`, the `main.main`/`_testmain.go` rule), the shortening of the
file path (cut at the last separator before the first dot, drop a trailing `_obj` directory, drop the directory when it
repeats the start of the function name) and — through the generic `stackG`, of which the token rendering `stackC` of
`Model/ErrsFmt.lean` is the other instance — the `Caused by:` recursion and `Detail`.

Text is handled as `List Char`; the Go code indexes bytes, but it only ever searches for and cuts at the ASCII characters
`.` and `/`, which in UTF-8 never occur inside a multi-byte sequence, so the substrings are the same.  Core-only. -/
namespace Errs

/-- one `runtime.Frame` as far as the library looks at it -/
structure Frame where
  fn : String
  file : String
  line : Nat
deriving DecidableEq, Repr, Inhabited

/-- `os.PathSeparator` -/
def pathSep : Char := '/'

/-- `strings.Index(s, string(c))` -/
def indexOfChar (c : Char) : List Char → Option Nat
  | [] => none
  | x :: xs => if x == c then some 0 else (indexOfChar c xs).map (· + 1)

/-- `strings.LastIndexByte(s, c)` -/
def lastIndexOfChar (c : Char) : List Char → Option Nat
  | [] => none
  | x :: xs =>
    match lastIndexOfChar c xs with
    | some k => some (k + 1)
    | none => if x == c then some 0 else none

/-- `for i > 0 && file[i] != os.PathSeparator { i-- }` -/
def scanBack (file : List Char) : Nat → Nat
  | 0 => 0
  | i + 1 => if file[i + 1]? == some pathSep then i + 1 else scanBack file i

def objDir : List Char := ['_', 'o', 'b', 'j']

/-- errors.go:294-314: the file name as shown in a frame line -/
def shortenFile (fn file : List Char) : List Char :=
  match indexOfChar '.' file with
  | none => file
  | some d =>
    let i := scanBack file d
    let file1 := if i > 0 then file.drop (i + 1) else file
    match lastIndexOfChar pathSep file1 with
    | none => file1
    | some j =>
      let path := file1.take j
      let path' :=
        match lastIndexOfChar pathSep path with
        | some k => if path.drop (k + 1) == objDir then path.take k else path
        | none => path
      if path'.isPrefixOf fn then file1.drop (j + 1) else file1

/-- errors.go:273-287: is the frame left out of a trimmed trace? -/
def frameTrimmed (prefixes : List String) (f : Frame) : Bool :=
  (f.fn == "main.main" && f.file == "_testmain.go") || prefixes.any (fun p => p.toList.isPrefixOf f.fn.toList)

/-- errors.go:291-317: `    [function] file:line` -/
def frameLine (f : Frame) : List Char :=
  "    [".toList ++ f.fn.toList ++ "] ".toList ++ shortenFile f.fn.toList f.file.toList ++ ':' :: (toString f.line).toList

/-- the frame loop of `StackTrace` with its buffer: frames without a function name are skipped, filtered frames are
    skipped when trimming, a newline is written before every line but the first (`if buffer.Len() != 0`) -/
def framesLoop (trim : Bool) (prefixes : List String) : List Char → List Frame → List Char
  | buf, [] => buf
  | buf, f :: fs =>
    if f.fn != "" then
      if trim && frameTrimmed prefixes f then framesLoop trim prefixes buf fs
      else framesLoop trim prefixes ((if buf.length != 0 then buf ++ ['\n'] else buf) ++ frameLine f) fs
    else framesLoop trim prefixes buf fs

def framesChars (trim : Bool) (prefixes : List String) (fs : List Frame) : List Char := framesLoop trim prefixes [] fs

/-- the frame block of `StackTrace(trimRuntime)` -/
def framesText (trim : Bool) (prefixes : List String) (fs : List Frame) : String :=
  String.ofList (framesChars trim prefixes fs)

/-- `callStack`: `var pcs [N]uintptr; n := runtime.Callers(3, pcs[:])` — the frames above the caller of the exported
    function (`lib`: the library's own frames when a constructor goes through another one, e.g. `Newf` → `New`) followed
    by the stack at the creation site, cut at the `buf` entries of the buffer.  The size of the buffer is not copied from
    the source: the harness measures it on every run (an error created under a very deep stack) and writes it into every
    line of area `trace`. -/
def recordStack (buf : Nat) (lib site : List Frame) : List Frame := (lib ++ site).take buf

/-- `StackTrace` with the frame block of cell `i` given by `blk i`: the frames of the error itself, then — for a cause
    that is present and not merely wrapped — `Caused by:` and the cause's own `Detail` (an `*Error` cause) or `Error()`
    text (a foreign cause).  `stackC` (tokens) and `stackR` (real frames) are its two instances. -/
def stackG (blk : Nat → String) (h : Heap) : Nat → Nat → String
  | 0, _ => ""
  | fuel+1, id =>
    match h[id]? with
    | none => blk id
    | some n =>
      if n.cause != .nilIface && !n.wrapped then
        blk id ++ "\n  Caused by: " ++
          (match n.cause with
           | .ref c => detailOf (message h c) (stackG blk h fuel c)
           | v => errorText v)
      else blk id

/-- the recorded frames of every cell, beside the heap -/
abbrev FrameTab := Array (List Frame)

def framesOf (F : FrameTab) (i : Nat) : List Frame := match F[i]? with | some fs => fs | none => []

/-- `StackTrace(trim)` on real frames -/
def stackR (trim : Bool) (prefixes : List String) (F : FrameTab) (h : Heap) (fuel id : Nat) : String :=
  stackG (fun i => framesText trim prefixes (framesOf F i)) h fuel id

/-- `Detail(trim)` = `%v` (trim) / `%+v` (no trim) on real frames -/
def detailR (trim : Bool) (prefixes : List String) (F : FrameTab) (h : Heap) (id : Nat) : String :=
  detailOf (message h id) (stackR trim prefixes F h (h.size + 1) id)

end Errs
