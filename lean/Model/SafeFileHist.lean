import Model.SafeFile
/-! C14, extension: (1) arbitrary histories of the `safe.File` API with a fault on EVERY system call of every call
    (`OpU`, `File.stepU`, `File.stepsU`), and the ABSTRACT specification a user of the API keeps in mind (`Abs`: a phase,
    the bytes accepted so far, the content of the destination) that such histories are proved to refine;
    (2) `WriteFileWithMode` with independent faults on the callback / a write / the close and rename of `Commit` AND on
    the close(2) and the unlink of the deferred `Close` (`writeFileMulti`: two and three faults in one run);
    (3) variants of the code LACKING one of its mechanisms (contrast models; never run against the code — each is the
    model of a seeded regression).  Core-only. -/
namespace Safe

/-! ## (1) histories with faults everywhere -/

/-- one call on a handle; each Boolean says whether the system call of that name, issued by this call, fails -/
inductive OpU
  | write (c : Bytes) (fails : Bool)
  | commit (closeFails renameFails unlinkFails : Bool)
  | close (closeFails unlinkFails : Bool)
  | closeFd (closeFails : Bool)
deriving DecidableEq, Repr

/-- `f.File.Close()` called directly on the embedded file, with a close(2) that can fail: `os.File.Close` marks the
    descriptor closed before it issues close(2), so the file counts as closed whatever the system call returns -/
def File.closeFdU (f : File) (closeFails : Bool) : File × Res × List Act2 :=
  if !f.fdOpen then (f, .closed, [])
  else ({ f with fdOpen := false }, (if closeFails then .errno else .ok),
    [if closeFails then .base (.closeFail f.tmp) else .base (.close f.tmp)])

def File.stepU (f : File) : OpU → File × Res × List Act2
  | .write c fails => (f, (f.write c fails).1, (f.write c fails).2.map .base)
  | .commit a b c => f.commitU a b c
  | .close a c => f.closeU a c
  | .closeFd a => f.closeFdU a

/-- a whole history: the handle afterwards, the result of every call, every system call issued -/
def File.stepsU (f : File) : List OpU → File × List Res × List Act2
  | [] => (f, [], [])
  | o :: os =>
    let r := f.stepU o
    let r2 := r.1.stepsU os
    (r2.1, r.2.1 :: r2.2.1, r.2.2 ++ r2.2.2)

/-- where a handle is in its life, as the documentation of the package describes it -/
inductive Phase
  | writing (fdOpen : Bool)   -- neither Commit nor Close yet (`fdOpen`: the embedded file has not been closed directly)
  | committed                 -- Commit has been called (successfully or not): nothing left to clean up
  | aborted                   -- Close without Commit
deriving DecidableEq, Repr

/-- the abstract state: no temporary file, no system calls — the phase, the bytes accepted so far, and what a reader
    of the destination path finds -/
structure Abs where
  phase : Phase
  pending : Bytes
  dest : Option FileData
deriving DecidableEq, Repr

/-- the abstract specification of one call (`m`: the mode the new file gets = requested mode less the umask) -/
def Abs.step (m : Nat) (s : Abs) : OpU → Abs × Res
  | .write c fails =>
    match s.phase with
    | .writing true => if fails then (s, .errno) else ({ s with pending := s.pending ++ c }, .ok)
    | _ => (s, .closed)
  | .commit a b _ =>
    match s.phase with
    | .committed => (s, .ok)
    | .aborted => (s, .invalid)
    | .writing false => ({ s with phase := .committed }, .closed)
    | .writing true =>
      if a ∨ b then ({ s with phase := .committed }, .errno)           -- a failed Commit: destination untouched
      else ({ s with phase := .committed, dest := some ⟨s.pending, m⟩ }, .ok)
  | .close a c =>
    match s.phase with
    | .committed => (s, .ok)
    | .aborted => (s, .invalid)
    | .writing false => ({ s with phase := .aborted }, .closed)
    | .writing true => ({ s with phase := .aborted }, if a ∨ c then .errno else .ok)
  | .closeFd a =>
    match s.phase with
    | .writing true => ({ s with phase := .writing false }, if a then .errno else .ok)
    | _ => (s, .closed)

def Abs.steps (m : Nat) (s : Abs) : List OpU → Abs × List Res
  | [] => (s, [])
  | o :: os =>
    let r := s.step m o
    let r2 := r.1.steps m os
    (r2.1, r.2 :: r2.2)

/-- the phase a handle of the model is in -/
def File.phase (f : File) : Phase :=
  if f.committed then .committed else if f.closed then .aborted else .writing f.fdOpen

/-- the complete API from the name check on: `CreateWithMode(filename, mode)` and then any history -/
def apiRunFull (code : Str → Path) (tmpdir filename : Str) (mode : Nat) (ops : List OpU) (rands : Nat → Nat)
    (ofaults : Nat → Option OpenFault) (fs : FS) : Res2 × List Res × List Act2 :=
  match createWithMode code tmpdir filename mode rands ofaults fs with
  | (.ok f, acts) => (.res .ok, (f.stepsU ops).2.1, acts ++ (f.stepsU ops).2.2)
  | (e, acts) => (e.err, [], acts)

/-! ## (2) `WriteFileWithMode` with several faults in one run -/

/-- `writeFileFull` with one more fault: `closeFails2` — the close(2) issued by the DEFERRED `f.Close()` fails (it is
    issued only when `Commit` was not reached).  `defer func() { if closeErr := f.Close(); closeErr != nil && err == nil
    { err = closeErr } }()`: the error of the deferred Close is reported only if there is no earlier one — and on these
    paths there always is (the callback's, the flush's), or a panic is unwinding. -/
def writeFileMulti (code : Str → Path) (tmpdir filename : Str) (N mode : Nat) (pieces : List Bytes) (cb : CbMode)
    (fault : Fault) (rands : Nat → Nat) (ofaults : Nat → Option OpenFault) (closeFails2 unlinkFails : Bool) (fs : FS) :
    Res2 × List Act2 :=
  match createWithMode code tmpdir filename mode rands ofaults fs with
  | (.ok f, acts) =>
    let w : BW := { failIn := fault.writeAt }
    let c := callback N f cb fault.stopRes w fault.cbAt pieces
    if c.2.1 ≠ .ok then
      let cl := f.closeU closeFails2 unlinkFails
      (.res c.2.1, acts ++ c.2.2.map .base ++ cl.2.2)
    else
      let fl := c.1.flush f
      if fl.1.err = true then
        let cl := f.closeU closeFails2 unlinkFails
        (.res .errno, acts ++ c.2.2.map .base ++ fl.2.map .base ++ cl.2.2)
      else
        let m := f.commitU (fault = .close) (fault = .rename) unlinkFails
        let cl := m.1.closeU closeFails2 unlinkFails
        (.res (if m.2.1 ≠ .ok then m.2.1 else cl.2.1),
          acts ++ c.2.2.map .base ++ fl.2.map .base ++ m.2.2 ++ cl.2.2)
  | (e, acts) => (e.err, acts)

/-- a close(2) that fails instead of succeeding: the same (absent) effect on the directory -/
def failClose : Act2 → Act2
  | .base (.close p) => .base (.closeFail p)
  | a => a

/-! ## (3) contrast models: the code without one of its mechanisms -/

/-- WITHOUT the temporary file: open the destination itself with `O_CREAT|O_TRUNC` and write the chunks into it -/
inductive ActT
  | openTrunc (p : Path) (mode : Nat)
  | write (p : Path) (c : Bytes)
deriving DecidableEq, Repr

def applyActT (umask : Nat) (fs : FS) : ActT → FS
  | .openTrunc p m => match fs p with
      | some d => fs.set p (some ⟨[], d.mode⟩)               -- an existing file keeps its mode and loses its content
      | none => fs.set p (some ⟨[], lessUmask m umask⟩)
  | .write p c => match fs p with
      | some d => fs.set p (some ⟨d.content ++ c, d.mode⟩)
      | none => fs

def runT (umask : Nat) (fs : FS) : List ActT → FS
  | [] => fs
  | a :: as => runT umask (applyActT umask fs a) as

def writeInPlace (dst : Path) (N mode : Nat) (pieces : List Bytes) : List ActT :=
  .openTrunc dst mode :: (chunks N pieces).map (.write dst)

/-- `Commit` WITH a "portability" fallback (the seeded regression ind6-c14-a): when the rename fails, remove the
    destination and try once more; `retryFails`: the second rename fails too -/
def File.commitRetry (f : File) (renameFails retryFails : Bool) : Res × List Act :=
  if !renameFails then (.ok, [.close f.tmp, .rename f.tmp f.dst])
  else if !retryFails then (.ok, [.close f.tmp, .renameFail f.tmp f.dst, .unlink f.dst, .rename f.tmp f.dst])
  else (.errno, [.close f.tmp, .renameFail f.tmp f.dst, .unlink f.dst, .renameFail f.tmp f.dst, .unlink f.tmp])

/-- `Commit` WITHOUT the deferred `Remove` of the failure path -/
def File.commitNoCleanup (f : File) (closeFails renameFails : Bool) : Res × List Act :=
  if closeFails then (.errno, [.closeFail f.tmp])
  else if renameFails then (.errno, [.close f.tmp, .renameFail f.tmp f.dst])
  else (.ok, [.close f.tmp, .rename f.tmp f.dst])

/-- `WriteFileWithMode` WITHOUT `w.Flush()` before `Commit`: what is still buffered never reaches the file -/
def writeFileNoFlush (tmp dst : Path) (N mode : Nat) (pieces : List Bytes) : Res × List Act :=
  (.ok, [.createExcl tmp mode] ++ ((feed N [] pieces).1.map (Act.write tmp)) ++ [.close tmp, .rename tmp dst])

/-- `CreateTemp` WITH an `fchmod(perm)` after the open (the seeded regression ind6-c14-b): `fchmod` is not subject to
    the umask, so the new file carries the requested mode verbatim -/
def applyCreateChmod (fs : FS) (p : Path) (mode : Nat) : FS := fs.set p (some ⟨[], mode⟩)

/-- `CreateTemp` WITHOUT `O_EXCL`: the first candidate name is opened whether it exists or not (and truncated, as
    `os.Create` would) -/
def createNoExcl (mode : Nat) (name : Path) : List ActT := [.openTrunc name mode]

end Safe
