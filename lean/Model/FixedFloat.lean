import GoSem.F64
import Model.Fixed
/-! C03: executable model of the *float* paths of `From` / `As` of `xmath/fixed/f64` and `xmath/fixed/f128`.  Core-only.

    Floats are data of the binary64 model `GoSem.F64` (every operation = exact rational result rounded once by
    `roundRatN`, validated against the hardware by C02); a `float32` is carried as the binary64 datum of the same value
    (`round32` = nearest-even rounding to 24 bits with the float32 exponent range, `decode32` / `encode32` the wire
    format).

    * `f64.From`  : `Int[T](value * FROM(Multiplier[T]()))` — one floating-point product (one rounding), then Go's
      float → int64 conversion: truncation toward zero, *implementation-defined* outside the int64 range or for NaN
      (`Cv.implDefined`, never a number).
    * `f64.As`    : `strconv.ParseFloat(f.String(), bits)` — `String` prints the exact decimal expansion of `raw / mult`
      (C04); `ParseFloat` is taken by its documented contract: the nearest representable value, ties to even.
    * `f128.From` : `FromString(new(big.Float).SetPrec(128).SetFloat64(x).Text('f', D+1))` — `SetFloat64` is exact
      (53 ≤ 128 bits) and panics for a NaN; `Text('f', D+1)` is the exact decimal expansion *rounded to nearest, ties to
      even* at D+1 fraction digits (`math/big` `decimal.round`); `FromString` cuts the fraction to D digits and
      `Int128FromBigInt` saturates; the texts `+Inf` / `-Inf` are rejected by `FromString` and give 0.
    * `f128.As`   : `Quo` of the exact raw value by the multiplier rounded to 128 bits (nearest even), then
      `big.Float.Float64` (nearest even) — two roundings. -/
namespace Fixed

abbrev Flt := GoSem.F64
open GoSem.F64 (mk roundQ ofRat ofSigned num den)

/-! ## rounding to `p` bits -/

/-- exponent `e` at which the quotient `⌊(a/d) / 2^e⌋` has exactly `p` bits (`a ≠ 0`, `d ≠ 0`): the first guess from the
    bit lengths is right or off by one (the same search as `GoSem.F64.chooseE`, which is the case `p = 53` clamped at the
    subnormal exponent) -/
def expP (p a d : Nat) : Int :=
  let e0 := (a.log2 : Int) - d.log2 - ((p : Int) - 1)
  if (mk a d e0).1 ≥ 2^p then e0 + 1 else if (mk a d e0).1 < 2^(p - 1) then e0 - 1 else e0

/-- `a/d` rounded to `p` bits, nearest even, unbounded exponent: `(q, e)` with value `q·2^e`, `2^(p-1) ≤ q ≤ 2^p`
    (the rounding of `big.Float` with `SetPrec(p)`, mode `ToNearestEven`) -/
def roundPrec (p a d : Nat) : Nat × Int :=
  let e := expP p a d
  let t := mk a d e
  (roundQ t.1 t.2.1 t.2.2, e)

/-! ## float32 carried in the binary64 model -/

/-- the float32 nearest to `(-1)^neg · a/d` (ties to even, gradual underflow at `2^-149`, overflow to infinity), as the
    binary64 datum of the same value -/
def round32 (neg : Bool) (a d : Nat) : Flt :=
  if a == 0 then .fin neg 0 (-1074)
  else
    let e1 := expP 24 a d
    let e := if e1 < -149 then -149 else e1
    let t := mk a d e
    let q := roundQ t.1 t.2.1 t.2.2
    if q * 2^(e + 149).toNat ≥ 2^(128 + 149) then .inf neg else ofRat neg (num q e) (den e)

/-- `float32(x)` of a float64 -/
def toF32 : Flt → Flt
  | .nan => .nan
  | .inf s => .inf s
  | .fin s m e => round32 s (num m e) (den e)

/-- decode the 32-bit pattern of a float32 -/
def decode32 (n : Nat) : Flt :=
  let neg := n / 2^31 == 1
  let ex := (n / 2^23) % 256
  let fr := n % 2^23
  if ex == 255 then (if fr == 0 then .inf neg else .nan)
  else if ex == 0 then ofRat neg fr (2^149)
  else ofRat neg (num (fr + 2^23) (Int.ofNat ex - 150)) (den (Int.ofNat ex - 150))

/-- bit pattern of a binary64 datum whose value is a float32 (any NaN is rendered as `7fc00000`) -/
def encode32 : Flt → Nat
  | .nan => 255 * 2^23 + 2^22
  | .inf s => (if s then 2^31 else 0) + 255 * 2^23
  | .fin s m e =>
    let sb := if s then 2^31 else 0
    if m == 0 then sb
    else
      -- canonical normal binary64: 2^52 ≤ m; the float32 mantissa is m / 2^29 at exponent e + 29
      let m32 := m / 2^29
      let e32 := e + 29
      if e32 ≥ -149 then sb + (e32 + 150).toNat * 2^23 + (m32 - 2^23)
      else sb + m32 / 2^(-149 - e32).toNat

/-! ## f64 -/
namespace F64

/-- `float64(Multiplier[T]())` -/
def multF (m : Int) : Flt := GoSem.F64.ofInt m

/-- float64 path of `From`: `Int[T](value * float64(Multiplier[T]()))` -/
def fromFloat (m : Int) (x : Flt) : GoSem.Cv Int := (GoSem.F64.mul x (multF m)).toI64

/-- float32 path of `From`: the product is formed in float32 (`value * float32(Multiplier[T]())`) -/
def fromFloat32 (m : Int) (x : Flt) : GoSem.Cv Int :=
  let m32 := round32 (m < 0) m.natAbs 1
  (toF32 (GoSem.F64.mul x m32)).toI64

/-- float64 path of `As`: `ParseFloat(f.String(), 64)` = the float64 nearest to `raw / mult` (`"0"` parses to `+0`) -/
def asFloat (m a : Int) : Flt := ofSigned a m.toNat false

/-- float32 path of `As`: `ParseFloat(f.String(), 32)` = the float32 nearest to `raw / mult` -/
def asFloat32 (m a : Int) : Flt := round32 (a < 0) a.natAbs m.toNat

end F64

/-! ## f128 -/
namespace F128

/-- `num.Int128FromBigInt`: saturating -/
def clamp (x : Int) : Int := if x > maxRaw then maxRaw else if x < minRaw then minRaw else x

/-- the digits of `Text('f', places+1)` read as one natural number: the magnitude `m·2^e` scaled by `10^(places+1)` and
    rounded to the nearest integer, ties to even -/
def textDigits (places m : Nat) (e : Int) : Nat :=
  let a := num m e * 10^(places + 1)
  let d := den e
  roundQ (a / d) (a % d) d

/-- `FromString` on that text: integer part times the multiplier, plus the first `places` fraction digits
    (`"1" + digits` cut to `1 + places` characters, parsed, minus the multiplier) -/
def parseDigits (mult : Int) (places n1 : Nat) : Int :=
  let ip := n1 / 10^(places + 1)
  let fr := n1 % 10^(places + 1) / 10
  (ip : Int) * mult + (((10^places + fr : Nat) : Int) - mult)

/-- float path of `From` (float32 arguments are first converted exactly to float64); `none` = panic (`big.ErrNaN`) -/
def fromFloat (mult : Int) (places : Nat) : Flt → Option Int
  | .nan => none
  | .inf _ => some 0
  | .fin s m e =>
    let v := parseDigits mult places (textDigits places m e)
    some (clamp (if s then -v else v))

/-- the 128-bit quotient of `As`, as numerator / denominator of its exact value -/
def quo128 (a d : Nat) : Nat × Nat :=
  let r := roundPrec 128 a d
  (num r.1 r.2, den r.2)

/-- float64 path of `As`: 128-bit `Quo`, then `Float64()` -/
def asFloat (m a : Int) : Flt :=
  if a == 0 then GoSem.F64.zero
  else
    let q := quo128 a.natAbs m.toNat
    ofRat (a < 0) q.1 q.2

/-- float32 path of `As`: `float32(f64)` of the above (a third rounding) -/
def asFloat32 (m a : Int) : Flt := toF32 (asFloat m a)

end F128
end Fixed
