import Generated.Facts
/-! C03: executable model of `xmath/fixed/f64` and `xmath/fixed/f128` (arithmetic, rounding, comparisons, integer
    `From`/`As`, `Fraction.Normalize`/`Value`).  Core-only.

    Raw values are mathematical integers (`Int`) that are kept reduced into the two's-complement range of the
    representation after every machine operation:
    * `f64.Int[T]` is a defined `int64`; Go's `+ - *` wrap (`wrap64`), `/` truncates toward zero, panics on a zero
      divisor and yields `MinInt64` for `MinInt64 / -1` (which is `wrap64` of the exact quotient).
    * `f128.Int[T]` wraps a `num.Int128`; its `Add/Sub/Mul` wrap (`wrap128`), `Neg`/`Abs` are two's-complement
      negations (the minimum maps to itself), `Div` is sign-magnitude around the unsigned 128-bit division
      (`Uint128.Div`, taken here by its contract `⌊u / n⌋`, panic for `n = 0`).
    The multiplier of configuration `Dk` is the `k`-th entry of the regenerated table `Facts.fixedConfigs`. -/
namespace Fixed

/-! ## machine integers -/

/-- reduction into `[-2^63, 2^63)` (two's-complement wrap-around of `int64`) -/
def wrap64 (x : Int) : Int := (x + 9223372036854775808) % 18446744073709551616 - 9223372036854775808
/-- reduction into `[-2^127, 2^127)` -/
def wrap128 (x : Int) : Int :=
  (x + 170141183460469231731687303715884105728) % 340282366920938463463374607431768211456
    - 170141183460469231731687303715884105728

def fits64 (x : Int) : Prop := -9223372036854775808 ≤ x ∧ x ≤ 9223372036854775807
def fits128 (x : Int) : Prop :=
  -170141183460469231731687303715884105728 ≤ x ∧ x ≤ 170141183460469231731687303715884105727

instance (x : Int) : Decidable (fits64 x) := by unfold fits64; exact inferInstance
instance (x : Int) : Decidable (fits128 x) := by unfold fits128; exact inferInstance

/-- an integer kind of `xmath.Numeric`: width and signedness -/
structure Kind where
  bits : Nat
  signed : Bool
deriving DecidableEq, Repr

def kind? : String → Option Kind
  | "int8" => some ⟨8, true⟩ | "int16" => some ⟨16, true⟩ | "int32" => some ⟨32, true⟩
  | "int64" => some ⟨64, true⟩ | "int" => some ⟨64, true⟩
  | "uint8" => some ⟨8, false⟩ | "uint16" => some ⟨16, false⟩ | "uint32" => some ⟨32, false⟩
  | "uint64" => some ⟨64, false⟩ | "uint" => some ⟨64, false⟩ | "uintptr" => some ⟨64, false⟩
  | _ => none

/-- the distinct (width, signedness) pairs of the eleven integer kinds -/
def kinds : List Kind := [⟨8, true⟩, ⟨16, true⟩, ⟨32, true⟩, ⟨64, true⟩, ⟨8, false⟩, ⟨16, false⟩, ⟨32, false⟩, ⟨64, false⟩]

/-- Go's integer conversion `TO(x)` of an `int64` value: keep the low `bits` bits, reinterpret -/
def toKind (k : Kind) (x : Int) : Int :=
  if k.signed then (x + 2 ^ (k.bits - 1)) % 2 ^ k.bits - 2 ^ (k.bits - 1) else x % 2 ^ k.bits

def fitsKind (k : Kind) (x : Int) : Prop :=
  if k.signed then -(2 ^ (k.bits - 1)) ≤ x ∧ x < 2 ^ (k.bits - 1) else 0 ≤ x ∧ x < 2 ^ k.bits

/-! ## configuration -/

/-- multiplier of `fixed.Dk` (the k-th row of the regenerated table); `none` for an unknown configuration -/
def mult? (k : Nat) : Option Int := if k = 0 then none else (Facts.fixedConfigs[k - 1]?).map (·.2)
/-- `Places()` of `fixed.Dk` -/
def places? (k : Nat) : Option Nat := if k = 0 then none else (Facts.fixedConfigs[k - 1]?).map (·.1)

/-! ## f64 -/
namespace F64

def maxRaw : Int := 9223372036854775807
def minRaw : Int := -9223372036854775808

/-- Go `a + b`, `a - b`, `a * b`, `-a` on `int64` -/
def add (a b : Int) : Int := wrap64 (a + b)
def sub (a b : Int) : Int := wrap64 (a - b)
def mulI (a b : Int) : Int := wrap64 (a * b)
def negI (a : Int) : Int := wrap64 (-a)
/-- Go `a / b` on `int64` for `b ≠ 0` (the callers below guard the zero divisor) -/
def quo (a b : Int) : Int := wrap64 (Int.tdiv a b)

/-- `f * value / Int[T](Multiplier[T]())` -/
def mul (m a b : Int) : Int := quo (mulI a b) m
/-- `f * Int[T](Multiplier[T]()) / value`; `none` = integer-divide-by-zero panic -/
def div (m a b : Int) : Option Int := if b = 0 then none else some (quo (mulI a m) b)
/-- `f / mult * mult` -/
def trunc (m a : Int) : Int := mulI (quo a m) m
/-- Go `a % b` on `int64` for `b ≠ 0`: the truncated remainder (sign of the dividend); `MinInt64 % -1 = 0`, as the
    language defines it, is that remainder as well -/
def rem (a b : Int) : Int := wrap64 (Int.tmod a b)
/-- `return f % value` (since the fix "Mod computes the remainder directly"; before: `f - value.Mul(f.Div(value).Trunc())`);
    `none` = integer-divide-by-zero panic.  The multiplier no longer takes part; the parameter is kept so that the
    signature is the same for every binary operation. -/
def mod (_m a b : Int) : Option Int := if b = 0 then none else some (rem a b)
def abs (a : Int) : Int := if a < 0 then negI a else a
def ceil (m a : Int) : Int :=
  let v := trunc m a
  if a > 0 ∧ a ≠ v then add v m else v
/-- `rem >= one/2` … `else if rem <= -one/2` (Go parses `-one/2` as `(-one)/2`) -/
def round (m a : Int) : Int :=
  let one := m
  let value := trunc m a
  let rem := sub a value
  if rem ≥ quo one 2 then add value one
  else if rem ≤ quo (negI one) 2 then sub value one
  else value
def min (a b : Int) : Int := if a < b then a else b
def max (a b : Int) : Int := if a > b then a else b
def inc (m a : Int) : Int := add a m
def dec (m a : Int) : Int := sub a m
/-- `Int[T](Max / Multiplier[T]())` -/
def maxSafeMultiply (m : Int) : Int := quo maxRaw m

/-- integer path of `From`: `Int[T](int64(value) * Multiplier[T]())`; `v` is the value of the source kind -/
def fromInt (m v : Int) : Int := mulI (wrap64 v) m
/-- integer path of `As`: `TO(int64(f) / Multiplier[T]())` -/
def asInt (k : Kind) (m a : Int) : Int := toKind k (quo a m)

/-- `Fraction.Normalize` on (numerator, denominator) -/
def fracNormalize (m n d : Int) : Int × Int :=
  if d = 0 then (0, fromInt m 1)
  else if d < 0 then
    let negOne := fromInt m (-1)
    (mul m n negOne, mul m d negOne)
  else (n, d)
/-- `Fraction.Value` -/
def fracValue (m n d : Int) : Option Int :=
  let p := fracNormalize m n d
  div m p.1 p.2

end F64

/-! ## f128 -/
namespace F128

def maxRaw : Int := 170141183460469231731687303715884105727
def minRaw : Int := -170141183460469231731687303715884105728

/-- `Int128.Add/Sub/Mul` -/
def add (a b : Int) : Int := wrap128 (a + b)
def sub (a b : Int) : Int := wrap128 (a - b)
def mulI (a b : Int) : Int := wrap128 (a * b)
/-- `Int128.Neg`: zero and the minimum are returned unchanged, otherwise the two's-complement negation -/
def negI (i : Int) : Int := if i = 0 ∨ i = minRaw then i else -i
/-- `Int128.Abs`: two's-complement negation of negative values (the minimum maps to itself) -/
def absI (i : Int) : Int := if i < 0 then wrap128 (-i) else i
/-- reinterpretation `Uint128(i)` -/
def toU (i : Int) : Int := i % 340282366920938463463374607431768211456
/-- `Int128.Div` for `n ≠ 0`: sign-magnitude around the unsigned division, the quotient reinterpreted as signed -/
def quo (i n : Int) : Int :=
  let ui := if i < 0 then negI i else i          -- `if i.LessThan(Int128{}) { qSign = -1; i = i.Neg() }`
  let un := if n < 0 then negI n else n          -- `if n.LessThan(Int128{}) { qSign = -qSign; n = n.Neg() }`
  let q := wrap128 (toU ui / toU un)             -- `Int128(Uint128(i).Div(Uint128(n)))`
  if (decide (i < 0)) != (decide (n < 0)) then negI q else q   -- `if qSign < 0 { q = q.Neg() }`
/-- `Int128.AsInt64` -/
def asInt64 (i : Int) : Int :=
  let lo := i % 18446744073709551616
  if i < 0 then wrap64 (-(wrap64 (18446744073709551615 - (lo - 1) % 18446744073709551616)))
  else wrap64 lo

def cmp (a b : Int) : Int := if a = b then 0 else if a > b then 1 else -1
def gt (a b : Int) : Bool := a > b
def ge (a b : Int) : Bool := a ≥ b
def eq (a b : Int) : Bool := a = b
def lt (a b : Int) : Bool := a < b
def le (a b : Int) : Bool := a ≤ b

/-- `f.data.Mul(value.data).Div(multiplier[T]())` -/
def mul (m a b : Int) : Int := quo (mulI a b) m
/-- `f.data.Mul(multiplier[T]()).Div(value.data)`; `none` = divide-by-zero panic of `Uint128.Div` -/
def div (m a b : Int) : Option Int := if b = 0 then none else some (quo (mulI a m) b)
def trunc (m a : Int) : Int := mulI (quo a m) m
/-- `Int128.Mod` = second result of `Int128.DivMod` for `n ≠ 0`: sign-magnitude around the unsigned remainder
    (`Uint128.DivMod`, by its contract `u mod n`), which takes the sign of the dividend -/
def remI (i n : Int) : Int :=
  let ui := if i < 0 then negI i else i          -- `if i.LessThan(Int128{}) { qSign = -1; rSign = -1; i = i.Neg() }`
  let un := if n < 0 then negI n else n          -- `if n.LessThan(Int128{}) { qSign = -qSign; n = n.Neg() }`
  let r := wrap128 (toU ui % toU un)             -- `r = Int128(ru)`
  if i < 0 then negI r else r                    -- `if rSign < 0 { r = r.Neg() }`
/-- `return Int[T]{data: f.data.Mod(value.data)}` (before the fix: `f.Sub(value.Mul(f.Div(value).Trunc()))`);
    `none` = divide-by-zero panic of `Uint128.DivMod` -/
def mod (_m a b : Int) : Option Int := if b = 0 then none else some (remI a b)
def neg (a : Int) : Int := negI a
def abs (a : Int) : Int := absI a
def ceil (m a : Int) : Int :=
  let v := trunc m a
  if gt a 0 ∧ a ≠ v then add v m else v
def round (m a : Int) : Int :=
  let one := m
  let half := quo one 2
  let negHalf := neg half
  let value := trunc m a
  let rem := sub a value
  if ge rem half then add value one
  else if le rem negHalf then sub value one
  else value
def min (a b : Int) : Int := if lt a b then a else b
def max (a b : Int) : Int := if gt a b then a else b
def inc (m a : Int) : Int := add a m
def dec (m a : Int) : Int := sub a m
/-- `Maximum[T]().Div(Multiplier[T]())` — the *fixed-point* division, whose intermediate `Max·mult` wraps -/
def maxSafeMultiply (m : Int) : Option Int := div m maxRaw m

/-- integer path of `From`: unsigned kinds go through `Int128FromUint64(uint64(value))`, the others through
    `Int128From64(int64(value))`; then `.Mul(multiplier)` -/
def fromInt (k : Kind) (m v : Int) : Int :=
  if k.signed then mulI (wrap64 v) m else mulI (v % 18446744073709551616) m
/-- integer path of `As`: `TO(f.data.Div(multiplier[T]()).AsInt64())` -/
def asInt (k : Kind) (m a : Int) : Int := toKind k (asInt64 (quo a m))

def fracNormalize (m n d : Int) : Int × Int :=
  if d = 0 then (0, fromInt ⟨64, true⟩ m 1)
  else if lt d 0 then
    let negOne := fromInt ⟨64, true⟩ m (-1)
    (mul m n negOne, mul m d negOne)
  else (n, d)
def fracValue (m n d : Int) : Option Int :=
  let p := fracNormalize m n d
  div m p.1 p.2

end F128

/-! ## uniform operation tables (what the driver runs and what `f64_f128_agree` quantifies over) -/

inductive BinOp | add | sub | mul | div | mod | min | max
deriving DecidableEq, Repr
inductive UnOp | abs | trunc | ceil | round | inc | dec
deriving DecidableEq, Repr

def binOp? : String → Option BinOp
  | "add" => some .add | "sub" => some .sub | "mul" => some .mul | "div" => some .div | "mod" => some .mod
  | "min" => some .min | "max" => some .max | _ => none
def unOp? : String → Option UnOp
  | "abs" => some .abs | "trunc" => some .trunc | "ceil" => some .ceil | "round" => some .round
  | "inc" => some .inc | "dec" => some .dec | _ => none

def F64.runBin (m : Int) : BinOp → Int → Int → Option Int
  | .add, a, b => some (F64.add a b) | .sub, a, b => some (F64.sub a b) | .mul, a, b => some (F64.mul m a b)
  | .div, a, b => F64.div m a b | .mod, a, b => F64.mod m a b
  | .min, a, b => some (F64.min a b) | .max, a, b => some (F64.max a b)
def F64.runUn (m : Int) : UnOp → Int → Int
  | .abs, a => F64.abs a | .trunc, a => F64.trunc m a | .ceil, a => F64.ceil m a | .round, a => F64.round m a
  | .inc, a => F64.inc m a | .dec, a => F64.dec m a
def F128.runBin (m : Int) : BinOp → Int → Int → Option Int
  | .add, a, b => some (F128.add a b) | .sub, a, b => some (F128.sub a b) | .mul, a, b => some (F128.mul m a b)
  | .div, a, b => F128.div m a b | .mod, a, b => F128.mod m a b
  | .min, a, b => some (F128.min a b) | .max, a, b => some (F128.max a b)
def F128.runUn (m : Int) : UnOp → Int → Int
  | .abs, a => F128.abs a | .trunc, a => F128.trunc m a | .ceil, a => F128.ceil m a | .round, a => F128.round m a
  | .inc, a => F128.inc m a | .dec, a => F128.dec m a

/-! ## text of a value and of a fraction (hardening pass: `Fraction.String`, `StringWithSign`, `MarshalJSON`,
    `NewFraction`, `UnmarshalJSON` are exercised too) -/

def stripTrailingZeros (l : List Char) : List Char := (l.reverse.dropWhile (· == '0')).reverse

/-- `Int.String()` (both types): the integer part toward zero, then the fraction digits of `|raw mod m| + m` without
    the leading `1` and without trailing zeros; a negative value with integer part 0 keeps its sign -/
def render (m raw : Int) : String :=
  let ip := raw.tdiv m
  let fr := (raw.tmod m).natAbs
  if fr = 0 then toString ip
  else
    let digits := (toString (fr + m.toNat)).toList.drop 1
    (if ip = 0 ∧ raw < 0 then "-" else "") ++ toString ip ++ "." ++ String.ofList (stripTrailingZeros digits)

/-- `StringWithSign()` -/
def renderSign (m raw : Int) : String := if raw ≥ 0 then "+" ++ render m raw else render m raw

/-- `NewFraction`: numerator and denominator are `FromStringForced` of the trimmed parts (0 when the text is not a
    number); without a slash the denominator is `From(1)` -/
def F64.fracNew (m n : Int) (d : Option Int) : Int × Int := (n, match d with | some d => d | none => F64.fromInt m 1)
def F128.fracNew (m n : Int) (d : Option Int) : Int × Int :=
  (n, match d with | some d => d | none => F128.fromInt ⟨64, true⟩ m 1)

/-- `Fraction.String` / `StringWithSign`: normalise a copy, print the numerator, and `/denominator` unless it is 1 -/
def F64.fracString (sign : Bool) (m n d : Int) : String :=
  let p := F64.fracNormalize m n d
  let s := if sign then renderSign m p.1 else render m p.1
  if p.2 = F64.fromInt m 1 then s else s ++ "/" ++ render m p.2
def F128.fracString (sign : Bool) (m n d : Int) : String :=
  let p := F128.fracNormalize m n d
  let s := if sign then renderSign m p.1 else render m p.1
  if p.2 = F128.fromInt ⟨64, true⟩ m 1 then s else s ++ "/" ++ render m p.2

end Fixed
