/-! C16: rate limiter (`rate/limiter.go`, `rate/interface.go`) as a transition system.  Core-only.

Limiters are numbered in creation order (`0` = the root made by `rate.New`).  Everything that happens while
`controller.lock` is held is one atomic step (the sends on the answer channels inside the critical sections go to
channels with buffer 1 that receive exactly one value — see `C16.answer_exactly_once` — so they never block).  The
ticker goroutine and the goroutine calling root `Close` have program counters, because their lock acquisitions and the
hand-over on the unbuffered `done` channel are the places where they can block.

The history fields `answered`, `glog`, `nextReq`, `ticks` record what happened (they do not influence the behaviour);
the driver prints its answers from them, the theorems of `Props/C16.lean` are stated about them. -/
namespace RL

/-- the value delivered on the channel returned by `Use` (`ok` = nil; three classes of errors) -/
inductive Ans | ok | errNeg | errCap | errClosed
deriving DecidableEq, Repr

/-- an entry of `controller.waiting` -/
structure Req where
  lim : Nat
  amt : Nat
  id : Nat
deriving Repr

/-- log entry: request `id` on limiter `lim` was granted `amt`, charged to every limiter of `chain`, in `period` -/
structure Grant where
  id : Nat
  lim : Nat
  chain : List Nat
  amt : Nat
  period : Nat
deriving Repr

/-- ticker goroutine: at the `select` | tick received, waiting for the lock | `done` received, waiting for the lock
    (final drain) | returned -/
inductive TPC | sel | tlock | dlock | tend
deriving DecidableEq, Repr
/-- the goroutine inside root `Close`: not started | subtree marked and lock released, blocked on `done <- true` |
    returned -/
inductive CPC | idle | send | ret
deriving DecidableEq, Repr

structure S where
  n : Nat                         -- number of limiters created so far
  cap : Nat → Nat                 -- limiter.capacity
  chain : Nat → List Nat          -- the limiter itself followed by its ancestors up to the root (`parent` links)
  used : Nat → Nat                -- limiter.used
  last : Nat → Nat                -- limiter.last
  closed : Nat → Bool             -- limiter.closed
  unlinked : Nat → Bool           -- removed from its parent's `children` by its own `Close`
  waiting : List Req              -- controller.waiting
  answered : List (Nat × Ans)     -- history: (request id, value delivered on its channel)
  nextReq : Nat                   -- history: number of `Use` calls so far
  glog : List Grant               -- history: all grants
  ticks : Nat                     -- history: number of the current period
  setCaps : Nat                   -- history: number of `SetCap` calls so far
  capHi : Nat                     -- history: the largest capacity ever passed to `New` / `SetCap`
  tpc : TPC
  cpc : CPC
  lockHeld : Bool                 -- `controller.lock` is held *between* two steps

/-- `rate.New(capacity, period)` -/
def init (rootCap : Nat) : S :=
  { n := 1, cap := fun _ => rootCap, chain := fun x => if x = 0 then [0] else [], used := fun _ => 0,
    last := fun _ => 0, closed := fun _ => false, unlinked := fun _ => false, waiting := [], answered := [],
    nextReq := 0, glog := [], ticks := 0, setCaps := 0, capHi := rootCap, tpc := .sel, cpc := .idle, lockHeld := false }

def upd {α : Type} (f : Nat → α) (i : Nat) (v : α) : Nat → α := fun x => if x = i then v else f x

/-- `available >= amount`, `available` being the minimum of `capacity - used` along the chain -/
def fits (cap used : Nat → Nat) (ch : List Nat) (amt : Nat) : Bool := ch.all (fun x => decide (used x + amt ≤ cap x))
/-- `l.used += amount` and the same for every ancestor -/
def charge (used : Nat → Nat) (ch : List Nat) (amt : Nat) : Nat → Nat :=
  fun x => if x ∈ ch then used x + amt else used x

/-- result of the service loop of one tick -/
structure Svc where
  used : Nat → Nat
  waiting : List Req              -- `remaining`, in queue order
  answers : List (Nat × Ans)
  grants : List Grant

/-- the loop `for _, req := range c.waiting` of the ticker goroutine (limiter.go:64-95) -/
def service (cap : Nat → Nat) (chain : Nat → List Nat) (closed : Nat → Bool) (period : Nat) :
    (Nat → Nat) → List Req → Svc
  | used, [] => ⟨used, [], [], []⟩
  | used, r :: rs =>
    if closed r.lim then
      let t := service cap chain closed period used rs
      { t with answers := (r.id, .errClosed) :: t.answers }
    else if r.amt > cap r.lim then
      let t := service cap chain closed period used rs
      { t with answers := (r.id, .errCap) :: t.answers }
    else if used 0 < cap 0 ∧ fits cap used (chain r.lim) r.amt = true then
      let t := service cap chain closed period (charge used (chain r.lim) r.amt) rs
      { t with answers := (r.id, .ok) :: t.answers, grants := ⟨r.id, r.lim, chain r.lim, r.amt, period⟩ :: t.grants }
    else
      let t := service cap chain closed period used rs
      { t with waiting := r :: t.waiting }

/-- `root.reset()` reaches a limiter iff neither it nor one of its ancestors was unlinked by its own `Close` -/
def resets (s : S) (x : Nat) : Bool := (s.chain x).all (fun y => !s.unlinked y)

/-! ### the state transformers (one per atomic action) -/

def answer (s : S) (a : Ans) : S := { s with answered := (s.nextReq, a) :: s.answered, nextReq := s.nextReq + 1 }

/-- `Use(0)` on an open limiter: answered nil at once (logged as a grant of 0) -/
def doUseZero (s : S) (l : Nat) : S :=
  { s with glog := ⟨s.nextReq, l, s.chain l, 0, s.ticks⟩ :: s.glog,
           answered := (s.nextReq, .ok) :: s.answered, nextReq := s.nextReq + 1 }
/-- `Use`: lock held, limiter open, amount within its own cap, room along the whole chain -/
def doUseGrant (s : S) (l amt : Nat) : S :=
  { s with used := charge s.used (s.chain l) amt,
           glog := ⟨s.nextReq, l, s.chain l, amt, s.ticks⟩ :: s.glog,
           answered := (s.nextReq, .ok) :: s.answered, nextReq := s.nextReq + 1 }
def doUseWait (s : S) (l amt : Nat) : S :=
  { s with waiting := s.waiting ++ [⟨l, amt, s.nextReq⟩], nextReq := s.nextReq + 1 }
/-- `l.New(capacity)` on an open limiter -/
def doNewChild (s : S) (p c : Nat) : S :=
  { s with n := s.n + 1, cap := upd s.cap s.n c, chain := upd s.chain s.n (s.n :: s.chain p),
           used := upd s.used s.n 0, last := upd s.last s.n 0, closed := upd s.closed s.n false,
           unlinked := upd s.unlinked s.n false, capHi := max s.capHi c }
/-- `Close` of a non-root limiter that is still open: mark the subtree, unlink from the parent -/
def doCloseChild (s : S) (l : Nat) : S :=
  { s with closed := fun x => s.closed x || decide (l ∈ s.chain x), unlinked := upd s.unlinked l true }
/-- root `Close`, first half (as repaired): mark everything closed under the lock, release the lock -/
def doCloseRootMark (s : S) : S := { s with closed := fun _ => true, cpc := .send }
def doTickFires (s : S) : S := { s with tpc := .tlock }
/-- the ticker goroutine's critical section: `root.reset()`, then the service loop -/
def doTickRuns (s : S) : S :=
  let t := service s.cap s.chain s.closed (s.ticks + 1) (fun x => if resets s x then 0 else s.used x) s.waiting
  { s with used := t.used, last := fun x => if resets s x then s.used x else s.last x, waiting := t.waiting,
           answered := t.answers ++ s.answered, glog := t.grants ++ s.glog, ticks := s.ticks + 1, tpc := .sel }
/-- the hand-over on the unbuffered `done` channel: sender and receiver move together -/
def doDoneReceived (s : S) : S := { s with tpc := .dlock, cpc := .ret }
/-- the final drain: every waiting request fails -/
def doDrain (s : S) : S :=
  { s with answered := s.waiting.map (fun r => (r.id, Ans.errClosed)) ++ s.answered, waiting := [], tpc := .tend }
/-- `SetCap(capacity)` (capacities are `Nat`: the new cap is non-negative) -/
def doSetCap (s : S) (l c : Nat) : S := { s with cap := upd s.cap l c, setCaps := s.setCaps + 1, capHi := max s.capHi c }

/-! ### the transition relation -/

inductive Step : S → S → Prop
  -- `Use(amount)`: the answer given before the lock is taken …
  | useNeg (s : S) : Step s (answer s .errNeg)
  -- … and the five outcomes under the lock (closed is checked first, for every non-negative amount)
  | useClosed (s : S) (l : Nat) (hl : l < s.n) (h0 : s.lockHeld = false) (h : s.closed l = true) :
      Step s (answer s .errClosed)
  | useZero (s : S) (l : Nat) (hl : l < s.n) (h0 : s.lockHeld = false) (h1 : s.closed l = false) :
      Step s (doUseZero s l)
  | useTooBig (s : S) (l amt : Nat) (hl : l < s.n) (h0 : s.lockHeld = false) (h1 : s.closed l = false)
      (h2 : amt > s.cap l) : Step s (answer s .errCap)
  | useGrant (s : S) (l amt : Nat) (hl : l < s.n) (ha : 0 < amt) (h0 : s.lockHeld = false) (h1 : s.closed l = false)
      (h2 : amt ≤ s.cap l) (h3 : fits s.cap s.used (s.chain l) amt = true) : Step s (doUseGrant s l amt)
  | useWait (s : S) (l amt : Nat) (hl : l < s.n) (ha : 0 < amt) (h0 : s.lockHeld = false) (h1 : s.closed l = false)
      (h2 : amt ≤ s.cap l) (h3 : fits s.cap s.used (s.chain l) amt = false) : Step s (doUseWait s l amt)
  | newChild (s : S) (p c : Nat) (hp : p < s.n) (h0 : s.lockHeld = false) (h1 : s.closed p = false) :
      Step s (doNewChild s p c)
  | closeChild (s : S) (l : Nat) (hl : l < s.n) (hr : l ≠ 0) (h0 : s.lockHeld = false) (h1 : s.closed l = false) :
      Step s (doCloseChild s l)
  | closeRoot (s : S) (h0 : s.lockHeld = false) (h1 : s.closed 0 = false) (h2 : s.cpc = .idle) :
      Step s (doCloseRootMark s)
  | setCap (s : S) (l c : Nat) (hl : l < s.n) (h0 : s.lockHeld = false) : Step s (doSetCap s l c)
  -- ticker goroutine
  | tickFires (s : S) (h : s.tpc = .sel) : Step s (doTickFires s)
  | tickRuns (s : S) (h1 : s.tpc = .tlock) (h0 : s.lockHeld = false) : Step s (doTickRuns s)
  | doneReceived (s : S) (h1 : s.tpc = .sel) (h2 : s.cpc = .send) : Step s (doDoneReceived s)
  | drain (s : S) (h1 : s.tpc = .dlock) (h0 : s.lockHeld = false) : Step s (doDrain s)

inductive Reachable (rootCap : Nat) : S → Prop
  | init : Reachable rootCap (init rootCap)
  | step (s s' : S) : Reachable rootCap s → Step s s' → Reachable rootCap s'

/-- zero or more steps -/
inductive Steps : S → S → Prop
  | refl (s : S) : Steps s s
  | tail (s t u : S) : Steps s t → Step t u → Steps s u

theorem Reachable.steps {c : Nat} {s t : S} (h : Reachable c s) (st : Steps s t) : Reachable c t := by
  induction st with
  | refl => exact h
  | tail t u _ hu ih => exact Reachable.step t u ih hu

/-! ### the executable scheduler used by the driver

One call = one call of the exported API made while no other goroutine is inside the package (`tick` = the ticker
goroutine receives a tick and runs its critical section; `close 0` = root `Close` including the hand-over and the final
drain of the goroutine). -/

inductive Op
  | use (l : Nat) (amt : Int)
  | tick
  | newChild (p c : Nat)
  | close (l : Nat)
  | setCap (l c : Nat)
deriving Repr

def exec (s : S) : Op → S
  | .use l amt =>
    if l < s.n then
      if amt < 0 then answer s .errNeg
      else if s.lockHeld then s
      else if s.closed l then answer s .errClosed
      else if amt = 0 then doUseZero s l
      else if amt.toNat > s.cap l then answer s .errCap
      else if fits s.cap s.used (s.chain l) amt.toNat then doUseGrant s l amt.toNat
      else doUseWait s l amt.toNat
    else s
  | .tick => if s.tpc = .sel ∧ s.lockHeld = false then doTickRuns (doTickFires s) else s
  | .newChild p c => if p < s.n ∧ s.lockHeld = false ∧ s.closed p = false then doNewChild s p c else s
  | .close l =>
    if l < s.n ∧ s.lockHeld = false ∧ s.closed l = false then
      if l = 0 then
        if s.cpc = .idle ∧ s.tpc = .sel then doDrain (doDoneReceived (doCloseRootMark s)) else s
      else doCloseChild s l
    else s
  | .setCap l c => if l < s.n ∧ s.lockHeld = false then doSetCap s l c else s

/-- every run of the scheduler is a run of the transition relation -/
theorem exec_steps (s : S) (op : Op) : Steps s (exec s op) := by
  cases op with
  | use l amt =>
    simp only [exec]
    split
    · rename_i hl
      split
      · exact .tail _ _ _ (.refl _) (.useNeg s)
      · rename_i hn
        split
        · exact .refl _
        · rename_i hlk
          have hlk : s.lockHeld = false := by simpa using hlk
          split
          · rename_i hc; exact .tail _ _ _ (.refl _) (.useClosed s l hl hlk hc)
          · rename_i hc
            have hc : s.closed l = false := by simpa using hc
            split
            · exact .tail _ _ _ (.refl _) (.useZero s l hl hlk hc)
            · rename_i hz
              have hpos : 0 < amt.toNat := by omega
              split
              · rename_i hb; exact .tail _ _ _ (.refl _) (.useTooBig s l _ hl hlk hc hb)
              · rename_i hb
                split
                · rename_i hf; exact .tail _ _ _ (.refl _) (.useGrant s l _ hl hpos hlk hc (by omega) hf)
                · rename_i hf
                  exact .tail _ _ _ (.refl _) (.useWait s l _ hl hpos hlk hc (by omega) (by simpa using hf))
    · exact .refl _
  | tick =>
    simp only [exec]
    split
    · rename_i h
      exact .tail _ _ _ (.tail _ _ _ (.refl _) (.tickFires s h.1)) (.tickRuns _ rfl h.2)
    · exact .refl _
  | newChild p c =>
    simp only [exec]
    split
    · rename_i h; exact .tail _ _ _ (.refl _) (.newChild s p c h.1 h.2.1 h.2.2)
    · exact .refl _
  | close l =>
    simp only [exec]
    split
    · rename_i h
      split
      · rename_i h0
        subst h0
        split
        · rename_i h2
          have a1 : Steps s (doCloseRootMark s) := .tail _ _ _ (.refl _) (.closeRoot s h.2.1 h.2.2 h2.1)
          have a2 : Steps s (doDoneReceived (doCloseRootMark s)) :=
            .tail _ _ _ a1 (.doneReceived (doCloseRootMark s) h2.2 rfl)
          exact .tail _ _ _ a2 (.drain (doDoneReceived (doCloseRootMark s)) rfl h.2.1)
        · exact .refl _
      · rename_i h0
        exact .tail _ _ _ (.refl _) (.closeChild s l h.1 h0 h.2.1 h.2.2)
    · exact .refl _
  | setCap l c =>
    simp only [exec]
    split
    · rename_i h; exact .tail _ _ _ (.refl _) (.setCap s l c h.1 h.2)
    · exact .refl _

/-! ### observations -/

/-- `Cap(applyParentCaps)` -/
def capOf (s : S) (l : Nat) (apply : Bool) : Nat :=
  if apply then (s.chain l).foldl (fun m x => min m (s.cap x)) (s.cap l) else s.cap l

def run (s : S) (ops : List Op) : S := ops.foldl exec s

end RL
