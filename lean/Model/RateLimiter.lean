/-! C16: rate limiter (`rate/limiter.go`, `rate/interface.go`) as a transition system.  Core-only.

Limiters are numbered in creation order (`0` = the root made by `rate.New`).  `controller.lock` is a field of the state
(`holder`): it is taken and released by explicit steps, and a step that needs the lock is enabled only while it is free.

* the ticker goroutine: `select` → (tick) wait for the lock → lock → body (`reset` + service loop) → unlock → `select`;
  → (`done` received) wait for the lock → lock → drain → unlock → end;
* the goroutine in root `Close` that finds the root open: lock → mark the tree → unlock → send on `done` (the unbuffered
  hand-over is one joint step of sender and receiver) → return.  `StepU` is the same system with the order of the code
  before commit 3e6b23a: send on `done` while still holding the lock, unlock afterwards;
* every other call (`Use`, `New`, `SetCap`, child `Close`, `Cap`, `LastUsed`, `Closed`, a second root `Close`):
  `apiLock` (any number of callers compete for the lock; the one that gets it is "the API holder"), then ONE step that
  executes the body and releases the lock.  Body and unlock are fused because the holder does nothing that can block
  between them: the sends on the answer channels go to channels of capacity 1 that receive exactly one value
  (`C16.answer_exactly_once`).  `Cap`/`LastUsed`/`Closed` take the lock in read mode; they are modelled as exclusive
  holders (`apiRead`), which only removes interleavings of readers that do not change the state.

The history fields `answered`, `glog`, `nextReq`, `ticks`, `setCaps`, `capHi`, `capMax` record what happened (they do not
influence the behaviour); the driver prints its answers from them, the theorems of `Props/C16.lean` are stated about
them.  They are written in the same step as the action they record — that each action writes them correctly is part of
the transcription (checked by the correspondence run), not a theorem. -/
namespace RL

/-- the value delivered on the channel returned by `Use` (`ok` = nil; three classes of errors) -/
inductive Ans | ok | errNeg | errCap | errClosed
deriving DecidableEq, Repr

/-- an entry of `controller.waiting` -/
structure Req where
  lim : Nat
  amt : Nat
  id : Nat
deriving Repr

/-- log entry: request `id` on limiter `lim` was granted `amt`, charged to every limiter of `chain`, in `period` -/
structure Grant where
  id : Nat
  lim : Nat
  chain : List Nat
  amt : Nat
  period : Nat
deriving Repr

/-- ticker goroutine: at the `select` | tick received, waiting for the lock | holding the lock before the body | body
    done, before the unlock | `done` received, waiting for the lock | holding it before the drain | drained, before the
    unlock | returned -/
inductive TPC | sel | tlock | tcrit | tunl | dlock | dcrit | dunl | tend
deriving DecidableEq, Repr
/-- the goroutine inside root `Close`: not started | holds the lock, root found open | tree marked, still holding the
    lock | lock released, blocked on `done <- true` | returned | (`unl`: only in the unrepaired order `StepU` — `done`
    handed over, lock still held) -/
inductive CPC | idle | crit | marked | send | ret | unl
deriving DecidableEq, Repr
/-- who holds `controller.lock` -/
inductive Holder | free | ticker | closer | api
deriving DecidableEq, Repr

structure S where
  n : Nat                         -- number of limiters created so far
  cap : Nat → Nat                 -- limiter.capacity
  chain : Nat → List Nat          -- the limiter itself followed by its ancestors up to the root (`parent` links)
  used : Nat → Nat                -- limiter.used
  last : Nat → Nat                -- limiter.last
  closed : Nat → Bool             -- limiter.closed
  unlinked : Nat → Bool           -- removed from its parent's `children` by its own `Close`
  waiting : List Req              -- controller.waiting
  answered : List (Nat × Ans)     -- history: (request id, value delivered on its channel)
  nextReq : Nat                   -- history: number of `Use` calls so far
  glog : List Grant               -- history: all grants
  ticks : Nat                     -- history: number of the current period
  setCaps : Nat                   -- history: number of `SetCap` calls so far
  capHi : Nat                     -- history: the largest capacity ever passed to `New` / `SetCap`
  capMax : Nat → Nat → Nat        -- history: `capMax p x` = the largest capacity limiter `x` had at any moment of period `p`
  tpc : TPC
  cpc : CPC
  holder : Holder                 -- `controller.lock`

/-- the lock is held by somebody -/
def S.lockHeld (s : S) : Bool := s.holder != .free

/-- `rate.New(capacity, period)` -/
def init (rootCap : Nat) : S :=
  { n := 1, cap := fun _ => rootCap, chain := fun x => if x = 0 then [0] else [], used := fun _ => 0,
    last := fun _ => 0, closed := fun _ => false, unlinked := fun _ => false, waiting := [], answered := [],
    nextReq := 0, glog := [], ticks := 0, setCaps := 0, capHi := rootCap,
    capMax := fun _ _ => rootCap, tpc := .sel, cpc := .idle, holder := .free }

/-- `max(capacity, 0)`: what `rate.New`, `Limiter.New` and `SetCap` store for the Go `int` they are given (limiter.go:54,
    122, 158; commit 4e94d2c) — a negative capacity grants nothing, like zero -/
def clampCap (c : Int) : Nat := c.toNat

/-- `rate.New(capacity, period)` for any Go `int` -/
def initGo (c : Int) : S := init (clampCap c)

def upd {α : Type} (f : Nat → α) (i : Nat) (v : α) : Nat → α := fun x => if x = i then v else f x

/-- `available >= amount`, `available` being the minimum of `capacity - used` along the chain -/
def fits (cap used : Nat → Nat) (ch : List Nat) (amt : Nat) : Bool := ch.all (fun x => decide (used x + amt ≤ cap x))
/-- `l.used += amount` and the same for every ancestor -/
def charge (used : Nat → Nat) (ch : List Nat) (amt : Nat) : Nat → Nat :=
  fun x => if x ∈ ch then used x + amt else used x

/-- `effectiveCap()`: the smallest capacity among a limiter (`own`) and its ancestors (its chain) — no more than that can
    ever be granted to a single request -/
def effCap (cap : Nat → Nat) (ch : List Nat) (own : Nat) : Nat := ch.foldl (fun m x => min m (cap x)) own

/-- result of the service loop of one tick -/
structure Svc where
  used : Nat → Nat
  waiting : List Req              -- `remaining`, in queue order
  answers : List (Nat × Ans)
  grants : List Grant

/-- the loop `for _, req := range c.waiting` of the ticker goroutine (limiter.go:64-95) -/
def service (cap : Nat → Nat) (chain : Nat → List Nat) (closed : Nat → Bool) (period : Nat) :
    (Nat → Nat) → List Req → Svc
  | used, [] => ⟨used, [], [], []⟩
  | used, r :: rs =>
    if closed r.lim then
      let t := service cap chain closed period used rs
      { t with answers := (r.id, .errClosed) :: t.answers }
    else if r.amt > effCap cap (chain r.lim) (cap r.lim) then
      let t := service cap chain closed period used rs
      { t with answers := (r.id, .errCap) :: t.answers }
    else if used 0 < cap 0 ∧ fits cap used (chain r.lim) r.amt = true then
      let t := service cap chain closed period (charge used (chain r.lim) r.amt) rs
      { t with answers := (r.id, .ok) :: t.answers, grants := ⟨r.id, r.lim, chain r.lim, r.amt, period⟩ :: t.grants }
    else
      let t := service cap chain closed period used rs
      { t with waiting := r :: t.waiting }

/-- `root.reset()` reaches a limiter iff neither it nor one of its ancestors was unlinked by its own `Close` -/
def resets (s : S) (x : Nat) : Bool := (s.chain x).all (fun y => !s.unlinked y)

/-! ### the state transformers (one per atomic action) -/

def answer (s : S) (a : Ans) : S := { s with answered := (s.nextReq, a) :: s.answered, nextReq := s.nextReq + 1 }

/-- `Use(0)` on an open limiter: answered nil at once (logged as a grant of 0) -/
def doUseZero (s : S) (l : Nat) : S :=
  { s with glog := ⟨s.nextReq, l, s.chain l, 0, s.ticks⟩ :: s.glog,
           answered := (s.nextReq, .ok) :: s.answered, nextReq := s.nextReq + 1 }
/-- `Use`: lock held, limiter open, amount within its own cap, room along the whole chain -/
def doUseGrant (s : S) (l amt : Nat) : S :=
  { s with used := charge s.used (s.chain l) amt,
           glog := ⟨s.nextReq, l, s.chain l, amt, s.ticks⟩ :: s.glog,
           answered := (s.nextReq, .ok) :: s.answered, nextReq := s.nextReq + 1 }
def doUseWait (s : S) (l amt : Nat) : S :=
  { s with waiting := s.waiting ++ [⟨l, amt, s.nextReq⟩], nextReq := s.nextReq + 1 }
/-- `l.New(capacity)` on an open limiter -/
def doNewChild (s : S) (p c : Nat) : S :=
  { s with n := s.n + 1, cap := upd s.cap s.n c, chain := upd s.chain s.n (s.n :: s.chain p),
           used := upd s.used s.n 0, last := upd s.last s.n 0, closed := upd s.closed s.n false,
           unlinked := upd s.unlinked s.n false, capHi := max s.capHi c,
           capMax := fun p x => if p = s.ticks ∧ x = s.n then c else s.capMax p x }
/-- `Close` of a non-root limiter that is still open: mark the subtree, unlink from the parent -/
def doCloseChild (s : S) (l : Nat) : S :=
  { s with closed := fun x => s.closed x || decide (l ∈ s.chain x), unlinked := upd s.unlinked l true }
def lockApi (s : S) : S := { s with holder := .api }
def unlock (s : S) : S := { s with holder := .free }
/-- root `Close`: `l.controller.lock.Lock()` -/
def doCloseLock (s : S) : S := { s with cpc := .crit, holder := .closer }
/-- root `Close`: `l.close()` — mark everything closed (under the lock) -/
def doCloseRootMark (s : S) : S := { s with closed := fun _ => true, cpc := .marked }
/-- root `Close` finds the root already closed: unlock, return -/
def doCloseSkip (s : S) : S := { s with cpc := .ret, holder := .free }
/-- root `Close`, as repaired: release the lock BEFORE signalling the ticker goroutine -/
def doCloseUnlock (s : S) : S := { s with cpc := .send, holder := .free }
/-- unrepaired order: `done <- true` is handed over while the closer still holds the lock … -/
def doSendHeld (s : S) : S := { s with tpc := .dlock, cpc := .unl }
/-- … and the deferred unlock comes afterwards -/
def doUnlockAfter (s : S) : S := { s with cpc := .ret, holder := .free }
def doTickFires (s : S) : S := { s with tpc := .tlock }
def doTickLock (s : S) : S := { s with tpc := .tcrit, holder := .ticker }
def doTickUnlock (s : S) : S := { s with tpc := .sel, holder := .free }
def doDrainLock (s : S) : S := { s with tpc := .dcrit, holder := .ticker }
def doDrainUnlock (s : S) : S := { s with tpc := .tend, holder := .free }
/-- the ticker goroutine's critical section: `root.reset()`, then the service loop -/
def doTickRuns (s : S) : S :=
  let t := service s.cap s.chain s.closed (s.ticks + 1) (fun x => if resets s x then 0 else s.used x) s.waiting
  { s with used := t.used, last := fun x => if resets s x then s.used x else s.last x, waiting := t.waiting,
           answered := t.answers ++ s.answered, glog := t.grants ++ s.glog, ticks := s.ticks + 1, tpc := .tunl,
           capMax := fun p x => if p = s.ticks + 1 then s.cap x else s.capMax p x }
/-- the hand-over on the unbuffered `done` channel: sender and receiver move together -/
def doDoneReceived (s : S) : S := { s with tpc := .dlock, cpc := .ret }
/-- the final drain: every waiting request fails -/
def doDrain (s : S) : S :=
  { s with answered := s.waiting.map (fun r => (r.id, Ans.errClosed)) ++ s.answered, waiting := [], tpc := .dunl }
/-- `SetCap(capacity)` (capacities are `Nat`: the new cap is non-negative) -/
def doSetCap (s : S) (l c : Nat) : S :=
  { s with cap := upd s.cap l c, setCaps := s.setCaps + 1, capHi := max s.capHi c,
           capMax := fun p x => if p = s.ticks ∧ x = l then max (s.capMax p x) c else s.capMax p x }

/-! ### the transition relation -/

inductive Step : S → S → Prop
  -- `Use(amount)`: the answer given before the lock is taken
  | useNeg (s : S) : Step s (answer s .errNeg)
  -- any caller of the API gets the lock …
  | apiLock (s : S) (h : s.holder = .free) : Step s (lockApi s)
  -- … and executes its body and unlocks: a read (`Cap`, `LastUsed`, `Closed`), `New`/`Close` on a closed limiter, …
  | apiRead (s : S) (h : s.holder = .api) : Step s (unlock s)
  -- … the five outcomes of `Use` under the lock (closed is checked first, for every non-negative amount; too big =
  -- above the smallest capacity along the chain, commit 8ceae61), …
  | useClosed (s : S) (l : Nat) (hl : l < s.n) (h0 : s.holder = .api) (h : s.closed l = true) :
      Step s (unlock (answer s .errClosed))
  | useZero (s : S) (l : Nat) (hl : l < s.n) (h0 : s.holder = .api) (h1 : s.closed l = false) :
      Step s (unlock (doUseZero s l))
  | useTooBig (s : S) (l amt : Nat) (hl : l < s.n) (h0 : s.holder = .api) (h1 : s.closed l = false)
      (h2 : amt > effCap s.cap (s.chain l) (s.cap l)) : Step s (unlock (answer s .errCap))
  | useGrant (s : S) (l amt : Nat) (hl : l < s.n) (ha : 0 < amt) (h0 : s.holder = .api) (h1 : s.closed l = false)
      (h2 : amt ≤ effCap s.cap (s.chain l) (s.cap l)) (h3 : fits s.cap s.used (s.chain l) amt = true) : Step s (unlock (doUseGrant s l amt))
  | useWait (s : S) (l amt : Nat) (hl : l < s.n) (ha : 0 < amt) (h0 : s.holder = .api) (h1 : s.closed l = false)
      (h2 : amt ≤ effCap s.cap (s.chain l) (s.cap l)) (h3 : fits s.cap s.used (s.chain l) amt = false) : Step s (unlock (doUseWait s l amt))
  -- … `New`, child `Close`, `SetCap`
  | newChild (s : S) (p c : Nat) (hp : p < s.n) (h0 : s.holder = .api) (h1 : s.closed p = false) :
      Step s (unlock (doNewChild s p c))
  | closeChild (s : S) (l : Nat) (hl : l < s.n) (hr : l ≠ 0) (h0 : s.holder = .api) (h1 : s.closed l = false) :
      Step s (unlock (doCloseChild s l))
  | setCap (s : S) (l c : Nat) (hl : l < s.n) (h0 : s.holder = .api) : Step s (unlock (doSetCap s l c))
  -- root `Close` (as repaired): lock / mark / unlock / send
  | closeLock (s : S) (h0 : s.holder = .free) (h2 : s.cpc = .idle) : Step s (doCloseLock s)
  | closeRoot (s : S) (h0 : s.holder = .closer) (h1 : s.closed 0 = false) (h2 : s.cpc = .crit) :
      Step s (doCloseRootMark s)
  | closeSkip (s : S) (h1 : s.closed 0 = true) (h2 : s.cpc = .crit) : Step s (doCloseSkip s)
  | closeUnlock (s : S) (h2 : s.cpc = .marked) : Step s (doCloseUnlock s)
  -- ticker goroutine: select / lock / body / unlock
  | tickFires (s : S) (h : s.tpc = .sel) : Step s (doTickFires s)
  | tickLock (s : S) (h1 : s.tpc = .tlock) (h0 : s.holder = .free) : Step s (doTickLock s)
  | tickRuns (s : S) (h1 : s.tpc = .tcrit) (h0 : s.holder = .ticker) : Step s (doTickRuns s)
  | tickUnlock (s : S) (h1 : s.tpc = .tunl) : Step s (doTickUnlock s)
  -- the hand-over on the unbuffered `done` channel (sender blocked at `send`, receiver at its `select`)
  | doneReceived (s : S) (h1 : s.tpc = .sel) (h2 : s.cpc = .send) : Step s (doDoneReceived s)
  | drainLock (s : S) (h1 : s.tpc = .dlock) (h0 : s.holder = .free) : Step s (doDrainLock s)
  | drain (s : S) (h1 : s.tpc = .dcrit) (h0 : s.holder = .ticker) : Step s (doDrain s)
  | drainUnlock (s : S) (h1 : s.tpc = .dunl) : Step s (doDrainUnlock s)

/-- The same system with root `Close` as it was before commit 3e6b23a (`seeded/revert-c16-close-deadlock`): every step
    of `Step` except the closer's unlock-before-send, plus the hand-over of `done` with the lock still held and the
    unlock after it. -/
inductive StepU : S → S → Prop
  | common (s s' : S) (st : Step s s') (h : ¬ (s.cpc = .marked ∧ s'.cpc = .send)) : StepU s s'
  | sendHeld (s : S) (h1 : s.cpc = .marked) (h2 : s.tpc = .sel) : StepU s (doSendHeld s)
  | unlockAfter (s : S) (h : s.cpc = .unl) : StepU s (doUnlockAfter s)

inductive ReachableU (rootCap : Nat) : S → Prop
  | init : ReachableU rootCap (init rootCap)
  | step (s s' : S) : ReachableU rootCap s → StepU s s' → ReachableU rootCap s'

inductive Reachable (rootCap : Nat) : S → Prop
  | init : Reachable rootCap (init rootCap)
  | step (s s' : S) : Reachable rootCap s → Step s s' → Reachable rootCap s'

/-- zero or more steps -/
inductive Steps : S → S → Prop
  | refl (s : S) : Steps s s
  | tail (s t u : S) : Steps s t → Step t u → Steps s u

theorem Reachable.steps {c : Nat} {s t : S} (h : Reachable c s) (st : Steps s t) : Reachable c t := by
  induction st with
  | refl => exact h
  | tail t u _ hu ih => exact Reachable.step t u ih hu

/-! ### single steps as a total function, schedules, and the fused scheduler used by the driver -/

/-- the steps of `Step`, named; `use`/`newChild`/`closeChild`/`setCap` are the bodies executed by the API holder -/
inductive Micro
  | useNeg | apiLock | apiRead
  | use (l amt : Nat) | newChild (p c : Nat) | closeChild (l : Nat) | setCap (l c : Nat)
  | closeLock | closeMark | closeSkip | closeUnlock
  | tickFires | tickLock | tickRuns | tickUnlock | doneReceived | drainLock | drain | drainUnlock
deriving Repr

/-- take the named step if it is enabled, stay otherwise -/
def micro (s : S) : Micro → S
  | .useNeg => answer s .errNeg
  | .apiLock => if s.holder = .free then lockApi s else s
  | .apiRead => if s.holder = .api then unlock s else s
  | .use l amt =>
    if l < s.n ∧ s.holder = .api then
      if s.closed l then unlock (answer s .errClosed)
      else if amt = 0 then unlock (doUseZero s l)
      else if amt > effCap s.cap (s.chain l) (s.cap l) then unlock (answer s .errCap)
      else if fits s.cap s.used (s.chain l) amt then unlock (doUseGrant s l amt)
      else unlock (doUseWait s l amt)
    else s
  | .newChild p c =>
    if p < s.n ∧ s.holder = .api then (if s.closed p then unlock s else unlock (doNewChild s p c)) else s
  | .closeChild l =>
    if l < s.n ∧ l ≠ 0 ∧ s.holder = .api then (if s.closed l then unlock s else unlock (doCloseChild s l)) else s
  | .setCap l c => if l < s.n ∧ s.holder = .api then unlock (doSetCap s l c) else s
  | .closeLock => if s.holder = .free ∧ s.cpc = .idle then doCloseLock s else s
  | .closeMark => if s.holder = .closer ∧ s.closed 0 = false ∧ s.cpc = .crit then doCloseRootMark s else s
  | .closeSkip => if s.closed 0 = true ∧ s.cpc = .crit then doCloseSkip s else s
  | .closeUnlock => if s.cpc = .marked then doCloseUnlock s else s
  | .tickFires => if s.tpc = .sel then doTickFires s else s
  | .tickLock => if s.tpc = .tlock ∧ s.holder = .free then doTickLock s else s
  | .tickRuns => if s.tpc = .tcrit ∧ s.holder = .ticker then doTickRuns s else s
  | .tickUnlock => if s.tpc = .tunl then doTickUnlock s else s
  | .doneReceived => if s.tpc = .sel ∧ s.cpc = .send then doDoneReceived s else s
  | .drainLock => if s.tpc = .dlock ∧ s.holder = .free then doDrainLock s else s
  | .drain => if s.tpc = .dcrit ∧ s.holder = .ticker then doDrain s else s
  | .drainUnlock => if s.tpc = .dunl then doDrainUnlock s else s

/-- `micro` takes a step of the relation or none -/
theorem micro_step (s : S) (m : Micro) : micro s m = s ∨ Step s (micro s m) := by
  cases m with
  | useNeg => exact Or.inr (.useNeg s)
  | apiLock => simp only [micro]; split; exact Or.inr (.apiLock s ‹_›); exact Or.inl rfl
  | apiRead => simp only [micro]; split; exact Or.inr (.apiRead s ‹_›); exact Or.inl rfl
  | use l amt =>
    simp only [micro]
    split
    · rename_i h
      split
      · rename_i hc; exact Or.inr (.useClosed s l h.1 h.2 hc)
      · rename_i hc
        have hc : s.closed l = false := by simpa using hc
        split
        · rename_i hz; subst hz; exact Or.inr (.useZero s l h.1 h.2 hc)
        · rename_i hz
          split
          · rename_i hb; exact Or.inr (.useTooBig s l amt h.1 h.2 hc hb)
          · rename_i hb
            split
            · rename_i hf; exact Or.inr (.useGrant s l amt h.1 (by omega) h.2 hc (by omega) hf)
            · rename_i hf; exact Or.inr (.useWait s l amt h.1 (by omega) h.2 hc (by omega) (by simpa using hf))
    · exact Or.inl rfl
  | newChild p c =>
    simp only [micro]
    split
    · rename_i h
      split
      · exact Or.inr (.apiRead s h.2)
      · rename_i hc; exact Or.inr (.newChild s p c h.1 h.2 (by simpa using hc))
    · exact Or.inl rfl
  | closeChild l =>
    simp only [micro]
    split
    · rename_i h
      split
      · exact Or.inr (.apiRead s h.2.2)
      · rename_i hc; exact Or.inr (.closeChild s l h.1 h.2.1 h.2.2 (by simpa using hc))
    · exact Or.inl rfl
  | setCap l c => simp only [micro]; split; exact Or.inr (.setCap s l c (‹_ ∧ _›).1 (‹_ ∧ _›).2); exact Or.inl rfl
  | closeLock => simp only [micro]; split; exact Or.inr (.closeLock s (‹_ ∧ _›).1 (‹_ ∧ _›).2); exact Or.inl rfl
  | closeMark =>
    simp only [micro]; split
    · rename_i h; exact Or.inr (.closeRoot s h.1 h.2.1 h.2.2)
    · exact Or.inl rfl
  | closeSkip => simp only [micro]; split; exact Or.inr (.closeSkip s (‹_ ∧ _›).1 (‹_ ∧ _›).2); exact Or.inl rfl
  | closeUnlock => simp only [micro]; split; exact Or.inr (.closeUnlock s ‹_›); exact Or.inl rfl
  | tickFires => simp only [micro]; split; exact Or.inr (.tickFires s ‹_›); exact Or.inl rfl
  | tickLock => simp only [micro]; split; exact Or.inr (.tickLock s (‹_ ∧ _›).1 (‹_ ∧ _›).2); exact Or.inl rfl
  | tickRuns => simp only [micro]; split; exact Or.inr (.tickRuns s (‹_ ∧ _›).1 (‹_ ∧ _›).2); exact Or.inl rfl
  | tickUnlock => simp only [micro]; split; exact Or.inr (.tickUnlock s ‹_›); exact Or.inl rfl
  | doneReceived => simp only [micro]; split; exact Or.inr (.doneReceived s (‹_ ∧ _›).1 (‹_ ∧ _›).2); exact Or.inl rfl
  | drainLock => simp only [micro]; split; exact Or.inr (.drainLock s (‹_ ∧ _›).1 (‹_ ∧ _›).2); exact Or.inl rfl
  | drain => simp only [micro]; split; exact Or.inr (.drain s (‹_ ∧ _›).1 (‹_ ∧ _›).2); exact Or.inl rfl
  | drainUnlock => simp only [micro]; split; exact Or.inr (.drainUnlock s ‹_›); exact Or.inl rfl

/-- a schedule: named steps taken one after the other -/
def runMicros (s : S) (ms : List Micro) : S := ms.foldl micro s

/-- every schedule is a run of the transition relation -/
theorem runMicros_steps (s : S) (ms : List Micro) : Steps s (runMicros s ms) := by
  induction ms generalizing s with
  | nil => exact .refl s
  | cons m ms ih =>
    have h2 : Steps (micro s m) (runMicros (micro s m) ms) := ih (micro s m)
    have h1 : Steps s (micro s m) := by
      rcases micro_step s m with h | h
      · rw [h]; exact .refl s
      · exact .tail _ _ _ (.refl s) h
    show Steps s (runMicros (micro s m) ms)
    generalize runMicros (micro s m) ms = u at h2
    induction h2 with
    | refl => exact h1
    | tail t u _ hu ih2 => exact .tail _ _ _ ih2 hu

/-! The fused scheduler: one call = one call of the exported API made while no other goroutine is inside the package
    (`tick` = the ticker goroutine receives a tick, takes the lock, runs its body and unlocks; `close 0` = root `Close`
    — lock, mark, unlock, hand-over — followed by the goroutine's final drain).  The finer interleavings are run by the
    driver through `runMicros` directly (area `window`). -/

inductive Op
  | use (l : Nat) (amt : Int)
  | tick
  | newChild (p : Nat) (c : Int)    -- the capacity argument is any Go `int`; the call stores `clampCap c`
  | close (l : Nat)
  | setCap (l : Nat) (c : Int)
deriving Repr

/-- the steps a fused call consists of -/
def plan (s : S) : Op → List Micro
  | .use l amt =>
    if l < s.n then (if amt < 0 then [.useNeg] else if s.holder = .free then [.apiLock, .use l amt.toNat] else []) else []
  | .tick => if s.tpc = .sel ∧ s.holder = .free then [.tickFires, .tickLock, .tickRuns, .tickUnlock] else []
  | .newChild p c => if p < s.n ∧ s.holder = .free then [.apiLock, .newChild p (clampCap c)] else []
  | .close l =>
    if l < s.n ∧ s.holder = .free then
      if l = 0 then
        if s.closed 0 then [.apiLock, .apiRead]
        else if s.cpc = .idle ∧ s.tpc = .sel then
          [.closeLock, .closeMark, .closeUnlock, .doneReceived, .drainLock, .drain, .drainUnlock]
        else []
      else [.apiLock, .closeChild l]
    else []
  | .setCap l c => if l < s.n ∧ s.holder = .free then [.apiLock, .setCap l (clampCap c)] else []

def exec (s : S) (op : Op) : S := runMicros s (plan s op)

/-- every run of the scheduler is a run of the transition relation -/
theorem exec_steps (s : S) (op : Op) : Steps s (exec s op) := runMicros_steps s (plan s op)

/-! ### observations -/

/-- `Cap(applyParentCaps)` -/
def capOf (s : S) (l : Nat) (apply : Bool) : Nat :=
  if apply then effCap s.cap (s.chain l) (s.cap l) else s.cap l

def run (s : S) (ops : List Op) : S := ops.foldl exec s

end RL
