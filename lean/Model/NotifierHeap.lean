import Model.Notifier
/-! C17: the production maps of a world of notifiers with the INNER maps (`map[Target]int`) as heap cells.  Core Lean only.

`Model/Notifier.lean` — what the driver executes — holds inner maps as values, so two notifiers can not share one.  In Go
an inner map is a reference.  `RegisterFromNotifier` as written copies every inner map of the source into a fresh one
before a name the destination does not know adopts it; the variant with `maps.Clone` (shallow; seeded regression
ind6-c17-a / ind7-c17-a) lets the destination adopt the SOURCE's inner map.  This file is the model in which that
difference exists (`hMergeG … deep`); it is used for the contrast `C17.shared_inner_map_refuted` and for the separation
argument `C17.deep_merge_keeps_notifiers_separate` (what exactly the copy buys).  `HWorld` is used for BOTH maps of maps: `PW` productionMap (decides deliveries) and `NW` nameMap (decides what `Unregister`
walks); the batch set, level and flag hold no references. -/
namespace NtH
open Nt

abbrev Addr := Nat

/-- one Go map of maps per notifier, with the inner maps as heap cells: `κ` = key of the outer map, `ν` = content of an
    inner map.  Used twice: `PW` (productionMap: name ↦ (target ↦ priority)) and `NW` (nameMap: target ↦ set of names). -/
structure HWorld (κ ν : Type) where
  /-- the inner maps: address ↦ content -/
  heap : Addr → ν
  /-- next fresh address (`make`) -/
  next : Addr
  /-- the outer map of notifier `i`: key ↦ reference to an inner map -/
  pm : Nat → List (κ × Addr)

/-- productionMap with reference cells -/
abbrev PW := HWorld Name (List (Nat × Int))
/-- nameMap with reference cells -/
abbrev NW := HWorld Nat (List Name)

section generic
variable {κ ν : Type} [DecidableEq κ]

def HWorld.init (z : ν) : HWorld κ ν := { heap := fun _ => z, next := 0, pm := fun _ => [] }

def hset (h : Addr → ν) (a : Addr) (v : ν) : Addr → ν := fun x => if x = a then v else h x
def upd (f : Nat → List (κ × Addr)) (i : Nat) (v : List (κ × Addr)) : Nat → List (κ × Addr) :=
  fun x => if x = i then v else f x

/-- the outer map of notifier `i` with the references followed -/
def deref (H : HWorld κ ν) (i : Nat) : List (κ × ν) := (H.pm i).map (fun e => (e.1, H.heap e.2))

/-- `inner, ok := outer[k]; if !ok { inner = make(…); outer[k] = inner }; <mutate inner with f>` (`z` = the empty map) -/
def hUpd (H : HWorld κ ν) (i : Nat) (k : κ) (f : ν → ν) (z : ν) : HWorld κ ν :=
  match assocGet (H.pm i) k with
  | some a => { H with heap := hset H.heap a (f (H.heap a)) }
  | none => { heap := hset H.heap H.next (f z), next := H.next + 1, pm := upd H.pm i (assocSet (H.pm i) k H.next) }

/-- `delete(outer, k)` -/
def hDel (H : HWorld κ ν) (i : Nat) (k : κ) : HWorld κ ν := { H with pm := upd H.pm i (assocDel (H.pm i) k) }

/-- one iteration of a merge loop of `RegisterFromNotifier` for the source's entry `e` = (key, reference); `comb mine theirs`
    = the destination's inner map after the inner loop.
    `deep = true`: the code (a key the destination does not know adopts a reference to a FRESH COPY);
    `deep = false`: `maps.Clone` of the outer map only — the destination adopts the source's own inner map -/
def hMergeG (comb : ν → ν → ν) (deep : Bool) (i : Nat) (H : HWorld κ ν) (e : κ × Addr) : HWorld κ ν :=
  match assocGet (H.pm i) e.1 with
  | some ai => { H with heap := hset H.heap ai (comb (H.heap ai) (H.heap e.2)) }
  | none =>
    if deep then
      { heap := hset H.heap H.next (H.heap e.2), next := H.next + 1, pm := upd H.pm i (assocSet (H.pm i) e.1 H.next) }
    else { H with pm := upd H.pm i (assocSet (H.pm i) e.1 e.2) }

end generic

/-- `set, ok := n.productionMap[name]; if !ok { set = make(…); n.productionMap[name] = set }; set[target] = priority` -/
def hRegOne (H : PW) (i : Nat) (n : Name) (t : Nat) (p : Int) : PW := hUpd H i n (fun set => assocSet set t p) []

/-- `if set, ok := n.productionMap[name]; ok { delete(set, target); if len(set) == 0 { delete(n.productionMap, name) } }` -/
def hUnregOne (i t : Nat) (H : PW) (n : Name) : PW :=
  match assocGet (H.pm i) n with
  | none => H
  | some a =>
    let H' := { H with heap := hset H.heap a (assocDel (H.heap a) t) }
    if assocDel (H.heap a) t = [] then { H' with pm := upd H.pm i (assocDel (H.pm i) n) } else H'

/-- one iteration of the productionMap merge loop -/
def hMergeStep (deep : Bool) (i : Nat) (H : PW) (e : Name × Addr) : PW := hMergeG overlay deep i H e

inductive HOp where
  | reg (i : Nat) (n : Name) (t : Nat) (p : Int)
  | unreg (i t : Nat) (ns : List Name)
  | merge (deep : Bool) (i m : Nat)
  | reset (i : Nat)

/-- the notifier an operation writes -/
def HOp.target : HOp → Nat
  | .reg i .. => i
  | .unreg i .. => i
  | .merge _ i _ => i
  | .reset i => i

def hstep (H : PW) : HOp → PW
  | .reg i n t p => hRegOne H i n t p
  | .unreg i t ns => ns.foldl (hUnregOne i t) H
  | .merge deep i m => if i = m then H else (H.pm m).foldl (hMergeStep deep i) H
  | .reset i => { H with pm := upd H.pm i [] }

def hrun (ops : List HOp) : PW := ops.foldl hstep (HWorld.init [])

/-! ### nameMap with reference cells -/

/-- `targetNames, ok := n.nameMap[target]; if !ok { targetNames = make(…); n.nameMap[target] = targetNames };
    targetNames[name] = true` -/
def nAddName (t : Nat) (i : Nat) (H : NW) (n : Name) : NW := hUpd H i t (fun set => setIns set n) []

/-- one iteration of the nameMap merge loop: `for k1, v1 := range v { nm[k1] = v1 }` or adoption -/
def nMergeStep (deep : Bool) (i : Nat) (H : NW) (e : Nat × Addr) : NW :=
  hMergeG (fun mine theirs => theirs.foldl setIns mine) deep i H e

inductive NOp where
  | reg (i t : Nat) (ns : List Name)
  | unreg (i t : Nat)
  | merge (deep : Bool) (i m : Nat)
  | reset (i : Nat)

def NOp.target : NOp → Nat
  | .reg i .. => i
  | .unreg i _ => i
  | .merge _ i _ => i
  | .reset i => i

def NOp.deep : NOp → Bool
  | .merge d _ _ => d
  | _ => true

def nstep (H : NW) : NOp → NW
  | .reg i t ns => ns.foldl (nAddName t i) H
  | .unreg i t => hDel H i t
  | .merge deep i m => if i = m then H else (H.pm m).foldl (nMergeStep deep i) H
  | .reset i => { H with pm := upd H.pm i [] }

def nrun (ops : List NOp) : NW := ops.foldl nstep (HWorld.init [])

end NtH
