import Model.Notifier
/-! C17: the production maps of a world of notifiers with the INNER maps (`map[Target]int`) as heap cells.  Core Lean only.

`Model/Notifier.lean` — what the driver executes — holds inner maps as values, so two notifiers can not share one.  In Go
an inner map is a reference.  `RegisterFromNotifier` as written copies every inner map of the source into a fresh one
before a name the destination does not know adopts it; the variant with `maps.Clone` (shallow; seeded regression
ind6-c17-a / ind7-c17-a) lets the destination adopt the SOURCE's inner map.  This file is the model in which that
difference exists (`hMergeStep deep`); it is used for the contrast `C17.shared_inner_map_refuted` and for the separation
argument `C17.deep_merge_keeps_notifiers_separate` (what exactly the copy buys).  Scope: `productionMap` only (it alone decides deliveries); the
name lists an `Unregister` walks are given (`HOp.unreg … ns`), batch set / level / flag hold no references. -/
namespace NtH
open Nt

abbrev Addr := Nat

structure HWorld where
  /-- the inner maps: address ↦ (target ↦ priority) -/
  heap : Addr → List (Nat × Int)
  /-- next fresh address (`make`) -/
  next : Addr
  /-- `productionMap` of notifier `i`: name ↦ reference to an inner map -/
  pm : Nat → List (Name × Addr)

def HWorld.init : HWorld := { heap := fun _ => [], next := 0, pm := fun _ => [] }

def hset (h : Addr → List (Nat × Int)) (a : Addr) (v : List (Nat × Int)) : Addr → List (Nat × Int) :=
  fun x => if x = a then v else h x
def upd (f : Nat → List (Name × Addr)) (i : Nat) (v : List (Name × Addr)) : Nat → List (Name × Addr) :=
  fun x => if x = i then v else f x

/-- what notifier `i` would deliver from: its production map with the references followed -/
def deref (H : HWorld) (i : Nat) : PMap := (H.pm i).map (fun e => (e.1, H.heap e.2))

/-- `set, ok := n.productionMap[name]; if !ok { set = make(…); n.productionMap[name] = set }; set[target] = priority` -/
def hRegOne (H : HWorld) (i : Nat) (n : Name) (t : Nat) (p : Int) : HWorld :=
  match assocGet (H.pm i) n with
  | some a => { H with heap := hset H.heap a (assocSet (H.heap a) t p) }
  | none => { heap := hset H.heap H.next [(t, p)], next := H.next + 1, pm := upd H.pm i (assocSet (H.pm i) n H.next) }

/-- `if set, ok := n.productionMap[name]; ok { delete(set, target); if len(set) == 0 { delete(n.productionMap, name) } }` -/
def hUnregOne (i t : Nat) (H : HWorld) (n : Name) : HWorld :=
  match assocGet (H.pm i) n with
  | none => H
  | some a =>
    let H' := { H with heap := hset H.heap a (assocDel (H.heap a) t) }
    if assocDel (H.heap a) t = [] then { H' with pm := upd H.pm i (assocDel (H.pm i) n) } else H'

/-- one iteration of the merge loop of `RegisterFromNotifier` for the source's entry `e` = (name, reference).
    `deep = true`: the code (the reference the destination adopts points to a fresh copy);
    `deep = false`: `maps.Clone` of the outer map only — the destination adopts the source's own inner map -/
def hMergeStep (deep : Bool) (i : Nat) (H : HWorld) (e : Name × Addr) : HWorld :=
  match assocGet (H.pm i) e.1 with
  | some ai => { H with heap := hset H.heap ai (overlay (H.heap ai) (H.heap e.2)) }
  | none =>
    if deep then
      { heap := hset H.heap H.next (H.heap e.2), next := H.next + 1, pm := upd H.pm i (assocSet (H.pm i) e.1 H.next) }
    else { H with pm := upd H.pm i (assocSet (H.pm i) e.1 e.2) }

inductive HOp where
  | reg (i : Nat) (n : Name) (t : Nat) (p : Int)
  | unreg (i t : Nat) (ns : List Name)
  | merge (deep : Bool) (i m : Nat)
  | reset (i : Nat)

/-- the notifier an operation writes -/
def HOp.target : HOp → Nat
  | .reg i .. => i
  | .unreg i .. => i
  | .merge _ i _ => i
  | .reset i => i

def hstep (H : HWorld) : HOp → HWorld
  | .reg i n t p => hRegOne H i n t p
  | .unreg i t ns => ns.foldl (hUnregOne i t) H
  | .merge deep i m => if i = m then H else (H.pm m).foldl (hMergeStep deep i) H
  | .reset i => { H with pm := upd H.pm i [] }

def hrun (ops : List HOp) : HWorld := ops.foldl hstep HWorld.init

end NtH
