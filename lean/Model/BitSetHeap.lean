import Model.BitSet
/-! C08: the storage as a HEAP of arrays with addresses.

`Model/BitSet.lean` gives every bit set its own `List` of words, so "Clone/Copy/Data/Load do not share storage" is true
there by construction.  Here a bit set is what it is in Go: a slice header pointing into a heap of arrays, plus the cached
count.  The code never reslices (`len == cap` always), so a slice header is `none` (nil) or the address of a whole array.
Every operation says WHERE its words go — `b.data[i] = …` writes into the array the receiver points to, `make` + `copy`
allocates a fresh array (addresses are never reused) — and reuses the verified word-level functions for WHAT is written.
The caller's slices (results of `Data`, arguments of `Load`) live in the same heap (`ext`), and the caller may scribble
on them.  `Lemmas/BitSetHeapLemmas.lean` proves that the separation invariant holds after every history and that the
heap model then computes exactly what the value model computes (`C08.no_aliasing`, `C08.heap_refines`), and refutes the
aliasing variants by concrete examples.  Core-only; the driver executes `applyOpH` / `scribbleH`. -/
namespace BS

/-- a `BitSet` value: slice header and cached count -/
structure Obj where
  ptr : Option Nat := none
  set : Int := 0
deriving Repr, DecidableEq

/-- the arrays by address -/
abbrev Mem := List (List W)

def arrAt (m : Mem) (a : Nat) : List W := m.getD a []
def sliceOf (m : Mem) (p : Option Nat) : List W :=
  match p with
  | none => []
  | some a => arrAt m a
/-- the value a bit set object denotes in a memory -/
def viewO (m : Mem) (o : Obj) : T := { data := sliceOf m o.ptr, set := o.set }

/-- `make` + `copy`: a fresh array with the given content (new memory, its address) -/
def allocArr (m : Mem) (v : List W) : Mem × Nat := (m ++ [v], m.length)

/-- an operation of one object on the memory -/
abbrev OOp := Mem → Obj → Mem × Obj

/-- the statements `b.data[i] = …; b.set = …` of an operation that keeps the slice: the words go back into the array
    the receiver points to -/
def storeO (m : Mem) (o : Obj) (v : T) : Mem × Obj :=
  match o.ptr with
  | some a => (m.set a v.data, { ptr := some a, set := v.set })
  | none => (m, { ptr := none, set := v.set })

def inPlaceO (f : T → T) : OOp := fun m o => storeO m o (f (viewO m o))
def seqO (f g : OOp) : OOp := fun m o => g (f m o).1 (f m o).2

/-- `EnsureCapacity`: a new zero-extended array only when more words are needed -/
def ensureO (words : Nat) : OOp := fun m o =>
  if words > (viewO m o).data.length then
    ((allocArr m (ensureCapacity (viewO m o) words).data).1,
     { ptr := some (allocArr m (ensureCapacity (viewO m o) words).data).2, set := o.set })
  else (m, o)

/-- the statements of `Set` / `Flip` / `SetRange` / `FlipRange` that follow the call of `EnsureCapacity` -/
def setBitIP (b : T) (index : Nat) : T :=
  let i := wordIdx index
  let mask := wordMask index
  if (getW b.data i &&& mask) == 0#64 then
    { data := b.data.set i (getW b.data i ||| mask), set := b.set + 1 }
  else b
def flipBitIP (b : T) (index : Nat) : T :=
  let i := wordIdx index
  let mask := wordMask index
  let w := getW b.data i ^^^ mask
  { data := b.data.set i w, set := if (w &&& mask) == mask then b.set + 1 else b.set - 1 }
def setRangeIP (b : T) (start end_ : Nat) : T :=
  let se := if start > end_ then (end_, start) else (start, end_)
  runRange wholeSet bitSet b se.1 se.2 (wordIdx se.1) (wordIdx se.2)
def flipRangeIP (b : T) (start end_ : Nat) : T :=
  let se := if start > end_ then (end_, start) else (start, end_)
  runRange wholeFlip bitFlip b se.1 se.2 (wordIdx se.1) (wordIdx se.2)
/-- the number of words `SetRange` / `FlipRange` ask `EnsureCapacity` for -/
def rangeWords (start end_ : Nat) : Nat := wordIdx (if start > end_ then (end_, start) else (start, end_)).2 + 1

def setBitO (i : Nat) : OOp := seqO (ensureO (wordIdx i + 1)) (inPlaceO (fun b => setBitIP b i))
def flipBitO (i : Nat) : OOp := seqO (ensureO (wordIdx i + 1)) (inPlaceO (fun b => flipBitIP b i))
def clearBitO (i : Nat) : OOp := inPlaceO (fun b => clearBit b i)
def setRangeO (s e : Nat) : OOp := seqO (ensureO (rangeWords s e)) (inPlaceO (fun b => setRangeIP b s e))
def flipRangeO (s e : Nat) : OOp := seqO (ensureO (rangeWords s e)) (inPlaceO (fun b => flipRangeIP b s e))
def clearRangeO (s e : Nat) : OOp := inPlaceO (fun b => clearRange b s e)

/-- `Trim`: a shorter copy when trailing zero words exist, nil when every word is zero, otherwise the same array -/
def trimO : OOp := fun m o =>
  match trimLoop (viewO m o).data (viewO m o).data.length with
  | some i =>
    if i != (viewO m o).data.length then
      ((allocArr m ((viewO m o).data.take i)).1, { ptr := some (allocArr m ((viewO m o).data.take i)).2, set := o.set })
    else (m, o)
  | none => (m, { ptr := none, set := o.set })

def resetO : OOp := fun m _ => (m, {})

/-- `Copy` (as it is since aa1f799) and the storage part of `Clone`: a fresh array with the source's words -/
def copyO (src : T) : OOp := fun m _ => ((allocArr m src.data).1, { ptr := some (allocArr m src.data).2, set := src.set })

/-- `Load`: `b.data = make(len(data)); copy(b.data, data); b.Trim(); b.set = count over data[i]` -/
def loadO (ws : List W) : OOp := fun m o =>
  let t := trimO (allocArr m ws).1 { ptr := some (allocArr m ws).2, set := o.set }
  (t.1, { ptr := t.2.ptr, set := loadLoop ws 0 (sliceOf t.1 t.2.ptr).length })

/-! ### two bit sets and the caller's slices in one heap -/

structure Heap where
  mem : Mem := []
  a : Obj := {}
  b : Obj := {}
  /-- addresses of the slices the caller holds: arguments it gave to `Load`, results it got from `Data` (newest last) -/
  ext : List Nat := []

def Heap.obj (h : Heap) : Reg → Obj
  | .A => h.a
  | .B => h.b
def Heap.setObj (h : Heap) (r : Reg) (m : Mem) (o : Obj) : Heap :=
  match r with
  | .A => { h with mem := m, a := o }
  | .B => { h with mem := m, b := o }
def Heap.view (h : Heap) (r : Reg) : T := viewO h.mem (h.obj r)
/-- what the heap denotes in the value model -/
def Heap.denote (h : Heap) : Pair := { a := h.view .A, b := h.view .B }

def updH (h : Heap) (r : Reg) (f : OOp) : Heap := h.setObj r (f h.mem (h.obj r)).1 (f h.mem (h.obj r)).2

/-- a fresh array that the caller holds (its own `[]uint64{…}`, or the copy `Data` returns) -/
def pushExt (h : Heap) (v : List W) : Heap := { h with mem := h.mem ++ [v], ext := h.ext ++ [h.mem.length] }

/-- the newest slice of the caller -/
def Heap.lastExt (h : Heap) : Nat := h.ext.getLastD 0

/-- one call of a history on the heap -/
def applyOpH (h : Heap) : Op → Heap
  | .set r i => updH h r (setBitO i)
  | .clear r i => updH h r (clearBitO i)
  | .flip r i => updH h r (flipBitO i)
  | .setRange r s e => updH h r (setRangeO s e)
  | .clearRange r s e => updH h r (clearRangeO s e)
  | .flipRange r s e => updH h r (flipRangeO s e)
  | .load r ws =>
    -- the caller builds its slice, `Load` reads it
    let h := pushExt h ws
    updH h r (loadO (arrAt h.mem h.lastExt))
  | .copy r q => updH h r (copyO (h.view q))
  | .clone r q => updH h r (copyO (h.view q))
  | .trim r => updH h r trimO
  | .ensure r n => updH h r (ensureO n)
  | .reset r => updH h r resetO
  | .data r =>
    -- `b.Trim()`, then `make` + `copy` into a slice that goes to the caller
    let h := updH h r trimO
    pushExt h (h.view r).data
  | .loadData r q =>
    let h := updH h q trimO
    let h := pushExt h (h.view q).data
    updH h r (loadO (arrAt h.mem h.lastExt))

/-- the caller complements every word of a slice it holds -/
def scribbleH (h : Heap) (a : Nat) : Heap := { h with mem := h.mem.set a ((arrAt h.mem a).map (fun w => ~~~w)) }

/-- events of a session: a call of the API, or the caller scribbling on the `k`-th slice it holds -/
inductive Ev where
  | op (o : Op)
  | scribble (k : Nat)

def applyEv (h : Heap) : Ev → Heap
  | .op o => applyOpH h o
  | .scribble k => if k < h.ext.length then scribbleH h (h.ext.getD k 0) else h

def runH (evs : List Ev) : Heap := evs.foldl applyEv {}

/-- the calls among the events -/
def opsOf : List Ev → List Op
  | [] => []
  | .op o :: t => o :: opsOf t
  | .scribble _ :: t => opsOf t

/-! ### CONTRAST variants (not the code) -/

/-- `Clone` that shares the slice instead of copying it (the shape of ind3-c08-b) -/
def cloneShareH (h : Heap) (r q : Reg) : Heap := h.setObj r h.mem (h.obj q)

/-- `Data` that returns the receiver's own slice instead of a copy -/
def dataShareH (h : Heap) (r : Reg) : Heap :=
  let h := updH h r trimO
  match (h.obj r).ptr with
  | some a => { h with ext := h.ext ++ [a] }
  | none => h

/-- `Copy` as it was before aa1f799: `b.set = other.set; b.data = make(len(other.data)); copy(b.data, other.data)` —
    the second statement replaces the receiver's slice BEFORE the third reads `other.data`, which is the same slice when
    `other == b` -/
def copyOldH (h : Heap) (r q : Reg) : Heap :=
  let n := (h.view q).data.length
  let h1 := h.setObj r (allocArr h.mem (List.replicate n 0#64)).1
    { ptr := some (allocArr h.mem (List.replicate n 0#64)).2, set := (h.obj q).set }
  -- `copy(b.data, other.data)` reads `other` in the NEW heap
  updH h1 r (inPlaceO (fun b => { b with data := (h1.view q).data.take b.data.length ++ b.data.drop (h1.view q).data.length }))

end BS
