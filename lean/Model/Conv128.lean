import GoSem.F64
/-! # C02 — conversion / printing surface of `num.Uint128` and `num.Int128` (core Lean only, executable)

Transcribed branch for branch from `/repo/xmath/num/uint128.go` and `int128.go` (the tree that contains the fixes to
`Int128FromFloat64`, `Int128.AsFloat64` and the exponent-form parse):

* `From64 / FromUint64`, the narrowing family `Is* / As*`, `Int64()` of the `json.Number` interface;
* `FromBigInt` on `Int` (64-bit `big.Word` only: the `len(words)` switch is a switch on the magnitude range),
  `AsBigInt` (`ToBigInt` with the xor/add/neg fix-up of negative values);
* `FromFloat64` / `AsFloat64` on `GoSem.F64`, operation for operation;
* `parseToBigInt` as a scanner on characters: `big.Int.SetString(s, 0)` (sign, `0x 0o 0b 0` prefixes, `_` rules) and,
  when the text contains `E`/`e`, `big.Rat.SetString` (mantissa with radix point, `e`/`p` exponent, limits on the
  exponent) followed by `IsInt`/`Num`; `FromString`, `FromStringNoCheck`, `UnmarshalText/JSON/YAML`;
* `String` (= `MarshalText` = `MarshalJSON` = `MarshalYAML`): decimal digits of the value. -/
namespace Conv
open GoSem

/-! ## the two types -/

structure U128 where
  hi : BitVec 64
  lo : BitVec 64
deriving DecidableEq, Repr

structure I128 where
  hi : BitVec 64
  lo : BitVec 64
deriving DecidableEq, Repr

def signBit64 : BitVec 64 := 0x8000000000000000#64
def maxU64 : BitVec 64 := 0xFFFFFFFFFFFFFFFF#64
def maxI64 : BitVec 64 := 0x7FFFFFFFFFFFFFFF#64

def U128.toNat (u : U128) : Nat := u.hi.toNat * 2^64 + u.lo.toNat
/-- two's-complement value -/
def I128.toInt (i : I128) : Int :=
  if i.hi.toNat < 2^63 then ((i.hi.toNat * 2^64 + i.lo.toNat : Nat) : Int)
  else ((i.hi.toNat * 2^64 + i.lo.toNat : Nat) : Int) - 2^128

def U128.zero : U128 := ⟨0#64, 0#64⟩
def U128.max : U128 := ⟨maxU64, maxU64⟩
def I128.zero : I128 := ⟨0#64, 0#64⟩
def I128.max : I128 := ⟨maxI64, maxU64⟩
def I128.min : I128 := ⟨signBit64, 0#64⟩
def minInt128AsAbsUint128 : U128 := ⟨signBit64, 0#64⟩
def maxInt128AsUint128 : U128 := ⟨maxI64, maxU64⟩

/-- the value with the given 128-bit pattern -/
def U128.ofNat (n : Nat) : U128 := ⟨BitVec.ofNat 64 (n / 2^64), BitVec.ofNat 64 n⟩

/-! ## constructors from 64-bit values -/

def U128.from64 (v : BitVec 64) : U128 := ⟨0#64, v⟩
/-- `Int128From64(v int64)`: `v` given by its bit pattern -/
def I128.from64 (v : BitVec 64) : I128 := ⟨if v.toInt < 0 then maxU64 else 0#64, v⟩
def I128.fromUint64 (v : BitVec 64) : I128 := ⟨0#64, v⟩

/-! ## narrowing predicates and conversions -/

def U128.isInt128 (u : U128) : Bool := u.hi &&& signBit64 == 0#64
def U128.asInt128 (u : U128) : I128 := ⟨u.hi, u.lo⟩
def U128.isUint64 (u : U128) : Bool := u.hi == 0#64
def U128.asUint64 (u : U128) : BitVec 64 := u.lo

def I128.isUint128 (i : I128) : Bool := i.hi &&& signBit64 == 0#64
def I128.asUint128 (i : I128) : U128 := ⟨i.hi, i.lo⟩
def I128.isInt64 (i : I128) : Bool :=
  if i.hi &&& signBit64 != 0#64 then i.hi == maxU64 && i.lo ≥ signBit64
  else i.hi == 0#64 && i.lo ≤ maxI64
/-- `AsInt64`; the result is the bit pattern of the `int64` -/
def I128.asInt64 (i : I128) : BitVec 64 :=
  if i.hi &&& signBit64 != 0#64 then -(~~~(i.lo - 1#64)) else i.lo
def I128.isUint64 (i : I128) : Bool := i.hi == 0#64
def I128.asUint64 (i : I128) : BitVec 64 := i.lo

/-- `Int64()` of `json.Number`: `none` = `errDoesNotFitInInt64` -/
def I128.int64 (i : I128) : Option (BitVec 64) := if !i.isInt64 then none else some i.asInt64
def U128.int64 (u : U128) : Option (BitVec 64) :=
  if u.isInt128 then (if u.asInt128.isInt64 then some u.asInt128.asInt64 else none) else none

/-! ## helpers of the Go code that the conversions call -/

def U128.lessThan (u n : U128) : Bool := u.hi < n.hi || (u.hi == n.hi && u.lo < n.lo)

def I128.neg (i : I128) : I128 :=
  if (i.hi ||| i.lo) == 0#64 || i == I128.min then i
  else if i.hi &&& signBit64 != 0#64 then
    let hi := ~~~i.hi
    let lo := ~~~(i.lo - 1#64)
    if lo == 0#64 then ⟨hi + 1#64, lo⟩ else ⟨hi, lo⟩
  else
    let hi := ~~~i.hi
    let lo := ~~~i.lo + 1#64
    if lo == 0#64 then ⟨hi + 1#64, lo⟩ else ⟨hi, lo⟩

def I128.absUint128 (i : I128) : U128 :=
  if i == I128.min then ⟨i.hi, i.lo⟩
  else if i.hi &&& signBit64 != 0#64 then
    let hi := ~~~i.hi
    let lo := ~~~(i.lo - 1#64)
    if lo == 0#64 then ⟨hi + 1#64, lo⟩ else ⟨hi, lo⟩
  else ⟨i.hi, i.lo⟩

/-! ## big.Int -/

/-- `len(v.Bits())` for 64-bit words, capped at 3 (every length ≥ 3 takes a saturating branch) -/
def wordCount (n : Nat) : Nat := if n = 0 then 0 else if n < 2^64 then 1 else if n < 2^128 then 2 else 3

/-- the word import shared by both `FromBigInt` functions (sign ignored) -/
def wordsToU128 (n : Nat) : U128 :=
  match wordCount n with
  | 0 => U128.zero
  | 1 => ⟨0#64, BitVec.ofNat 64 n⟩
  | 2 => ⟨BitVec.ofNat 64 (n / 2^64), BitVec.ofNat 64 n⟩
  | _ => U128.max

def U128.fromBigInt (v : Int) : U128 :=
  if v < 0 then U128.zero else wordsToU128 v.natAbs

def I128.fromBigInt (v : Int) : I128 :=
  let i := wordsToU128 v.natAbs
  if v ≥ 0 then
    if i.lessThan maxInt128AsUint128 then i.asInt128 else I128.max
  else
    if i.lessThan minInt128AsAbsUint128 then i.asInt128.neg else I128.min

/-- `ToBigInt` / `AsBigInt`: the two words become the magnitude -/
def U128.asBigInt (u : U128) : Int := ((u.hi.toNat * 2^64 + u.lo.toNat : Nat) : Int)

def maxBigUint128 : Nat := 340282366920938463463374607431768211455

/-- `Uint128(i).ToBigInt(b); if !i.IsUint128() { b.Xor(b, maxBigUint128).Add(b, big1).Neg(b) }` -/
def I128.asBigInt (i : I128) : Int :=
  let b : Nat := i.hi.toNat * 2^64 + i.lo.toNat
  if !i.isUint128 then -(((b ^^^ maxBigUint128) + 1 : Nat) : Int) else (b : Int)

/-! ## big.Int at the level of `big.Word`s, for both word sizes (`intSize == 64` and `intSize == 32`)

A `big.Int` is a sign and a little-endian slice of words (`Bits()`), normalised: no most-significant zero word.
`W` is the word size in bits.  The functions below transcribe the `len(words)` switches of `Uint128FromBigInt` /
`Int128FromBigInt` and the slice manipulation of `Uint128.ToBigInt` (grow with `append`, cut with `words[:n]`, store,
`SetBits` = normalise and clear the sign) branch for branch; the value-level functions above (`wordsToU128`,
`fromBigInt`, `asBigInt`) are proved to be what they compute (`Lemmas/Conv128Words.lean`). -/

/-- the value of a little-endian word slice -/
def wordsVal (W : Nat) : List Nat → Nat
  | [] => 0
  | w :: t => w + 2^W * wordsVal W t

/-- `nat.norm`: drop the most-significant zero words -/
def normWords : List Nat → List Nat
  | [] => []
  | w :: t =>
    match normWords t with
    | [] => if w = 0 then [] else [w]
    | t' => w :: t'

/-- the normalised words of a natural number (`Bits()` of a `big.Int` with that magnitude); `fuel` bounds the length -/
def natToWordsAux (W : Nat) : Nat → Nat → List Nat
  | 0, _ => []
  | fuel + 1, n => if n = 0 then [] else (n % 2^W) :: natToWordsAux W fuel (n / 2^W)
def natToWords (W n : Nat) : List Nat := natToWordsAux W n n

def w64 (w : Nat) : BitVec 64 := BitVec.ofNat 64 w
/-- `(uint64(words[k+1]) << 32) | uint64(words[k])` -/
def join32 (whi wlo : Nat) : BitVec 64 := (w64 whi <<< 32) ||| w64 wlo

/-- the `switch len(words)` shared by both `FromBigInt` functions (sign ignored), `intSize == W` -/
def wordsToU128W (W : Nat) (words : List Nat) : U128 :=
  match words with
  | [] => U128.zero
  | [w0] => ⟨0#64, w64 w0⟩
  | [w0, w1] => if W = 64 then ⟨w64 w1, w64 w0⟩ else ⟨0#64, join32 w1 w0⟩
  | [w0, w1, w2] => if W = 64 then U128.max else ⟨w64 w2, join32 w1 w0⟩
  | [w0, w1, w2, w3] => if W = 64 then U128.max else ⟨join32 w3 w2, join32 w1 w0⟩
  | _ => U128.max

/-- `Uint128FromBigInt(v)` with `v` given as sign and `Bits()` -/
def U128.fromBigIntW (W : Nat) (neg : Bool) (words : List Nat) : U128 :=
  if neg then U128.zero else wordsToU128W W words

/-- `Int128FromBigInt(v)` with `v` given as sign and `Bits()` (`v.Sign() >= 0` is `!neg`: a zero is never negative) -/
def I128.fromBigIntW (W : Nat) (neg : Bool) (words : List Nat) : I128 :=
  let i := wordsToU128W W words
  if !neg then
    if i.lessThan maxInt128AsUint128 then i.asInt128 else I128.max
  else
    if i.lessThan minInt128AsAbsUint128 then i.asInt128.neg else I128.min

/-- the words `Uint128.ToBigInt` stores, least significant first -/
def storedWords (W : Nat) (u : U128) : List Nat :=
  if W = 64 then [u.lo.toNat, u.hi.toNat]
  else [(u.lo &&& 0xFFFFFFFF#64).toNat, (u.lo >>> 32).toNat, (u.hi &&& 0xFFFFFFFF#64).toNat, (u.hi >>> 32).toNat]

/-- `words[k] = v` for each stored word in turn (the slice has been made long enough before) -/
def storeAll : List Nat → Nat → List Nat → List Nat
  | words, _, [] => words
  | words, k, v :: vs => storeAll (words.set k v) (k + 1) vs

/-- `Uint128.ToBigInt(b)` on a destination whose `Bits()` are `dest` (any length, any content; the sign of the
    destination is irrelevant: `SetBits` clears it): grow to `n` words with `append`, **cut to exactly `n` words**, store,
    `SetBits` (normalise).  `cut = false` is the variant without `words = words[:n]` (contrast theorem only). -/
def toBigIntWordsGen (cut : Bool) (W : Nat) (dest : List Nat) (u : U128) : List Nat :=
  let n := if W = 64 then 2 else 4
  let words := if dest.length < n then dest ++ List.replicate (n - dest.length) 0 else dest
  let words := if cut then words.take n else words
  normWords (storeAll words 0 (storedWords W u))
def U128.toBigIntW (W : Nat) (dest : List Nat) (u : U128) : List Nat := toBigIntWordsGen true W dest u

/-- `Int128.ToBigInt(b)`: `Uint128(i).ToBigInt(b)`, then for a negative value `b.Xor(b, maxBigUint128).Add(b, big1).Neg(b)`
    (math/big's operations on values); result: sign and `Bits()` -/
def I128.toBigIntW (W : Nat) (dest : List Nat) (i : I128) : Bool × List Nat :=
  let ws := U128.toBigIntW W dest i.asUint128
  if !i.isUint128 then
    let m := (wordsVal W ws ^^^ maxBigUint128) + 1
    (decide (m ≠ 0), natToWords W m)
  else (false, ws)

/-- the value of a sign-and-words `big.Int` -/
def bigVal (W : Nat) (b : Bool × List Nat) : Int := if b.1 then -(wordsVal W b.2 : Int) else (wordsVal W b.2 : Int)

/-! ## float64 -/

def maxUint64Float : F64 := .fin false (2^52) 12                    -- float64(math.MaxUint64) = 2^64
def maxRepresentableUint64Float : F64 := .fin false (2^53 - 1) 11   -- math.Nextafter(2^64, 0)
def maxRepresentableUint128Float : F64 := .fin false (2^53 - 1) 75  -- math.Nextafter(float64(2^128-1), 0)
def wrapUint64Float : F64 := .fin false (2^52) 12                   -- float64(math.MaxUint64) + 1 = 2^64
def minInt128Float : F64 := .fin true (2^52) 75                     -- -2^127
def maxInt128Float : F64 := .fin false (2^52) 75                    -- float64(2^127-1) = 2^127

/-- the same constants computed the way the Go declarations compute them (compared with the literals by the driver
    line `consts` and with the linked package's variables by the harness) -/
def constsComputed : List F64 :=
  [F64.ofNat (2^64 - 1), F64.nextTowardZero (F64.ofNat (2^64 - 1)), F64.nextTowardZero (F64.ofNat (2^128 - 1)),
   F64.add (F64.ofNat (2^64 - 1)) (F64.ofNat 1), F64.ofInt (-(2^127)), F64.ofInt (2^127 - 1)]
def constsLiteral : List F64 :=
  [maxUint64Float, maxRepresentableUint64Float, maxRepresentableUint128Float, wrapUint64Float, minInt128Float,
   maxInt128Float]

def Cv.bind {α β : Type} (x : Cv α) (f : α → Cv β) : Cv β :=
  match x with
  | .ok v => f v
  | .implDefined => .implDefined

def U128.fromFloat64 (f : F64) : Cv U128 :=
  if f.le F64.zero || f.ne f then .ok U128.zero
  else if f.le maxRepresentableUint64Float then
    Cv.bind f.toU64 fun lo => .ok ⟨0#64, BitVec.ofNat 64 lo⟩
  else if f.le maxRepresentableUint128Float then
    Cv.bind (f.div wrapUint64Float).toU64 fun hi =>
    Cv.bind (f.mod wrapUint64Float).toU64 fun lo =>
    .ok ⟨BitVec.ofNat 64 hi, BitVec.ofNat 64 lo⟩
  else .ok U128.max

def I128.fromFloat64 (f : F64) : Cv I128 :=
  if f.eq F64.zero || f.ne f then .ok I128.zero
  else if f.lt F64.zero then
    if f.le minInt128Float then .ok I128.min
    else Cv.bind (U128.fromFloat64 f.neg) fun u => .ok u.asInt128.neg
  else
    if f.ge maxInt128Float then .ok I128.max
    else Cv.bind (U128.fromFloat64 f) fun u => .ok u.asInt128

def U128.asFloat64 (u : U128) : F64 :=
  if u.hi == 0#64 then
    if u.lo == 0#64 then F64.zero else F64.ofNat u.lo.toNat
  else F64.add (F64.mul (F64.ofNat u.hi.toNat) wrapUint64Float) (F64.ofNat u.lo.toNat)

def I128.asFloat64 (i : I128) : F64 :=
  if i.hi &&& signBit64 != 0#64 then F64.neg i.absUint128.asFloat64
  else i.asUint128.asFloat64

/-! ## text → big.Int -/

/-- the scanner's memory of the previous character: `'.'` (anything else), `'0'` (a digit), `'_'` -/
inductive Prev where
  | other | digit | sep
deriving DecidableEq, Repr

inductive Pfx where
  | none | zero | b | o | x
deriving DecidableEq, Repr

/-- digit value of a character; `63 = MaxBase + 1` for a non-digit (upper case counts from 10: every base here is ≤ 36) -/
def digitVal (c : Char) : Nat :=
  if 48 ≤ c.toNat ∧ c.toNat ≤ 57 then c.toNat - 48
  else if 97 ≤ c.toNat ∧ c.toNat ≤ 122 then c.toNat - 97 + 10
  else if 65 ≤ c.toNat ∧ c.toNat ≤ 90 then c.toNat - 65 + 10
  else 63

structure LoopSt where
  val : Nat
  count : Nat
  prev : Prev
  invalSep : Bool
  fracOk : Bool
  dp : Option Nat
deriving Repr

/-- the digit loop of `nat.scan` with `base == 0`; returns the state and the unread rest -/
def scanLoop (b : Nat) (st : LoopSt) : List Char → LoopSt × List Char
  | [] => (st, [])
  | c :: t =>
    if c = '.' ∧ st.fracOk = true then
      scanLoop b { st with fracOk := false, invalSep := st.invalSep || st.prev == .sep, prev := .other,
                           dp := some st.count } t
    else if c = '_' then
      scanLoop b { st with invalSep := st.invalSep || st.prev != .digit, prev := .sep } t
    else if digitVal c ≥ b then (st, c :: t)
    else scanLoop b { st with prev := .digit, count := st.count + 1, val := st.val * b + digitVal c } t

structure NatScan where
  val : Nat
  base : Nat
  count : Int     -- number of digits, or −(number of fraction digits) when a radix point was seen
  err : Bool
  rest : List Char
deriving Repr

/-- base prefix detection of `nat.scan(r, 0, fracOk)`: (base, prefix, count, prev, rest) -/
def scanPrefix (fracOk : Bool) (s : List Char) : Nat × Pfx × Nat × Prev × List Char :=
  match s with
  | '0' :: c :: t =>
    if c = 'b' ∨ c = 'B' then (2, .b, 0, .digit, t)
    else if c = 'o' ∨ c = 'O' then (8, .o, 0, .digit, t)
    else if c = 'x' ∨ c = 'X' then (16, .x, 0, .digit, t)
    else if !fracOk then (8, .zero, 0, .digit, c :: t)
    else (10, .none, 1, .digit, c :: t)
  | ['0'] => (10, .none, 1, .digit, [])
  | _ => (10, .none, 0, .other, s)

/-- `nat.scan(r, 0, fracOk)` -/
def natScan (fracOk : Bool) (s : List Char) : NatScan :=
  let p := scanPrefix fracOk s
  let r := scanLoop p.1 { val := 0, count := p.2.2.1, prev := p.2.2.2.1, invalSep := false, fracOk := fracOk,
                          dp := none } p.2.2.2.2
  let st := r.1
  let errSep := st.invalSep || st.prev == .sep
  if st.count == 0 then
    if p.2.1 == .zero then { val := 0, base := 10, count := 1, err := errSep, rest := r.2 }
    else { val := st.val, base := p.1, count := 0, err := true, rest := r.2 }
  else
    { val := st.val, base := p.1,
      count := match st.dp with | some dp => (dp : Int) - st.count | none => st.count,
      err := errSep, rest := r.2 }

def scanSign : List Char → Option (Bool × List Char)
  | [] => none
  | c :: t => if c = '-' then some (true, t) else if c = '+' then some (false, t) else some (false, c :: t)

/-- `new(big.Int).SetString(s, 0)` -/
def bigIntSetString (s : List Char) : Option Int :=
  match scanSign s with
  | none => none
  | some (neg, r) =>
    let n := natScan false r
    if n.err then none
    else if !n.rest.isEmpty then none
    else some (if neg then -(n.val : Int) else n.val)

structure ExpSt where
  val : Nat
  has : Bool
  prev : Prev
  invalSep : Bool
deriving Repr

def expLoop (st : ExpSt) : List Char → ExpSt × List Char
  | [] => (st, [])
  | c :: t =>
    if 48 ≤ c.toNat ∧ c.toNat ≤ 57 then expLoop { st with val := st.val * 10 + (c.toNat - 48), prev := .digit, has := true } t
    else if c = '_' then expLoop { st with invalSep := st.invalSep || st.prev != .digit, prev := .sep } t
    else (st, c :: t)

structure ExpScan where
  exp : Int
  base : Nat
  err : Bool
  rest : List Char
deriving Repr

def scanExpDigits (base : Nat) (t : List Char) : ExpScan :=
  let sg : Bool × List Char :=
    match t with
    | c :: u => if c = '+' then (false, u) else if c = '-' then (true, u) else (false, t)
    | [] => (false, t)
  let r := expLoop { val := 0, has := false, prev := .other, invalSep := false } sg.2
  let st := r.1
  let e : Int := if sg.1 then -(st.val : Int) else st.val
  -- strconv.ParseInt(digits, 10, 64)
  let rangeErr := e < -(2^63) || e > 2^63 - 1
  { exp := e, base := base, err := !st.has || rangeErr || st.invalSep || st.prev == .sep, rest := r.2 }

/-- `scanExponent(r, true, true)` -/
def scanExponent : List Char → ExpScan
  | [] => { exp := 0, base := 10, err := false, rest := [] }
  | c :: t =>
    if c = 'e' ∨ c = 'E' then scanExpDigits 10 t
    else if c = 'p' ∨ c = 'P' then scanExpDigits 2 t
    else { exp := 0, base := 10, err := false, rest := c :: t }

/-- `new(big.Rat).SetString(s)` for a text without `/`: numerator and denominator before normalisation -/
def bigRatSetString (s : List Char) : Option (Int × Nat) :=
  match scanSign s with
  | none => none
  | some (neg, r) =>
    let n := natScan true r
    if n.err then none else
    let x := scanExponent n.rest
    if x.err then none else
    if !x.rest.isEmpty then none else
    if n.val == 0 then some (0, 1) else
    let d : Int := n.count
    let e5a : Int := if d < 0 ∧ n.base == 10 then d else 0
    let e2a : Int := if d < 0 then (if n.base == 10 ∨ n.base == 2 then d else if n.base == 8 then d * 3 else d * 4) else 0
    let exp5 : Int := if x.base == 10 then e5a + x.exp else e5a
    let exp2 : Int := e2a + x.exp
    if exp5.natAbs > 1000000 then none else
    if exp2 < -10000000 || exp2 > 10000000 then none else
    let num : Nat := n.val * (if exp5 > 0 then 5 ^ exp5.toNat else 1) * (if exp2 > 0 then 2 ^ exp2.toNat else 1)
    let den : Nat := (if exp5 < 0 then 5 ^ (-exp5).toNat else 1) * (if exp2 < 0 then 2 ^ (-exp2).toNat else 1)
    some (if neg then -(num : Int) else num, den)

def hasExpChar (s : List Char) : Bool := s.any fun c => c = 'E' ∨ c = 'e'
def hasSlash (s : List Char) : Bool := s.any fun c => c = '/'

/-- `parseToBigInt`: `none` = the error `invalid input` -/
def parseToBigInt (s : List Char) : Option Int :=
  if hasExpChar s then
    if hasSlash s then none
    else match bigRatSetString s with
      | none => none
      | some (n, d) => if n.natAbs % d == 0 then some (if n < 0 then -((n.natAbs / d : Nat) : Int) else (n.natAbs / d : Nat)) else none
  else bigIntSetString s

def U128.fromString (s : List Char) : Option U128 := (parseToBigInt s).map U128.fromBigInt
def I128.fromString (s : List Char) : Option I128 := (parseToBigInt s).map I128.fromBigInt
def U128.fromStringNoCheck (s : List Char) : U128 := (U128.fromString s).getD U128.zero
def I128.fromStringNoCheck (s : List Char) : I128 := (I128.fromString s).getD I128.zero

/-! ### loading into a receiver

`UnmarshalText`, `UnmarshalJSON` (given the raw bytes), `UnmarshalYAML` (given the scalar's string) and `Scan` (given the
token) all end with the same three statements on the receiver `*u`, a memory cell:

    v, err := Uint128FromString(text)     -- the zero value next to an error
    if err != nil { return err }          -- the check
    *u = v                                -- the store
    return nil

The model keeps the ORDER of check and store as a parameter, so that "store before the check" (`*u = v; return err`) is a
variant of the same definition; the code's order is `checkThenStore`.  Result: (receiver afterwards, `err == nil`). -/

inductive LoadOrder where
  | checkThenStore | storeThenCheck
deriving DecidableEq, Repr

/-- `FromString` as Go returns it: the value — the zero value when there is an error — and `err == nil` -/
def U128.fromStringGo (s : List Char) : U128 × Bool :=
  match U128.fromString s with
  | some v => (v, true)
  | none => (U128.zero, false)
def I128.fromStringGo (s : List Char) : I128 × Bool :=
  match I128.fromString s with
  | some v => (v, true)
  | none => (I128.zero, false)

def U128.loadGen (order : LoadOrder) (recv : U128) (s : List Char) : U128 × Bool :=
  let r := U128.fromStringGo s
  match order with
  | .checkThenStore => if r.2 = false then (recv, false) else (r.1, true)
  | .storeThenCheck => (r.1, r.2)
def I128.loadGen (order : LoadOrder) (recv : I128) (s : List Char) : I128 × Bool :=
  let r := I128.fromStringGo s
  match order with
  | .checkThenStore => if r.2 = false then (recv, false) else (r.1, true)
  | .storeThenCheck => (r.1, r.2)

/-- `UnmarshalText`, `UnmarshalJSON`, `UnmarshalYAML` (string delivered): the code's order -/
def U128.unmarshal (recv : U128) (s : List Char) : U128 × Bool := U128.loadGen .checkThenStore recv s
def I128.unmarshal (recv : I128) (s : List Char) : I128 × Bool := I128.loadGen .checkThenStore recv s

/-! ## fmt.Scanner: `Scan` reads one blank-delimited token and passes `scanText token verb` to `FromString` -/

/-- `len(text) > 1 && text[0] == '0' && strings.ContainsRune(letters, rune(text[1]))` -/
def isBasePrefixed (letters : List Char) : List Char → Bool
  | '0' :: c :: _ => letters.contains c
  | _ => false

/-- `strings.TrimLeft(text, "0")` -/
def trimZeros : List Char → List Char
  | c :: t => if c = '0' then trimZeros t else c :: t
  | [] => []

/-- the base prefix a scan verb stands for and the letters that mark a base prefix after a leading zero under that
    verb (`b`/`B` are hexadecimal digits under `x`); `none` = the verb leaves the text alone -/
def verbPrefix (verb : Char) : Option (List Char × List Char) :=
  if verb = 'b' then some (['0', 'b'], ['b', 'B'])
  else if verb = 'o' ∨ verb = 'O' then some (['0', 'o'], ['o', 'O'])
  else if verb = 'd' then some ([], ['b', 'B', 'o', 'O', 'x', 'X'])
  else if verb = 'x' ∨ verb = 'X' then some (['0', 'x'], ['x', 'X'])
  else none

/-- an optional leading sign peeled off: (sign, rest) -/
def splitSign : List Char → List Char × List Char
  | c :: r => if c = '+' ∨ c = '-' then ([c], r) else ([], c :: r)
  | [] => ([], [])

/-- the zero-padding rule of verb `d`: drop the padding unless what follows is not a digit, then keep one `0` -/
def dropPadding (t : List Char) : List Char :=
  match trimZeros t with
  | c :: r => if 48 ≤ c.toNat ∧ c.toNat ≤ 57 then c :: r else if t ≠ [] ∧ c :: r ≠ t then '0' :: c :: r else t
  | [] => if t ≠ [] ∧ [] ≠ t then ['0'] else t

/-- `scanText(text, verb)`: for the verbs `b`, `o`/`O`, `x`/`X` the sign is peeled off and the verb's base prefix is
    inserted unless the text already starts with `0` and a prefix letter of that base; for `d` a text with any base
    prefix is left alone and zero padding is dropped; every other verb leaves the text alone -/
def scanText (text : List Char) (verb : Char) : List Char :=
  match verbPrefix verb with
  | none => text
  | some (pfx, letters) =>
    let sp := splitSign text
    if isBasePrefixed letters sp.2 then sp.1 ++ sp.2
    else sp.1 ++ pfx ++ (if verb = 'd' then dropPadding sp.2 else sp.2)

/-- `Uint128.Scan` / `Int128.Scan` on the token `tok` with the verb `verb` -/
def U128.scan (tok : List Char) (verb : Char) : Option U128 := U128.fromString (scanText tok verb)
def I128.scan (tok : List Char) (verb : Char) : Option I128 := I128.fromString (scanText tok verb)

/-! ## value → text -/

def digitChar (d : Nat) : Char := Char.ofNat (48 + d)

/-- decimal digits, most significant first, no leading zero (`strconv.FormatUint(·, 10)`, `big.Int.String`) -/
def natDigits (n : Nat) : List Char :=
  if n < 10 then [digitChar n] else natDigits (n / 10) ++ [digitChar (n % 10)]
decreasing_by omega

def intDigits (z : Int) : List Char := if z < 0 then '-' :: natDigits z.natAbs else natDigits z.natAbs

def U128.toString (u : U128) : List Char :=
  if u.hi == 0#64 then
    if u.lo == 0#64 then ['0'] else natDigits u.lo.toNat
  else intDigits u.asBigInt

def I128.toString (i : I128) : List Char :=
  if i.hi == 0#64 then
    if i.lo == 0#64 then ['0'] else natDigits i.lo.toNat
  else intDigits i.asBigInt

end Conv
