import Model.NotifierReentry
/-! C17: re-entrant targets, ANY nesting depth.  Core Lean only.

`Model/NotifierReentry.lean` lets ONE armed operation fire.  Here the harness' re-entrant targets hold a QUEUE of armed
operations: every re-entrant callback pops the head of the queue and performs it as a complete exported call — whose own
callbacks may reach re-entrant targets again and pop the next one, and so on: calls nest as deep as the queue is long.
`stepQN pan d` allows `d` levels of nesting below the outer call (level 0: callbacks are opaque, `Nt.step`); the driver
executes `stepQ` = `stepQN` with `d` = the queue length, which is always enough. -/
namespace Nt

/-- the worlds of all notifiers and the queue of armed operations -/
abbrev QSt := World × List Op

/-- what a target does inside the callback observed as `e`: pop the head of the queue, if this is a re-entrant callback,
    and perform it with `nested` (the exported call one level deeper) -/
def fireQ (nested : QSt → Op → QSt × List Event) (e : Event) (st : QSt) : QSt × List Event :=
  match st.2 with
  | op :: rest => if reentersOn e then nested (st.1, rest) op else (st, [])
  | [] => (st, [])

def cbQ (nested : QSt → Op → QSt × List Event) (pan : Nat → Bool) (n : Nat) (c : Event × Nat) (st : QSt) : QSt × Run :=
  ((fireQ nested c.1 st).1, frame (callTargetWith pan c.1 c.2 (fireQ nested c.1 st).2) (recovery (handlerKind n) n c.2))

/-- `for _, x := range snapshot { f(x) }` with the state threaded through; a panic that leaves `f` ends the loop -/
def loopQ (f : Event × Nat → QSt → QSt × Run) : List (Event × Nat) → QSt → QSt × Run
  | [], st => (st, Run.skip)
  | c :: cs, st =>
    match (f c st).2.out with
    | none => ((loopQ f cs (f c st).1).1, ⟨(f c st).2.trace ++ (loopQ f cs (f c st).1).2.trace, (loopQ f cs (f c st).1).2.out⟩)
    | some _ => f c st

/-- one exported call whose callbacks perform armed operations with `nested` -/
def stepQW (nested : QSt → Op → QSt × List Event) (pan : Nat → Bool) (st : QSt) : Op → QSt × List Event
  | .notify n raw =>
    let r := loopQ (cbQ nested pan n) (handleCbs n (normalize raw) (notify (st.1 n) raw)) st
    (r.1, r.2.trace)
  | .startBatch n =>
    let r := loopQ (cbQ nested pan n) (batchCbs n true (startBatch (st.1 n)).2) (st.1.set n (startBatch (st.1 n)).1, st.2)
    (r.1, r.2.trace)
  | .endBatch n =>
    let r := loopQ (cbQ nested pan n) (batchCbs n false (endBatch (st.1 n)).2) (st.1.set n (endBatch (st.1 n)).1, st.2)
    (r.1, r.2.trace)
  | op => (((step pan st.1 op).1, st.2), (step pan st.1 op).2)

/-- an exported call with at most `d` levels of calls nested inside its callbacks -/
def stepQN (pan : Nat → Bool) : Nat → QSt → Op → QSt × List Event
  | 0, st, op => (((step pan st.1 op).1, st.2), (step pan st.1 op).2)
  | d + 1, st, op => stepQW (stepQN pan d) pan st op

/-- what the driver executes: every armed operation can fire -/
def stepQ (pan : Nat → Bool) (st : QSt) (op : Op) : QSt × List Event := stepQN pan st.2.length st op

end Nt
