/-! C15: the task queue protocol of `taskqueue/taskqueue.go` (the dispatcher `process()` as it is now, with the
    `len(backlog) == 0` test in the bounded branch), as an interleaving transition system.  Core-only.

  * panic values are abstracted: a task either returns or panics, whatever the value (string, error, runtime error,
    typed nil, …) — the handler, if installed, is called once; the harness varies the value.
  * `S`      — the state: the `in` channel, the dispatcher (program counter over the blocking points of `process()`,
               `backlog`, `received`, `processed`), the `tasks` and `ready` channels, the workers
               (idle | running t | reporting, kept as the list of running tasks and the number of reporting workers;
               idle = workers − running − reporting), the recovery-handler calls, `Shutdown`.
  * `next`   — the EXECUTABLE one-step function, `enabled` the list of labels that can fire; the driver runs these.
  * `Step`   — the same rules as an inductive relation (what the theorems are about);
               `next_sound` / `next_complete` show that `next` and `Step` are the same relation.

  Task ids are handed out in the order in which the sends into `in` complete (0, 1, 2, …).  `Submit(nil)` is not a
  task (it ends the dispatcher) and `Submit` after `Shutdown` panics in Go: both are outside the domain, the rule
  `submit` requires `shut = 0`. -/
namespace TQ

/-- dispatcher program counter: one value per blocking point / decision of `process()` -/
inductive PC where
  | sel                -- at the main `select` (`case task := <-q.in` / `case <-ready`)
  | got (t : Nat)      -- received t, `received++` done; deciding what to do with it
  | wr (t : Nat)       -- bounded branch: blocked on `<-ready` while holding t
  | sd (t : Nat)       -- bounded branch, backlog empty: blocked on `tasks <- task`
  | sb (t : Nat)       -- bounded branch: blocked on `tasks <- backlog[0]`, then t goes to the back
  | sb2                -- `case <-ready` with non-empty backlog: blocked on `tasks <- backlog[0]`
  | dr (i : Nat)       -- drain loop, `backlog[i..]` still to send
  | fw                 -- final wait `for received != processed`
  | ds                 -- `tasks` closed, blocked on `q.done <- true`
  | fin                -- `process()` has returned
deriving DecidableEq, BEq, Hashable, Repr

structure Cfg where
  workers : Nat
  depth : Int
  inCap : Nat
  /-- a recovery handler is installed (`RecoveryHandler(h)` with `h != nil`); without one (`New` without the option, or
      `RecoveryHandler(nil)`) `errs.Recovery(nil)` swallows the panic silently -/
  handler : Bool := true

structure S where
  nextId : Nat := 0
  inq : List Nat := []
  shut : Nat := 0            -- 0 not called, 1 `close(q.in)` done and waiting on `<-q.done`, 2 returned
  pc : PC := .sel
  backlog : List Nat := []
  received : Nat := 0
  processed : Nat := 0
  tq : List Nat := []        -- the `tasks` channel
  tclosed : Bool := false
  ready : Nat := 0           -- tokens in the `ready` channel
  running : List Nat := []
  reporting : Nat := 0       -- workers between the end of `runTask` and the completion of `ready <- true`
  finished : List Nat := []  -- newest first
  started : List Nat := []   -- oldest first
  pan : List Nat := []       -- tasks that panic
  recovered : List Nat := [] -- recovery-handler calls, newest first
deriving DecidableEq, BEq, Hashable, Repr

def held : PC → List Nat
  | .got t | .wr t | .sd t | .sb t => [t]
  | _ => []
/-- the part of the backlog that still holds tasks not yet handed on -/
def lb (pc : PC) (b : List Nat) : List Nat :=
  match pc with
  | .dr i => b.drop i
  | .fw | .ds | .fin => []
  | _ => b
def liveBacklog (s : S) : List Nat := lb s.pc s.backlog

/-- `q.depth < 0 || len(backlog) < q.depth` -/
def roomInBacklog (c : Cfg) (s : S) : Prop := c.depth < 0 ∨ (s.backlog.length : Int) < c.depth
instance (c : Cfg) (s : S) : Decidable (roomInBacklog c s) := by unfold roomInBacklog; exact inferInstance

/-- the non-blocking `select { case tasks <- task: … default: }` is tried and succeeds -/
def canHandOff (c : Cfg) (s : S) : Prop := s.backlog = [] ∧ s.tq.length < c.workers
instance (c : Cfg) (s : S) : Decidable (canHandOff c s) := by unfold canHandOff; exact inferInstance

inductive Label where
  | submit (p : Bool)   -- a send into `in` completes; p = the task panics
  | shutdown            -- `close(q.in)`
  | take                -- an idle worker receives from `tasks`
  | finish (t : Nat)    -- task t returns or panics inside `runTask` (`errs.Recovery` swallows the panic and calls the handler, if any)
  | report              -- a worker's `ready <- true` completes
  | recv | closed | selReadyEmpty | selReadyBacklog | handoff | toBacklog | toWait | waitReady
  | sendDirect | sendBacklog | sendBacklog2 | drainSend | drainReady | drainDone | finalReady | finalClose
  | signalDone          -- `q.done <- true` meets `<-q.done`: Shutdown returns
deriving DecidableEq, BEq, Hashable, Repr

/-! ### result states (shared by `next` and `Step`) -/
abbrev doSubmit (s : S) (p : Bool) : S :=
  { s with inq := s.inq ++ [s.nextId], nextId := s.nextId + 1, pan := if p then s.nextId :: s.pan else s.pan }
abbrev doTake (s : S) (t : Nat) (rest : List Nat) : S :=
  { s with tq := rest, running := t :: s.running, started := s.started ++ [t] }
abbrev doFinish (handler : Bool) (s : S) (t : Nat) : S :=
  { s with running := s.running.erase t, reporting := s.reporting + 1, finished := t :: s.finished,
           recovered := if handler = true ∧ t ∈ s.pan then t :: s.recovered else s.recovered }
abbrev doReport (s : S) : S := { s with reporting := s.reporting - 1, ready := s.ready + 1 }
abbrev doReady (s : S) (pc : PC) : S := { s with ready := s.ready - 1, processed := s.processed + 1, pc := pc }

/-- the executable one-step function -/
def next (c : Cfg) (s : S) : Label → Option S
  | .submit p => if s.shut = 0 ∧ s.inq.length < c.inCap then some (doSubmit s p) else none
  | .shutdown => if s.shut = 0 then some { s with shut := 1 } else none
  | .take =>
    match s.tq with
    | t :: rest => if s.running.length + s.reporting < c.workers then some (doTake s t rest) else none
    | [] => none
  | .finish t => if t ∈ s.running then some (doFinish c.handler s t) else none
  | .report => if 0 < s.reporting ∧ s.ready < c.workers then some (doReport s) else none
  | .recv =>
    match s.inq with
    | t :: rest => if s.pc = .sel then some { s with inq := rest, pc := .got t, received := s.received + 1 } else none
    | [] => none
  | .closed => if s.pc = .sel ∧ s.inq = [] ∧ 1 ≤ s.shut then some { s with pc := .dr 0 } else none
  | .selReadyEmpty => if s.pc = .sel ∧ 0 < s.ready ∧ s.backlog = [] then some (doReady s s.pc) else none
  | .selReadyBacklog => if s.pc = .sel ∧ 0 < s.ready ∧ s.backlog ≠ [] then some (doReady s .sb2) else none
  | .handoff =>
    match s.pc with
    | .got t => if canHandOff c s then some { s with tq := s.tq ++ [t], pc := .sel } else none
    | _ => none
  | .toBacklog =>
    match s.pc with
    | .got t => if ¬ canHandOff c s ∧ roomInBacklog c s then some { s with backlog := s.backlog ++ [t], pc := .sel } else none
    | _ => none
  | .toWait =>
    match s.pc with
    | .got t => if ¬ canHandOff c s ∧ ¬ roomInBacklog c s then some { s with pc := .wr t } else none
    | _ => none
  | .waitReady =>
    match s.pc with
    | .wr t => if 0 < s.ready then some (doReady s (if s.backlog = [] then .sd t else .sb t)) else none
    | _ => none
  | .sendDirect =>
    match s.pc with
    | .sd t => if s.tq.length < c.workers then some { s with tq := s.tq ++ [t], pc := .sel } else none
    | _ => none
  | .sendBacklog =>
    match s.pc, s.backlog with
    | .sb t, b :: rest => if s.tq.length < c.workers then some { s with tq := s.tq ++ [b], backlog := rest ++ [t], pc := .sel } else none
    | _, _ => none
  | .sendBacklog2 =>
    match s.pc, s.backlog with
    | .sb2, b :: rest => if s.tq.length < c.workers then some { s with tq := s.tq ++ [b], backlog := rest, pc := .sel } else none
    | _, _ => none
  | .drainSend =>
    match s.pc with
    | .dr i =>
      match s.backlog[i]? with
      | some b => if s.tq.length < c.workers then some { s with tq := s.tq ++ [b], pc := .dr (i + 1) } else none
      | none => none
    | _ => none
  | .drainReady =>
    match s.pc with
    | .dr i => if i < s.backlog.length ∧ 0 < s.ready then some (doReady s s.pc) else none
    | _ => none
  | .drainDone =>
    match s.pc with
    | .dr i => if s.backlog.length ≤ i then some { s with pc := .fw } else none
    | _ => none
  | .finalReady => if s.pc = .fw ∧ s.received ≠ s.processed ∧ 0 < s.ready then some (doReady s s.pc) else none
  | .finalClose => if s.pc = .fw ∧ s.received = s.processed then some { s with pc := .ds, tclosed := true } else none
  | .signalDone => if s.pc = .ds ∧ s.shut = 1 then some { s with pc := .fin, shut := 2 } else none

/-- every label that could possibly fire in `s` (the `finish` labels are those of the running tasks) -/
def candidates (s : S) : List Label :=
  [.submit false, .submit true, .shutdown, .take, .report, .recv, .closed, .selReadyEmpty, .selReadyBacklog, .handoff,
   .toBacklog, .toWait, .waitReady, .sendDirect, .sendBacklog, .sendBacklog2, .drainSend, .drainReady, .drainDone,
   .finalReady, .finalClose, .signalDone] ++ s.running.map .finish

/-- the labels that can fire in `s` -/
def enabled (c : Cfg) (s : S) : List Label := (candidates s).filter fun l => (next c s l).isSome

/-- the protocol as a relation: 22 rules, one per label -/
inductive Step (c : Cfg) : S → S → Prop
  | submit (s : S) (p : Bool) (h1 : s.shut = 0) (h2 : s.inq.length < c.inCap) : Step c s (doSubmit s p)
  | shutdown (s : S) (h : s.shut = 0) : Step c s { s with shut := 1 }
  | take (s : S) (t : Nat) (rest : List Nat) (h1 : s.tq = t :: rest) (h2 : s.running.length + s.reporting < c.workers) :
      Step c s (doTake s t rest)
  | finish (s : S) (t : Nat) (h : t ∈ s.running) : Step c s (doFinish c.handler s t)
  | report (s : S) (h1 : 0 < s.reporting) (h2 : s.ready < c.workers) : Step c s (doReport s)
  -- dispatcher
  | recv (s : S) (t : Nat) (rest : List Nat) (h1 : s.pc = .sel) (h2 : s.inq = t :: rest) :
      Step c s { s with inq := rest, pc := .got t, received := s.received + 1 }
  | closed (s : S) (h1 : s.pc = .sel) (h2 : s.inq = []) (h3 : 1 ≤ s.shut) : Step c s { s with pc := .dr 0 }
  | selReadyEmpty (s : S) (h1 : s.pc = .sel) (h2 : 0 < s.ready) (h3 : s.backlog = []) : Step c s (doReady s s.pc)
  | selReadyBacklog (s : S) (h1 : s.pc = .sel) (h2 : 0 < s.ready) (h3 : s.backlog ≠ []) : Step c s (doReady s .sb2)
  | handoff (s : S) (t : Nat) (h1 : s.pc = .got t) (h2 : canHandOff c s) :
      Step c s { s with tq := s.tq ++ [t], pc := .sel }
  | toBacklog (s : S) (t : Nat) (h1 : s.pc = .got t) (h2 : ¬ canHandOff c s) (h3 : roomInBacklog c s) :
      Step c s { s with backlog := s.backlog ++ [t], pc := .sel }
  | toWait (s : S) (t : Nat) (h1 : s.pc = .got t) (h2 : ¬ canHandOff c s) (h3 : ¬ roomInBacklog c s) :
      Step c s { s with pc := .wr t }
  | waitReady (s : S) (t : Nat) (h1 : s.pc = .wr t) (h2 : 0 < s.ready) :
      Step c s (doReady s (if s.backlog = [] then .sd t else .sb t))
  | sendDirect (s : S) (t : Nat) (h1 : s.pc = .sd t) (h2 : s.tq.length < c.workers) :
      Step c s { s with tq := s.tq ++ [t], pc := .sel }
  | sendBacklog (s : S) (t b : Nat) (rest : List Nat) (h1 : s.pc = .sb t) (h2 : s.backlog = b :: rest)
      (h3 : s.tq.length < c.workers) :
      Step c s { s with tq := s.tq ++ [b], backlog := rest ++ [t], pc := .sel }
  | sendBacklog2 (s : S) (b : Nat) (rest : List Nat) (h1 : s.pc = .sb2) (h2 : s.backlog = b :: rest)
      (h3 : s.tq.length < c.workers) :
      Step c s { s with tq := s.tq ++ [b], backlog := rest, pc := .sel }
  | drainSend (s : S) (i b : Nat) (h1 : s.pc = .dr i) (h2 : s.backlog[i]? = some b) (h3 : s.tq.length < c.workers) :
      Step c s { s with tq := s.tq ++ [b], pc := .dr (i + 1) }
  | drainReady (s : S) (i : Nat) (h1 : s.pc = .dr i) (h2 : i < s.backlog.length) (h3 : 0 < s.ready) :
      Step c s (doReady s s.pc)
  | drainDone (s : S) (i : Nat) (h1 : s.pc = .dr i) (h2 : s.backlog.length ≤ i) : Step c s { s with pc := .fw }
  | finalReady (s : S) (h1 : s.pc = .fw) (h2 : s.received ≠ s.processed) (h3 : 0 < s.ready) : Step c s (doReady s s.pc)
  | finalClose (s : S) (h1 : s.pc = .fw) (h2 : s.received = s.processed) : Step c s { s with pc := .ds, tclosed := true }
  | signalDone (s : S) (h1 : s.pc = .ds) (h2 : s.shut = 1) : Step c s { s with pc := .fin, shut := 2 }

inductive Reachable (c : Cfg) : S → Prop
  | init : Reachable c {}
  | step (s s' : S) : Reachable c s → Step c s s' → Reachable c s'

/-! ### `next` and `Step` are the same relation -/

theorem next_sound (c : Cfg) (s s' : S) (l : Label) (h : next c s l = some s') : Step c s s' := by
  cases l <;> simp only [next] at h
  case submit p =>
    split at h
    · next hg => cases h; exact Step.submit s p hg.1 hg.2
    · cases h
  case shutdown =>
    split at h
    · next hg => cases h; exact Step.shutdown s hg
    · cases h
  case take =>
    split at h
    · next t rest hq =>
      split at h
      · next hg => cases h; exact Step.take s t rest hq hg
      · cases h
    · cases h
  case finish t =>
    split at h
    · next hg => cases h; exact Step.finish s t hg
    · cases h
  case report =>
    split at h
    · next hg => cases h; exact Step.report s hg.1 hg.2
    · cases h
  case recv =>
    split at h
    · next t rest hq =>
      split at h
      · next hg => cases h; exact Step.recv s t rest hg hq
      · cases h
    · cases h
  case closed =>
    split at h
    · next hg => cases h; exact Step.closed s hg.1 hg.2.1 hg.2.2
    · cases h
  case selReadyEmpty =>
    split at h
    · next hg => cases h; exact Step.selReadyEmpty s hg.1 hg.2.1 hg.2.2
    · cases h
  case selReadyBacklog =>
    split at h
    · next hg => cases h; exact Step.selReadyBacklog s hg.1 hg.2.1 hg.2.2
    · cases h
  case handoff =>
    split at h
    · next t hp =>
      split at h
      · next hg => cases h; exact Step.handoff s t hp hg
      · cases h
    · cases h
  case toBacklog =>
    split at h
    · next t hp =>
      split at h
      · next hg => cases h; exact Step.toBacklog s t hp hg.1 hg.2
      · cases h
    · cases h
  case toWait =>
    split at h
    · next t hp =>
      split at h
      · next hg => cases h; exact Step.toWait s t hp hg.1 hg.2
      · cases h
    · cases h
  case waitReady =>
    split at h
    · next t hp =>
      split at h
      · next hg => cases h; exact Step.waitReady s t hp hg
      · cases h
    · cases h
  case sendDirect =>
    split at h
    · next t hp =>
      split at h
      · next hg => cases h; exact Step.sendDirect s t hp hg
      · cases h
    · cases h
  case sendBacklog =>
    split at h
    · next t b rest hp hb =>
      split at h
      · next hg => cases h; exact Step.sendBacklog s t b rest hp hb hg
      · cases h
    · cases h
  case sendBacklog2 =>
    split at h
    · next b rest hp hb =>
      split at h
      · next hg => cases h; exact Step.sendBacklog2 s b rest hp hb hg
      · cases h
    · cases h
  case drainSend =>
    split at h
    · next i hp =>
      split at h
      · next b hb =>
        split at h
        · next hg => cases h; exact Step.drainSend s i b hp hb hg
        · cases h
      · cases h
    · cases h
  case drainReady =>
    split at h
    · next i hp =>
      split at h
      · next hg => cases h; exact Step.drainReady s i hp hg.1 hg.2
      · cases h
    · cases h
  case drainDone =>
    split at h
    · next i hp =>
      split at h
      · next hg => cases h; exact Step.drainDone s i hp hg
      · cases h
    · cases h
  case finalReady =>
    split at h
    · next hg => cases h; exact Step.finalReady s hg.1 hg.2.1 hg.2.2
    · cases h
  case finalClose =>
    split at h
    · next hg => cases h; exact Step.finalClose s hg.1 hg.2
    · cases h
  case signalDone =>
    split at h
    · next hg => cases h; exact Step.signalDone s hg.1 hg.2
    · cases h

/-- the label of a step -/
theorem next_complete (c : Cfg) (s s' : S) (h : Step c s s') : ∃ l, next c s l = some s' := by
  cases h
  case submit p h1 h2 => exact ⟨.submit p, by simp [next, h1, h2]⟩
  case shutdown h1 => exact ⟨.shutdown, by simp [next, h1]⟩
  case take t rest h1 h2 => exact ⟨.take, by simp [next, h1, h2]⟩
  case finish t h1 => exact ⟨.finish t, by simp [next, h1]⟩
  case report h1 h2 => exact ⟨.report, by simp [next, h1, h2]⟩
  case recv t rest h1 h2 => exact ⟨.recv, by simp [next, h1, h2]⟩
  case closed h1 h2 h3 => exact ⟨.closed, by simp [next, h1, h2, h3]⟩
  case selReadyEmpty h1 h2 h3 => exact ⟨.selReadyEmpty, by simp [next, h1, h2, h3]⟩
  case selReadyBacklog h1 h2 h3 => exact ⟨.selReadyBacklog, by simp [next, h1, h2, h3]⟩
  case handoff t h1 h2 => exact ⟨.handoff, by simp [next, h1, h2]⟩
  case toBacklog t h1 h2 h3 => exact ⟨.toBacklog, by simp [next, h1, h2, h3]⟩
  case toWait t h1 h2 h3 => exact ⟨.toWait, by simp [next, h1, h2, h3]⟩
  case waitReady t h1 h2 => exact ⟨.waitReady, by simp [next, h1, h2]⟩
  case sendDirect t h1 h2 => exact ⟨.sendDirect, by simp [next, h1, h2]⟩
  case sendBacklog t b rest h1 h2 h3 => exact ⟨.sendBacklog, by simp [next, h1, h2, h3]⟩
  case sendBacklog2 b rest h1 h2 h3 => exact ⟨.sendBacklog2, by simp [next, h1, h2, h3]⟩
  case drainSend i b h1 h2 h3 => exact ⟨.drainSend, by simp [next, h1, h2, h3]⟩
  case drainReady i h1 h2 h3 => exact ⟨.drainReady, by simp [next, h1, h2, h3]⟩
  case drainDone i h1 h2 => exact ⟨.drainDone, by simp [next, h1, h2]⟩
  case finalReady h1 h2 h3 => exact ⟨.finalReady, by simp [next, h1, h2, h3]⟩
  case finalClose h1 h2 => exact ⟨.finalClose, by simp [next, h1, h2]⟩
  case signalDone h1 h2 => exact ⟨.signalDone, by simp [next, h1, h2]⟩

/-- a label fires iff it is in `enabled` -/
theorem mem_enabled (c : Cfg) (s : S) (l : Label) : l ∈ enabled c s ↔ (next c s l).isSome = true := by
  unfold enabled
  rw [List.mem_filter]
  constructor
  · exact fun h => h.2
  · intro h
    refine ⟨?_, h⟩
    cases l <;> try (simp [candidates]; done)
    case finish t =>
      have : t ∈ s.running := by
        simp only [next] at h
        split at h
        · assumption
        · simp at h
      simp [candidates, this]

/-- `Step` is exactly "some enabled label of `next` fires" -/
theorem step_iff_next (c : Cfg) (s s' : S) : Step c s s' ↔ ∃ l, l ∈ enabled c s ∧ next c s l = some s' := by
  constructor
  · intro h
    obtain ⟨l, hl⟩ := next_complete c s s' h
    exact ⟨l, (mem_enabled c s l).mpr (by simp [hl]), hl⟩
  · rintro ⟨l, _, hl⟩
    exact next_sound c s s' l hl

/-- running a list of labels with `next` -/
def runLabels (c : Cfg) : S → List Label → Option S
  | s, [] => some s
  | s, l :: ls => match next c s l with
    | some s' => runLabels c s' ls
    | none => none

/-- whatever the executable model reaches is `Reachable` -/
theorem reachable_runLabels (c : Cfg) (ls : List Label) (s s' : S) (hs : Reachable c s)
    (h : runLabels c s ls = some s') : Reachable c s' := by
  induction ls generalizing s with
  | nil => simp [runLabels] at h; subst h; exact hs
  | cons l ls ih =>
    simp only [runLabels] at h
    split at h
    · next s1 h1 => exact ih s1 (Reachable.step s s1 hs (next_sound c s s1 l h1)) h
    · cases h

/-- the state without the record of handler calls -/
def eraseRecovered (s : S) : S := { s with recovered := [] }

/-- whether a recovery handler is installed affects nothing but the record of handler calls: the executable model with
    and without handler takes the same steps to the same states, up to `recovered` -/
theorem handler_only_affects_recovered (c : Cfg) (b : Bool) (s : S) (l : Label) :
    (next { c with handler := b } s l).map eraseRecovered = (next c s l).map eraseRecovered := by
  cases l
  case finish t =>
    simp only [next]
    split
    · simp [eraseRecovered]
    · rfl
  all_goals rfl

end TQ

/-! ## The workers as threads

`TQ.Step` keeps the pool as a counter (`running.length + reporting < workers` guards `take`).  Here the pool is what it is in
the code: `workers` goroutines, each in the loop of `work()`

    for task := range tasks {            -- idle: blocked on the receive
        q.runTask(task)                  -- running t: inside task(), under `defer errs.Recovery(handler)`
        ready <- true                    -- reporting: blocked until the send completes
    }

with exception semantics for panics: a panic in `task()` ends the task and unwinds to the deferred call of `runTask`
(`unwinding t`); `errs.Recovery` calls `recover()`, which stops the panic, and — if a handler is installed — calls the
handler (`handling t`), a step of its own, under the guard `defer Recovery(nil)`; a handler that panics unwinds to that
guard (`unwindingH t`); then `runTask` returns and the worker is at `ready <- true`.  A panic that reaches the top of a
goroutine without being recovered terminates it (`dead`; in Go it terminates the process).  The dispatcher is a separate
thread that never executes a task.  Guards of the worker rules read only the state of that worker thread and the
channels; the fields `q.running` / `q.reporting` are bookkeeping that `Lemmas/TaskQueueW.lean` relates to the threads.

`Variant` describes programs that differ from the code, for contrast theorems: without the recover in `runTask`, with a
dispatcher that runs backlog tasks itself while draining (seeded/ind4-c15-a), with tasks that call `Submit` on their own
queue (`nest t` times; outside the domain of the liveness theorems).  `code` is the program as it is. -/
namespace TQW
open TQ

inductive W where
  | idle
  | running (t k : Nat)   -- executing task t, which still has k Submit calls on its own queue to make (0 in the domain)
  | unwinding (t : Nat)   -- task t panicked; the panic is propagating to the deferred call in `runTask`
  | handling (t : Nat)    -- `recover()` returned the value, the recovery handler is about to be called
  | unwindingH (t : Nat)  -- the handler panicked; propagating to the guard `defer Recovery(nil)`
  | reporting             -- `runTask` has returned; at `ready <- true`
  | dead                  -- the goroutine was terminated by an unrecovered panic
deriving DecidableEq, BEq, Hashable, Repr

structure Variant where
  recovers : Bool := true          -- `runTask` defers `errs.Recovery`, and `Recovery` calls `recover()`
  dispatcherRuns : Bool := false   -- while draining, the dispatcher runs a backlog task itself when `tasks` is full
  nest : Nat → Nat := fun _ => 0   -- number of `Submit` calls task t makes on its own queue before it ends

/-- the program as it is -/
def code : Variant := {}

structure TS where
  q : S := {}
  ws : List W := []
  hcalls : List Nat := []        -- recovery-handler calls, newest first
  dexec : Option Nat := none     -- task being executed by the DISPATCHER thread (never in the code)
deriving DecidableEq, BEq, Hashable, Repr

def init (c : Cfg) : TS := { ws := List.replicate c.workers .idle }

/-- the shared part runs with the abstract handler record switched off: handler calls are steps of their own here -/
def noH (c : Cfg) : Cfg := { c with handler := false }

def isWorker : Label → Bool
  | .take | .finish _ | .report => true
  | _ => false

/-- tasks being executed, by whichever thread -/
def runningOf : List W → List Nat
  | [] => []
  | .running t _ :: r => t :: runningOf r
  | _ :: r => runningOf r
def executing (s : TS) : List Nat := runningOf s.ws ++ s.dexec.toList

inductive TLabel where
  | q (l : Label)            -- a submitter, Shutdown or dispatcher rule of `TQ.next`
  | take (i : Nat) | ret (i : Nat) | panic (i : Nat) | recoverH (i : Nat) | recoverN (i : Nat) | die (i : Nat)
  | handlerRet (i : Nat) | handlerPanic (i : Nat) | guardRecover (i : Nat) | report (i : Nat) | nestedSubmit (i : Nat)
  | dispStart | dispEnd
deriving DecidableEq, BEq, Hashable, Repr

/-- the executable one-step function of the threaded model -/
def tnext (v : Variant) (c : Cfg) (s : TS) : TLabel → Option TS
  | .q l => if isWorker l = true then none else (next (noH c) s.q l).map fun q' => { s with q := q' }
  | .take i =>
    match s.ws[i]?, s.q.tq with
    | some .idle, t :: rest => some { s with q := doTake s.q t rest, ws := s.ws.set i (.running t (v.nest t)) }
    | _, _ => none
  | .ret i =>
    match s.ws[i]? with
    | some (.running t 0) => if t ∈ s.q.pan then none else some { s with q := doFinish false s.q t, ws := s.ws.set i .reporting }
    | _ => none
  | .panic i =>
    match s.ws[i]? with
    | some (.running t 0) => if t ∈ s.q.pan then some { s with q := doFinish false s.q t, ws := s.ws.set i (.unwinding t) } else none
    | _ => none
  | .recoverH i =>
    match s.ws[i]? with
    | some (.unwinding t) => if v.recovers = true ∧ c.handler = true then some { s with ws := s.ws.set i (.handling t) } else none
    | _ => none
  | .recoverN i =>
    match s.ws[i]? with
    | some (.unwinding _) => if v.recovers = true ∧ c.handler = false then some { s with ws := s.ws.set i .reporting } else none
    | _ => none
  | .die i =>
    match s.ws[i]? with
    | some (.unwinding _) => if v.recovers = false then some { s with ws := s.ws.set i .dead } else none
    | _ => none
  | .handlerRet i =>
    match s.ws[i]? with
    | some (.handling t) => some { s with ws := s.ws.set i .reporting, hcalls := t :: s.hcalls }
    | _ => none
  | .handlerPanic i =>
    match s.ws[i]? with
    | some (.handling t) => some { s with ws := s.ws.set i (.unwindingH t), hcalls := t :: s.hcalls }
    | _ => none
  | .guardRecover i =>
    match s.ws[i]? with
    | some (.unwindingH _) => some { s with ws := s.ws.set i .reporting }
    | _ => none
  | .report i =>
    match s.ws[i]? with
    | some .reporting => if s.q.ready < c.workers then some { s with q := doReport s.q, ws := s.ws.set i .idle } else none
    | _ => none
  | .nestedSubmit i =>
    match s.ws[i]? with
    | some (.running t (k + 1)) =>
      if s.q.shut = 0 ∧ s.q.inq.length < c.inCap then some { s with q := doSubmit s.q false, ws := s.ws.set i (.running t k) }
      else none
    | _ => none
  | .dispStart =>
    match s.q.pc with
    | .dr i =>
      match s.q.backlog[i]? with
      | some b =>
        if v.dispatcherRuns = true ∧ s.dexec = none ∧ 1 < c.workers ∧ s.q.tq.length = c.workers then
          some { s with dexec := some b, q := { s.q with started := s.q.started ++ [b] } }
        else none
      | none => none
    | _ => none
  | .dispEnd =>
    match s.dexec, s.q.pc with
    | some b, .dr i =>
      some { s with dexec := none, q := { s.q with finished := b :: s.q.finished, processed := s.q.processed + 1, pc := .dr (i + 1) } }
    | _, _ => none

/-- the labels that could fire: the non-worker labels of `TQ`, and one of each worker label per thread -/
def tcandidates (s : TS) : List TLabel :=
  ((TQ.candidates s.q).filter fun l => !isWorker l).map .q
  ++ (List.range s.ws.length).flatMap (fun i =>
      [.take i, .ret i, .panic i, .recoverH i, .recoverN i, .die i, .handlerRet i, .handlerPanic i, .guardRecover i,
       .report i, .nestedSubmit i])
  ++ [.dispStart, .dispEnd]

def tenabled (v : Variant) (c : Cfg) (s : TS) : List TLabel := (tcandidates s).filter fun l => (tnext v c s l).isSome

/-- the threaded protocol as a relation -/
inductive TStep (v : Variant) (c : Cfg) : TS → TS → Prop
  | other (s : TS) (l : Label) (q' : S) (hl : isWorker l = false) (h : next (noH c) s.q l = some q') :
      TStep v c s { s with q := q' }
  | take (s : TS) (i t : Nat) (rest : List Nat) (hi : s.ws[i]? = some .idle) (hq : s.q.tq = t :: rest) :
      TStep v c s { s with q := doTake s.q t rest, ws := s.ws.set i (.running t (v.nest t)) }
  | ret (s : TS) (i t : Nat) (hi : s.ws[i]? = some (.running t 0)) (hp : t ∉ s.q.pan) :
      TStep v c s { s with q := doFinish false s.q t, ws := s.ws.set i .reporting }
  | panic (s : TS) (i t : Nat) (hi : s.ws[i]? = some (.running t 0)) (hp : t ∈ s.q.pan) :
      TStep v c s { s with q := doFinish false s.q t, ws := s.ws.set i (.unwinding t) }
  | recoverH (s : TS) (i t : Nat) (hi : s.ws[i]? = some (.unwinding t)) (hv : v.recovers = true) (hh : c.handler = true) :
      TStep v c s { s with ws := s.ws.set i (.handling t) }
  | recoverN (s : TS) (i t : Nat) (hi : s.ws[i]? = some (.unwinding t)) (hv : v.recovers = true) (hh : c.handler = false) :
      TStep v c s { s with ws := s.ws.set i .reporting }
  | die (s : TS) (i t : Nat) (hi : s.ws[i]? = some (.unwinding t)) (hv : v.recovers = false) :
      TStep v c s { s with ws := s.ws.set i .dead }
  | handlerRet (s : TS) (i t : Nat) (hi : s.ws[i]? = some (.handling t)) :
      TStep v c s { s with ws := s.ws.set i .reporting, hcalls := t :: s.hcalls }
  | handlerPanic (s : TS) (i t : Nat) (hi : s.ws[i]? = some (.handling t)) :
      TStep v c s { s with ws := s.ws.set i (.unwindingH t), hcalls := t :: s.hcalls }
  | guardRecover (s : TS) (i t : Nat) (hi : s.ws[i]? = some (.unwindingH t)) :
      TStep v c s { s with ws := s.ws.set i .reporting }
  | report (s : TS) (i : Nat) (hi : s.ws[i]? = some .reporting) (hr : s.q.ready < c.workers) :
      TStep v c s { s with q := doReport s.q, ws := s.ws.set i .idle }
  | nestedSubmit (s : TS) (i t k : Nat) (hi : s.ws[i]? = some (.running t (k + 1))) (h1 : s.q.shut = 0)
      (h2 : s.q.inq.length < c.inCap) :
      TStep v c s { s with q := doSubmit s.q false, ws := s.ws.set i (.running t k) }
  | dispStart (s : TS) (i b : Nat) (hp : s.q.pc = .dr i) (hb : s.q.backlog[i]? = some b) (hv : v.dispatcherRuns = true)
      (hd : s.dexec = none) (hw : 1 < c.workers) (hf : s.q.tq.length = c.workers) :
      TStep v c s { s with dexec := some b, q := { s.q with started := s.q.started ++ [b] } }
  | dispEnd (s : TS) (i b : Nat) (hd : s.dexec = some b) (hp : s.q.pc = .dr i) :
      TStep v c s { s with dexec := none,
                           q := { s.q with finished := b :: s.q.finished, processed := s.q.processed + 1, pc := .dr (i + 1) } }

inductive TReachable (v : Variant) (c : Cfg) : TS → Prop
  | init : TReachable v c (init c)
  | step (s s' : TS) : TReachable v c s → TStep v c s s' → TReachable v c s'

def trunLabels (v : Variant) (c : Cfg) : TS → List TLabel → Option TS
  | s, [] => some s
  | s, l :: ls => match tnext v c s l with
    | some s' => trunLabels v c s' ls
    | none => none

end TQW
